/-
  C10 — Election integrity: the published top list equals a full sort of the registered candidates;
  the deputies of a snapshot block are the top candidates and loadable.

  Model: `LemoModel.Ranking` (hand-written from store/{vote,cblock,chain_database,beansdb}.go and
  chain/consensus/dpovp.go, chain/deputynode/term_record.go; tied to the code by `hx c10`, which drives
  a real `store.ChainDatabase` and the model with the same histories — forks, SetStableBlock, re-open —
  and compares `GetCandidatesTop` and the all-candidates index after every op).

  FULL statements of the property (kept visible; the ones marked REFUTED are false for the code as it
  is — the witnesses below are kernel-checked on the faithful model and reproduced on the real code by
  the harness oracle):

    (S) `ranking_is_sort`        for ALL lists: the selection sort = the full sort cut to `max`. PROVED.
    (P) `ranking_perm_invariant` the result does not depend on the order of the input.        PROVED.
    (U) `updateTop_eq_fullSort`  for EVERY history of vote changes / registrations / un-registrations,
          top(B) = (fullSort (registered B)).take max.
          - tie defect (third branch compared vote totals only): REPAIRED in /repo by fix 991f3e9; the
            model's `tieFix = false` is the code before that fix, `updateTop_tie_refuted` is about it;
          - still REFUTED for the current code once a candidate un-registers:
            `rerank_unregistered_refuted`    re-rank-all reads un-registered entries of the index
            `unregister_zero_votes_refuted`  `Ranking` returns early when the block has no VotesLog
          proved for the CURRENT code: `updateTop_eq_fullSort_partial` (one exact guard: the index
          enumerates exactly the registered candidates) and `live_history` (every history in which no
          candidate un-registers); for the fully repaired `updateTopFixed`: every history
          (`updateTopFixed_eq_fullSort`, `updateTopFixed_history`).
    (R) `restart_same_top`       a restarted node publishes the same lists as one that did not restart.
          The empty-index defect is REPAIRED in /repo by fix d292196 (`idxFix = false` is the code
          before it, `restart_diverges` is about it).  Proved for the CURRENT code:
          `restarted_eq_continuous` — if at the restart point the persisted list enumerates the index and
          the re-ranked list equals the published one, EVERY later path of blocks (arbitrary changes)
          gives the same lists on both nodes; `restart_same_as_continuous_noUnreg` discharges the two
          conditions for every history without un-registration.
          Review follow-up: `odd_flag_restart_diverges` — REFUTED for the current code together with
          the current transaction layer: an account whose isCandidate entry is neither "true" nor
          "false" is listed by the running node and dropped at start-up (hence `Consistent.no_other`);
          `crash_restart_diverges` — REFUTED for crash restarts (stable pointer moved, candidate list
          not flushed): the positive restart theorems are about clean restarts.
    (D) `deputies_loadable`      the deputies written at a snapshot block pass `NewTermRecord`.  REFUTED:
          `deputies_loadable_refuted` (votes are read from the snapshot block's own post-state);
          proved instead: `deputies_loadable_partial` (votes from the parent's view).
-/
import LemoProofs.Lemmas.Ranking
namespace LemoProofs.C10
open LemoModel LemoModel.Ranking LemoProofs.Ranking List

/-- the specification: all candidates sorted by (votes desc, address asc), cut to `max` -/
def topOf (max : Nat) (cs : List Cand) : List Cand := (fullSort cs).take max

/-! ## (S), (P): the selection sort -/

/-- `fullSort` really is "the" sort: a permutation of its input, sorted by (votes desc, addr asc);
    any other sorted permutation is equal to it. -/
theorem fullSort_spec (cs : List Cand) :
    fullSort cs ~ cs ∧ (fullSort cs).Pairwise LE ∧
    ∀ l, l ~ cs → l.Pairwise LE → l = fullSort cs :=
  ⟨fullSort_perm cs, fullSort_sorted cs,
   fun _ hp hs => sorted_perm_eq hs (fullSort_sorted cs) (hp.trans (fullSort_perm cs).symm)⟩

/-- (S) for ALL input lists (any length, duplicates allowed), the selection sort of `vote.go` returns
    exactly the first `max` elements of the full sort. (`max = 0` is excluded: `ranking 0 [c] = [c]`.) -/
theorem ranking_is_sort (max : Nat) (hmax : 1 ≤ max) (cs : List Cand) :
    ranking max cs = topOf max cs := by
  unfold topOf
  match cs with
  | [] => simp [ranking, fullSort]
  | [c] =>
    simp only [ranking, fullSort, insertC]
    rw [take_of_length_le (by simpa using hmax)]
  | c :: d :: rest =>
    simp only [ranking]
    rw [selSort_eq, ← fullSort_length (c :: d :: rest), take_min_length]

/-- (P) the result of `ranking` is independent of the order in which a Go map / the trie enumerates
    the candidates. -/
theorem ranking_perm_invariant (max : Nat) {cs cs' : List Cand} (h : cs ~ cs') :
    ranking max cs = ranking max cs' := by
  by_cases hmax : 1 ≤ max
  · rw [ranking_is_sort max hmax, ranking_is_sort max hmax]; unfold topOf; rw [fullSort_congr h]
  · have h0 : max = 0 := by omega
    subst h0
    have hl := h.length_eq
    match cs, cs', h, hl with
    | [], [], _, _ => rfl
    | [c], [d], h, _ =>
      have : c = d := by simpa using h
      subst this; rfl
    | _ :: _ :: _, _ :: _ :: _, _, _ => simp [ranking, selSort]
    | [], _ :: _, _, hl => simp at hl
    | [_], [], _, hl => simp at hl
    | [_], _ :: _ :: _, _, hl => simp at hl
    | _ :: _ :: _, [], _, hl => simp at hl
    | _ :: _ :: _, [_], _, hl => simp at hl

example : ranking 2 [⟨9, 30⟩, ⟨5, 20⟩, ⟨7, 20⟩, ⟨3, 10⟩] = [⟨9, 30⟩, ⟨5, 20⟩] := by decide

/-! ## (D): deputies of a snapshot block -/

/-- (D) REFUTED on the faithful model: the witness is the harness' engine scenario "transfer"
    (top of the parent `[U1 50000, D0 4]`; a transfer inside the snapshot block raises D0 to 100004). -/
theorem deputies_loadable_refuted :
    ∃ (top : List Cand) (post : Nat → Nat),
      top = topOf 20 top ∧
      newTermRecord 6 6 (sealDeputies 2 top post) = .panic "ErrInvalidDeputyVotes" :=
  ⟨[⟨3, 50000⟩, ⟨1, 4⟩], fun a => if a = 1 then 100004 else 50000, by decide, by decide⟩

/-- a second way to fail: every candidate un-registered ⇒ empty list ⇒ `ErrNoDeputyInBlock` -/
theorem deputies_empty_refuted (post : Nat → Nat) :
    newTermRecord 6 6 (sealDeputies 2 [] post) = .panic "ErrNoDeputyInBlock" := by
  simp [newTermRecord, sealDeputies, sealGo]

theorem termCheck_seal (votesAt : Nat → Nat) (cs : List Cand) (i : Nat) (prev : Option Deputy)
    (hsorted : cs.Pairwise (fun a b => a.votes ≥ b.votes))
    (hv : ∀ c ∈ cs, votesAt c.addr = c.votes)
    (hprev : ∀ p, prev = some p → ∀ c ∈ cs, p.votes ≥ c.votes) :
    termCheckGo i prev (sealGo votesAt i cs) = .ok := by
  induction cs generalizing i prev with
  | nil => simp [sealGo, termCheckGo]
  | cons c cs ih =>
    have hc := pairwise_cons.mp hsorted
    have hvc : votesAt c.addr = c.votes := hv c mem_cons_self
    have step : termCheckGo (i + 1) (some ⟨c.addr, votesAt c.addr, i⟩) (sealGo votesAt (i + 1) cs) = .ok := by
      apply ih (i + 1) _ hc.2 (fun x hx => hv x (mem_cons_of_mem _ hx))
      intro p hp x hx
      cases hp
      simpa [hvc] using hc.1 x hx
    simp only [sealGo, termCheckGo]
    cases prev with
    | none => simpa using step
    | some p =>
      have : ¬ votesAt c.addr > p.votes := by
        have := hprev p rfl c mem_cons_self
        omega
      simpa [this] using step

/-- (D) `_partial`: if the votes are taken from the SAME view as the order (the parent's: every entry
    of the parent's top list carries the votes `votesAt` returns), the list is not empty and the height
    is a snapshot height, then `NewTermRecord` accepts the deputies written by `Seal`. -/
theorem deputies_loadable_partial (max dc td h : Nat) (cands : List Cand) (votesAt : Nat → Nat)
    (hdc : 1 ≤ dc) (hmax : 1 ≤ max) (hne : cands ≠ []) (hh : h % td = 0)
    (hv : ∀ c ∈ topOf max cands, votesAt c.addr = c.votes) :
    newTermRecord td h (sealDeputies dc (topOf max cands) votesAt) = .ok := by
  have hsorted : (topOf max cands).Pairwise (fun a b => a.votes ≥ b.votes) :=
    ((fullSort_sorted cands).imp (fun h => LE_votes h)).sublist (take_sublist _ _)
  have hne' : (topOf max cands).take dc ≠ [] := by
    have : 0 < ((topOf max cands).take dc).length := by
      have hl : 0 < cands.length := length_pos_iff.mpr hne
      simp only [topOf, length_take, fullSort_length]; omega
    exact length_pos_iff.mp this
  unfold newTermRecord sealDeputies
  simp only [hh, ne_eq, not_true_eq_false, if_false]
  have hemp : (sealGo votesAt 0 (take dc (topOf max cands))).isEmpty = false := by
    cases hx : take dc (topOf max cands) with
    | nil => exact absurd hx hne'
    | cons a l => simp [sealGo]
  rw [hemp]
  simp only [Bool.false_eq_true, if_false]
  apply termCheck_seal
  · exact hsorted.sublist (take_sublist _ _)
  · intro c hc; exact hv c (mem_of_mem_take hc)
  · intro p hp; cases hp

/-- the hypotheses of `deputies_loadable_partial` are satisfiable (harness scenario "quiet") -/
example : newTermRecord 6 6 (sealDeputies 2 (topOf 20 [⟨1, 4⟩, ⟨3, 50000⟩])
    (fun a => if a = 1 then 4 else 50000)) = .ok := by decide

/-! ## (U): the incremental update -/

/-- how the set of registered candidates evolves in one block, at the level of sets: the vote logs
    `L` overwrite / add entries, the addresses `U` (accounts un-registered in this block) leave. -/
def nextReg (R : List Cand) (U : List Nat) (L : List Cand) : List Cand :=
  filterUnreg (L.foldl putCand R) U

theorem mergeCandidates_eq (max : Nat) (hmax : 1 ≤ max) {T ch : List Cand}
    (hT : T.Pairwise LE) (hlen : T.length ≤ max) :
    mergeCandidates max T ch = topOf max (ch.foldl putCand T) := by
  unfold mergeCandidates
  cases ch with
  | nil => simp [topOf, take_fullSort_of_sorted hT hlen]
  | cons c cs => simp [ranking_is_sort max hmax]

/-- set-level facts shared by all branches -/
theorem merge_facts {R L : List Cand} {U : List Nat} {max : Nat} (hR : AddrNodup R) (hL : AddrNodup L) :
    let T := topOf max R
    let M := (filterUnreg L U).foldl putCand (filterUnreg T U)
    let R' := nextReg R U L
    AddrNodup M ∧ AddrNodup R' ∧ (∀ x ∈ M, x ∈ R') ∧ (∀ x ∈ R', x ∉ M → x ∈ R ∧ x ∉ T) := by
  intro T M R'
  have hTsub : T <+ fullSort R := take_sublist _ _
  have hTnd : AddrNodup T := (hR.perm (fullSort_perm R).symm).sublist hTsub
  have hLU : AddrNodup (filterUnreg L U) := hL.sublist (filterUnreg_sublist _ _)
  have hmemM : ∀ x, x ∈ M ↔ x.addr ∉ U ∧ (x ∈ L ∨ (x ∈ T ∧ ∀ l ∈ L, l.addr ≠ x.addr)) := by
    intro x
    simp only [M, mem_foldl_putCand hLU, mem_filterUnreg]
    constructor
    · rintro (⟨h1, h2⟩ | ⟨⟨h1, h2⟩, h3⟩)
      · exact ⟨h2, Or.inl h1⟩
      · refine ⟨h2, Or.inr ⟨h1, ?_⟩⟩
        intro l hl e
        exact h3 l ⟨hl, e ▸ h2⟩ e
    · rintro ⟨h1, h2 | ⟨h2, h3⟩⟩
      · exact Or.inl ⟨h2, h1⟩
      · exact Or.inr ⟨⟨h2, h1⟩, fun l hl => h3 l hl.1⟩
  have hmemR' : ∀ x, x ∈ R' ↔ x.addr ∉ U ∧ (x ∈ L ∨ (x ∈ R ∧ ∀ l ∈ L, l.addr ≠ x.addr)) := by
    intro x
    simp only [R', nextReg, mem_filterUnreg, mem_foldl_putCand hL]
    exact And.comm
  refine ⟨addrNodup_foldl_putCand _ (hTnd.sublist (filterUnreg_sublist _ _)),
    (addrNodup_foldl_putCand _ hR).sublist (filterUnreg_sublist _ _), ?_, ?_⟩
  · intro x hx
    obtain ⟨h1, h2⟩ := (hmemM x).mp hx
    refine (hmemR' x).mpr ⟨h1, ?_⟩
    rcases h2 with h | ⟨h, h'⟩
    · exact Or.inl h
    · exact Or.inr ⟨mem_fullSort.mp (hTsub.subset h), h'⟩
  · intro x hx hnot
    obtain ⟨h1, h2⟩ := (hmemR' x).mp hx
    rcases h2 with h | ⟨h, h'⟩
    · exact absurd ((hmemM x).mpr ⟨h1, Or.inl h⟩) hnot
    · exact ⟨h, fun hT => hnot ((hmemM x).mpr ⟨h1, Or.inr ⟨hT, h'⟩⟩)⟩

/-- (U) FULL statement for the REPAIRED update: for every set `R` of registered candidates (one entry
    per address) whose published list is right, every list `U` of addresses un-registered in the block
    and every list `L` of vote logs (one per address), if the index restricted to the registered
    accounts enumerates the new set, `updateTopFixed` publishes exactly the full sort of the new set cut
    to `max` — in all four branches. -/
theorem updateTopFixed_eq_fullSort (max : Nat) (hmax : 1 ≤ max)
    (R : List Cand) (hR : AddrNodup R) (U : List Nat) (L : List Cand) (hL : AddrNodup L)
    (index : List Cand) (accts : List Acct)
    (hidx : index.filter (fun c => flagOf accts c.addr == Flag.yes) ~ nextReg R U L) :
    updateTopFixed max (topOf max R) index accts U L = .ok (topOf max (nextReg R U L)) := by
  obtain ⟨hMnd, hR'nd, hsub, hout⟩ := merge_facts (max := max) (U := U) hR hL
  have hTs : (topOf max R).Pairwise LE := (fullSort_sorted R).sublist (take_sublist _ _)
  have hTlen : (topOf max R).length ≤ max := by simp [topOf, length_take]; omega
  have hT0s : (filterUnreg (topOf max R) U).Pairwise LE := hTs.sublist (filterUnreg_sublist _ _)
  have hT0len : (filterUnreg (topOf max R) U).length ≤ max :=
    Nat.le_trans (filterUnreg_sublist _ _).length_le hTlen
  have hall : ranking max (index.filter (fun c => flagOf accts c.addr == Flag.yes)) = topOf max (nextReg R U L) := by
    rw [ranking_perm_invariant max hidx, ranking_is_sort max hmax]
  unfold updateTopFixed
  simp only [mergeCandidates_eq max hmax hT0s hT0len, hall]
  split
  · -- branch 1: the list was not full, so it held every registered candidate
    rename_i hlt
    congr 1
    have hRlen : (fullSort R).length ≤ max := by
      simp only [topOf, length_take] at hlt; omega
    have hTall : topOf max R = fullSort R := take_of_length_le hRlen
    unfold topOf
    rw [fullSort_congr]
    apply (perm_ext_iff_of_nodup hMnd.nodup hR'nd.nodup).mpr
    intro x
    refine ⟨hsub x, fun hx => ?_⟩
    by_cases hxM : x ∈ (filterUnreg L U).foldl putCand (filterUnreg (topOf max R) U)
    · exact hxM
    · have := hout x hx hxM
      exact absurd (hTall ▸ mem_fullSort.mpr this.1) this.2
  · split
    · rfl
    · rename_i hnlt hngt
      split
      · rename_i nm om hnm hom
        split
        · -- branch 3: merge result kept
          rename_i hle
          congr 1
          symm
          have hNlen : (topOf max ((filterUnreg L U).foldl putCand (filterUnreg (topOf max R) U))).length = max := by
            have : (topOf max ((filterUnreg L U).foldl putCand (filterUnreg (topOf max R) U))).length ≤ max := by
              simp [topOf, length_take]; omega
            omega
          apply topk_extend hMnd.nodup hR'nd.nodup hsub hNlen
          intro x hx hxM n hn
          obtain ⟨hxR, hxT⟩ := hout x hx hxM
          have h1 : LE n nm := sorted_le_last ((fullSort_sorted _).sublist (take_sublist _ _)) hnm n hn
          have h2 : LE nm om := (rankLE_iff nm om).mp hle
          have h3 : LE om x := outside_top hxR hxT om (mem_of_getLast? hom)
          exact LE_trans h1 (LE_trans h2 h3)
        · rfl
      · -- `Min()` of an empty list: impossible for max ≥ 1
        rename_i hnone
        exfalso
        have hTne : (topOf max R) ≠ [] := by
          intro h; rw [h] at hnlt; simp at hnlt; omega
        have hNne : topOf max ((filterUnreg L U).foldl putCand (filterUnreg (topOf max R) U)) ≠ [] := by
          intro h; rw [h] at hngt; simp at hngt; exact hTne (by simpa using hngt)
        obtain ⟨a, ha⟩ := Option.isSome_iff_exists.mp (by simpa using hNne : (topOf max ((filterUnreg L U).foldl putCand (filterUnreg (topOf max R) U))).getLast?.isSome)
        obtain ⟨b, hb⟩ := Option.isSome_iff_exists.mp (by simpa using hTne : (topOf max R).getLast?.isSome)
        exact hnone a b ha hb

/-- branch 1 (list not full ⇒ it held every registered candidate ⇒ the merge is the full sort) -/
theorem branch1_correct {max : Nat} {R L : List Cand} {U : List Nat} (hR : AddrNodup R) (hL : AddrNodup L)
    (hlt : (topOf max R).length < max) :
    topOf max ((filterUnreg L U).foldl putCand (filterUnreg (topOf max R) U)) = topOf max (nextReg R U L) := by
  obtain ⟨hMnd, hR'nd, hsub, hout⟩ := merge_facts (max := max) (U := U) hR hL
  have hRlen : (fullSort R).length ≤ max := by
    simp only [topOf, length_take] at hlt; omega
  have hTall : topOf max R = fullSort R := take_of_length_le hRlen
  unfold topOf
  rw [fullSort_congr]
  apply (perm_ext_iff_of_nodup hMnd.nodup hR'nd.nodup).mpr
  intro x
  refine ⟨hsub x, fun hx => ?_⟩
  by_cases hxM : x ∈ (filterUnreg L U).foldl putCand (filterUnreg (topOf max R) U)
  · exact hxM
  · have := hout x hx hxM
    exact absurd (hTall ▸ mem_fullSort.mpr this.1) this.2

/-- branch 3 (list full, merged list as long, new minimum ranked at or before the old minimum in the
    (votes, address) order ⇒ nothing outside the merged set can enter the list) -/
theorem branch3_correct {max : Nat} {R L : List Cand} {U : List Nat} (hR : AddrNodup R) (hL : AddrNodup L)
    (hnlt : ¬ (topOf max R).length < max)
    (hngt : ¬ (topOf max R).length > (topOf max ((filterUnreg L U).foldl putCand (filterUnreg (topOf max R) U))).length)
    {nm om : Cand}
    (hnm : (topOf max ((filterUnreg L U).foldl putCand (filterUnreg (topOf max R) U))).getLast? = some nm)
    (hom : (topOf max R).getLast? = some om) (hle : LE nm om) :
    topOf max ((filterUnreg L U).foldl putCand (filterUnreg (topOf max R) U)) = topOf max (nextReg R U L) := by
  obtain ⟨hMnd, hR'nd, hsub, hout⟩ := merge_facts (max := max) (U := U) hR hL
  symm
  have hNlen : (topOf max ((filterUnreg L U).foldl putCand (filterUnreg (topOf max R) U))).length = max := by
    have : (topOf max ((filterUnreg L U).foldl putCand (filterUnreg (topOf max R) U))).length ≤ max := by
      simp [topOf, length_take]; omega
    omega
  apply topk_extend hMnd.nodup hR'nd.nodup hsub hNlen
  intro x hx hxM n hn
  obtain ⟨hxR, hxT⟩ := hout x hx hxM
  have h1 : LE n nm := sorted_le_last ((fullSort_sorted _).sublist (take_sublist _ _)) hnm n hn
  have h3 : LE om x := outside_top hxR hxT om (mem_of_getLast? hom)
  exact LE_trans h1 (LE_trans hle h3)

/-- `updateTop` with the third-branch test abstracted (definitionally equal to both variants) -/
def updateTopC (cond : Cand → Cand → Bool) (max : Nat) (oldTop index : List Cand) (unregs : List Nat)
    (changed : List Cand) : GoRes (List Cand) :=
  let newTop0 := filterUnreg oldTop unregs
  let changed := filterUnreg changed unregs
  let newTop := mergeCandidates max newTop0 changed
  if oldTop.length < max then .ok newTop
  else if oldTop.length > newTop.length then .ok (ranking max index)
  else
    match newTop.getLast?, oldTop.getLast? with
    | some nm, some om =>
      if cond nm om then .ok newTop
      else .ok (ranking max index)
    | _, _ => .panic

theorem updateTop_eq_C (tieFix : Bool) (max : Nat) (oldTop index : List Cand) (unregs : List Nat)
    (changed : List Cand) :
    updateTop tieFix max oldTop index unregs changed =
      updateTopC (fun nm om => if tieFix then rankLE nm om else decide (nm.votes ≥ om.votes))
        max oldTop index unregs changed := rfl

theorem updateTopC_eq_fullSort (cond : Cand → Cand → Bool) (max : Nat) (hmax : 1 ≤ max)
    (R : List Cand) (hR : AddrNodup R) (U : List Nat) (L : List Cand) (hL : AddrNodup L)
    (index : List Cand) (hidx : index ~ nextReg R U L)
    (hcond : ∀ nm om,
      (mergeCandidates max (filterUnreg (topOf max R) U) (filterUnreg L U)).getLast? = some nm →
      (topOf max R).getLast? = some om → cond nm om = true → LE nm om) :
    updateTopC cond max (topOf max R) index U L = .ok (topOf max (nextReg R U L)) := by
  have hTs : (topOf max R).Pairwise LE := (fullSort_sorted R).sublist (take_sublist _ _)
  have hTlen : (topOf max R).length ≤ max := by simp [topOf, length_take]; omega
  have hT0s : (filterUnreg (topOf max R) U).Pairwise LE := hTs.sublist (filterUnreg_sublist _ _)
  have hT0len : (filterUnreg (topOf max R) U).length ≤ max :=
    Nat.le_trans (filterUnreg_sublist _ _).length_le hTlen
  have hall : ranking max index = topOf max (nextReg R U L) := by
    rw [ranking_perm_invariant max hidx, ranking_is_sort max hmax]
  rw [mergeCandidates_eq max hmax hT0s hT0len] at hcond
  unfold updateTopC
  simp only [mergeCandidates_eq max hmax hT0s hT0len, hall]
  split
  · rename_i hlt
    rw [branch1_correct hR hL hlt]
  · split
    · rfl
    · rename_i hnlt hngt
      split
      · rename_i nm om hnm hom
        split
        · rename_i hc
          rw [branch3_correct hR hL hnlt hngt hnm hom (hcond nm om hnm hom hc)]
        · rfl
      · rename_i hnone
        exfalso
        have hTne : (topOf max R) ≠ [] := by
          intro h; rw [h] at hnlt; simp at hnlt; omega
        have hNne : topOf max ((filterUnreg L U).foldl putCand (filterUnreg (topOf max R) U)) ≠ [] := by
          intro h; rw [h] at hngt; simp at hngt; exact hTne (by simpa using hngt)
        obtain ⟨a, ha⟩ := Option.isSome_iff_exists.mp (by simpa using hNne : (topOf max ((filterUnreg L U).foldl putCand (filterUnreg (topOf max R) U))).getLast?.isSome)
        obtain ⟨b, hb⟩ := Option.isSome_iff_exists.mp (by simpa using hTne : (topOf max R).getLast?.isSome)
        exact hnone a b ha hb

/-- (U) `_partial`, for `updateTop` of the CURRENT code (order-aware third branch, fix 991f3e9).
    Exact guard: `hidx` — the all-candidates index enumerates exactly the registered candidates of the
    new view.  Under it the published list is the full sort of the registered candidates cut to `max`,
    in all four branches, ties included. -/
theorem updateTop_eq_fullSort_partial (max : Nat) (hmax : 1 ≤ max)
    (R : List Cand) (hR : AddrNodup R) (U : List Nat) (L : List Cand) (hL : AddrNodup L)
    (index : List Cand) (hidx : index ~ nextReg R U L) :
    updateTop true max (topOf max R) index U L = .ok (topOf max (nextReg R U L)) := by
  rw [updateTop_eq_C]
  apply updateTopC_eq_fullSort _ max hmax R hR U L hL index hidx
  intro nm om _ _ hc
  exact (rankLE_iff nm om).mp (by simpa using hc)

/-- the same for the code before fix 991f3e9, which needs the additional tie guard -/
theorem updateTop_legacy_partial (max : Nat) (hmax : 1 ≤ max)
    (R : List Cand) (hR : AddrNodup R) (U : List Nat) (L : List Cand) (hL : AddrNodup L)
    (index : List Cand) (hidx : index ~ nextReg R U L)
    (htie : ∀ nm om,
      (mergeCandidates max (filterUnreg (topOf max R) U) (filterUnreg L U)).getLast? = some nm →
      (topOf max R).getLast? = some om → nm.votes = om.votes → nm.addr ≤ om.addr) :
    updateTop false max (topOf max R) index U L = .ok (topOf max (nextReg R U L)) := by
  rw [updateTop_eq_C]
  apply updateTopC_eq_fullSort _ max hmax R hR U L hL index hidx
  intro nm om hnm hom hc
  have hge : nm.votes ≥ om.votes := by simpa using hc
  unfold Ranking.LE
  by_cases he : nm.votes = om.votes
  · exact Or.inr ⟨he, htie nm om hnm hom he⟩
  · left; omega

/-- the guard of `updateTop_eq_fullSort_partial` is satisfiable with a full list and a tie at the
    boundary (max 2; A(9,30) B(5,20) C(7,20); A drops to 20: the case the old code got wrong) -/
example : updateTop true 2 (topOf 2 [⟨9, 30⟩, ⟨5, 20⟩, ⟨7, 20⟩]) [⟨9, 20⟩, ⟨5, 20⟩, ⟨7, 20⟩] [] [⟨9, 20⟩]
    = .ok (topOf 2 (nextReg [⟨9, 30⟩, ⟨5, 20⟩, ⟨7, 20⟩] [] [⟨9, 20⟩])) := by decide

/-! ### (U) refutations on the faithful model -/

/-- run a path of blocks (each a list of changed accounts) from a block;
    `tieFix = true` is the current code -/
def runPath (tieFix : Bool) (max : Nat) : Blk → List (List Change) → GoRes Blk
  | b, [] => .ok b
  | b, chs :: rest =>
    match applyBlock tieFix max 0 b chs [] with
    | .ok b' => runPath tieFix max b' rest
    | .err e => .err e
    | .panic => .panic

/-- the published list of the last block of a path vs. the specification on its own account view -/
def pathOK (tieFix : Bool) (max : Nat) (path : List (List Change)) : Bool :=
  match runPath tieFix max {} path with
  | .ok b => decide (b.top = topOf max (registered b.accts))
  | _ => false

/-- (U) REFUTED for the code BEFORE fix 991f3e9 (`tieFix = false`), tie defect: max 2; A(addr 9, 30
    votes), B(5, 20), C(7, 20) register; then A drops to 20 votes.  The merge gives `[B, A]`, the new
    minimum has the same TOTAL as the old one, the third branch kept it; the full sort is `[B, C]`.
    The current code (`tieFix = true`) publishes `[B, C]` (last conjunct). -/
theorem updateTop_tie_refuted :
    pathOK false 2 [[⟨9, .yes, 30, true⟩, ⟨5, .yes, 20, true⟩, ⟨7, .yes, 20, true⟩], [⟨9, .yes, 20, true⟩]] = false ∧
    (∃ b, runPath false 2 {} [[⟨9, .yes, 30, true⟩, ⟨5, .yes, 20, true⟩, ⟨7, .yes, 20, true⟩], [⟨9, .yes, 20, true⟩]] = .ok b ∧
      b.top = [⟨5, 20⟩, ⟨9, 20⟩] ∧ topOf 2 (registered b.accts) = [⟨5, 20⟩, ⟨7, 20⟩]) ∧
    pathOK true 2 [[⟨9, .yes, 30, true⟩, ⟨5, .yes, 20, true⟩, ⟨7, .yes, 20, true⟩], [⟨9, .yes, 20, true⟩]] = true := by
  refine ⟨by decide, ?_, by decide⟩
  exact ⟨_, rfl, by decide, by decide⟩

/-- (U) REFUTED for the CURRENT code (re-rank-all reads un-registered index entries): max 2; 9(30),
    5(20), 7(10); 9 and 5 un-register (votes 0, logged).  Published `[7:10, 5:0]`; only 7 is registered. -/
theorem rerank_unregistered_refuted :
    pathOK true 2 [[⟨9, .yes, 30, true⟩, ⟨5, .yes, 20, true⟩, ⟨7, .yes, 10, true⟩],
              [⟨9, .no, 0, true⟩, ⟨5, .no, 0, true⟩]] = false ∧
    (∃ b, runPath true 2 {} [[⟨9, .yes, 30, true⟩, ⟨5, .yes, 20, true⟩, ⟨7, .yes, 10, true⟩],
              [⟨9, .no, 0, true⟩, ⟨5, .no, 0, true⟩]] = .ok b ∧
      b.top = [⟨7, 10⟩, ⟨5, 0⟩] ∧ topOf 2 (registered b.accts) = [⟨7, 10⟩]) := by
  refine ⟨by decide, ?_⟩
  exact ⟨_, rfl, by decide, by decide⟩

/-- (U) REFUTED for the CURRENT code (early return): a candidate with 0 votes (e.g. a genesis deputy
    nobody voted for) un-registers: votes 0 → 0 is no VotesLog, `Ranking` returns before looking at the
    un-registrations, the candidate stays published. -/
theorem unregister_zero_votes_refuted :
    pathOK true 2 [[⟨9, .yes, 0, true⟩, ⟨5, .yes, 0, true⟩], [⟨9, .no, 0, false⟩]] = false ∧
    (∃ b, runPath true 2 {} [[⟨9, .yes, 0, true⟩, ⟨5, .yes, 0, true⟩], [⟨9, .no, 0, false⟩]] = .ok b ∧
      b.top = [⟨5, 0⟩, ⟨9, 0⟩] ∧ topOf 2 (registered b.accts) = [⟨5, 0⟩]) := by
  refine ⟨by decide, ?_⟩
  exact ⟨_, rfl, by decide, by decide⟩

/-- the same three paths are right with the repaired functions -/
def runPathFixed (max : Nat) : Blk → List (List Change) → GoRes Blk
  | b, [] => .ok b
  | b, chs :: rest =>
    match applyBlockFixed max 0 b chs [] with
    | .ok b' => runPathFixed max b' rest
    | .err e => .err e
    | .panic => .panic

def pathFixedOK (max : Nat) (path : List (List Change)) : Bool :=
  match runPathFixed max {} path with
  | .ok b => decide (b.top = topOf max (registered b.accts))
  | _ => false

example : pathFixedOK 2 [[⟨9, .yes, 30, true⟩, ⟨5, .yes, 20, true⟩, ⟨7, .yes, 20, true⟩], [⟨9, .yes, 20, true⟩]] = true := by decide
example : pathFixedOK 2 [[⟨9, .yes, 30, true⟩, ⟨5, .yes, 20, true⟩, ⟨7, .yes, 10, true⟩], [⟨9, .no, 0, true⟩, ⟨5, .no, 0, true⟩]] = true := by decide
example : pathFixedOK 2 [[⟨9, .yes, 0, true⟩, ⟨5, .yes, 0, true⟩], [⟨9, .no, 0, false⟩]] = true := by decide

/-! ## (R): restart -/

/-- the list of the stable block itself is right after a restart, provided the persisted candidate
    list restricted to the accounts that are registered in the stored state enumerates them. -/
theorem restart_top_eq_fullSort (max : Nat) (hmax : 1 ≤ max) (persist : List Cand) (accts : List Acct)
    (hp : persist.filter (fun c => flagOf accts c.addr == Flag.yes) ~ registered accts) :
    restartTop max persist accts = topOf max (registered accts) := by
  unfold restartTop
  rw [ranking_perm_invariant max hp, ranking_is_sort max hmax]

/-- (R) REFUTED for the code BEFORE fix d292196 (`idxFix = false`): max 2; 9(30), 5(20), 7(20) made
    stable; restart; then 9 drops to 10.  The restarted node re-ranked "all" candidates from an index
    that held only candidate 9 and published `[9:10]`; a node that did not restart publishes
    `[5:20, 7:20]`.  With the current start-up code (`idxFix = true`) both agree (last conjunct). -/
theorem restart_diverges :
    let chs1 : List Change := [⟨9, .yes, 30, true⟩, ⟨5, .yes, 20, true⟩, ⟨7, .yes, 20, true⟩]
    let chs2 : List Change := [⟨9, .yes, 10, true⟩]
    ∃ b1 live restarted restartedNow,
      applyBlock true 2 0 {} chs1 [] = .ok b1 ∧
      (restartBlk false 2 (commitPersist [] chs1) b1).top = b1.top ∧
      applyBlock true 2 1 b1 chs2 [] = .ok live ∧
      applyBlock true 2 1 (restartBlk false 2 (commitPersist [] chs1) b1) chs2 [] = .ok restarted ∧
      live.top = [⟨5, 20⟩, ⟨7, 20⟩] ∧ restarted.top = [⟨9, 10⟩] ∧
      applyBlock true 2 1 (restartBlk true 2 (commitPersist [] chs1) b1) chs2 [] = .ok restartedNow ∧
      restartedNow.top = live.top := by
  intro chs1 chs2
  exact ⟨_, _, _, _, rfl, by decide, rfl, rfl, by decide, by decide, rfl, by decide⟩

/-! ## (U) for every history: the repaired update, from accounts to the published list -/

/-- what the chain guarantees about the changed accounts of one block (`chs`) relative to the parent's
    account view (candidate_vote_tx.go, tx_processor.go changeCandidateVotes, log_compressor.go):
    one entry per address; a registered account whose votes differ from the parent's view (or that is
    newly registered) carries a VotesLog; only candidate accounts carry VotesLogs; a registered
    account never loses its candidate profile; and `no_other`: the isCandidate entry of a changed
    account with a profile is "true" or "false" — NOT guaranteed by the transaction layer today
    (buildProfile keeps any user-supplied string on first registration): see `odd_flag_restart_diverges`. -/
structure Consistent (accts : List Acct) (chs : List Change) : Prop where
  nodup : (chs.map (·.addr)).Nodup
  yes_unlogged : ∀ c ∈ chs, c.flag = Flag.yes → c.logged = false → (⟨c.addr, c.votes⟩ : Cand) ∈ registered accts
  logged_cand : ∀ c ∈ chs, c.logged = true → c.flag ≠ Flag.none
  none_stays : ∀ c ∈ chs, c.flag = Flag.none → ∀ v, (⟨c.addr, v⟩ : Cand) ∉ registered accts
  no_other : ∀ c ∈ chs, c.flag ≠ Flag.other

/-- the invariant of a block: one account per address, one index entry per address, the index holds
    every registered candidate with the votes of the view, the published list is the specification. -/
structure Inv (max : Nat) (b : Blk) : Prop where
  accts : AcctNodup b.accts
  index : AddrNodup b.index
  covers : ∀ x ∈ registered b.accts, x ∈ b.index
  top : b.top = topOf max (registered b.accts)

theorem ch_eq_of_addr {chs : List Change} (h : (chs.map (·.addr)).Nodup) {x y : Change}
    (hx : x ∈ chs) (hy : y ∈ chs) (ha : x.addr = y.addr) : x = y := by
  induction chs with
  | nil => simp at hx
  | cons z zs ih =>
    have hz := nodup_cons.mp (show Nodup (z.addr :: zs.map (·.addr)) from h)
    rcases mem_cons.mp hx with rfl | hx' <;> rcases mem_cons.mp hy with rfl | hy'
    · rfl
    · exact absurd (mem_map.mpr ⟨y, hy', ha.symm⟩) hz.1
    · exact absurd (mem_map.mpr ⟨x, hx', ha⟩) hz.1
    · exact ih hz.2 hx' hy'

def toAcct (c : Change) : Acct := ⟨c.addr, c.flag, c.votes⟩

/-- the account-level step and the set-level step agree -/
theorem registered_step {accts : List Acct} {chs : List Change} (hA : AcctNodup accts)
    (hC : Consistent accts chs) :
    let A' := chs.foldl (fun l c => putAcct l ⟨c.addr, c.flag, c.votes⟩) accts
    let L := logsOf chs []
    let U := collectUnreg chs
    AcctNodup A' ∧ AddrNodup L ∧ ∀ x, x ∈ registered A' ↔ x ∈ nextReg (registered accts) U L := by
  intro A' L U
  have hA'eq : A' = (chs.map toAcct).foldl putAcct accts := by
    simp only [A', foldl_map, toAcct]
  have hmapnd : AcctNodup (chs.map toAcct) := by
    unfold AcctNodup; rw [map_map]; exact hC.nodup
  have hA' : AcctNodup A' := hA'eq ▸ acctNodup_foldl_putAcct _ hA
  have hLnd : AddrNodup L := by
    unfold AddrNodup
    simp only [L, logsOf, append_nil, map_map]
    exact Nodup.sublist (filter_sublist.map _) hC.nodup
  have memL : ∀ x : Cand, x ∈ L ↔ ∃ c ∈ chs, c.logged = true ∧ c.addr = x.addr ∧ c.votes = x.votes := by
    intro x; cases x
    simp only [L, logsOf, append_nil, mem_map, mem_filter, Cand.mk.injEq]
    constructor
    · rintro ⟨c, ⟨hc, hl⟩, h1, h2⟩; exact ⟨c, hc, hl, h1, h2⟩
    · rintro ⟨c, hc, hl, h1, h2⟩; exact ⟨c, ⟨hc, hl⟩, h1, h2⟩
  have memU : ∀ a : Nat, a ∈ U ↔ ∃ c ∈ chs, c.flag = Flag.no ∧ c.addr = a := by
    intro a
    simp only [U, collectUnreg, mem_map, mem_filter, beq_iff_eq]
    constructor
    · rintro ⟨c, ⟨hc, hf⟩, h1⟩; exact ⟨c, hc, hf, h1⟩
    · rintro ⟨c, hc, hf, h1⟩; exact ⟨c, ⟨hc, hf⟩, h1⟩
  have memA' : ∀ y : Acct, y ∈ A' ↔ (∃ c ∈ chs, y = toAcct c) ∨ (y ∈ accts ∧ ∀ c ∈ chs, c.addr ≠ y.addr) := by
    intro y
    rw [hA'eq, mem_foldl_putAcct hmapnd]
    simp only [mem_map]
    constructor
    · rintro (⟨c, hc, rfl⟩ | ⟨h1, h2⟩)
      · exact Or.inl ⟨c, hc, rfl⟩
      · exact Or.inr ⟨h1, fun c hc => h2 (toAcct c) ⟨c, hc, rfl⟩⟩
    · rintro (⟨c, hc, rfl⟩ | ⟨h1, h2⟩)
      · exact Or.inl ⟨c, hc, rfl⟩
      · refine Or.inr ⟨h1, ?_⟩
        rintro l ⟨c, hc, rfl⟩
        exact h2 c hc
  have hRnd : AddrNodup (registered accts) := addrNodup_registered hA
  refine ⟨hA', hLnd, ?_⟩
  intro x
  have memN : x ∈ nextReg (registered accts) U L ↔
      (x ∈ L ∨ (x ∈ registered accts ∧ ∀ l ∈ L, l.addr ≠ x.addr)) ∧ x.addr ∉ U := by
    simp only [nextReg, mem_filterUnreg, mem_foldl_putCand hLnd]
  rw [memN, mem_registered]
  constructor
  · rintro ⟨y, hy, hf, ha, hv⟩
    rcases (memA' y).mp hy with ⟨c, hc, rfl⟩ | ⟨hyA, hno⟩
    · simp only [toAcct] at hf ha hv
      have hxU : x.addr ∉ U := by
        intro hU
        obtain ⟨c', hc', hf', ha'⟩ := (memU _).mp hU
        have := ch_eq_of_addr hC.nodup hc' hc (ha'.trans ha.symm)
        subst this; rw [hf] at hf'; cases hf'
      refine ⟨?_, hxU⟩
      cases hlog : c.logged with
      | true => exact Or.inl ((memL x).mpr ⟨c, hc, hlog, ha, hv⟩)
      | false =>
        right
        have hx : x = ⟨c.addr, c.votes⟩ := by cases x; simp_all
        refine ⟨hx ▸ hC.yes_unlogged c hc hf hlog, ?_⟩
        intro l hl e
        obtain ⟨c', hc', hl', ha', _⟩ := (memL l).mp hl
        have := ch_eq_of_addr hC.nodup hc' hc (ha'.trans (e.trans ha.symm))
        subst this; rw [hlog] at hl'; cases hl'
    · have hnoc : ∀ c ∈ chs, c.addr ≠ x.addr := fun c hc => ha ▸ hno c hc
      refine ⟨Or.inr ⟨mem_registered.mpr ⟨y, hyA, hf, ha, hv⟩, ?_⟩, ?_⟩
      · intro l hl e
        obtain ⟨c, hc, _, ha', _⟩ := (memL l).mp hl
        exact hnoc c hc (ha'.trans e)
      · intro hU
        obtain ⟨c, hc, _, ha'⟩ := (memU _).mp hU
        exact hnoc c hc ha'
  · rintro ⟨h, hxU⟩
    rcases h with hxL | ⟨hxR, hnol⟩
    · obtain ⟨c, hc, hlog, ha, hv⟩ := (memL x).mp hxL
      have hf : c.flag = Flag.yes := by
        cases hfl : c.flag with
        | none => exact absurd hfl (hC.logged_cand c hc hlog)
        | yes => rfl
        | no => exact absurd ((memU _).mpr ⟨c, hc, hfl, ha⟩) hxU
        | other => exact absurd hfl (hC.no_other c hc)
      exact ⟨toAcct c, (memA' _).mpr (Or.inl ⟨c, hc, rfl⟩), hf, ha, hv⟩
    · obtain ⟨y, hyA, hf, ha, hv⟩ := mem_registered.mp hxR
      by_cases hex : ∃ c ∈ chs, c.addr = x.addr
      · obtain ⟨c, hc, hca⟩ := hex
        cases hfl : c.flag with
        | none =>
          have hx : x = ⟨c.addr, x.votes⟩ := by cases x; simp_all
          exact absurd (hx ▸ hxR) (hC.none_stays c hc hfl x.votes)
        | no => exact absurd ((memU _).mpr ⟨c, hc, hfl, hca⟩) hxU
        | other => exact absurd hfl (hC.no_other c hc)
        | yes =>
          cases hlog : c.logged with
          | true =>
            exact absurd hca (hnol ⟨c.addr, c.votes⟩ ((memL _).mpr ⟨c, hc, hlog, rfl, rfl⟩))
          | false =>
            have hin := hC.yes_unlogged c hc hfl hlog
            have := hRnd.eq_of_addr hin hxR hca
            exact ⟨toAcct c, (memA' _).mpr (Or.inl ⟨c, hc, rfl⟩), hfl, hca, by rw [← this]; rfl⟩
      · have hnoc : ∀ c ∈ chs, c.addr ≠ y.addr := fun c hc e => hex ⟨c, hc, e.trans ha⟩
        exact ⟨y, (memA' _).mpr (Or.inr ⟨hyA, hnoc⟩), hf, ha, hv⟩

/-- the account view after the changed accounts of a block have been put -/
def acctsAfter (accts : List Acct) (chs : List Change) : List Acct :=
  chs.foldl (fun l c => putAcct l ⟨c.addr, c.flag, c.votes⟩) accts

/-- (U) one block: the repaired `Ranking` preserves the invariant for EVERY consistent block. -/
theorem applyBlockFixed_inv (max : Nat) (hmax : 1 ≤ max) (pid : Nat) (p : Blk) (chs : List Change)
    (hI : Inv max p) (hC : Consistent p.accts chs) :
    ∃ b, applyBlockFixed max pid p chs [] = .ok b ∧ Inv max b ∧ b.accts = acctsAfter p.accts chs := by
  unfold acctsAfter
  obtain ⟨hA', hLnd, hreg⟩ := registered_step hI.accts hC
  have hRnd := addrNodup_registered hI.accts
  have hR'nd : AddrNodup (registered (chs.foldl (fun l c => putAcct l ⟨c.addr, c.flag, c.votes⟩) p.accts)) :=
    addrNodup_registered hA'
  have hNnd : AddrNodup (nextReg (registered p.accts) (collectUnreg chs) (logsOf chs [])) :=
    (merge_facts (max := max) (U := collectUnreg chs) hRnd hLnd).2.1
  have hperm : registered (chs.foldl (fun l c => putAcct l ⟨c.addr, c.flag, c.votes⟩) p.accts) ~
      nextReg (registered p.accts) (collectUnreg chs) (logsOf chs []) :=
    (perm_ext_iff_of_nodup hR'nd.nodup hNnd.nodup).mpr hreg
  have hdye : dye p.index (logsOf chs []) = (logsOf chs []).foldl putCand p.index := dye_eq_foldl hLnd _
  have hidxnd : AddrNodup (dye p.index (logsOf chs [])) := hdye ▸ addrNodup_foldl_putCand _ hI.index
  -- the new index holds every registered candidate of the new view
  have hcov : ∀ x ∈ registered (chs.foldl (fun l c => putAcct l ⟨c.addr, c.flag, c.votes⟩) p.accts),
      x ∈ dye p.index (logsOf chs []) := by
    intro x hx
    have := (hreg x).mp hx
    simp only [nextReg, mem_filterUnreg, mem_foldl_putCand hLnd] at this
    rw [hdye, mem_foldl_putCand hLnd]
    rcases this.1 with h | ⟨h1, h2⟩
    · exact Or.inl h
    · exact Or.inr ⟨hI.covers x h1, h2⟩
  have hidx : (dye p.index (logsOf chs [])).filter
      (fun c => flagOf (chs.foldl (fun l c => putAcct l ⟨c.addr, c.flag, c.votes⟩) p.accts) c.addr == Flag.yes) ~
      nextReg (registered p.accts) (collectUnreg chs) (logsOf chs []) := by
    refine Perm.trans ?_ hperm
    apply (perm_ext_iff_of_nodup (hidxnd.nodup.filter _) hR'nd.nodup).mpr
    intro x
    simp only [mem_filter, beq_iff_eq]
    constructor
    · rintro ⟨hxi, hfl⟩
      obtain ⟨y, hy, hya, hyf⟩ := (flagOf_eq_yes_iff hA' x.addr).mp hfl
      have hx' : (⟨x.addr, y.votes⟩ : Cand) ∈ registered (chs.foldl (fun l c => putAcct l ⟨c.addr, c.flag, c.votes⟩) p.accts) :=
        mem_registered.mpr ⟨y, hy, hyf, hya, rfl⟩
      have := hidxnd.eq_of_addr (hcov _ hx') hxi rfl
      exact this ▸ hx'
    · intro hx
      refine ⟨hcov x hx, ?_⟩
      obtain ⟨y, hy, hyf, hya, _⟩ := mem_registered.mp hx
      exact (flagOf_eq_yes_iff hA' x.addr).mpr ⟨y, hy, hya, hyf⟩
  have hup := updateTopFixed_eq_fullSort max hmax (registered p.accts) hRnd (collectUnreg chs)
    (logsOf chs []) hLnd (dye p.index (logsOf chs []))
    (chs.foldl (fun l c => putAcct l ⟨c.addr, c.flag, c.votes⟩) p.accts) hidx
  refine ⟨{ parent := pid, top := topOf max (nextReg (registered p.accts) (collectUnreg chs) (logsOf chs [])),
             index := dye p.index (logsOf chs []),
             accts := chs.foldl (fun l c => putAcct l ⟨c.addr, c.flag, c.votes⟩) p.accts, changes := chs }, ?_, ?_, rfl⟩
  · unfold applyBlockFixed
    simp only [hI.top, hup]
  · exact ⟨hA', hidxnd, hcov, by simp only [topOf]; rw [fullSort_congr hperm]⟩

/-- every block of the path is consistent with the account view it is built on -/
def ConsistentPath : List Acct → List (List Change) → Prop
  | _, [] => True
  | a, chs :: rest => Consistent a chs ∧ ConsistentPath (acctsAfter a chs) rest

theorem inv_genesis (max : Nat) : Inv max {} :=
  ⟨by simp [AcctNodup], by simp [AddrNodup], by simp [registered], by simp [topOf, registered, fullSort]⟩

/-- (U) FULL statement, for the repaired functions: on EVERY path of consistent blocks starting from a
    block that satisfies the invariant (e.g. the empty genesis), no step fails and the published list
    of the last block is the full sort of the candidates registered in its own view, cut to `max`.
    Forks need no extra argument: a block is a function of its parent and its own changes only. -/
theorem updateTopFixed_history (max : Nat) (hmax : 1 ≤ max) (path : List (List Change)) (b : Blk)
    (hI : Inv max b) (hP : ConsistentPath b.accts path) :
    ∃ e, runPathFixed max b path = .ok e ∧ Inv max e ∧ e.top = topOf max (registered e.accts) := by
  induction path generalizing b with
  | nil => exact ⟨b, rfl, hI, hI.top⟩
  | cons chs rest ih =>
    obtain ⟨hC, hrest⟩ := hP
    obtain ⟨b', hb', hI', hacc⟩ := applyBlockFixed_inv max hmax 0 b chs hI hC
    obtain ⟨e, he, hIe, htop⟩ := ih b' hI' (hacc ▸ hrest)
    exact ⟨e, by simp only [runPathFixed, hb', he], hIe, htop⟩

/-- non-vacuity: the tie path is consistent, and the theorem applies to it -/
example : ConsistentPath [] [[⟨9, .yes, 30, true⟩, ⟨5, .yes, 20, true⟩, ⟨7, .yes, 20, true⟩], [⟨9, .yes, 20, true⟩]] := by
  refine ⟨⟨by decide, ?_, ?_, ?_, ?_⟩, ⟨by decide, ?_, ?_, ?_, ?_⟩, trivial⟩ <;> simp [acctsAfter, registered, putAcct]

/-- an index (or persisted list) that holds every registered candidate of a view, restricted to the
    accounts registered in that view, enumerates exactly the registered candidates -/
theorem filter_registered_perm {accts : List Acct} {idx : List Cand} (hA : AcctNodup accts)
    (hI : AddrNodup idx) (hcov : ∀ x ∈ registered accts, x ∈ idx) :
    idx.filter (fun c => flagOf accts c.addr == Flag.yes) ~ registered accts := by
  apply (perm_ext_iff_of_nodup (hI.nodup.filter _) (addrNodup_registered hA).nodup).mpr
  intro x
  simp only [mem_filter, beq_iff_eq]
  constructor
  · rintro ⟨hxi, hfl⟩
    obtain ⟨y, hy, hya, hyf⟩ := (flagOf_eq_yes_iff hA x.addr).mp hfl
    have hx' : (⟨x.addr, y.votes⟩ : Cand) ∈ registered accts := mem_registered.mpr ⟨y, hy, hyf, hya, rfl⟩
    have := hI.eq_of_addr (hcov _ hx') hxi rfl
    exact this ▸ hx'
  · intro hx
    refine ⟨hcov x hx, ?_⟩
    obtain ⟨y, hy, hyf, hya, _⟩ := mem_registered.mp hx
    exact (flagOf_eq_yes_iff hA x.addr).mpr ⟨y, hy, hya, hyf⟩

/-- (R) `restart_same_top`: if the persisted candidate list has one entry per address and holds every
    registered candidate of the stable view with its votes (what `blockCommit` maintains), then
    * the list published for the stable block after a restart is the specification — hence equal to
      the list a node that did not restart holds, whenever that one is right (this part holds for the
      start-up code AS IT IS: `restartBlk` and `restartBlkFixed` publish the same `restartTop`);
    * with the index rebuilt from the persisted list (`restartBlkFixed`) the full invariant is
      re-established, so by `updateTopFixed_history` every later block is right as well. -/
theorem restart_same_top (max : Nat) (hmax : 1 ≤ max) (persist : List Cand) (stable : Blk)
    (hA : AcctNodup stable.accts) (hP : AddrNodup persist)
    (hcov : ∀ x ∈ registered stable.accts, x ∈ persist) :
    (∀ idxFix, (restartBlk idxFix max persist stable).top = topOf max (registered stable.accts)) ∧
    Inv max (restartBlkFixed max persist stable) := by
  have h := restart_top_eq_fullSort max hmax persist stable.accts (filter_registered_perm hA hP hcov)
  exact ⟨fun _ => h, ⟨hA, hP, hcov, h⟩⟩

/-! ## (R) for the current code: restarted = continuous -/

/-- two blocks the store cannot tell apart: same published list, same account view, the same index up
    to the order of enumeration -/
structure BlkEquiv (a b : Blk) : Prop where
  top : a.top = b.top
  index : a.index ~ b.index
  accts : a.accts = b.accts

theorem putCand_perm {l l' : List Cand} (h : l ~ l') (c : Cand) : putCand l c ~ putCand l' c :=
  (h.filter _).cons c

theorem dyeGo_perm {idx idx' : List Cand} (h : idx ~ idx') (seen : List Nat) (logs : List Cand) :
    dyeGo idx seen logs ~ dyeGo idx' seen logs := by
  induction logs generalizing idx idx' seen with
  | nil => simpa [dyeGo]
  | cons l ls ih =>
    simp only [dyeGo]
    split
    · exact ih h seen
    · exact ih (putCand_perm h l) _

theorem updateTop_index_perm (tieFix : Bool) (max : Nat) (T : List Cand) {idx idx' : List Cand}
    (h : idx ~ idx') (U : List Nat) (L : List Cand) :
    updateTop tieFix max T idx U L = updateTop tieFix max T idx' U L := by
  unfold updateTop
  rw [ranking_perm_invariant max h]

/-- one block keeps two indistinguishable parents indistinguishable — for ARBITRARY changes and logs -/
theorem applyBlock_equiv (tieFix : Bool) (max pid pid' : Nat) {a b : Blk} (h : BlkEquiv a b)
    (chs : List Change) (extra : List Cand) :
    (∀ a', applyBlock tieFix max pid a chs extra = .ok a' →
      ∃ b', applyBlock tieFix max pid' b chs extra = .ok b' ∧ BlkEquiv a' b') ∧
    (applyBlock tieFix max pid a chs extra = .panic → applyBlock tieFix max pid' b chs extra = .panic) := by
  unfold applyBlock
  simp only [← h.top, ← h.accts]
  by_cases hl : (logsOf chs extra).isEmpty = true
  · simp only [hl, if_true]
    refine ⟨?_, fun hp => by cases hp⟩
    intro a' ha
    cases ha
    exact ⟨_, rfl, ⟨rfl, h.index, rfl⟩⟩
  · simp only [hl, Bool.false_eq_true, if_false]
    have hd : dye a.index (logsOf chs extra) ~ dye b.index (logsOf chs extra) := dyeGo_perm h.index [] _
    rw [← updateTop_index_perm tieFix max a.top hd]
    cases hu : updateTop tieFix max a.top (dye a.index (logsOf chs extra)) (collectUnreg chs) (logsOf chs extra) with
    | ok t =>
      refine ⟨?_, fun hp => by cases hp⟩
      intro a' ha
      cases ha
      exact ⟨_, rfl, ⟨rfl, hd, rfl⟩⟩
    | err e => exact ⟨fun a' ha => (by simp at ha), fun hp => (by simp at hp)⟩
    | panic => exact ⟨fun a' ha => (by simp at ha), fun _ => rfl⟩

theorem runPath_equiv (tieFix : Bool) (max : Nat) (path : List (List Change)) {a b : Blk}
    (h : BlkEquiv a b) :
    ∀ e, runPath tieFix max a path = .ok e → ∃ e', runPath tieFix max b path = .ok e' ∧ BlkEquiv e e' := by
  induction path generalizing a b with
  | nil => intro e he; cases he; exact ⟨b, rfl, h⟩
  | cons chs rest ih =>
    intro e he
    simp only [runPath] at he ⊢
    cases ha : applyBlock tieFix max 0 a chs [] with
    | ok a' =>
      obtain ⟨b', hb', heq⟩ := (applyBlock_equiv tieFix max 0 0 h chs []).1 a' ha
      rw [ha] at he
      rw [hb']
      exact ih heq e he
    | err x => rw [ha] at he; cases he
    | panic => rw [ha] at he; cases he

/-- (R) FULL statement for the CURRENT start-up code (`restartBlk true`, fix d292196), exact guards:
    if at the restart point the persisted candidate list enumerates the stable block's index
    (`hidx`) and the re-ranked list equals the list the running node holds (`htop`), then for EVERY
    later path of blocks — arbitrary changes, un-registrations included — the restarted node and the
    node that did not restart publish the same lists (and stay indistinguishable). -/
theorem restarted_eq_continuous (tieFix : Bool) (max : Nat) (persist : List Cand) (b : Blk)
    (hidx : persist ~ b.index) (htop : restartTop max persist b.accts = b.top)
    (path : List (List Change)) :
    ∀ e, runPath tieFix max b path = .ok e →
      ∃ e', runPath tieFix max (restartBlk true max persist b) path = .ok e' ∧ e'.top = e.top := by
  intro e he
  have h0 : BlkEquiv b (restartBlk true max persist b) := ⟨htop.symm, hidx.symm, rfl⟩
  obtain ⟨e', he', heq⟩ := runPath_equiv tieFix max path h0 e he
  exact ⟨e', he', heq.top.symm⟩

/-! ## (U) for the current code: every history in which no candidate un-registers -/

/-- no account of the block has isCandidate="false" -/
def NoUnreg (chs : List Change) : Prop := ∀ c ∈ chs, c.flag ≠ Flag.no

/-- invariant of the current code while nobody has un-registered: the index holds EXACTLY the
    registered candidates -/
structure InvLive (max : Nat) (b : Blk) : Prop where
  accts : AcctNodup b.accts
  index : AddrNodup b.index
  exact : ∀ x, x ∈ b.index ↔ x ∈ registered b.accts
  top : b.top = topOf max (registered b.accts)

/-- the persisted candidate list enumerates the registered candidates of the view -/
structure PersistOK (persist : List Cand) (accts : List Acct) : Prop where
  nodup : AddrNodup persist
  exact : ∀ x, x ∈ persist ↔ x ∈ registered accts

theorem collectUnreg_nil {chs : List Change} (h : NoUnreg chs) : collectUnreg chs = [] := by
  unfold collectUnreg
  rw [map_eq_nil_iff, filter_eq_nil_iff]
  intro c hc
  simpa using h c hc

theorem filterUnreg_nil (l : List Cand) : filterUnreg l [] = l := by simp [filterUnreg]

/-- one block of the CURRENT code (`applyBlock true`, early return included) -/
theorem applyBlock_inv_noUnreg (max : Nat) (hmax : 1 ≤ max) (pid : Nat) (p : Blk) (chs : List Change)
    (hI : InvLive max p) (hC : Consistent p.accts chs) (hN : NoUnreg chs) :
    ∃ b, applyBlock true max pid p chs [] = .ok b ∧ InvLive max b ∧ b.accts = acctsAfter p.accts chs := by
  obtain ⟨hA', hLnd, hreg⟩ := registered_step hI.accts hC
  have hRnd := addrNodup_registered hI.accts
  have hR'nd := addrNodup_registered hA'
  rw [collectUnreg_nil hN] at hreg
  unfold acctsAfter
  by_cases hl : (logsOf chs []).isEmpty = true
  · -- no VotesLog: early return; the registered set did not change
    have hL : logsOf chs [] = [] := by simpa using hl
    have hsame : ∀ x, x ∈ registered (chs.foldl (fun l c => putAcct l ⟨c.addr, c.flag, c.votes⟩) p.accts) ↔
        x ∈ registered p.accts := by
      intro x
      rw [hreg x, hL]
      simp [nextReg, filterUnreg_nil]
    refine ⟨{ parent := pid, top := p.top, index := p.index,
              accts := chs.foldl (fun l c => putAcct l ⟨c.addr, c.flag, c.votes⟩) p.accts, changes := chs }, ?_, ?_, rfl⟩
    · unfold applyBlock; simp only [hl, if_true]
    · refine ⟨hA', hI.index, fun x => (hI.exact x).trans (hsame x).symm, ?_⟩
      show p.top = _
      rw [hI.top]
      unfold topOf
      rw [fullSort_congr ((perm_ext_iff_of_nodup hRnd.nodup hR'nd.nodup).mpr (fun x => (hsame x).symm))]
  · have hdye : dye p.index (logsOf chs []) = (logsOf chs []).foldl putCand p.index := dye_eq_foldl hLnd _
    have hidxnd : AddrNodup (dye p.index (logsOf chs [])) := hdye ▸ addrNodup_foldl_putCand _ hI.index
    have hNnd : AddrNodup (nextReg (registered p.accts) [] (logsOf chs [])) :=
      (merge_facts (max := max) (U := []) hRnd hLnd).2.1
    have hmem : ∀ x, x ∈ dye p.index (logsOf chs []) ↔ x ∈ nextReg (registered p.accts) [] (logsOf chs []) := by
      intro x
      rw [hdye]
      simp only [nextReg, filterUnreg_nil, mem_foldl_putCand hLnd, hI.exact x]
    have hidx : dye p.index (logsOf chs []) ~ nextReg (registered p.accts) [] (logsOf chs []) :=
      (perm_ext_iff_of_nodup hidxnd.nodup hNnd.nodup).mpr hmem
    have hperm : registered (chs.foldl (fun l c => putAcct l ⟨c.addr, c.flag, c.votes⟩) p.accts) ~
        nextReg (registered p.accts) [] (logsOf chs []) :=
      (perm_ext_iff_of_nodup hR'nd.nodup hNnd.nodup).mpr hreg
    have hup := updateTop_eq_fullSort_partial max hmax (registered p.accts) hRnd [] (logsOf chs []) hLnd
      (dye p.index (logsOf chs [])) hidx
    refine ⟨{ parent := pid, top := topOf max (nextReg (registered p.accts) [] (logsOf chs [])),
              index := dye p.index (logsOf chs []),
              accts := chs.foldl (fun l c => putAcct l ⟨c.addr, c.flag, c.votes⟩) p.accts, changes := chs }, ?_, ?_, rfl⟩
    · unfold applyBlock
      simp only [hl, Bool.false_eq_true, if_false, collectUnreg_nil hN, hI.top, hup]
    · exact ⟨hA', hidxnd, fun x => (hmem x).trans (hreg x).symm, by simp only [topOf]; rw [fullSort_congr hperm]⟩

/-- `blockCommit` keeps the persisted list equal to the registered set while nobody un-registers -/
theorem commitPersist_ok {persist : List Cand} {accts : List Acct} {chs : List Change}
    (hA : AcctNodup accts) (hP : PersistOK persist accts) (hC : Consistent accts chs) (hN : NoUnreg chs) :
    PersistOK (commitPersist persist chs) (acctsAfter accts chs) := by
  obtain ⟨_, hLnd, hreg⟩ := registered_step hA hC
  rw [collectUnreg_nil hN] at hreg
  have hRnd := addrNodup_registered hA
  let Y : List Cand := (chs.filter (fun c => c.flag != Flag.none)).map (fun c => ⟨c.addr, c.votes⟩)
  have hYeq : commitPersist persist chs = Y.foldl putCand persist := by
    simp only [commitPersist, Y, foldl_map]
  have hYnd : AddrNodup Y := by
    unfold AddrNodup
    simp only [Y, map_map]
    exact Nodup.sublist (filter_sublist.map _) hC.nodup
  have memY : ∀ x : Cand, x ∈ Y ↔ ∃ c ∈ chs, c.flag = Flag.yes ∧ c.addr = x.addr ∧ c.votes = x.votes := by
    intro x; cases x
    simp only [Y, mem_map, mem_filter, bne_iff_ne, ne_eq, Cand.mk.injEq]
    constructor
    · rintro ⟨c, ⟨hc, hf⟩, h1, h2⟩
      refine ⟨c, hc, ?_, h1, h2⟩
      cases hfl : c.flag with
      | none => exact absurd hfl hf
      | yes => rfl
      | no => exact absurd hfl (hN c hc)
      | other => exact absurd hfl (hC.no_other c hc)
    · rintro ⟨c, hc, hf, h1, h2⟩
      exact ⟨c, ⟨hc, by rw [hf]; decide⟩, h1, h2⟩
  have memL : ∀ x : Cand, x ∈ logsOf chs [] ↔ ∃ c ∈ chs, c.logged = true ∧ c.addr = x.addr ∧ c.votes = x.votes := by
    intro x; cases x
    simp only [logsOf, append_nil, mem_map, mem_filter, Cand.mk.injEq]
    constructor
    · rintro ⟨c, ⟨hc, hl⟩, h1, h2⟩; exact ⟨c, hc, hl, h1, h2⟩
    · rintro ⟨c, hc, hl, h1, h2⟩; exact ⟨c, ⟨hc, hl⟩, h1, h2⟩
  have flagYes : ∀ c ∈ chs, c.logged = true → c.flag = Flag.yes := by
    intro c hc hl
    cases hfl : c.flag with
    | none => exact absurd hfl (hC.logged_cand c hc hl)
    | yes => rfl
    | no => exact absurd hfl (hN c hc)
    | other => exact absurd hfl (hC.no_other c hc)
  refine ⟨hYeq ▸ addrNodup_foldl_putCand _ hP.nodup, ?_⟩
  intro x
  unfold acctsAfter
  rw [hreg x, hYeq, mem_foldl_putCand hYnd]
  simp only [nextReg, filterUnreg_nil, mem_foldl_putCand hLnd, hP.exact x]
  constructor
  · rintro (hxY | ⟨hxR, hnoY⟩)
    · obtain ⟨c, hc, hf, ha, hv⟩ := (memY x).mp hxY
      cases hlog : c.logged with
      | true => exact Or.inl ((memL x).mpr ⟨c, hc, hlog, ha, hv⟩)
      | false =>
        right
        have hx : x = ⟨c.addr, c.votes⟩ := by cases x; simp_all
        refine ⟨hx ▸ hC.yes_unlogged c hc hf hlog, ?_⟩
        intro l hl e
        obtain ⟨c', hc', hl', ha', _⟩ := (memL l).mp hl
        have := ch_eq_of_addr hC.nodup hc' hc (ha'.trans (e.trans ha.symm))
        subst this; rw [hlog] at hl'; cases hl'
    · refine Or.inr ⟨hxR, ?_⟩
      intro l hl e
      obtain ⟨c, hc, hlg, ha, hv⟩ := (memL l).mp hl
      exact hnoY ⟨c.addr, c.votes⟩ ((memY _).mpr ⟨c, hc, flagYes c hc hlg, rfl, rfl⟩) (ha.trans e)
  · rintro (hxL | ⟨hxR, hnoL⟩)
    · obtain ⟨c, hc, hlg, ha, hv⟩ := (memL x).mp hxL
      exact Or.inl ((memY x).mpr ⟨c, hc, flagYes c hc hlg, ha, hv⟩)
    · by_cases hex : ∃ y ∈ Y, y.addr = x.addr
      · obtain ⟨y, hy, hya⟩ := hex
        obtain ⟨c, hc, hf, ha, hv⟩ := (memY y).mp hy
        cases hlog : c.logged with
        | true =>
          exact absurd (ha.trans hya) (hnoL ⟨c.addr, c.votes⟩ ((memL _).mpr ⟨c, hc, hlog, rfl, rfl⟩))
        | false =>
          have hin := hC.yes_unlogged c hc hf hlog
          have hxe := hRnd.eq_of_addr hin hxR (ha.trans hya)
          exact Or.inl (hxe ▸ (memY _).mpr ⟨c, hc, hf, rfl, rfl⟩)
      · exact Or.inr ⟨hxR, fun y hy e => hex ⟨y, hy, e⟩⟩

/-- (U) FULL statement for the CURRENT code, exact guard "no candidate un-registers": on EVERY path of
    consistent blocks without un-registration, starting from a block that satisfies the invariant (e.g.
    the empty genesis), no step fails, the published list of the last block is the full sort of the
    candidates registered in its own view cut to `max`, and — every block being committed — the
    persisted candidate list enumerates the registered candidates. -/
theorem live_history (max : Nat) (hmax : 1 ≤ max) (path : List (List Change)) (b : Blk)
    (persist : List Cand) (hI : InvLive max b) (hPs : PersistOK persist b.accts)
    (hP : ConsistentPath b.accts path) (hN : ∀ chs ∈ path, NoUnreg chs) :
    ∃ e, runPath true max b path = .ok e ∧ InvLive max e ∧ e.top = topOf max (registered e.accts) ∧
      PersistOK (path.foldl commitPersist persist) e.accts := by
  induction path generalizing b persist with
  | nil => exact ⟨b, rfl, hI, hI.top, hPs⟩
  | cons chs rest ih =>
    obtain ⟨hC, hrest⟩ := hP
    have hNc : NoUnreg chs := hN chs mem_cons_self
    obtain ⟨b', hb', hI', hacc⟩ := applyBlock_inv_noUnreg max hmax 0 b chs hI hC hNc
    have hPs' : PersistOK (commitPersist persist chs) b'.accts :=
      hacc ▸ commitPersist_ok hI.accts hPs hC hNc
    obtain ⟨e, he, hIe, htop, hpe⟩ := ih b' (commitPersist persist chs) hI' hPs' (hacc ▸ hrest)
      (fun c hc => hN c (mem_cons_of_mem _ hc))
    exact ⟨e, by simp only [runPath, hb', he], hIe, htop, by simpa [foldl_cons] using hpe⟩

theorem invLive_genesis (max : Nat) : InvLive max {} :=
  ⟨by simp [AcctNodup], by simp [AddrNodup], by simp [registered], by simp [topOf, registered, fullSort]⟩

/-- (R) for every history without un-registration: restart after ANY such committed history, then
    continue with ANY blocks whatsoever — the restarted node publishes what the running node does. -/
theorem restart_same_as_continuous_noUnreg (max : Nat) (hmax : 1 ≤ max)
    (history : List (List Change)) (hP : ConsistentPath [] history) (hN : ∀ chs ∈ history, NoUnreg chs) :
    ∃ s, runPath true max {} history = .ok s ∧
      ∀ (later : List (List Change)) (e : Blk), runPath true max s later = .ok e →
        ∃ e', runPath true max (restartBlk true max (history.foldl commitPersist []) s) later = .ok e' ∧
          e'.top = e.top := by
  obtain ⟨s, hs, hIs, _, hps⟩ := live_history max hmax history {} [] (invLive_genesis max)
    ⟨by simp [AddrNodup], by simp [registered]⟩ hP hN
  refine ⟨s, hs, ?_⟩
  have hidx : history.foldl commitPersist [] ~ s.index :=
    (perm_ext_iff_of_nodup hps.nodup.nodup hIs.index.nodup).mpr
      (fun x => (hps.exact x).trans (hIs.exact x).symm)
  have htop : restartTop max (history.foldl commitPersist []) s.accts = s.top := by
    rw [hIs.top]
    apply restart_top_eq_fullSort max hmax
    apply filter_registered_perm hIs.accts hps.nodup
    intro x hx; exact (hps.exact x).mpr hx
  exact restarted_eq_continuous true max _ s hidx htop

/-! ## review follow-up: states outside `Consistent`, and crash restarts -/

/-- (R) REFUTED for the CURRENT code when the transaction layer lets an isCandidate string other than
    "true"/"false" through (buildProfile keeps a user-supplied value on first registration): max 2;
    account 5 registers with "true" and 20 votes, account 7 with "yes" (`Flag.other`) and 30 votes.
    The running node publishes `[7:30, 5:20]` (collectUnregisters only removes "false"), blockCommit
    persists both (profile non-empty), start-up keeps only "true": the restarted node publishes
    `[5:20]`.  Two honest nodes would write different deputy lists. -/
theorem odd_flag_restart_diverges :
    let chs : List Change := [⟨5, .yes, 20, true⟩, ⟨7, .other, 30, true⟩]
    ∃ b, applyBlock true 2 0 {} chs [] = .ok b ∧ b.top = [⟨7, 30⟩, ⟨5, 20⟩] ∧
      commitPersist [] chs = [⟨7, 30⟩, ⟨5, 20⟩] ∧
      (restartBlk true 2 (commitPersist [] chs) b).top = [⟨5, 20⟩] ∧
      topOf 2 (registered b.accts) = [⟨5, 20⟩] := by
  intro chs
  exact ⟨_, rfl, by decide, by decide, by decide, by decide⟩

/-- (R) REFUTED for crash restarts of the CURRENT code: `blockCommit` moves the stable pointer
    (SetCurrentBlock) and flushes the candidate list afterwards; a crash in between restarts the node
    on the new stable block with the candidate list of its parent (C08's open finding
    pointer-moved-context-not-flushed).  Max 2; 9(30), 5(20), 7(10) stable; the next block un-registers
    9 and the crash hits its commit: the persisted list still says 9:30.  The restarted node's list
    `[5:20, 7:10]` is right (start-up filters by the stored account), but its rebuilt index holds 9:30,
    and when 5 then drops to 5 votes the re-rank-all publishes the un-registered candidate with its
    old votes, `[9:30, 7:10]`; the node that did not crash publishes `[7:10, 5:5]`. -/
theorem crash_restart_diverges :
    let chs1 : List Change := [⟨9, .yes, 30, true⟩, ⟨5, .yes, 20, true⟩, ⟨7, .yes, 10, true⟩]
    let chs2 : List Change := [⟨9, .no, 0, true⟩]
    let chs3 : List Change := [⟨5, .yes, 5, true⟩]
    let stale := commitPersist [] chs1           -- what context.data holds after the crash
    ∃ b1 b2 live crashed,
      applyBlock true 2 0 {} chs1 [] = .ok b1 ∧ applyBlock true 2 1 b1 chs2 [] = .ok b2 ∧
      commitPersist stale chs2 ≠ stale ∧
      (restartBlk true 2 stale b2).top = b2.top ∧
      applyBlock true 2 2 b2 chs3 [] = .ok live ∧
      applyBlock true 2 2 (restartBlk true 2 stale b2) chs3 [] = .ok crashed ∧
      live.top = [⟨7, 10⟩, ⟨5, 5⟩] ∧ crashed.top = [⟨9, 30⟩, ⟨7, 10⟩] := by
  intro chs1 chs2 chs3 stale
  exact ⟨_, _, _, _, rfl, rfl, by decide, by decide, rfl, rfl, by decide, by decide⟩

/-- (R) REFUTED for the CURRENT code once a candidate has un-registered (the consequence of
    `rerank_unregistered_refuted` met on the real engine at seed 11): max 2; 2(50000), 1(0), 4(0)
    register and become stable; the next block un-registers 1 (0 votes before and after: no VotesLog,
    `Ranking` returns early and the published list keeps it).  The node that keeps running publishes
    `[2:50000, 1:0]` for that block, a node that re-opens on it publishes `[2:50000, 4:0]` (start-up
    keeps isCandidate = "true" only) — which is the full sort of the registered candidates.  A snapshot
    block mined by the second node carries deputies the first node does not derive, and is refused. -/
theorem unregistered_restart_diverges :
    let chs1 : List Change := [⟨2, .yes, 50000, true⟩, ⟨1, .yes, 0, true⟩, ⟨4, .yes, 0, true⟩]
    let chs2 : List Change := [⟨1, .no, 0, false⟩]
    ∃ b1 live,
      applyBlock true 2 0 {} chs1 [] = .ok b1 ∧ applyBlock true 2 1 b1 chs2 [] = .ok live ∧
      live.top = [⟨2, 50000⟩, ⟨1, 0⟩] ∧
      (restartBlk true 2 (commitPersist (commitPersist [] chs1) chs2) live).top = [⟨2, 50000⟩, ⟨4, 0⟩] ∧
      topOf 2 (registered live.accts) = [⟨2, 50000⟩, ⟨4, 0⟩] := by
  intro chs1 chs2
  exact ⟨_, _, rfl, rfl, by decide, by decide, by decide⟩

end LemoProofs.C10

/-
  C10 (and C08) — the byte level of context.data's candidate slots: theorems about LemoModel/CandCache.lean, the model of
  /repo/store/beansdb.go CandidateCache.Set / Encode / Decode / GetCandidates and RunContext.load (tied by the `cc` ops of hx c10).

  decode_after_sets                 every history of Sets and clean restarts: no panic, Decode of the persisted buffer succeeds,
                                    running and restarted cache list exactly the last-set values in slot order (invariant `Good`:
                                    good_fresh, set_good, reload_good, getCandidates_good, run_good)
  set_in_place_keeps_other_slots    an update changes bytes of its own 64-byte slot only, and no other map entry
  set_toolarge                      RLP longer than 56 bytes (total ≥ 2^264): Set panics
  decode_never_panics_partial       ARBITRARY buffers: Decode does not panic IF every slot head is HeadOk and len(buf) ≥ length.
                                    ONE DIRECTION ONLY — the guard is sufficient, NOT exact: with a bad head Decode CAN panic
                                    (four `decode_*_panics` evaluations on literals) but need not: slot 0 HeadOk with garbage
                                    RLP, slot 1 all-zero evaluates to `failed map=[]`, because the RLP error of slot 0 returns
                                    first (`decodeLoop | none => .err m`; beansdb.go:296-298).  The exact form would be
                                    "panic ⇔ blen < length ∨ ∃ k, ¬HeadOk k ∧ every earlier slot HeadOk and decodable" (not proved).
                                    An RLP error only makes Decode FAIL, which load ignores
  loadFile_flushFile / flush_load_good / decode_after_sets_file
                                    the bridge from `reload` (= `loadBody ∘ encodeBody`, which SKIPS the 14-byte contextHead,
                                    FileLen uint32, the two file reads and the loaderr branch) to the real path
                                    `loadFile ∘ flushFile`: equal whenever the body is shorter than 2^32 (true under `Good`)
  getV_put is about the SPEC function `put` alone (true for any Go code); set_toolarge is the first `if` of the model's `set`;
  the four `decode_*_panics` are `decide` on literals: model evaluations, tied to the code only through the cc op classes
  (toolarge, zero-slot, len-past-slot, pos-wrong, short-buf).
  seed_noHead_refuted / seed_lateLen_refuted   the two seeded regressions: 100 → 300 leaves Len = 23 over 25 bytes; the file
                                    opens with an EMPTY list and no error (stale_open_empty), the current code lists 300
-/
import LemoModel.CandCache
import LemoProofs.Lemmas.CandCache
namespace LemoProofs.C10Cache
open LemoModel.Rlp LemoModel.CandCache LemoProofs.CandCacheLemmas

/-! ### the abstract content of a cache: `(address, total)` per slot, in slot order -/

abbrev Content := List (Addr × Nat)

/-- the candidate is well-typed for the Go struct (20-byte address) and its RLP fits a slot
    (`set_toolarge`: otherwise `Set` panics) -/
def Fits (a : Addr) (t : Nat) : Prop := a.length = 20 ∧ (encodeCand a t).length + 8 ≤ 64

/-- assoc-list put: replace the value of an existing key in place, else append — "the map of last-set values, in slot order" -/
def put : Content → Addr → Nat → Content
  | [], a, t => [(a, t)]
  | (k, v) :: r, a, t => if k = a then (k, t) :: r else (k, v) :: put r a t

def getV : Content → Addr → Option Nat
  | [], _ => none
  | (k, v) :: r, a => if k = a then some v else getV r a

def posMapOf : Nat → Content → PosMap
  | _, [] => []
  | k, (a, t) :: m => (a, ⟨64 * k, (encodeCand a t).length⟩) :: posMapOf (k + 1) m

/-- slot `k` of the buffer holds head `{64k, len}` followed by the RLP of `(a, t)` -/
def SlotAt (buf : List UInt8) (k : Nat) (a : Addr) (t : Nat) : Prop :=
  (buf.drop (64 * k)).take (8 + (encodeCand a t).length)
    = encHead ⟨64 * k, (encodeCand a t).length⟩ ++ encodeCand a t

def Slots (buf : List UInt8) : Nat → Content → Prop
  | _, [] => True
  | k, (a, t) :: m => Fits a t ∧ SlotAt buf k a t ∧ Slots buf (k + 1) m

theorem Slots_frame {buf buf' : List UInt8} : ∀ (m : Content) (k : Nat),
    (∀ i, 64 * k ≤ i → i < 64 * (k + m.length) → buf'[i]? = buf[i]?) → Slots buf k m → Slots buf' k m
  | [], _, _, _ => trivial
  | (a, t) :: m, k, h, ⟨hf, hs, hr⟩ => by
    have hfit := hf.2
    have hrest : ∀ i, 64 * (k + 1) ≤ i → i < 64 * (k + 1 + m.length) → buf'[i]? = buf[i]? := by
      intro i h1 h2
      apply h i (by omega)
      simp only [List.length_cons]; omega
    refine ⟨hf, ?_, Slots_frame m (k + 1) hrest hr⟩
    unfold SlotAt at hs ⊢
    rw [← hs]
    apply win_congr
    intro i h1 h2
    apply h i h1
    simp only [List.length_cons]; omega

theorem posMapOf_append : ∀ (m : Content) (k : Nat) (a : Addr) (t : Nat),
    posMapOf k (m ++ [(a, t)]) = posMapOf k m ++ [(a, ⟨64 * (k + m.length), (encodeCand a t).length⟩)]
  | [], k, a, t => by simp [posMapOf]
  | (b, u) :: m, k, a, t => by
    have e : k + 1 + m.length = k + (m.length + 1) := by omega
    simp only [List.cons_append, posMapOf, List.length_cons, posMapOf_append m (k + 1) a t, e]

theorem Slots_append {buf : List UInt8} : ∀ (m : Content) (k : Nat) (a : Addr) (t : Nat),
    Slots buf k m → Fits a t → SlotAt buf (k + m.length) a t → Slots buf k (m ++ [(a, t)])
  | [], k, a, t, _, hf, hs => ⟨hf, by simpa using hs, trivial⟩
  | (b, u) :: m, k, a, t, ⟨h1, h2, h3⟩, hf, hs =>
    ⟨h1, h2, Slots_append m (k + 1) a t h3 hf (by
      have : k + 1 + m.length = k + ((b, u) :: m).length := by simp only [List.length_cons]; omega
      rw [this]; exact hs)⟩

/-- a map entry points at a slot of the content -/
theorem lookup_posMapOf : ∀ (m : Content) (k : Nat) (a : Addr) (pos : Pos), lookup (posMapOf k m) a = some pos →
    ∃ j, k ≤ j ∧ j < k + m.length ∧ pos.pos = 64 * j
  | [], _, _, _, h => by simp [posMapOf, lookup] at h
  | (b, u) :: m, k, a, pos, h => by
    simp only [posMapOf, lookup] at h
    by_cases hb : b = a
    · rw [if_pos hb] at h
      cases h
      exact ⟨k, Nat.le_refl _, by simp, rfl⟩
    · rw [if_neg hb] at h
      obtain ⟨j, h1, h2, h3⟩ := lookup_posMapOf m (k + 1) a pos h
      exact ⟨j, by omega, by simp only [List.length_cons]; omega, h3⟩

theorem lookup_posMapOf_none : ∀ (m : Content) (k : Nat) (a : Addr), lookup (posMapOf k m) a = none ↔ getV m a = none
  | [], _, _ => by simp [posMapOf, lookup, getV]
  | (b, u) :: m, k, a => by
    simp only [posMapOf, lookup, getV]
    by_cases hb : b = a
    · simp [hb]
    · rw [if_neg hb, if_neg hb]; exact lookup_posMapOf_none m (k + 1) a

theorem put_of_getV_none : ∀ (m : Content) (a : Addr) (t : Nat), getV m a = none → put m a t = m ++ [(a, t)]
  | [], _, _, _ => rfl
  | (b, u) :: m, a, t, h => by
    simp only [getV] at h
    by_cases hb : b = a
    · rw [if_pos hb] at h; cases h
    · rw [if_neg hb] at h
      simp only [put, if_neg hb, put_of_getV_none m a t h, List.cons_append]

theorem put_length_of_getV_some : ∀ (m : Content) (a : Addr) (t : Nat), getV m a ≠ none → (put m a t).length = m.length
  | [], _, _, h => by simp [getV] at h
  | (b, u) :: m, a, t, h => by
    simp only [getV] at h
    by_cases hb : b = a
    · simp [put, hb]
    · rw [if_neg hb] at h
      simp only [put, if_neg hb, List.length_cons, put_length_of_getV_some m a t h]

/-! ### the two writes of `Set` are one `copy` of head ++ payload -/

theorem writeSlot_eq (buf : List UInt8) (hd : Pos) (p : List UInt8) (h : hd.pos + 8 + p.length ≤ buf.length)
    (h32 : hd.pos + 8 < 4294967296) : writeSlot buf hd p = some (copyAt buf hd.pos (encHead hd ++ p)) := by
  unfold writeSlot
  have hu : u32 (hd.pos + headLen) = hd.pos + 8 := by unfold u32 headLen; omega
  have hl1 : (copyAt buf hd.pos (encHead hd)).length = buf.length := copyAt_length _ _ _ (by omega)
  rw [if_neg (by omega)]
  simp only [hu, hl1]
  rw [if_neg (by omega)]
  congr 1
  apply List.ext_getElem?
  intro i
  rw [copyAt_getElem? _ _ p (by omega : hd.pos + 8 ≤ (copyAt buf hd.pos (encHead hd)).length),
    copyAt_getElem? buf _ (encHead hd ++ p) (by omega)]
  rw [hl1, List.length_append, encHead_length]
  by_cases c1 : hd.pos + 8 ≤ i ∧ i < hd.pos + 8 + p.length ∧ i < buf.length
  · rw [if_pos c1, if_pos (by omega), List.getElem?_append_right (by rw [encHead_length]; omega), encHead_length,
      Nat.sub_add_eq]
  · rw [if_neg c1, copyAt_getElem? _ _ _ (by omega), encHead_length]
    by_cases c2 : hd.pos ≤ i ∧ i < hd.pos + 8 ∧ i < buf.length
    · rw [if_pos c2, if_pos (by omega), List.getElem?_append_left (by rw [encHead_length]; omega)]
    · rw [if_neg c2, if_neg (by omega)]

/-- the slot just written -/
theorem SlotAt_written (buf : List UInt8) (k : Nat) (a : Addr) (t : Nat)
    (h : 64 * k + 8 + (encodeCand a t).length ≤ buf.length) :
    SlotAt (copyAt buf (64 * k) (encHead ⟨64 * k, (encodeCand a t).length⟩ ++ encodeCand a t)) k a t := by
  unfold SlotAt
  have hl : (encHead ⟨64 * k, (encodeCand a t).length⟩ ++ encodeCand a t).length = 8 + (encodeCand a t).length := by
    rw [List.length_append, encHead_length]
  rw [← hl]
  exact copyAt_win _ _ _ (by rw [hl]; omega)

/-! ### Set on an existing candidate -/

theorem Slots_update {buf : List UInt8} (a : Addr) (t : Nat) (hf : Fits a t) : ∀ (m : Content) (k : Nat) (pos : Pos),
    Slots buf k m → lookup (posMapOf k m) a = some pos → 64 * (k + m.length) ≤ buf.length →
    Slots (copyAt buf pos.pos (encHead ⟨pos.pos, (encodeCand a t).length⟩ ++ encodeCand a t)) k (put m a t)
      ∧ mapSet (posMapOf k m) a ⟨pos.pos, (encodeCand a t).length⟩ = posMapOf k (put m a t)
  | [], _, _, _, h, _ => by simp [posMapOf, lookup] at h
  | (b, u) :: m, k, pos, ⟨h1, h2, h3⟩, h, hb => by
    have hlen : (encHead ⟨pos.pos, (encodeCand a t).length⟩ ++ encodeCand a t).length = 8 + (encodeCand a t).length := by
      rw [List.length_append, encHead_length]
    have hfit := hf.2
    simp only [List.length_cons] at hb
    simp only [posMapOf, lookup] at h
    by_cases hba : b = a
    · rw [if_pos hba] at h
      cases h
      subst hba
      simp only [put, posMapOf, mapSet, if_true]
      refine ⟨⟨hf, SlotAt_written buf k b t (by omega), ?_⟩, trivial⟩
      apply Slots_frame m (k + 1) _ h3
      intro i hi1 _
      exact copyAt_frame _ _ _ (by omega) i (by rw [hlen]; omega)
    · rw [if_neg hba] at h
      obtain ⟨j, hj1, hj2, hj3⟩ := lookup_posMapOf m (k + 1) a pos h
      obtain ⟨ih1, ih2⟩ := Slots_update a t hf m (k + 1) pos h3 h (by omega)
      simp only [put, posMapOf, mapSet, if_neg hba]
      refine ⟨⟨h1, ?_, ih1⟩, by rw [ih2]⟩
      unfold SlotAt at h2 ⊢
      rw [← h2]
      apply win_congr
      intro i _ hi2
      have := h1.2
      exact copyAt_frame _ _ _ (by omega) i (by omega)


/-! ### the map of last-set values -/

theorem getV_put : ∀ (m : Content) (a : Addr) (t : Nat) (b : Addr),
    getV (put m a t) b = if a = b then some t else getV m b
  | [], a, t, b => by simp [put, getV]
  | (k, v) :: r, a, t, b => by
    by_cases hk : k = a
    · subst hk
      by_cases hb : k = b <;> simp [put, getV, hb]
    · by_cases hb : k = b
      · subst hb
        have hab : ¬ a = k := fun h => hk h.symm
        simp [put, getV, hk, hab]
      · simp [put, getV, hk, hb, getV_put r a t b]

/-- distinct keys -/
def Distinct : Content → Prop
  | [] => True
  | (a, _) :: m => getV m a = none ∧ Distinct m

theorem Distinct_put : ∀ (m : Content) (a : Addr) (t : Nat), Distinct m → Distinct (put m a t)
  | [], _, _, _ => ⟨rfl, trivial⟩
  | (k, v) :: r, a, t, ⟨h1, h2⟩ => by
    by_cases hk : k = a
    · simp only [put, if_pos hk]; exact ⟨h1, h2⟩
    · simp only [put, if_neg hk]
      refine ⟨?_, Distinct_put r a t h2⟩
      rw [getV_put, if_neg (fun h => hk h.symm)]; exact h1

/-! ### reading a slot back -/

theorem encodeCand_length_pos (a : Addr) (t : Nat) : 0 < (encodeCand a t).length :=
  List.length_pos_iff.2 (LemoProofs.C14.encode_ne_nil _)

theorem SlotAt_slices {arr : List UInt8} {k : Nat} {a : Addr} {t : Nat} (h : SlotAt arr k a t) :
    slice arr (64 * k) (64 * k + 8) = some (encHead ⟨64 * k, (encodeCand a t).length⟩)
    ∧ slice arr (64 * k + 8) (64 * k + 8 + (encodeCand a t).length) = some (encodeCand a t) := by
  unfold SlotAt at h
  have hb := win_length h (by rw [List.length_append, encHead_length]) (by omega)
  unfold slice
  rw [if_pos (by omega), if_pos (by omega)]
  constructor
  · have e : 64 * k + 8 - 64 * k = 8 := by omega
    rw [e, ← win_take arr (64 * k) (8 + (encodeCand a t).length) 8 (by omega), h,
      List.take_left' (encHead_length _)]
  · have e : 64 * k + 8 + (encodeCand a t).length - (64 * k + 8) = 8 + (encodeCand a t).length - 8 := by omega
    rw [e, ← win_drop arr (64 * k) (8 + (encodeCand a t).length) 8, h, List.drop_left' (encHead_length _)]

theorem decodeLoop_slots {arr : List UInt8} : ∀ (m : Content) (k : Nat) (acc : PosMap),
    Slots arr k m → Distinct m → (∀ x, getV m x ≠ none → lookup acc x = none) → 64 * (k + m.length) < 4294967296 →
    decodeLoop arr m.length k acc = .ok (acc ++ posMapOf k m)
  | [], _, acc, _, _, _, _ => by simp [decodeLoop, posMapOf]
  | (a, t) :: m, k, acc, ⟨hf, hs, hr⟩, ⟨hd1, hd2⟩, hacc, hsm => by
    obtain ⟨s1, s2⟩ := SlotAt_slices hs
    have hfit := hf.2
    simp only [List.length_cons] at hsm
    have hpos := encodeCand_length_pos a t
    have hdec : decHead (encHead ⟨64 * k, (encodeCand a t).length⟩) = ⟨64 * k, (encodeCand a t).length⟩ := by
      have := decHead_encHead ⟨64 * k, (encodeCand a t).length⟩ (by show 64 * k < 4294967296; omega)
        (by show (encodeCand a t).length < 4294967296; omega) []
      rwa [List.append_nil] at this
    have hla : lookup acc a = none := hacc a (by simp [getV])
    have hcond : ¬ (64 * k ≠ 64 * k ∨ (encodeCand a t).length = 0) := by omega
    simp only [List.length_cons, decodeLoop, slot, headLen, Nat.mul_comm k 64, s1, hdec, s2, hcond, ↓reduceIte,
      decodeCand_encodeCand a t hf.1 (by omega : (encodeCand a t).length < 2 ^ 64)]
    rw [mapSet_of_lookup_none acc a _ hla, decodeLoop_slots m (k + 1) _ hr hd2 _ (by omega)]
    · simp only [posMapOf, List.append_assoc, List.cons_append, List.nil_append]
    · intro x hx
      have hxa : a ≠ x := by
        intro h; subst h; exact hx hd1
      apply lookup_append_none acc x a _ _ hxa
      apply hacc x
      simp only [getV, if_neg hxa]; exact hx

theorem getLoop_slots {arr : List UInt8} : ∀ (m : Content) (k : Nat), Slots arr k m → getLoop arr (posMapOf k m) = .ok m
  | [], _, _ => rfl
  | (a, t) :: m, k, ⟨hf, hs, hr⟩ => by
    obtain ⟨s1, s2⟩ := SlotAt_slices hs
    have hfit := hf.2
    simp only [posMapOf, getLoop, headLen, s1, s2]
    rw [decodeCand_encodeCand a t hf.1 (by omega)]
    simp only [getLoop_slots m (k + 1) hr]

/-! ### the invariant -/

structure Good (c : Cache) (m : Content) : Prop where
  cur : c.cur = 64 * m.length
  len : c.buf.length = c.cap
  le : c.cur ≤ c.cap
  cap64 : 64 ≤ c.cap
  small : c.cur + 64 ≤ 4294967296
  cands : c.cands = posMapOf 0 m
  slots : Slots c.buf 0 m
  distinct : Distinct m

theorem good_fresh : Good fresh [] :=
  ⟨rfl, List.length_replicate, Nat.zero_le _, by show 64 ≤ 4096; omega, by show 0 + 64 ≤ 4294967296; omega,
    rfl, trivial, trivial⟩

theorem getCandidates_good {c : Cache} {m : Content} (g : Good c m) : getCandidates c = .ok m := by
  unfold getCandidates
  rw [g.cands]
  apply getLoop_slots
  apply Slots_frame m 0 _ g.slots
  intro i _ h2
  have := g.cur; have := g.le; have := g.len
  exact List.getElem?_append_left (by omega)

theorem grow_props {c : Cache} (hl : c.buf.length = c.cap) (hle : c.cur ≤ c.cap) (h64 : 64 ≤ c.cap) :
    (grow c).buf.length = (grow c).cap ∧ c.cur + 64 ≤ (grow c).cap ∧ 64 ≤ (grow c).cap
    ∧ (grow c).cands = c.cands ∧ (∀ i, i < c.buf.length → (grow c).buf[i]? = c.buf[i]?) := by
  unfold grow
  by_cases h : c.cur + slot > c.cap
  · rw [if_pos h]
    simp only
    have hz : (0 : Nat) ≤ (List.replicate (c.cap * 2) (0 : UInt8)).length := Nat.zero_le _
    refine ⟨by rw [copyAt_length _ _ _ hz, List.length_replicate], by omega, by omega, trivial, ?_⟩
    intro i hi
    rw [copyAt_getElem? _ _ _ hz, if_pos (by rw [List.length_replicate]; omega)]
    rfl
  · rw [if_neg h]
    simp only [slot] at h
    exact ⟨hl, by omega, h64, rfl, fun _ _ => rfl⟩

/-- **Set keeps the invariant**: an update rewrites head and payload of its own slot, a new candidate takes the next slot -/
theorem set_good {c : Cache} {m : Content} (g : Good c m) (a : Addr) (t : Nat) (hf : Fits a t)
    (hroom : c.cur + 128 ≤ 4294967296) : ∃ c', LemoModel.CandCache.set c a t = .ok c' ∧ Good c' (put m a t) := by
  have hfit := hf.2
  have hcur := g.cur; have hlen := g.len; have hle := g.le; have h64 := g.cap64
  have hu : u32 (encodeCand a t).length = (encodeCand a t).length := by unfold u32; omega
  have hnot : ¬ (64 < (encodeCand a t).length + 8) := by omega
  unfold LemoModel.CandCache.set
  simp only [slot, headLen, hnot, ↓reduceIte, g.cands]
  cases hlk : lookup (posMapOf 0 m) a with
  | some pos =>
    obtain ⟨j, _, hj2, hj3⟩ := lookup_posMapOf m 0 a pos hlk
    simp only [hu]
    rw [writeSlot_eq _ _ _ (by simp only; omega) (by simp only; omega)]
    simp only
    obtain ⟨u1, u2⟩ := Slots_update a t hf m 0 pos g.slots hlk (by omega)
    have hne : getV m a ≠ none := by
      intro h; rw [← lookup_posMapOf_none m 0 a, hlk] at h; cases h
    refine ⟨_, rfl, ?_⟩
    exact ⟨by simp only [put_length_of_getV_some m a t hne]; exact hcur,
      by simp only; rw [copyAt_length _ _ _ (by omega)]; exact hlen, hle, h64, g.small, u2, u1,
      Distinct_put m a t g.distinct⟩
  | none =>
    have hnone : getV m a = none := (lookup_posMapOf_none m 0 a).1 hlk
    obtain ⟨g1, g2, g3, _, g5⟩ := grow_props hlen hle h64
    have hucur : u32 c.cur = c.cur := by unfold u32; omega
    simp only [hu, hucur]
    rw [writeSlot_eq _ _ _ (by simp only; omega) (by simp only; omega)]
    simp only
    refine ⟨_, rfl, ?_⟩
    have hd := Distinct_put m a t g.distinct
    rw [put_of_getV_none m a t hnone] at hd ⊢
    refine ⟨by simp only [List.length_append, List.length_cons, List.length_nil]; omega,
      by simp only; rw [copyAt_length _ _ _ (by omega)]; exact g1, by simp only; omega, g3, by simp only; omega,
      ?_, ?_, hd⟩
    · simp only
      rw [mapSet_of_lookup_none _ _ _ hlk, posMapOf_append, hcur, Nat.zero_add]
    · simp only
      apply Slots_append
      · apply Slots_frame m 0 _ g.slots
        intro i _ h2
        rw [copyAt_frame _ _ _ (by omega) i (by omega)]
        exact g5 i (by omega)
      · exact hf
      · rw [hcur, Nat.zero_add]
        exact SlotAt_written _ _ _ _ (by omega)


/-! ### Flush + load -/

theorem persist_eq {c : Cache} (hle : c.cur ≤ c.buf.length) (hs : c.cur < 4294967296) : persist c = c.buf.take c.cur := by
  have hu : u32 c.cur = c.cur := by unfold u32; omega
  unfold persist copyAt
  rw [hu, List.length_replicate, List.take_zero, List.nil_append, Nat.sub_zero, Nat.zero_add,
    List.drop_eq_nil_of_le (by rw [List.length_replicate]; exact hle), List.append_nil]

theorem loadLoop_done (body : List UInt8) (fuel off : Nat) (c : Cache) (h : off ≥ body.length) :
    loadLoop body fuel off c = .ok c := by
  cases fuel with
  | zero => rfl
  | succ n => simp only [loadLoop, if_pos h]

theorem rd32_le32' (n : Nat) (h : n < 4294967296) : rd32 (le32 n) = n := by
  have := rd32_le32 n h []
  rwa [List.append_nil] at this

/-- **a clean restart reads back the same content** (Flush's body, then load's item loop and Decode into a fresh cache) -/
theorem reload_good {c : Cache} {m : Content} (g : Good c m) : ∃ c', reload c = .ok c' ∧ Good c' m := by
  have hcur := g.cur; have hlen := g.len; have hle := g.le; have hsm := g.small
  have hu : u32 c.cur = c.cur := by unfold u32; omega
  have hp : persist c = c.buf.take c.cur := persist_eq (by omega) (by omega)
  have hpl : (c.buf.take c.cur).length = c.cur := by rw [List.length_take]; omega
  unfold reload loadBody encodeBody
  rw [hu, hp]
  have hbl : (le32 2 ++ le32 c.cur ++ c.buf.take c.cur).length = 8 + c.cur := by
    simp only [List.length_append, le32_length, hpl]
  have hs1 : slice (le32 2 ++ le32 c.cur ++ c.buf.take c.cur) 0 (0 + 8) = some (le32 2 ++ le32 c.cur) := by
    unfold slice
    rw [if_pos (by omega), List.drop_zero]
    have : 0 + 8 - 0 = 8 := rfl
    rw [this, List.take_left' (by simp only [List.length_append, le32_length])]
  have hf2 : rd32 (le32 2 ++ le32 c.cur) = 2 := rd32_le32 2 (by omega) _
  have hfl : rd32 ((le32 2 ++ le32 c.cur).drop 4) = c.cur := by
    rw [List.drop_left' (le32_length _)]; exact rd32_le32' _ (by omega)
  rw [hbl]
  have hfuel : 8 + c.cur + 1 = (8 + c.cur) + 1 := rfl
  rw [hfuel]
  simp only [loadLoop, hbl, hs1, hf2, hfl]
  rw [if_neg (by omega)]
  by_cases h0 : c.cur = 0
  · -- empty list: the item has Len = 0, Decode is not called
    have hm : m = [] := by
      cases m with
      | nil => rfl
      | cons x r => simp only [List.length_cons] at hcur; omega
    subst hm
    simp only [h0, ne_eq, not_true_eq_false, and_false, ↓reduceIte]
    rw [loadLoop_done _ _ _ _ (by simp [le32_length])]
    exact ⟨_, rfl, good_fresh⟩
  · have hcond : (2 = 2 ∧ c.cur ≠ 0) := ⟨rfl, h0⟩
    simp only [hcond, and_self, ↓reduceIte, ne_eq, not_false_eq_true]
    have hs2 : slice (le32 2 ++ le32 c.cur ++ c.buf.take c.cur) (0 + 8) (0 + 8 + c.cur) ≠ none := by
      unfold slice; rw [if_pos (by omega)]; simp
    have hdrop : (le32 2 ++ le32 c.cur ++ c.buf.take c.cur).drop (0 + 8) = c.buf.take c.cur := by
      rw [List.drop_left' (by simp only [List.length_append, le32_length])]
    cases hsl : slice (le32 2 ++ le32 c.cur ++ c.buf.take c.cur) (0 + 8) (0 + 8 + c.cur) with
    | none => exact absurd hsl hs2
    | some w =>
      simp only [hdrop]
      have hslots : Slots (c.buf.take c.cur) 0 m := by
        apply Slots_frame m 0 _ g.slots
        intro i _ h2
        rw [List.getElem?_take, if_pos (by omega)]
      have hdiv : c.cur / slot = m.length := by rw [hcur]; simp only [slot]; omega
      have hdl : decodeLoop (c.buf.take c.cur) m.length 0 fresh.cands = .ok (posMapOf 0 m) := by
        have := decodeLoop_slots m 0 [] hslots g.distinct (fun _ _ => rfl) (by omega)
        simpa [fresh] using this
      unfold LemoModel.CandCache.decode
      rw [if_neg (by omega), hdiv, hdl]
      simp only
      rw [loadLoop_done _ _ _ _ (by rw [hbl]; omega)]
      refine ⟨_, rfl, ?_⟩
      have hlen2 : ((c.buf.take c.cur).take c.cur).length = c.cur := by
        rw [List.length_take, hpl]; omega
      have h64 : 64 ≤ c.cur := by
        cases m with
        | nil => simp at hcur; omega
        | cons x r => simp only [List.length_cons] at hcur; omega
      refine ⟨hcur, hlen2, Nat.le_refl _, h64, hsm, rfl, ?_, g.distinct⟩
      apply Slots_frame m 0 _ hslots
      intro i _ h2
      rw [List.getElem?_take, if_pos (by omega)]


/-- a payload that outgrows its slot: `Set` PANICS ("candidate buf is larger than ItemMaxSize"), nothing is written -/
theorem set_toolarge (c : Cache) (a : Addr) (t : Nat) (h : 64 < (encodeCand a t).length + 8) :
    LemoModel.CandCache.set c a t = .panic "toolarge" := by
  unfold LemoModel.CandCache.set
  simp only [slot, headLen, h, ↓reduceIte]

/-! ### histories: Sets and clean restarts in any order -/

inductive Op where
  | set (a : Addr) (t : Nat)
  | restart

def run : Cache → List Op → Out Cache
  | c, [] => .ok c
  | c, .set a t :: r =>
    match LemoModel.CandCache.set c a t with
    | .ok c' => run c' r
    | .err e => .err e
    | .panic s => .panic s
  | c, .restart :: r =>
    match reload c with
    | .ok c' => run c' r
    | .err e => .err e
    | .panic s => .panic s

/-- the map of last-set values, keys in first-appearance (= slot) order -/
def content : Content → List Op → Content
  | m, [] => m
  | m, .set a t :: r => content (put m a t) r
  | m, .restart :: r => content m r

def OpsFit : List Op → Prop
  | [] => True
  | .set a t :: r => Fits a t ∧ OpsFit r
  | .restart :: r => OpsFit r

theorem put_length_le : ∀ (m : Content) (a : Addr) (t : Nat), (put m a t).length ≤ m.length + 1
  | [], _, _ => Nat.le_refl _
  | (k, v) :: r, a, t => by
    by_cases hk : k = a
    · simp [put, hk]
    · simp only [put, if_neg hk, List.length_cons]
      have := put_length_le r a t
      omega

theorem run_good : ∀ (ops : List Op) (c : Cache) (m : Content), Good c m → OpsFit ops →
    64 * (m.length + ops.length) + 128 ≤ 4294967296 → ∃ c', run c ops = .ok c' ∧ Good c' (content m ops)
  | [], c, m, g, _, _ => ⟨c, rfl, g⟩
  | .set a t :: r, c, m, g, ⟨hf, hr⟩, hroom => by
    simp only [List.length_cons] at hroom
    obtain ⟨c1, h1, g1⟩ := set_good g a t hf (by rw [g.cur]; omega)
    have hl := put_length_le m a t
    obtain ⟨c2, h2, g2⟩ := run_good r c1 (put m a t) g1 hr (by omega)
    exact ⟨c2, by simp only [run, h1, h2], g2⟩
  | .restart :: r, c, m, g, hr, hroom => by
    simp only [List.length_cons] at hroom
    obtain ⟨c1, h1, g1⟩ := reload_good g
    obtain ⟨c2, h2, g2⟩ := run_good r c1 m g1 hr (by omega)
    exact ⟨c2, by simp only [run, h1, h2], g2⟩

/-- **decode_after_sets** — for ALL histories of `Set` (new candidates, updates whose RLP grows or shrinks, the same
    candidate any number of times) and clean restarts in between, starting from `NewCandidateCache()`: nothing panics,
    Decode of the persisted buffer into a fresh cache (what `RunContext.load` does after `Flush`) succeeds, and both the
    running and the restarted cache list exactly the last-set value of every candidate, in slot order.
    Guards: every candidate fits its slot (`Fits`: 20-byte address, RLP ≤ 56 bytes, i.e. total < 2^264 — the `cc` ops
    exercise 2^264-1 and 2^264; beyond the guard `Set` panics: `set_toolarge`) and fewer than 2^26-2 operations
    (the uint32 `Pos`). -/
theorem decode_after_sets (ops : List Op) (hf : OpsFit ops) (hn : 64 * ops.length + 128 ≤ 4294967296) :
    ∃ c c', run fresh ops = .ok c ∧ getCandidates c = .ok (content [] ops)
      ∧ reload c = .ok c' ∧ getCandidates c' = .ok (content [] ops) := by
  obtain ⟨c, h1, g⟩ := run_good ops fresh [] good_fresh hf (by simpa using hn)
  obtain ⟨c', h2, g'⟩ := reload_good g
  exact ⟨c, c', h1, getCandidates_good g, h2, getCandidates_good g'⟩

/-! ### the bridge: `reload` is what `Flush` + `NewRunContext` compute (`loadFile ∘ flushFile`)

  `reload c = loadBody (encodeBody c)` skips the file level: the 14-byte contextHead, FileLen as uint32, the two
  `file.Read`s of `loadFile` and its loaderr branch.  The bridge below closes that gap; under `Good` every `.restart`
  step of `run` (which calls `reload`) is therefore literally `loadFile (flushFile c ts)` for every time stamp. -/

theorem encodeBody_len_pos (c : Cache) : 8 ≤ (encodeBody c).length := by
  unfold encodeBody
  simp only [List.length_append, le32_length]; omega

/-- **loadFile_flushFile**: reading back the file `Flush` writes is `reload`, whenever the body length fits uint32 -/
theorem loadFile_flushFile (c : Cache) (ts : Nat) (h : (encodeBody c).length < 4294967296) :
    loadFile (flushFile c ts) = reload c := by
  have h8 := encodeBody_len_pos c
  have hu : u32 (encodeBody c).length = (encodeBody c).length := by unfold u32; omega
  unfold loadFile flushFile reload
  rw [hu]
  generalize hb : encodeBody c = body at *
  have hl : (le32 body.length ++ le32 1 ++ le32 (u32 ts) ++ [0, 0]).length = 14 := by
    simp [le32_length]
  have hne : (le32 body.length ++ le32 1 ++ le32 (u32 ts) ++ [0, 0] ++ body).isEmpty = false := by
    cases body with
    | nil => simp at h8
    | cons x r => simp [le32]
  rw [hne]
  simp only [Bool.false_eq_true, ↓reduceIte]
  rw [List.take_left' hl, List.drop_left' hl]
  have hlen : (le32 body.length ++ le32 1 ++ le32 (u32 ts) ++ [0, 0] ++ body).length = 14 + body.length := by
    rw [List.length_append, hl]
  have hz : 14 - (14 + body.length) = 0 := by omega
  rw [hlen, hz]
  simp only [List.replicate_zero, List.append_nil]
  have hr : rd32 (le32 body.length ++ le32 1 ++ le32 (u32 ts) ++ [0, 0]) = body.length := by
    have := rd32_le32 body.length h (le32 1 ++ le32 (u32 ts) ++ [0, 0])
    simpa [List.append_assoc] using this
  rw [hr]
  have hbe : body.isEmpty = false := by
    cases body with
    | nil => simp at h8
    | cons x r => rfl
  simp [hbe]

theorem encodeBody_small {c : Cache} {m : Content} (g : Good c m) : (encodeBody c).length < 4294967296 := by
  have hcur := g.cur; have hlen := g.len; have hle := g.le; have hsm := g.small
  have hp : persist c = c.buf.take c.cur := persist_eq (by omega) (by omega)
  have hpl : (c.buf.take c.cur).length = c.cur := by rw [List.length_take]; omega
  unfold encodeBody
  rw [hp]
  simp only [List.length_append, le32_length, hpl]; omega

/-- **flush_load_good**: `reload_good` for the real path — `Flush` (any time stamp), then `NewRunContext`'s load -/
theorem flush_load_good {c : Cache} {m : Content} (g : Good c m) (ts : Nat) :
    ∃ c', loadFile (flushFile c ts) = .ok c' ∧ Good c' m := by
  rw [loadFile_flushFile c ts (encodeBody_small g)]
  exact reload_good g

/-- **decode_after_sets_file**: `decode_after_sets` with the final restart through the FILE (`loadFile ∘ flushFile`) -/
theorem decode_after_sets_file (ops : List Op) (hf : OpsFit ops) (hn : 64 * ops.length + 128 ≤ 4294967296) (ts : Nat) :
    ∃ c c', run fresh ops = .ok c ∧ getCandidates c = .ok (content [] ops)
      ∧ loadFile (flushFile c ts) = .ok c' ∧ getCandidates c' = .ok (content [] ops) := by
  obtain ⟨c, h1, g⟩ := run_good ops fresh [] good_fresh hf (by simpa using hn)
  obtain ⟨c', h2, g'⟩ := flush_load_good g ts
  exact ⟨c, c', h1, getCandidates_good g, h2, getCandidates_good g'⟩


/-! ### an update in place touches its own slot only -/

theorem lookup_mapSet_other : ∀ (m : PosMap) (a b : Addr) (p : Pos), b ≠ a → lookup (mapSet m a p) b = lookup m b
  | [], a, b, p, h => by
    have : ¬ a = b := fun e => h e.symm
    simp [mapSet, lookup, this]
  | (k, v) :: r, a, b, p, h => by
    by_cases hk : k = a
    · subst hk
      have : ¬ k = b := fun e => h e.symm
      simp [mapSet, lookup, this]
    · simp only [mapSet, if_neg hk, lookup, lookup_mapSet_other r a b p h]

/-- **set_in_place_keeps_other_slots**: `Set` on a candidate that has a slot succeeds, keeps Cur/Cap/len, changes no byte
    outside that candidate's 64-byte slot and no other candidate's map entry -/
theorem set_in_place_keeps_other_slots {c : Cache} {m : Content} (g : Good c m) (a : Addr) (t : Nat) (hf : Fits a t)
    (pos : Pos) (hl : lookup c.cands a = some pos) :
    ∃ c', LemoModel.CandCache.set c a t = .ok c' ∧ c'.buf.length = c.buf.length ∧ c'.cur = c.cur ∧ c'.cap = c.cap
      ∧ (∀ i, i < pos.pos ∨ pos.pos + 64 ≤ i → c'.buf[i]? = c.buf[i]?)
      ∧ (∀ b, b ≠ a → lookup c'.cands b = lookup c.cands b) := by
  have hfit := hf.2
  have hcur := g.cur; have hlen := g.len; have hle := g.le; have hsm := g.small
  have hu : u32 (encodeCand a t).length = (encodeCand a t).length := by unfold u32; omega
  have hnot : ¬ (64 < (encodeCand a t).length + 8) := by omega
  rw [g.cands] at hl
  obtain ⟨j, _, hj2, hj3⟩ := lookup_posMapOf m 0 a pos hl
  unfold LemoModel.CandCache.set
  simp only [slot, headLen, hnot, ↓reduceIte, g.cands, hl, hu]
  rw [writeSlot_eq _ _ _ (by simp only; omega) (by simp only; omega)]
  simp only
  refine ⟨_, rfl, ?_, rfl, rfl, ?_, ?_⟩
  · exact copyAt_length _ _ _ (by omega)
  · intro i hi
    exact copyAt_frame _ _ _ (by omega) i (by rw [List.length_append, encHead_length]; omega)
  · intro b hb
    exact lookup_mapSet_other _ _ _ _ hb

/-! ### Decode on ARBITRARY buffers: exactly when it panics -/

/-- the slot head a `Decode` digests without a panic: Pos = its own offset, Len ≠ 0, and the payload slice
    `buf[start+8 : start+8+Len]` within the CAPACITY of the buffer -/
def HeadOk (arr : List UInt8) (k : Nat) : Prop :=
  (decHead ((arr.drop (64 * k)).take 8)).pos = 64 * k ∧ (decHead ((arr.drop (64 * k)).take 8)).len ≠ 0
  ∧ 64 * k + 8 + (decHead ((arr.drop (64 * k)).take 8)).len ≤ arr.length

theorem decodeLoop_no_panic {arr : List UInt8} : ∀ (rem index : Nat) (acc : PosMap),
    (∀ k, index ≤ k → k < index + rem → HeadOk arr k) → 64 * (index + rem) ≤ arr.length →
    ∀ s, decodeLoop arr rem index acc ≠ .panic s
  | 0, _, _, _, _, s => by simp [decodeLoop]
  | rem + 1, index, acc, h, hb, s => by
    obtain ⟨h1, h2, h3⟩ := h index (Nat.le_refl _) (by omega)
    have s1 : slice arr (64 * index) (64 * index + 8) = some ((arr.drop (64 * index)).take 8) := by
      unfold slice
      have e : 64 * index + 8 - 64 * index = 8 := by omega
      rw [if_pos (by omega), e]
    simp only [decodeLoop, slot, headLen, Nat.mul_comm index 64, s1]
    generalize decHead ((arr.drop (64 * index)).take 8) = P at h1 h2 h3 ⊢
    have hc : ¬ (64 * index ≠ P.pos ∨ P.len = 0) := by omega
    have s2 : slice arr (64 * index + 8) (64 * index + 8 + P.len) ≠ none := by
      unfold slice; rw [if_pos (by omega)]; simp
    simp only [hc, ↓reduceIte]
    cases hs : slice arr (64 * index + 8) (64 * index + 8 + P.len) with
    | none => exact absurd hs s2
    | some pl =>
      simp only
      rcases hd : decodeCand pl with _ | ⟨a, t⟩
      · simp
      · simp only
        exact decodeLoop_no_panic rem (index + 1) _ (fun k x y => h k (by omega) (by omega)) (by omega) s

/-- **decode_never_panics_partial**: on ANY buffer whose slot heads are `HeadOk` (and `length ≤ len(buf) ≤ cap(buf)`),
    whatever the payload bytes are, `Decode` returns (`done` or `failed`) and does not panic.  The guard is SUFFICIENT, not
    exact (the converse fails: a non-HeadOk slot behind a slot whose RLP does not decode is never reached — `failed`, no
    panic).  That a bad head CAN panic: `decode_zero_slot_panics`, `decode_len_overrun_panics`, `decode_pos_wrong_panics`,
    `decode_short_buf_panics` (evaluations on four literal buffers). -/
theorem decode_never_panics_partial (c : Cache) (arr : List UInt8) (blen length : Nat) (h1 : length ≤ blen)
    (h2 : blen ≤ arr.length) (hh : ∀ k, k < length / 64 → HeadOk arr k) :
    ∀ s, LemoModel.CandCache.decode c arr blen length ≠ .panic s := by
  intro s
  unfold LemoModel.CandCache.decode
  rw [if_neg (by omega)]
  have := decodeLoop_no_panic (arr := arr) (length / slot) 0 c.cands
    (fun k _ hk => hh k (by simp only [slot] at hk; omega)) (by simp only [slot]; omega)
  cases hd : decodeLoop arr (length / slot) 0 c.cands with
  | ok m => simp
  | err m => simp
  | panic s' => exact absurd hd (this s')

def panicsWith : DecRes → String → Bool
  | .panic s, s' => s == s'
  | _, _ => false

/-- a zero-filled slot (a torn / zero-padded file) is a PANIC of Decode ("start != pos."), hence of NewRunContext -/
theorem decode_zero_slot_panics : panicsWith (LemoModel.CandCache.decode fresh (List.replicate 64 0) 64 64) "startpos" = true := by
  decide

/-- a head whose Len runs past the capacity: runtime slice-bounds panic -/
theorem decode_len_overrun_panics :
    panicsWith (LemoModel.CandCache.decode fresh ([0, 0, 0, 0, 57, 0, 0, 0] ++ List.replicate 56 1) 64 64) "bounds" = true := by
  decide

theorem decode_pos_wrong_panics :
    panicsWith (LemoModel.CandCache.decode fresh ([64, 0, 0, 0, 1, 0, 0, 0] ++ List.replicate 56 1) 64 64) "startpos" = true := by
  decide

theorem decode_short_buf_panics : panicsWith (LemoModel.CandCache.decode fresh [] 0 64) "shortbuf" = true := by decide


/-! ### the two seeded regressions of round 9 (witness: Set 100, then Set 300 on the same candidate) -/

def wA : Addr := [1, 2, 3, 4, 5, 6, 7, 8, 9, 10, 11, 12, 13, 14, 15, 16, 17, 18, 19, 20]

theorem toBE100 : toBE 100 = [100] := LemoProofs.C14.toBE_small (by decide) (by decide)
theorem toBE300 : toBE 300 = [1, 44] := by
  rw [LemoProofs.RlpBytes.toBE_pos (by decide)]
  have : (300 : Nat) / 256 = 1 := by decide
  rw [this, LemoProofs.C14.toBE_small (by decide) (by decide)]
  rfl

theorem enc100 : encodeCand wA 100 = [214, 148, 1, 2, 3, 4, 5, 6, 7, 8, 9, 10, 11, 12, 13, 14, 15, 16, 17, 18, 19, 20, 100] := by
  simp only [encodeCand, candItem, encode, encodeList, toBE100, wA]
  decide

theorem enc300 : encodeCand wA 300 = [216, 148, 1, 2, 3, 4, 5, 6, 7, 8, 9, 10, 11, 12, 13, 14, 15, 16, 17, 18, 19, 20, 130, 1, 44] := by
  simp only [encodeCand, candItem, encode, encodeList, toBE300, wA]
  decide

def getOk (r : Out Cache) : Cache :=
  match r with
  | .ok c => c
  | _ => fresh

/-- slot 0 as both seeded variants persist it: head {Pos 0, Len 23} — the length of the FIRST encoding — over the 25-byte RLP of 300 -/
def stale64 : List UInt8 :=
  [0, 0, 0, 0, 23, 0, 0, 0] ++ [216, 148, 1, 2, 3, 4, 5, 6, 7, 8, 9, 10, 11, 12, 13, 14, 15, 16, 17, 18, 19, 20, 130, 1, 44]
    ++ List.replicate 31 0

def staleFile : List UInt8 := le32 72 ++ le32 1 ++ le32 0 ++ [0, 0] ++ le32 2 ++ le32 64 ++ stale64

def okNil : Out (List (Addr × Nat)) → Bool
  | .ok [] => true
  | _ => false

set_option maxRecDepth 100000 in
theorem seedA_persist : persist (getOk (setSeed .noHead (getOk (LemoModel.CandCache.set fresh wA 100)) wA 300)) = stale64 := by
  simp only [LemoModel.CandCache.set, setSeed, enc100, enc300]
  decide

set_option maxRecDepth 100000 in
theorem seedB_persist : persist (getOk (setSeed .lateLen (getOk (LemoModel.CandCache.set fresh wA 100)) wA 300)) = stale64 := by
  simp only [LemoModel.CandCache.set, setSeed, enc100, enc300]
  decide

/-! the hand-typed `staleFile` IS the file `Flush` (time stamp 0) writes from the seeded cache (links conjunct 1 and
    conjunct 2 of the two seed refutations; `setSeed` itself is never driven by the harness: it matches the seeded
    patches C08i / C10i by reading) -/
set_option maxRecDepth 100000 in
theorem seedA_file : flushFile (getOk (setSeed .noHead (getOk (LemoModel.CandCache.set fresh wA 100)) wA 300)) 0 = staleFile := by
  simp only [LemoModel.CandCache.set, setSeed, enc100, enc300]
  decide

set_option maxRecDepth 100000 in
theorem seedB_file : flushFile (getOk (setSeed .lateLen (getOk (LemoModel.CandCache.set fresh wA 100)) wA 300)) 0 = staleFile := by
  simp only [LemoModel.CandCache.set, setSeed, enc100, enc300]
  decide

set_option maxRecDepth 100000 in
theorem stale_open_empty : okNil (openList staleFile) = true := by decide

theorem witness_fits : OpsFit [.set wA 100, .set wA 300] := by
  refine ⟨⟨rfl, ?_⟩, ⟨rfl, ?_⟩, trivial⟩
  · rw [enc100]; decide
  · rw [enc300]; decide

/-- the code AS IT IS on the same witness: the restarted cache lists 300 -/
theorem witness_current : ∃ c c', run fresh [.set wA 100, .set wA 300] = .ok c ∧ reload c = .ok c'
    ∧ getCandidates c' = .ok [(wA, 300)] := by
  obtain ⟨c, c', h1, _, h3, h4⟩ := decode_after_sets [.set wA 100, .set wA 300] witness_fits (by decide)
  exact ⟨c, c', h1, h3, by simpa [content, put] using h4⟩

/-- **seed A (update does not rewrite the slot head) refuted**: after Set 100, Set 300 the persisted slot keeps Len = 23 over a
    25-byte payload; on the file with that slot Decode fails at slot 0, load ignores the error, and NewChainDataBase gets
    an EMPTY candidate list without any error (`openList staleFile = ok []`) — while the code as it is lists (wA, 300) -/
theorem seed_noHead_refuted :
    persist (getOk (setSeed .noHead (getOk (LemoModel.CandCache.set fresh wA 100)) wA 300)) = stale64
    ∧ okNil (openList staleFile) = true
    ∧ (∃ c c', run fresh [.set wA 100, .set wA 300] = .ok c ∧ reload c = .ok c' ∧ getCandidates c' = .ok [(wA, 300)]) :=
  ⟨seedA_persist, stale_open_empty, witness_current⟩

/-- **seed B (`pos.Len` updated after the head write) refuted**: the same persisted bytes, the same silent loss -/
theorem seed_lateLen_refuted :
    persist (getOk (setSeed .lateLen (getOk (LemoModel.CandCache.set fresh wA 100)) wA 300)) = stale64
    ∧ okNil (openList staleFile) = true
    ∧ (∃ c c', run fresh [.set wA 100, .set wA 300] = .ok c ∧ reload c = .ok c' ∧ getCandidates c' = .ok [(wA, 300)]) :=
  ⟨seedB_persist, stale_open_empty, witness_current⟩

end LemoProofs.C10Cache

/-
  C11 — A candidate's votes equal deposit votes plus its current voters' balance votes.

  Model: `LemoModel.Ledger` (doVote = CallVoteTx + modifyCandidateVotes, doRegister = register / top-up /
  unregister, votesByBalance = ChangeVotesByBalance at Finalize).  Tied by `hx c11` / `hx c05`: the real
  engine and the model agree on every account's votes, voteFor, profile and balance after every block —
  including on the blocks where the tally is wrong.

  Full statement (kept visible): after EVERY block, for every registered candidate c,
      votes c = ⌊deposit c / 100 LEMO⌋ + Σ_{v : voteFor v = c} ⌊balance v / 200 LEMO⌋ .

  * REFUTED on the code as it stands — `negative_votes_refuted` ("no vote count is ever negative": −1 in the model state),
    `unregistered_has_votes_refuted` / `blank_flag_refuted` / `flag_overwritten_by_update_refuted` ("an unregistered
    candidate has zero votes": the isCandidate flag of a RegisterTx is never validated — model `isCand` has FOUR states), and
    `tally_refuted`: a voter whose balance crosses a 200-LEMO boundary
    earlier in the block in which it votes is counted twice (the vote tx uses the mid-block balance, the
    end-of-block pass re-applies the change since block start).  Known finding c11/tally-mismatch/block-with-vote-tx.
  * proved for all states: `pass_formula` (what the end-of-block pass adds to each candidate, for every
    address list), `revote_moves_weight`, `register_sets_deposit_votes`, `unregister_zeroes`,
    `topup_adds_floor_difference`, and `tally_kept_by_balance_only_block_partial` (the invariant is
    preserved by the pass when nobody's voteFor / candidacy changed in the block).
  * whole blocks and histories WITHOUT a hypothesis on the post-transaction state: `mine_transfers_frame`,
    `transfer_block_keeps_tally`, `transfer_history_keeps_tally` (blocks of transfers, any height, induction over histories).
  * REWARD BLOCKS (Finalize = term reward, deposit refunds, THEN the vote pass): `finalize_keeps_tally_partial` —
    under the same guard the tally is exact after Finalize of ANY block, with respect to the POST-reward,
    POST-refund balances of the voters (a deputy's income address that received its salary, an unregistered
    candidate that got its deposit back); `finalize_changes_votes_only_by_pass` (reward and refunds touch nobody's
    votes / voteFor / candidacy).  The ORDER is what makes it true: `votes_before_reward_refuted` — a MUTANT OF THE MODEL
    (switch `votesLast := false`), not a refutation of the code: with the vote pass run BEFORE issueTermReward /
    refundCandidateDeposit the salaries and refunds of the reward block never become votes (the code as it stands passes).
-/
import LemoProofs.C01
import LemoProofs.Lemmas.LedgerFrame
namespace LemoProofs.C11
open LemoModel.Ledger LemoProofs.C01

/-- Σ_{a ∈ l} (what iteration `a` adds to account `x`) -/
def passDelta (c : Ctx) (start : Nat → Int) (s : St) : List Nat → Nat → Int
  | [], _ => 0
  | a :: as, x => stepDelta c start s a x + passDelta c start s as x

theorem addVotes_zero (s : St) : addVotes s (fun _ => 0) = s := by
  unfold addVotes
  have : (fun x => ({ s.accts x with votes := (s.accts x).votes + 0 } : Acct)) = s.accts := by
    funext x; exact acct_votes_add_zero _
  rw [this]

theorem passDelta_addVotes (c : Ctx) (start : Nat → Int) (s : St) (δ : Nat → Int) :
    ∀ l, passDelta c start (addVotes s δ) l = passDelta c start s l := by
  intro l
  induction l with
  | nil => rfl
  | cons a as ih => funext x; simp only [passDelta, stepDelta_addVotes, ih]

/-- **pass_formula**: for every state and every address list, ChangeVotesByBalance adds to each account
    exactly the sum of the per-voter deltas — nothing else changes. -/
theorem pass_formula (c : Ctx) (start : Nat → Int) : ∀ (l : List Nat) (s : St),
    votesByBalance c start s l = addVotes s (passDelta c start s l) := by
  intro l
  induction l with
  | nil => intro s; simp only [votesByBalance]; exact (addVotes_zero s).symm
  | cons a as ih =>
    intro s
    have h1 : votesByBalance c start s (a :: as) = votesByBalance c start (voteStep c start s a) as := by
      simp only [votesByBalance, voteStep]
    rw [h1, ih, voteStep_eq, passDelta_addVotes, addVotes_addVotes]
    rfl

/-- the delta one voter contributes: ⌊end balance / rate⌋ − ⌊start balance / rate⌋, to its CURRENT candidate -/
theorem stepDelta_val (c : Ctx) (start : Nat → Int) (s : St) (a x : Nat)
    (hx : (s.accts a).voteFor = x) (hx0 : x ≠ 0) (hc : (s.accts x).isCand = 1) :
    stepDelta c start s a x = (s.accts a).bal / c.p.voteRate - start a / c.p.voteRate := by
  unfold stepDelta
  subst hx
  by_cases hd : (s.accts a).bal / c.p.voteRate - start a / c.p.voteRate = 0
  · simp [hd]
  · simp [hd, hx0, hc]

theorem stepDelta_other (c : Ctx) (start : Nat → Int) (s : St) (a x : Nat) (hx : (s.accts a).voteFor ≠ x) :
    stepDelta c start s a x = 0 := by
  unfold stepDelta
  have : ¬ ((((s.accts a).bal / c.p.voteRate - start a / c.p.voteRate ≠ 0 ∧ (s.accts a).voteFor ≠ 0 ∧
      (s.accts (s.accts a).voteFor).isCand = 1)) ∧ x = (s.accts a).voteFor) := fun h => hx h.2.symm
  rw [if_neg this]

/-- Σ over the voters in `V` that vote for `x` of ⌊f v / rate⌋ -/
def voterSum (rate : Int) (voteFor : Nat → Nat) (f : Nat → Int) (x : Nat) : List Nat → Int
  | [] => 0
  | v :: vs => (if voteFor v = x then f v / rate else 0) + voterSum rate voteFor f x vs

theorem passDelta_voterSum (c : Ctx) (start : Nat → Int) (s : St) (x : Nat) (hx0 : x ≠ 0)
    (hc : (s.accts x).isCand = 1) : ∀ V : List Nat,
    passDelta c start s V x =
      voterSum c.p.voteRate (fun v => (s.accts v).voteFor) (fun v => (s.accts v).bal) x V -
      voterSum c.p.voteRate (fun v => (s.accts v).voteFor) start x V := by
  intro V
  induction V with
  | nil => simp [passDelta, voterSum]
  | cons v vs ih =>
    simp only [passDelta, voterSum, ih]
    by_cases hv : (s.accts v).voteFor = x
    · rw [stepDelta_val c start s v x hv hx0 hc]; simp only [hv, if_true]; omega
    · rw [stepDelta_other c start s v x hv]; simp only [hv, if_false]; omega

/-- **tally_kept_by_balance_only_block_partial**: let `s` be the state just before the end-of-block pass
    of a block in which nobody's voteFor / candidacy / deposit changed (only balances moved), `start` the
    balances when the block began, `V` any list containing the voters.  If the tally of candidate `x`
    was exact at block start, it is exact after the pass. -/
theorem tally_kept_by_balance_only_block_partial (c : Ctx) (start : Nat → Int) (s : St) (V : List Nat)
    (x : Nat) (hx0 : x ≠ 0) (hc : (s.accts x).isCand = 1) (dep : Int)
    (hstart : (s.accts x).votes = dep / c.p.depositRate +
        voterSum c.p.voteRate (fun v => (s.accts v).voteFor) start x V) :
    ((votesByBalance c start s V).accts x).votes = dep / c.p.depositRate +
        voterSum c.p.voteRate (fun v => (s.accts v).voteFor) (fun v => (s.accts v).bal) x V := by
  rw [pass_formula]
  simp only [addVotes]
  rw [passDelta_voterSum c start s x hx0 hc V, hstart]
  omega

/-! ### Finalize of any block, reward blocks included -/

open LemoProofs.LedgerReward in
/-- the vote pass changes nothing but vote counts -/
theorem votesByBalance_frame (c : Ctx) (start : Nat → Int) (s : St) (l : List Nat) (x : Nat) :
    ((votesByBalance c start s l).accts x).voteFor = (s.accts x).voteFor ∧
    ((votesByBalance c start s l).accts x).bal = (s.accts x).bal ∧
    ((votesByBalance c start s l).accts x).isCand = (s.accts x).isCand ∧
    ((votesByBalance c start s l).accts x).deposit = (s.accts x).deposit := by
  rw [pass_formula]
  simp [addVotes]

open LemoProofs.LedgerReward in
/-- **finalize_changes_votes_only_by_pass**: the term reward and the refunds of a reward block change nobody's
    vote count, voteFor or candidacy — whatever `Finalize` does to a vote count, the vote pass did it. -/
theorem finalize_changes_votes_only_by_pass (c : Ctx) (s : St) (x : Nat) :
    ((rewardSteps c s).accts x).votes = (s.accts x).votes ∧
    ((rewardSteps c s).accts x).voteFor = (s.accts x).voteFor ∧
    ((rewardSteps c s).accts x).isCand = (s.accts x).isCand := by
  have h := rewardSteps_frame c s x
  exact ⟨h.2.1, h.1, h.2.2.1⟩

theorem voterSum_congr (rate : Int) (vf vf' : Nat → Nat) (f f' : Nat → Int) (x : Nat)
    (h1 : ∀ v, vf v = vf' v) (h2 : ∀ v, f v = f' v) : ∀ V, voterSum rate vf f x V = voterSum rate vf' f' x V := by
  intro V
  induction V with
  | nil => rfl
  | cons v vs ih => simp only [voterSum, ih, h1 v, h2 v]

open LemoProofs.LedgerReward in
/-- **finalize_keeps_tally_partial** (the end-of-block statement for EVERY height, reward blocks included; the code
    as it stands: `votesLast = true`).  Let `s` be the state after the transactions and the miner's fee of a block
    in which nobody's voteFor / candidacy / deposit changed (the same guard as for balance-only blocks), `start` the
    balances when the block began, `V` any list containing the voters, `x` a registered candidate with deposit `dep`
    that is not on the refund list (the list only holds UNregistered candidates).  If the tally of `x` was exact at
    block start, then after `Finalize` — term reward paid, deposits refunded, vote pass — it is exact with respect to
    the FINAL balances: the salaries and refunds of the block count as votes of the candidates their receivers vote for. -/
theorem finalize_keeps_tally_partial (c : Ctx) (hvl : c.votesLast = true) (start : Nat → Int) (s : St) (V : List Nat)
    (x : Nat) (hx0 : x ≠ 0) (hc : (s.accts x).isCand = 1) (dep : Int) (hdep : (s.accts x).deposit = some dep)
    (hnr : x ∉ c.rf.refunds)
    (hstart : (s.accts x).votes = dep / c.p.depositRate +
        voterSum c.p.voteRate (fun v => (s.accts v).voteFor) start x V) :
    ((finalize c start s V).accts x).votes = dep / c.p.depositRate +
        voterSum c.p.voteRate (fun v => ((finalize c start s V).accts v).voteFor)
          (fun v => ((finalize c start s V).accts v).bal) x V ∧
    ((finalize c start s V).accts x).isCand = 1 ∧ ((finalize c start s V).accts x).deposit = some dep := by
  unfold finalize
  rw [if_pos hvl]
  have hf := fun v => rewardSteps_frame c s v
  have hc2 : ((rewardSteps c s).accts x).isCand = 1 := by rw [(hf x).2.2.1]; exact hc
  have hstart2 : ((rewardSteps c s).accts x).votes = dep / c.p.depositRate +
      voterSum c.p.voteRate (fun v => ((rewardSteps c s).accts v).voteFor) start x V := by
    rw [(hf x).2.1, hstart]
    congr 1
    exact voterSum_congr _ _ _ _ _ x (fun v => ((hf v).1).symm) (fun _ => rfl) V
  have key := tally_kept_by_balance_only_block_partial c start (rewardSteps c s) V x hx0 hc2 dep hstart2
  have hfr := fun v => votesByBalance_frame c start (rewardSteps c s) V v
  refine ⟨?_, ?_, ?_⟩
  · rw [key]
    congr 1
    exact voterSum_congr _ _ _ _ _ x (fun v => ((hfr v).1).symm) (fun v => ((hfr v).2.1).symm) V
  · rw [(hfr x).2.2.1]; exact hc2
  · rw [(hfr x).2.2.2, rewardSteps_deposit_other c s x hnr]; exact hdep

/-- **empty_block_keeps_tally**: a block without transactions — at ANY height, a reward block included, for ALL
    states, reward facts and refund lists — keeps the tally of every registered candidate (not on the refund list)
    exact: whatever the term reward and the refunds add to the voters' balances is added to the candidate's votes. -/
theorem empty_block_keeps_tally (c : Ctx) (hvl : c.votesLast = true) (s : St) (gp : Nat) (V : List Nat)
    (x : Nat) (hx0 : x ≠ 0) (hc : (s.accts x).isCand = 1) (dep : Int) (hdep : (s.accts x).deposit = some dep)
    (hnr : x ∉ c.rf.refunds)
    (htally : (s.accts x).votes = dep / c.p.depositRate +
        voterSum c.p.voteRate (fun v => (s.accts v).voteFor) (fun v => (s.accts v).bal) x V) :
    ((mineBlock c s gp [] V).1.accts x).votes = dep / c.p.depositRate +
        voterSum c.p.voteRate (fun v => ((mineBlock c s gp [] V).1.accts v).voteFor)
          (fun v => ((mineBlock c s gp [] V).1.accts v).bal) x V := by
  have h : (mineBlock c s gp [] V).1 = finalize c (fun a => (s.accts a).bal) s V := by
    simp [mineBlock, mine, chargeForGas]
  rw [h]
  exact (finalize_keeps_tally_partial c hvl _ s V x hx0 hc dep hdep hnr htally).1

/-! ### blocks of transfers: the guard of `finalize_keeps_tally_partial` derived, and whole histories -/

open LemoProofs.LedgerReward in
/-- a transfer tx (successful or not is decided by `applySimple`) changes balances only -/
theorem applySimple_transfer_frame (c : Ctx) (s s' : St) (gp gp' g : Nat) (t : Tx) (to : Nat) (v : Int)
    (hk : t.kind = .transfer to v) (h : applySimple c s gp t = .ok (s', gp', g)) (x : Nat) :
    sameButBal (s'.accts x) (s.accts x) := by
  unfold applySimple at h
  simp only at h
  split at h; · cases h
  split at h; · cases h
  split at h; · cases h
  split at h; · cases h
  split at h; · cases h
  split at h; · cases h
  rename_i sb hb
  injection h with h
  injection h with h1 _
  subst h1
  have hbody : sameButBal (sb.accts x) ((setBal s t.payer ((s.accts t.payer).bal - (t.gasLimit : Int) * t.gasPrice)).accts x) := by
    unfold body at hb
    simp only [hk] at hb
    split at hb; · cases hb
    split at hb
    · injection hb with hb; subst hb; exact sameButBal_refl _
    · injection hb with hb; subst hb; exact transfer_sameButBal _ _ _ _ x
  exact sameButBal_trans (setBal_sameButBal _ _ _ x) (sameButBal_trans hbody (setBal_sameButBal _ _ _ x))

/-- every candidate tx of the list is a plain transfer -/
def TransferOnly (txs : List Tx) : Prop := ∀ t ∈ txs, ∃ to v, t.kind = .transfer to v

open LemoProofs.LedgerReward in
/-- **mine_transfers_frame**: whatever the miner selects or discards from a list of transfers (any gas pool), nobody's
    votes, voteFor, candidacy flag, deposit, income address or signers change — only balances. -/
theorem mine_transfers_frame (c : Ctx) : ∀ (txs : List Tx) (s : St) (gp : Nat), TransferOnly txs →
    ∀ x, sameButBal ((mine c s gp txs).st.accts x) (s.accts x) := by
  intro txs
  induction txs with
  | nil => intro s gp _ x; simp only [mine]; exact sameButBal_refl _
  | cons t ts ih =>
    intro s gp htr x
    have htr' : TransferOnly ts := fun y hy => htr y (List.mem_cons_of_mem _ hy)
    obtain ⟨to, v, hk⟩ := htr t List.mem_cons_self
    unfold mine
    by_cases hg : gp < LemoGen.Gas.OrdinaryTxGas
    · simp only [hg, if_true]; exact sameButBal_refl _
    · simp only [hg, if_false]
      have hnb : applyTx c s gp t = applySimple c s gp t := by
        unfold applyTx; rw [hk]
      rw [hnb]
      cases ha : applySimple c s gp t with
      | error e =>
        obtain ⟨e, gp'⟩ := e
        simp only []
        exact ih s gp' htr' x
      | ok r =>
        obtain ⟨s1, gp1, g1⟩ := r
        simp only []
        exact sameButBal_trans (ih s1 gp1 htr' x) (applySimple_transfer_frame c s s1 gp gp1 g1 t to v hk ha x)

open LemoProofs.LedgerReward in
/-- **transfer_block_keeps_tally**: the per-block invariant WITHOUT a hypothesis about the post-transaction state:
    if the tally of a registered candidate `x` (deposit `dep`, not on the refund list) is exact when a block begins,
    and the block's candidate transactions are transfers (any number, valid or failing, any gas limit, any fee, any
    height — reward blocks with salaries and refunds included), the tally is exact when the block ends, and `x` is
    still registered with the same deposit. -/
theorem transfer_block_keeps_tally (c : Ctx) (hvl : c.votesLast = true) (s : St) (gp : Nat) (txs : List Tx)
    (htr : TransferOnly txs) (V : List Nat)
    (x : Nat) (hx0 : x ≠ 0) (hc : (s.accts x).isCand = 1) (dep : Int) (hdep : (s.accts x).deposit = some dep)
    (hnr : x ∉ c.rf.refunds)
    (htally : (s.accts x).votes = dep / c.p.depositRate +
        voterSum c.p.voteRate (fun v => (s.accts v).voteFor) (fun v => (s.accts v).bal) x V) :
    ((mineBlock c s gp txs V).1.accts x).votes = dep / c.p.depositRate +
        voterSum c.p.voteRate (fun v => ((mineBlock c s gp txs V).1.accts v).voteFor)
          (fun v => ((mineBlock c s gp txs V).1.accts v).bal) x V ∧
    ((mineBlock c s gp txs V).1.accts x).isCand = 1 ∧ ((mineBlock c s gp txs V).1.accts x).deposit = some dep := by
  have hfr : ∀ y, sameButBal ((chargeForGas (mine c s gp txs).st c.miner (mine c s gp txs).fee).accts y) (s.accts y) :=
    fun y => sameButBal_trans (chargeForGas_sameButBal _ _ _ y) (mine_transfers_frame c txs s gp htr y)
  have h : (mineBlock c s gp txs V).1 =
      finalize c (fun a => (s.accts a).bal) (chargeForGas (mine c s gp txs).st c.miner (mine c s gp txs).fee) V := rfl
  rw [h]
  apply finalize_keeps_tally_partial c hvl _ _ V x hx0
  · rw [(hfr x).1.2.2.1]; exact hc
  · rw [(hfr x).2]; exact hdep
  · exact hnr
  · rw [(hfr x).1.2.1, htally]
    congr 1
    exact voterSum_congr _ _ _ _ _ x (fun v => ((hfr v).1.1).symm) (fun _ => rfl) V

/-- a history: blocks (context, gas limit, candidate txs) executed one after the other on the miner path -/
def runBlocks (V : List Nat) : St → List (Ctx × Nat × List Tx) → St
  | s, [] => s
  | s, (c, gp, txs) :: bs => runBlocks V (mineBlock c s gp txs V).1 bs

/-- **transfer_history_keeps_tally**: induction over histories — any number of blocks of transfers, at any heights
    (reward blocks included), with any reward facts that never list `x` for a refund: a tally that is exact at the
    beginning is exact after every block of the history. -/
theorem transfer_history_keeps_tally (V : List Nat) (p : Params) (x : Nat) (hx0 : x ≠ 0) (dep : Int) :
    ∀ (bs : List (Ctx × Nat × List Tx)) (s : St),
    (∀ b ∈ bs, b.1.votesLast = true ∧ b.1.p = p ∧ TransferOnly b.2.2 ∧ x ∉ b.1.rf.refunds) →
    (s.accts x).isCand = 1 → (s.accts x).deposit = some dep →
    (s.accts x).votes = dep / p.depositRate +
        voterSum p.voteRate (fun v => (s.accts v).voteFor) (fun v => (s.accts v).bal) x V →
    ((runBlocks V s bs).accts x).votes = dep / p.depositRate +
        voterSum p.voteRate (fun v => ((runBlocks V s bs).accts v).voteFor)
          (fun v => ((runBlocks V s bs).accts v).bal) x V := by
  intro bs
  induction bs with
  | nil => intro s _ _ _ h; exact h
  | cons b bs ih =>
    intro s hall hc hdep htally
    obtain ⟨c, gp, txs⟩ := b
    obtain ⟨hvl, hp, htr, hnr⟩ := hall (c, gp, txs) List.mem_cons_self
    simp only at hvl hp htr hnr
    subst hp
    obtain ⟨h1, h2, h3⟩ := transfer_block_keeps_tally c hvl s gp txs htr V x hx0 hc dep hdep hnr htally
    simp only [runBlocks]
    exact ih _ (fun b hb => hall b (List.mem_cons_of_mem _ hb)) h2 h3 h1

/-! ### "an unregistered candidate has zero votes" — PROVED on the code as it stands (flag check of fix cdfc5bc on) -/

/-- every stored flag is absent/"" (0), "true" (1) or "false" (2), and only a REGISTERED candidate holds votes -/
def FlagInv (s : St) : Prop := ∀ a, (s.accts a).isCand ≤ 2 ∧ ((s.accts a).isCand ≠ 1 → (s.accts a).votes = 0)

open LemoProofs.LedgerReward in
theorem FlagInv_of_frame (s s' : St) (h : ∀ x, sameButBalDep (s'.accts x) (s.accts x)) (hI : FlagInv s) : FlagInv s' := by
  intro a
  rw [(h a).2.2.1, (h a).2.1]
  exact hI a

/-- an account update that keeps flag and votes -/
theorem FlagInv_modKeep (s : St) (a : Nat) (f : Acct → Acct) (hf : ∀ y, (f y).isCand = y.isCand ∧ (f y).votes = y.votes)
    (hI : FlagInv s) : FlagInv (modAcct s a f) := by
  intro x
  unfold modAcct upd
  by_cases e : x = a
  · subst e; simp only [if_true]; rw [(hf _).1, (hf _).2]; exact hI x
  · simp only [e, if_false]; exact hI x

/-- an update of the VOTES of a registered candidate -/
theorem FlagInv_modVotes (s : St) (a : Nat) (f : Acct → Acct) (hf : ∀ y, (f y).isCand = y.isCand)
    (h1 : (s.accts a).isCand = 1) (hI : FlagInv s) : FlagInv (modAcct s a f) := by
  intro x
  unfold modAcct upd
  by_cases e : x = a
  · subst e; simp only [if_true]; rw [(hf _)]; exact ⟨by omega, fun hne => absurd h1 hne⟩
  · simp only [e, if_false]; exact hI x

theorem modAcct_isCand_keep (s : St) (a : Nat) (f : Acct → Acct) (hf : ∀ y, (f y).isCand = y.isCand) (x : Nat) :
    ((modAcct s a f).accts x).isCand = (s.accts x).isCand := by
  unfold modAcct upd
  by_cases e : x = a
  · subst e; simp [hf]
  · simp [e]

/-- an update that SETS the flag to "true" (whatever it does to the votes) -/
theorem FlagInv_modTo1 (s : St) (a : Nat) (f : Acct → Acct) (hf : ∀ y, (f y).isCand = 1) (hI : FlagInv s) :
    FlagInv (modAcct s a f) := by
  intro x
  unfold modAcct upd
  by_cases e : x = a
  · subst e; simp only [if_true]; rw [hf]; exact ⟨by omega, fun hne => absurd rfl hne⟩
  · simp only [e, if_false]; exact hI x

theorem doVote_flagInv (c : Ctx) (s s' : St) (v cand : Nat) (ib : Int) (hI : FlagInv s)
    (h : doVote c s v cand ib = .ok s') : FlagInv s' := by
  unfold doVote at h
  simp only at h
  split at h; · cases h
  rename_i hcand
  split at h; · cases h
  injection h with h; subst h
  have hc1 : (s.accts cand).isCand = 1 := by have := (hI cand).1; omega
  refine FlagInv_modKeep _ _ _ ?_ ?_
  · intro _; exact ⟨rfl, rfl⟩
  · split
    · exact hI
    · split
      · rename_i hold
        refine FlagInv_modVotes _ _ _ ?_ ?_ ?_
        · intro _; rfl
        · simp only [modAcct, upd]; split <;> simp_all
        · refine FlagInv_modVotes _ _ _ ?_ hold.2 hI
          intro _; rfl
      · refine FlagInv_modVotes _ _ _ ?_ hc1 hI
        intro _; rfl

open LemoProofs.LedgerReward in
theorem doRegister_flagInv (c : Ctx) (hfc : c.flagCheck = true) (s s' : St) (fr : Nat) (amt : Int) (flag inc : Nat) (nd : Bool)
    (px : TxProfile) (hI : FlagInv s) (h : doRegister c s fr amt flag inc nd px = .ok s') : FlagInv s' := by
  unfold doRegister at h
  simp only [depositAfterOverlay_true, hfc, true_and] at h
  split at h; · cases h
  rename_i hvalid
  split at h
  · -- first registration: the flag is "true"
    split at h; · cases h
    rename_i hn2
    split at h; · cases h
    split at h; · cases h
    injection h with h; subst h
    have hflag : flag = 1 := by omega
    subst hflag
    refine FlagInv_modVotes _ _ _ ?_ ?_ ?_
    · intro _; rfl
    · rw [(transfer_sameButBal _ fr c.p.pool amt fr).1.2.2.1]
      simp [modAcct, upd]
    · refine FlagInv_of_frame _ _ (fun x => (transfer_sameButBal _ _ _ _ x).1) ?_
      refine FlagInv_modTo1 _ _ _ ?_ hI
      intro _; rfl
  · split at h; · cases h
    split at h; · cases h
    rename_i hn0 hn2c h1'
    have hs1 : (s.accts fr).isCand = 1 := Decidable.of_not_not h1'
    split at h
    · -- unregister
      have hI2 : FlagInv (modAcct s fr (fun a => { a with isCand := 2, votes := 0 })) := by
        intro x
        unfold modAcct upd
        by_cases e : x = fr
        · subst e; simp
        · simp only [e, if_false]; exact hI x
      split at h
      · injection h with h; subst h; exact hI2
      · split at h
        · injection h with h; subst h; exact hI2
        · injection h with h; subst h
          exact FlagInv_of_frame _ _ (fun x => refund_frame c _ fr x) hI2
    · -- update: the flag is "true"
      rename_i hnf2
      have hflag : flag = 1 := by omega
      subst hflag
      split at h
      · split at h; · cases h
        split at h; · cases h
        injection h with h; subst h
        refine FlagInv_modTo1 _ _ _ ?_ ?_
        · intro _; rfl
        · exact FlagInv_of_frame _ _ (fun x => (transfer_sameButBal s fr c.p.pool amt x).1) hI
      · injection h with h; subst h
        refine FlagInv_modTo1 _ _ _ ?_ hI
        intro _; rfl

open LemoProofs.LedgerReward in
theorem applySimple_flagInv (c : Ctx) (hfc : c.flagCheck = true) (s s' : St) (gp gp' g : Nat) (tx : Tx) (hI : FlagInv s)
    (h : applySimple c s gp tx = .ok (s', gp', g)) : FlagInv s' := by
  obtain ⟨sb, hb, hs', _, _⟩ := LemoProofs.LedgerFrame.applySimple_shape c s s' gp gp' g tx h
  subst hs'
  apply FlagInv_of_frame _ _ (fun x => (setBal_sameButBal _ _ _ x).1)
  have h1 : FlagInv (setBal s tx.payer ((s.accts tx.payer).bal - (tx.gasLimit : Int) * tx.gasPrice)) :=
    FlagInv_of_frame _ _ (fun x => (setBal_sameButBal _ _ _ x).1) hI
  unfold body at hb
  cases hk : tx.kind with
  | transfer to v =>
    simp only [hk] at hb
    split at hb; · cases hb
    split at hb
    · injection hb with hb; subst hb; exact h1
    · injection hb with hb; subst hb
      exact FlagInv_of_frame _ _ (fun x => (transfer_sameButBal _ _ _ _ x).1) h1
  | vote cand => simp only [hk] at hb; exact doVote_flagInv c _ sb _ _ _ h1 hb
  | register amt flag inc nd px => simp only [hk] at hb; exact doRegister_flagInv c hfc _ sb _ _ _ _ _ _ h1 hb
  | setSigners tg l tok =>
    simp only [hk] at hb
    unfold doSetSigners at hb
    split at hb; · cases hb
    split at hb; · cases hb
    split at hb; · cases hb
    split at hb; · cases hb
    split at hb; · cases hb
    split at hb; · cases hb
    injection hb with hb; subst hb
    exact FlagInv_modKeep _ _ _ (fun _ => ⟨rfl, rfl⟩) h1
  | box => simp [hk] at hb
  | other => simp [hk] at hb

theorem applySubs_flagInv (c : Ctx) (hfc : c.flagCheck = true) : ∀ (ts : List Tx) (s s' : St) (gp gp' g : Nat) (f : Int),
    FlagInv s → applySubs c s gp ts = .ok (s', gp', g, f) → FlagInv s' := by
  intro ts
  induction ts with
  | nil =>
    intro s s' gp gp' g f hI h
    simp only [applySubs] at h
    injection h with h; injection h with h1 _
    subst h1; exact hI
  | cons t ts ih =>
    intro s s' gp gp' g f hI h
    simp only [applySubs] at h
    cases h1 : applySimple c s gp t with
    | error e => simp [h1] at h
    | ok r =>
      obtain ⟨s1, gp1, g1⟩ := r
      simp only [h1] at h
      cases h2 : applySubs c s1 gp1 ts with
      | error e => simp [h2] at h
      | ok r2 =>
        obtain ⟨s2, gp2, g2, f2⟩ := r2
        simp only [h2] at h
        injection h with h; injection h with a1 _
        subst a1
        exact ih s1 s2 gp1 gp2 g2 f2 (applySimple_flagInv c hfc s s1 gp gp1 g1 t hI h1) h2

open LemoProofs.LedgerReward in
theorem applyTx_flagInv (c : Ctx) (hfc : c.flagCheck = true) (s s' : St) (gp gp' g : Nat) (tx : Tx) (hI : FlagInv s)
    (h : applyTx c s gp tx = .ok (s', gp', g)) : FlagInv s' := by
  unfold applyTx at h
  split at h
  · simp only at h
    split at h; · cases h
    split at h; · cases h
    split at h; · cases h
    split at h; · cases h
    split at h; · cases h
    split at h; · cases h
    rename_i s2 gp2 sg sf hsub
    injection h with h
    injection h with h1 _
    subst h1
    apply FlagInv_of_frame _ _ (fun x => (setBal_sameButBal _ _ _ x).1)
    apply FlagInv_of_frame _ _ (fun x => (chargeForGas_sameButBal _ _ _ x).1)
    exact applySubs_flagInv c hfc tx.subs _ s2 _ gp2 sg sf
      (FlagInv_of_frame _ _ (fun x => (setBal_sameButBal _ _ _ x).1) hI) hsub
  · exact applySimple_flagInv c hfc s s' gp gp' g tx hI h

theorem mine_flagInv (c : Ctx) (hfc : c.flagCheck = true) : ∀ (txs : List Tx) (s : St) (gp : Nat),
    FlagInv s → FlagInv (mine c s gp txs).st := by
  intro txs
  induction txs with
  | nil => intro s gp hI; simp only [mine]; exact hI
  | cons t ts ih =>
    intro s gp hI
    unfold mine
    by_cases hg : gp < LemoGen.Gas.OrdinaryTxGas
    · simp only [hg, if_true]; exact hI
    · simp only [hg, if_false]
      cases ha : applyTx c s gp t with
      | error e => obtain ⟨e, gp'⟩ := e; simp only []; exact ih s gp' hI
      | ok r =>
        obtain ⟨s1, gp1, g1⟩ := r
        simp only []
        exact ih s1 gp1 (applyTx_flagInv c hfc s s1 gp gp1 g1 t hI ha)

theorem votesByBalance_flagInv (c : Ctx) (start : Nat → Int) : ∀ (l : List Nat) (s : St), FlagInv s →
    FlagInv (votesByBalance c start s l) := by
  intro l
  induction l with
  | nil => intro s hI; exact hI
  | cons a as ih =>
    intro s hI
    unfold votesByBalance
    simp only
    apply ih
    split
    · rename_i hcond
      intro x
      simp only [upd]
      by_cases e : x = (s.accts a).voteFor
      · subst e; simp only [if_true]; exact ⟨by omega, fun hne => absurd hcond.2.2 hne⟩
      · simp only [e, if_false]; exact hI x
    · exact hI

open LemoProofs.LedgerReward in
/-- **unregistered_zero_votes_block**: on the code as it stands (flag check on), for ALL states satisfying `FlagInv`, all
    candidate lists (every modelled kind, boxes, failing txs), gas limits, heights (reward blocks included) and facts:
    after the block every stored flag is still absent / "true" / "false", and every account that is NOT a registered
    candidate — never registered, or UNREGISTERED — has zero votes. -/
theorem unregistered_zero_votes_block (c : Ctx) (hfc : c.flagCheck = true) (s : St) (hI : FlagInv s) (gp : Nat)
    (txs : List Tx) (addrs : List Nat) :
    FlagInv (mineBlock c s gp txs addrs).1 ∧
    (∀ a, ((mineBlock c s gp txs addrs).1.accts a).isCand = 2 → ((mineBlock c s gp txs addrs).1.accts a).votes = 0) := by
  have h1 : FlagInv (chargeForGas (mine c s gp txs).st c.miner (mine c s gp txs).fee) :=
    FlagInv_of_frame _ _ (fun x => (chargeForGas_sameButBal _ _ _ x).1) (mine_flagInv c hfc txs s gp hI)
  have h2 : FlagInv (mineBlock c s gp txs addrs).1 := by
    unfold mineBlock finalize
    simp only
    split
    · exact votesByBalance_flagInv c _ addrs _ (FlagInv_of_frame _ _ (fun x => rewardSteps_frame c _ x) h1)
    · exact FlagInv_of_frame _ _ (fun x => rewardSteps_frame c _ x) (votesByBalance_flagInv c _ addrs _ h1)
  exact ⟨h2, fun a ha => (h2 a).2 (by omega)⟩

/-! ### single transactions -/

/-- **revote_moves_weight**: a successful vote tx by `voter` (balance-before-tx `ib`, weight
    ex = ⌊ib/200 LEMO⌋ > 0) from a still-registered old candidate to a new one moves exactly `ex`
    (the voter may itself be the old or the new candidate). -/
theorem revote_moves_weight (c : Ctx) (s s' : St) (voter old cand : Nat) (ib : Int)
    (hold : (s.accts voter).voteFor = old) (ho0 : old ≠ 0) (hoc : (s.accts old).isCand = 1)
    (hne : old ≠ cand) (hex : 0 < ib / c.p.voteRate)
    (h : doVote c s voter cand ib = .ok s') :
    (s'.accts old).votes = (s.accts old).votes - ib / c.p.voteRate ∧
    (s'.accts cand).votes = (s.accts cand).votes + ib / c.p.voteRate ∧
    (s'.accts voter).voteFor = cand := by
  unfold doVote at h
  simp only at h
  split at h; · cases h
  split at h; · cases h
  injection h with h; subst h
  have hex' : ¬ ib / c.p.voteRate ≤ 0 := by omega
  simp only [hex', if_false, hold, ne_eq, ho0, not_false_eq_true, hoc, and_self, if_true]
  refine ⟨?_, ?_, ?_⟩
  · by_cases e1 : voter = old
    · subst e1; simp [modAcct, upd, hne, Ne.symm hne]
    · simp [modAcct, upd, hne, Ne.symm hne, e1, Ne.symm e1]
  · by_cases e1 : voter = cand
    · subst e1; simp [modAcct, upd, hne, Ne.symm hne]
    · simp [modAcct, upd, hne, Ne.symm hne, e1, Ne.symm e1]
  · simp [modAcct, upd]

/-- **register_sets_deposit_votes**: a successful FIRST registration sets votes := ⌊deposit/100 LEMO⌋ and stores the
    deposit — and stores the tx's isCandidate flag AS IT IS, whatever it says (the handler never looks at it). -/
theorem register_sets_deposit_votes (c : Ctx) (s s' : St) (fr : Nat) (amt : Int) (flag inc : Nat) (nd : Bool) (px : TxProfile)
    (h0 : (s.accts fr).isCand = 0) (hp : fr ≠ c.p.pool)
    (h : doRegister c s fr amt flag inc nd px = .ok s') :
    (s'.accts fr).votes = amt / c.p.depositRate ∧ (s'.accts fr).isCand = flag ∧ (s'.accts fr).deposit = some amt := by
  unfold doRegister at h
  simp only [depositAfterOverlay_true, h0, if_true] at h
  split at h; · cases h
  split at h; · cases h
  split at h; · cases h
  split at h; · cases h
  injection h with h; subst h
  simp [modAcct, upd, transfer, setBal, hp, Ne.symm hp]

/-- on the code as it stands (flag check on) a successful first registration carries the flag "true" -/
theorem register_flag_is_true (c : Ctx) (hfc : c.flagCheck = true) (s s' : St) (fr : Nat) (amt : Int) (flag inc : Nat) (nd : Bool)
    (px : TxProfile) (h0 : (s.accts fr).isCand = 0) (h : doRegister c s fr amt flag inc nd px = .ok s') : flag = 1 := by
  unfold doRegister at h
  simp only [depositAfterOverlay_true, h0, if_true, hfc, true_and] at h
  split at h; · cases h
  split at h; · cases h
  rename_i h1 h2
  omega

/-- **unregister_zeroes**: the unregistration of a REGISTERED candidate (stored flag "true", tx flag "false") -/
theorem unregister_zeroes (c : Ctx) (s s' : St) (fr : Nat) (amt : Int) (inc : Nat) (nd : Bool) (px : TxProfile)
    (h1 : (s.accts fr).isCand = 1) (h : doRegister c s fr amt 2 inc nd px = .ok s') :
    (s'.accts fr).votes = 0 ∧ (s'.accts fr).isCand = 2 := by
  unfold doRegister at h
  simp only [depositAfterOverlay_true, h1] at h
  simp only [show ¬ (1 : Nat) = 0 by decide, show ¬ (1 : Nat) = 2 by decide, if_false, if_true,
    ne_eq, not_true_eq_false, and_false, show ¬ (2 : Nat) = 1 by decide, not_false_eq_true, and_true] at h
  split at h
  · injection h with h; subst h; simp [modAcct, upd]
  · split at h
    · injection h with h; subst h; simp [modAcct, upd]
    · injection h with h; subst h
      unfold refund
      split
      · simp [modAcct, upd]
      · simp only [modAcct, upd, setBal]
        by_cases e : fr = c.p.pool <;> simp [e]

/-- **topup_adds_floor_difference**: a successful update tx of a registered candidate with amount > 0 adds the amount
    to the stored deposit and exactly ⌊new/100 LEMO⌋ − ⌊old/100 LEMO⌋ to its votes (the code adds the difference only
    when it is positive; with a positive rate it is never negative) — and overwrites the stored flag with the tx's. -/
theorem topup_adds_floor_difference (c : Ctx) (s s' : St) (fr : Nat) (amt : Int) (flag inc : Nat) (nd : Bool) (old : Int)
    (hr : 0 < c.p.depositRate) (h1 : (s.accts fr).isCand = 1) (hf : flag ≠ 2) (ha : 0 < amt)
    (hd : (s.accts fr).deposit = some old) (hp : fr ≠ c.p.pool) (px : TxProfile)
    (h : doRegister c s fr amt flag inc nd px = .ok s') :
    (s'.accts fr).votes = (s.accts fr).votes + ((old + amt) / c.p.depositRate - old / c.p.depositRate) ∧
    (s'.accts fr).deposit = some (old + amt) ∧ (s'.accts fr).isCand = flag := by
  unfold doRegister at h
  simp only [depositAfterOverlay_true, h1] at h
  simp only [show ¬ (1 : Nat) = 0 by decide, show ¬ (1 : Nat) = 2 by decide, if_false, hf,
    ne_eq, not_true_eq_false, ha, if_true, hd] at h
  split at h; · cases h
  split at h; · cases h
  injection h with h; subst h
  have hmono : old / c.p.depositRate ≤ (old + amt) / c.p.depositRate := Int.ediv_le_ediv hr (by omega)
  simp only [modAcct, upd, if_true, transfer, setBal, hp, Ne.symm hp, if_false, and_true]
  split <;> omega

/-! ### refutation of the full statement (kernel-checked witness) -/

/-- candidate 20 (registered, deposit 1000 units), voter 21 with balance 150, rate 200/100 for readability;
    one block: 22 sends 100 to 21 (21 now holds 250, crossing 200), then 21 votes for 20.
    The vote tx adds ⌊250/200⌋ = 1 (gas is free here) and the end-of-block pass adds ⌊250/200⌋ − ⌊150/200⌋ = 1
    again: 20 ends with 12 votes, the tally says 10 + 1 = 11. -/
def rp : Params := { voteRate := 200, depositRate := 100, minDeposit := 1000, pool := 1 }
def rs0 : St :=
  { accts := fun a =>
      if a = 20 then { isCand := 1, deposit := some 1000, votes := 10, income := 20 }
      else if a = 21 then { bal := 150 } else if a = 22 then { bal := 500 } else if a = 3 then { income := 4 } else {} }
def rtx1 : Tx :=
  { id := 1, sender := 22, payer := 22, gasLimit := 21000, gasPrice := 0, txType := 0, msgLen := 0, nzData := 0,
    zData := 0, kind := .transfer 21 100, fromSigners := some [22], payerSigners := some [] }
def rtx2 : Tx :=
  { id := 2, sender := 21, payer := 21, gasLimit := 35000, gasPrice := 0, txType := 2, msgLen := 0, nzData := 0,
    zData := 0, kind := .vote 20, fromSigners := some [21], payerSigners := some [] }
def rctx : Ctx := { p := rp, miner := 3, height := 7 }
def rU : List Nat := [1, 3, 4, 20, 21, 22]

theorem tally_refuted :
    let s' := (mineBlock rctx rs0 100000000 [rtx1, rtx2] rU).1
    (mineBlock rctx rs0 100000000 [rtx1, rtx2] rU).2.1 = [(1, 21000), (2, 35000)] ∧
    (s'.accts 21).voteFor = 20 ∧ (s'.accts 21).bal = 250 ∧
    (s'.accts 20).votes = 12 ∧
    1000 / rp.depositRate + voterSum rp.voteRate (fun v => (s'.accts v).voteFor) (fun v => (s'.accts v).bal) 20 rU = 11 := by
  decide

/-! ### "no vote count is ever negative" — refuted on the code as it stands (kernel-checked witness) -/

/-- candidate 20 (registered, deposit 0 like a genesis deputy, 0 votes), candidate 23 (deposit 1000, 10 votes), voter 21
    with balance 150 voting for 20 (weight ⌊150/200⌋ = 0).  One block: 22 sends 100 to 21 (21 now holds 250), then 21
    re-votes for 23: CallVoteTx takes ⌊250/200⌋ = 1 vote away from 20 — which never received it. -/
def ns0 : St :=
  { accts := fun a =>
      if a = 20 then { isCand := 1, deposit := some 0, votes := 0, income := 20 }
      else if a = 23 then { isCand := 1, deposit := some 1000, votes := 10, income := 23 }
      else if a = 21 then { bal := 150, voteFor := 20 } else if a = 22 then { bal := 500 } else if a = 3 then { income := 4 } else {} }
def ntx2 : Tx :=
  { id := 2, sender := 21, payer := 21, gasLimit := 35000, gasPrice := 0, txType := 2, msgLen := 0, nzData := 0,
    zData := 0, kind := .vote 23, fromSigners := some [21], payerSigners := some [] }
def nU : List Nat := [1, 3, 4, 20, 21, 22, 23]

/-- **negative_votes_refuted**: the tally of 20 is exact at block start (0 = 0/100 + ⌊150/200⌋); after the block the
    MODEL's state — the same state the real engine computes — holds −1 votes for candidate 20. (The real miner then
    panics while sealing: a negative big.Int cannot be RLP-encoded; the line-protocol driver prints `panic` for such a
    block. The negative value is a fact about `mineBlock`, not about the driver.) Known finding c11/negative-votes. -/
theorem negative_votes_refuted :
    (ns0.accts 20).votes = 0 / rp.depositRate + voterSum rp.voteRate (fun v => (ns0.accts v).voteFor) (fun v => (ns0.accts v).bal) 20 nU ∧
    (mineBlock rctx ns0 100000000 [rtx1, ntx2] nU).2.1 = [(1, 21000), (2, 35000)] ∧
    ((mineBlock rctx ns0 100000000 [rtx1, ntx2] nU).1.accts 20).votes = -1 ∧
    ((mineBlock rctx ns0 100000000 [rtx1, ntx2] nU).1.accts 23).votes = 12 := by
  decide

/-! ### "an unregistered candidate has zero votes" — refuted on the code BEFORE fix cdfc5bc (the isCandidate flag of a
    RegisterTx was never validated; model switch `flagCheck := false`); on the code as it stands the same transactions are
    refused (`flag_txs_refused_now`) and the clause is PROVED: `unregistered_zero_votes_block`. -/

/-- account 10 (never registered, balance 5000); pool = 1; registration txs with deposit 2000 / 3000 (gas is free here) -/
def fs0 : St :=
  { accts := fun a => if a = 10 then { bal := 9000 } else if a = 11 then { bal := 900 } else if a = 3 then { income := 4 } else {} }
def fReg (id : Nat) (amt : Int) (flag : Nat) : Tx :=
  { id := id, sender := 10, payer := 10, gasLimit := 200000, gasPrice := 0, txType := 3, msgLen := 0, nzData := 0,
    zData := 0, kind := .register amt flag 0, fromSigners := some [10], payerSigners := some [] }
def fVote : Tx :=
  { id := 9, sender := 11, payer := 11, gasLimit := 35000, gasPrice := 0, txType := 2, msgLen := 0, nzData := 0,
    zData := 0, kind := .vote 10, fromSigners := some [11], payerSigners := some [] }
def fU : List Nat := [1, 3, 4, 10, 11]
/-- the code BEFORE fix cdfc5bc: the isCandidate flag of a RegisterTx was never validated -/
def lctx : Ctx := { rctx with flagCheck := false }

/-- **unregistered_has_votes_refuted** (code before fix cdfc5bc): a FIRST RegisterTx that says isCandidate:"false" (flag 2) with a sufficient deposit
    is executed by `registerCandidate` like any registration: the account ends up UNREGISTERED (flag "false": it cannot be
    voted for, cannot register again, its deposit is refunded in the next reward block) WITH 20 deposit votes — which it
    keeps for ever (nothing ever resets them), and with which the store's ranking can elect it. -/
theorem unregistered_has_votes_refuted :
    (mineBlock lctx fs0 100000000 [fReg 1 2000 2] fU).2.1 = [(1, 92000)] ∧
    ((mineBlock lctx fs0 100000000 [fReg 1 2000 2] fU).1.accts 10).isCand = 2 ∧
    ((mineBlock lctx fs0 100000000 [fReg 1 2000 2] fU).1.accts 10).votes = 20 ∧
    ((mineBlock lctx fs0 100000000 [fReg 1 2000 2] fU).1.accts 10).deposit = some 2000 := by
  decide

/-- **blank_flag_refuted** (code before fix cdfc5bc): with isCandidate:"" (flag 0) the registration is executed, but the stored flag reads as "never
    registered": the account holds 20 votes without being a candidate, and can go through the FIRST-registration path again —
    the second deposit (3000) overwrites the recorded one, the first 2000 stay in the pool (5000) unrecorded: no refund
    will ever return them. -/
theorem blank_flag_refuted :
    ((mineBlock lctx fs0 100000000 [fReg 1 2000 0] fU).1.accts 10).isCand = 0 ∧
    ((mineBlock lctx fs0 100000000 [fReg 1 2000 0] fU).1.accts 10).votes = 20 ∧
    (mineBlock lctx fs0 100000000 [fReg 1 2000 0, fReg 2 3000 1] fU).2.1 = [(1, 92000), (2, 92000)] ∧
    ((mineBlock lctx fs0 100000000 [fReg 1 2000 0, fReg 2 3000 1] fU).1.accts 10).deposit = some 3000 ∧
    ((mineBlock lctx fs0 100000000 [fReg 1 2000 0, fReg 2 3000 1] fU).1.accts 1).bal = 5000 := by
  decide

/-- **flag_overwritten_by_update_refuted** (code before fix cdfc5bc): an UPDATE tx of a registered candidate copies its flag over the stored one
    (`modifyCandidateInfo` copies every key but nodeID / deposit). With an arbitrary string (flag 3) the account is still
    accepted as a candidate by CallVoteTx (11's vote is executed) but the vote pass and re-votes only know "true": its count
    is frozen; and RegisterOrUpdateToCandidate answers ErrIsCandidate from now on — it can never top up, unregister or be
    refunded (the third tx is discarded). -/
theorem flag_overwritten_by_update_refuted :
    (mineBlock lctx fs0 100000000 [fReg 1 2000 1, fReg 2 0 3, fVote, fReg 3 0 2] fU).2.1 = [(1, 92000), (2, 92000), (9, 35000)] ∧
    (mineBlock lctx fs0 100000000 [fReg 1 2000 1, fReg 2 0 3, fVote, fReg 3 0 2] fU).2.2.1 = [(3, "ErrIsCandidate")] ∧
    ((mineBlock lctx fs0 100000000 [fReg 1 2000 1, fReg 2 0 3, fVote, fReg 3 0 2] fU).1.accts 10).isCand = 3 ∧
    ((mineBlock lctx fs0 100000000 [fReg 1 2000 1, fReg 2 0 3, fVote, fReg 3 0 2] fU).1.accts 11).voteFor = 10 := by
  decide

/-- **flag_txs_refused_now**: on the code as it stands the three kinds of transactions above are refused — the tx is
    discarded by the miner, nothing is stored: "false" on a first registration (ErrOfNotCandidateNode), "" and any other
    string (ErrInvalidProfile, on first registrations and on updates alike). -/
theorem flag_txs_refused_now :
    (mineBlock rctx fs0 100000000 [fReg 1 2000 2] fU).2.2.1 = [(1, "ErrOfNotCandidateNode")] ∧
    (mineBlock rctx fs0 100000000 [fReg 1 2000 0] fU).2.2.1 = [(1, "ErrInvalidProfile")] ∧
    (mineBlock rctx fs0 100000000 [fReg 1 2000 3] fU).2.2.1 = [(1, "ErrInvalidProfile")] ∧
    (mineBlock rctx fs0 100000000 [fReg 1 2000 1, fReg 2 0 3, fReg 3 0 0] fU).2.2.1 = [(2, "ErrInvalidProfile"), (3, "ErrInvalidProfile")] ∧
    ((mineBlock rctx fs0 100000000 [fReg 1 2000 1, fReg 2 0 3, fReg 3 0 0] fU).1.accts 10).isCand = 1 ∧
    ((mineBlock rctx fs0 100000000 [fReg 1 2000 2] fU).1.accts 10).votes = 0 := by
  decide

/-! ### the order of the steps of Finalize matters (kernel-checked witness) -/

/-- TermDuration 10, InterimDuration 2: height 13 is the first reward block. Candidate 20 (registered, deposit 1000,
    10 votes). The closing term's only node is miner 3 whose income address 4 votes for 20 (balance 0); account 30
    unregistered earlier (deposit 1000 still held, refund postponed) and votes for 20 (balance 100). Term reward 600. -/
def op : Params := { voteRate := 200, depositRate := 100, minDeposit := 1000, termDuration := 10, interimDuration := 2,
                     pool := 1, rewardPrecision := 1 }
def os0 : St :=
  { accts := fun a =>
      if a = 1 then { bal := 2000 }
      else if a = 20 then { isCand := 1, deposit := some 1000, votes := 10, income := 20 }
      else if a = 3 then { income := 4 } else if a = 4 then { voteFor := 20 }
      else if a = 30 then { isCand := 2, deposit := some 1000, bal := 100, voteFor := 20 } else {} }
def octx (votesLast : Bool) : Ctx :=
  { p := op, miner := 3, height := 13, rf := { total := 600, nodes := [(3, 0)], refunds := [30] }, votesLast := votesLast }
def oU : List Nat := [1, 3, 4, 20, 30]

/-- the tally formula of the property, on a state -/
def tallyOf (p : Params) (s : St) (dep : Int) (x : Nat) (V : List Nat) : Int :=
  dep / p.depositRate + voterSum p.voteRate (fun v => (s.accts v).voteFor) (fun v => (s.accts v).bal) x V

/-- **votes_before_reward_refuted**: an empty reward block. In both orders the balances end the same (4 receives the
    salary 600, 30 its deposit 1000) and the tally formula gives 10 + 3 + 5 = 18 for candidate 20.
    The code as it stands (vote pass last) gives 20 exactly 18 votes; with the vote pass run before the term reward and
    the refunds, 20 keeps 10 votes: the 8 votes of the salary and the refund are never counted. -/
theorem votes_before_reward_refuted :
    isRewardBlock (octx true) = true ∧
    tallyOf op os0 1000 20 oU = (os0.accts 20).votes ∧
    ((mineBlock (octx true) os0 100000000 [] oU).1.accts 20).votes = 18 ∧
    tallyOf op (mineBlock (octx true) os0 100000000 [] oU).1 1000 20 oU = 18 ∧
    ((mineBlock (octx false) os0 100000000 [] oU).1.accts 20).votes = 10 ∧
    tallyOf op (mineBlock (octx false) os0 100000000 [] oU).1 1000 20 oU = 18 ∧
    ((mineBlock (octx false) os0 100000000 [] oU).1.accts 4).bal = 600 ∧
    ((mineBlock (octx false) os0 100000000 [] oU).1.accts 30).bal = 1100 := by
  decide

/-! non-vacuity of `finalize_keeps_tally_partial` on the same reward block -/
example : (octx true).votesLast = true ∧ (os0.accts 20).isCand = 1 ∧ (os0.accts 20).deposit = some 1000 ∧
    20 ∉ (octx true).rf.refunds ∧
    (os0.accts 20).votes = 1000 / (octx true).p.depositRate +
      voterSum (octx true).p.voteRate (fun v => (os0.accts v).voteFor) (fun a => (os0.accts a).bal) 20 oU := by
  decide

/-- non-vacuity: the genesis-like witness state satisfies the invariant -/
example : FlagInv ns0 := by
  intro a
  unfold ns0
  simp only
  split <;> (try split) <;> (try split) <;> (try split) <;> (try split) <;> simp

end LemoProofs.C11

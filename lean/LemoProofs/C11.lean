/-
  C11 — A candidate's votes equal deposit votes plus its current voters' balance votes.

  Model: `LemoModel.Ledger` (doVote = CallVoteTx + modifyCandidateVotes, doRegister = register / top-up /
  unregister, votesByBalance = ChangeVotesByBalance at Finalize).  Tied by `hx c11` / `hx c05`: the real
  engine and the model agree on every account's votes, voteFor, profile and balance after every block —
  including on the blocks where the tally is wrong.

  Full statement (kept visible): after EVERY block, for every registered candidate c,
      votes c = ⌊deposit c / 100 LEMO⌋ + Σ_{v : voteFor v = c} ⌊balance v / 200 LEMO⌋ .

  * REFUTED on the code as it stands — `tally_refuted`: a voter whose balance crosses a 200-LEMO boundary
    earlier in the block in which it votes is counted twice (the vote tx uses the mid-block balance, the
    end-of-block pass re-applies the change since block start).  Known finding c11/tally-mismatch/block-with-vote-tx.
  * proved for all states: `pass_formula` (what the end-of-block pass adds to each candidate, for every
    address list), `revote_moves_weight`, `register_sets_deposit_votes`, `unregister_zeroes`,
    `topup_adds_floor_difference`, and `tally_kept_by_balance_only_block_partial` (the invariant is
    preserved by the pass when nobody's voteFor / candidacy changed in the block).
  * REWARD BLOCKS (Finalize = term reward, deposit refunds, THEN the vote pass): `finalize_keeps_tally_partial` —
    under the same guard the tally is exact after Finalize of ANY block, with respect to the POST-reward,
    POST-refund balances of the voters (a deputy's income address that received its salary, an unregistered
    candidate that got its deposit back); `finalize_changes_votes_only_by_pass` (reward and refunds touch nobody's
    votes / voteFor / candidacy).  The ORDER is what makes it true: `votes_before_reward_refuted` — with the vote
    pass run BEFORE issueTermReward / refundCandidateDeposit (model switch `votesLast := false`) the salaries and
    refunds of the reward block never become votes (kernel-checked witness; the code as it stands passes it).
-/
import LemoProofs.C01
namespace LemoProofs.C11
open LemoModel.Ledger LemoProofs.C01

/-- Σ_{a ∈ l} (what iteration `a` adds to account `x`) -/
def passDelta (c : Ctx) (start : Nat → Int) (s : St) : List Nat → Nat → Int
  | [], _ => 0
  | a :: as, x => stepDelta c start s a x + passDelta c start s as x

theorem addVotes_zero (s : St) : addVotes s (fun _ => 0) = s := by
  unfold addVotes
  have : (fun x => ({ s.accts x with votes := (s.accts x).votes + 0 } : Acct)) = s.accts := by
    funext x; exact acct_votes_add_zero _
  rw [this]

theorem passDelta_addVotes (c : Ctx) (start : Nat → Int) (s : St) (δ : Nat → Int) :
    ∀ l, passDelta c start (addVotes s δ) l = passDelta c start s l := by
  intro l
  induction l with
  | nil => rfl
  | cons a as ih => funext x; simp only [passDelta, stepDelta_addVotes, ih]

/-- **pass_formula**: for every state and every address list, ChangeVotesByBalance adds to each account
    exactly the sum of the per-voter deltas — nothing else changes. -/
theorem pass_formula (c : Ctx) (start : Nat → Int) : ∀ (l : List Nat) (s : St),
    votesByBalance c start s l = addVotes s (passDelta c start s l) := by
  intro l
  induction l with
  | nil => intro s; simp only [votesByBalance]; exact (addVotes_zero s).symm
  | cons a as ih =>
    intro s
    have h1 : votesByBalance c start s (a :: as) = votesByBalance c start (voteStep c start s a) as := by
      simp only [votesByBalance, voteStep]
    rw [h1, ih, voteStep_eq, passDelta_addVotes, addVotes_addVotes]
    rfl

/-- the delta one voter contributes: ⌊end balance / rate⌋ − ⌊start balance / rate⌋, to its CURRENT candidate -/
theorem stepDelta_val (c : Ctx) (start : Nat → Int) (s : St) (a x : Nat)
    (hx : (s.accts a).voteFor = x) (hx0 : x ≠ 0) (hc : (s.accts x).isCand = 1) :
    stepDelta c start s a x = (s.accts a).bal / c.p.voteRate - start a / c.p.voteRate := by
  unfold stepDelta
  subst hx
  by_cases hd : (s.accts a).bal / c.p.voteRate - start a / c.p.voteRate = 0
  · simp [hd]
  · simp [hd, hx0, hc]

theorem stepDelta_other (c : Ctx) (start : Nat → Int) (s : St) (a x : Nat) (hx : (s.accts a).voteFor ≠ x) :
    stepDelta c start s a x = 0 := by
  unfold stepDelta
  have : ¬ ((((s.accts a).bal / c.p.voteRate - start a / c.p.voteRate ≠ 0 ∧ (s.accts a).voteFor ≠ 0 ∧
      (s.accts (s.accts a).voteFor).isCand = 1)) ∧ x = (s.accts a).voteFor) := fun h => hx h.2.symm
  rw [if_neg this]

/-- Σ over the voters in `V` that vote for `x` of ⌊f v / rate⌋ -/
def voterSum (rate : Int) (voteFor : Nat → Nat) (f : Nat → Int) (x : Nat) : List Nat → Int
  | [] => 0
  | v :: vs => (if voteFor v = x then f v / rate else 0) + voterSum rate voteFor f x vs

theorem passDelta_voterSum (c : Ctx) (start : Nat → Int) (s : St) (x : Nat) (hx0 : x ≠ 0)
    (hc : (s.accts x).isCand = 1) : ∀ V : List Nat,
    passDelta c start s V x =
      voterSum c.p.voteRate (fun v => (s.accts v).voteFor) (fun v => (s.accts v).bal) x V -
      voterSum c.p.voteRate (fun v => (s.accts v).voteFor) start x V := by
  intro V
  induction V with
  | nil => simp [passDelta, voterSum]
  | cons v vs ih =>
    simp only [passDelta, voterSum, ih]
    by_cases hv : (s.accts v).voteFor = x
    · rw [stepDelta_val c start s v x hv hx0 hc]; simp only [hv, if_true]; omega
    · rw [stepDelta_other c start s v x hv]; simp only [hv, if_false]; omega

/-- **tally_kept_by_balance_only_block_partial**: let `s` be the state just before the end-of-block pass
    of a block in which nobody's voteFor / candidacy / deposit changed (only balances moved), `start` the
    balances when the block began, `V` any list containing the voters.  If the tally of candidate `x`
    was exact at block start, it is exact after the pass. -/
theorem tally_kept_by_balance_only_block_partial (c : Ctx) (start : Nat → Int) (s : St) (V : List Nat)
    (x : Nat) (hx0 : x ≠ 0) (hc : (s.accts x).isCand = 1) (dep : Int)
    (hstart : (s.accts x).votes = dep / c.p.depositRate +
        voterSum c.p.voteRate (fun v => (s.accts v).voteFor) start x V) :
    ((votesByBalance c start s V).accts x).votes = dep / c.p.depositRate +
        voterSum c.p.voteRate (fun v => (s.accts v).voteFor) (fun v => (s.accts v).bal) x V := by
  rw [pass_formula]
  simp only [addVotes]
  rw [passDelta_voterSum c start s x hx0 hc V, hstart]
  omega

/-! ### Finalize of any block, reward blocks included -/

open LemoProofs.LedgerReward in
/-- the vote pass changes nothing but vote counts -/
theorem votesByBalance_frame (c : Ctx) (start : Nat → Int) (s : St) (l : List Nat) (x : Nat) :
    ((votesByBalance c start s l).accts x).voteFor = (s.accts x).voteFor ∧
    ((votesByBalance c start s l).accts x).bal = (s.accts x).bal ∧
    ((votesByBalance c start s l).accts x).isCand = (s.accts x).isCand ∧
    ((votesByBalance c start s l).accts x).deposit = (s.accts x).deposit := by
  rw [pass_formula]
  simp [addVotes]

open LemoProofs.LedgerReward in
/-- **finalize_changes_votes_only_by_pass**: the term reward and the refunds of a reward block change nobody's
    vote count, voteFor or candidacy — whatever `Finalize` does to a vote count, the vote pass did it. -/
theorem finalize_changes_votes_only_by_pass (c : Ctx) (s : St) (x : Nat) :
    ((rewardSteps c s).accts x).votes = (s.accts x).votes ∧
    ((rewardSteps c s).accts x).voteFor = (s.accts x).voteFor ∧
    ((rewardSteps c s).accts x).isCand = (s.accts x).isCand := by
  have h := rewardSteps_frame c s x
  exact ⟨h.2.1, h.1, h.2.2.1⟩

theorem voterSum_congr (rate : Int) (vf vf' : Nat → Nat) (f f' : Nat → Int) (x : Nat)
    (h1 : ∀ v, vf v = vf' v) (h2 : ∀ v, f v = f' v) : ∀ V, voterSum rate vf f x V = voterSum rate vf' f' x V := by
  intro V
  induction V with
  | nil => rfl
  | cons v vs ih => simp only [voterSum, ih, h1 v, h2 v]

open LemoProofs.LedgerReward in
/-- **finalize_keeps_tally_partial** (the end-of-block statement for EVERY height, reward blocks included; the code
    as it stands: `votesLast = true`).  Let `s` be the state after the transactions and the miner's fee of a block
    in which nobody's voteFor / candidacy / deposit changed (the same guard as for balance-only blocks), `start` the
    balances when the block began, `V` any list containing the voters, `x` a registered candidate with deposit `dep`
    that is not on the refund list (the list only holds UNregistered candidates).  If the tally of `x` was exact at
    block start, then after `Finalize` — term reward paid, deposits refunded, vote pass — it is exact with respect to
    the FINAL balances: the salaries and refunds of the block count as votes of the candidates their receivers vote for. -/
theorem finalize_keeps_tally_partial (c : Ctx) (hvl : c.votesLast = true) (start : Nat → Int) (s : St) (V : List Nat)
    (x : Nat) (hx0 : x ≠ 0) (hc : (s.accts x).isCand = 1) (dep : Int) (hdep : (s.accts x).deposit = some dep)
    (hnr : x ∉ c.rf.refunds)
    (hstart : (s.accts x).votes = dep / c.p.depositRate +
        voterSum c.p.voteRate (fun v => (s.accts v).voteFor) start x V) :
    ((finalize c start s V).accts x).votes = dep / c.p.depositRate +
        voterSum c.p.voteRate (fun v => ((finalize c start s V).accts v).voteFor)
          (fun v => ((finalize c start s V).accts v).bal) x V ∧
    ((finalize c start s V).accts x).isCand = 1 ∧ ((finalize c start s V).accts x).deposit = some dep := by
  unfold finalize
  rw [if_pos hvl]
  have hf := fun v => rewardSteps_frame c s v
  have hc2 : ((rewardSteps c s).accts x).isCand = 1 := by rw [(hf x).2.2.1]; exact hc
  have hstart2 : ((rewardSteps c s).accts x).votes = dep / c.p.depositRate +
      voterSum c.p.voteRate (fun v => ((rewardSteps c s).accts v).voteFor) start x V := by
    rw [(hf x).2.1, hstart]
    congr 1
    exact voterSum_congr _ _ _ _ _ x (fun v => ((hf v).1).symm) (fun _ => rfl) V
  have key := tally_kept_by_balance_only_block_partial c start (rewardSteps c s) V x hx0 hc2 dep hstart2
  have hfr := fun v => votesByBalance_frame c start (rewardSteps c s) V v
  refine ⟨?_, ?_, ?_⟩
  · rw [key]
    congr 1
    exact voterSum_congr _ _ _ _ _ x (fun v => ((hfr v).1).symm) (fun v => ((hfr v).2.1).symm) V
  · rw [(hfr x).2.2.1]; exact hc2
  · rw [(hfr x).2.2.2, rewardSteps_deposit_other c s x hnr]; exact hdep

/-- **empty_block_keeps_tally**: a block without transactions — at ANY height, a reward block included, for ALL
    states, reward facts and refund lists — keeps the tally of every registered candidate (not on the refund list)
    exact: whatever the term reward and the refunds add to the voters' balances is added to the candidate's votes. -/
theorem empty_block_keeps_tally (c : Ctx) (hvl : c.votesLast = true) (s : St) (gp : Nat) (V : List Nat)
    (x : Nat) (hx0 : x ≠ 0) (hc : (s.accts x).isCand = 1) (dep : Int) (hdep : (s.accts x).deposit = some dep)
    (hnr : x ∉ c.rf.refunds)
    (htally : (s.accts x).votes = dep / c.p.depositRate +
        voterSum c.p.voteRate (fun v => (s.accts v).voteFor) (fun v => (s.accts v).bal) x V) :
    ((mineBlock c s gp [] V).1.accts x).votes = dep / c.p.depositRate +
        voterSum c.p.voteRate (fun v => ((mineBlock c s gp [] V).1.accts v).voteFor)
          (fun v => ((mineBlock c s gp [] V).1.accts v).bal) x V := by
  have h : (mineBlock c s gp [] V).1 = finalize c (fun a => (s.accts a).bal) s V := by
    simp [mineBlock, mine, chargeForGas]
  rw [h]
  exact (finalize_keeps_tally_partial c hvl _ s V x hx0 hc dep hdep hnr htally).1

/-! ### single transactions -/

/-- **revote_moves_weight**: a successful vote tx by `voter` (balance-before-tx `ib`, weight
    ex = ⌊ib/200 LEMO⌋ > 0) from a still-registered old candidate to a new one moves exactly `ex`. -/
theorem revote_moves_weight (c : Ctx) (s s' : St) (voter old cand : Nat) (ib : Int)
    (hold : (s.accts voter).voteFor = old) (ho0 : old ≠ 0) (hoc : (s.accts old).isCand = 1)
    (hne : old ≠ cand) (hvo : voter ≠ old) (hvc : voter ≠ cand) (hex : 0 < ib / c.p.voteRate)
    (h : doVote c s voter cand ib = .ok s') :
    (s'.accts old).votes = (s.accts old).votes - ib / c.p.voteRate ∧
    (s'.accts cand).votes = (s.accts cand).votes + ib / c.p.voteRate ∧
    (s'.accts voter).voteFor = cand := by
  unfold doVote at h
  simp only at h
  split at h; · cases h
  split at h; · cases h
  injection h with h; subst h
  have hex' : ¬ ib / c.p.voteRate ≤ 0 := by omega
  simp only [hex', if_false, hold, ne_eq, ho0, not_false_eq_true, hoc, and_self, if_true]
  refine ⟨?_, ?_, ?_⟩
  · simp [modAcct, upd, hne, Ne.symm hvo]
  · simp [modAcct, upd, hne, Ne.symm hne, Ne.symm hvc]
  · simp [modAcct, upd]

/-- **register_sets_deposit_votes** -/
theorem register_sets_deposit_votes (c : Ctx) (s s' : St) (fr : Nat) (amt : Int) (inc : Nat)
    (h0 : (s.accts fr).isCand = 0) (hp : fr ≠ c.p.pool)
    (h : doRegister c s fr amt false inc = .ok s') :
    (s'.accts fr).votes = amt / c.p.depositRate ∧ (s'.accts fr).isCand = 1 ∧ (s'.accts fr).deposit = some amt := by
  unfold doRegister at h
  simp only [h0, if_true] at h
  split at h; · cases h
  split at h; · cases h
  injection h with h; subst h
  simp [modAcct, upd, transfer, setBal, hp, Ne.symm hp]

/-- **unregister_zeroes** -/
theorem unregister_zeroes (c : Ctx) (s s' : St) (fr : Nat) (amt : Int) (inc : Nat)
    (h1 : (s.accts fr).isCand = 1) (h : doRegister c s fr amt true inc = .ok s') :
    (s'.accts fr).votes = 0 ∧ (s'.accts fr).isCand = 2 := by
  unfold doRegister at h
  simp only [h1] at h
  simp only [show ¬ (1 : Nat) = 0 by decide, show ¬ (1 : Nat) = 2 by decide, if_false, if_true] at h
  split at h
  · injection h with h; subst h; simp [modAcct, upd]
  · split at h
    · injection h with h; subst h; simp [modAcct, upd]
    · injection h with h; subst h
      unfold refund
      split
      · simp [modAcct, upd]
      · simp only [modAcct, upd, setBal]
        by_cases e : fr = c.p.pool <;> simp [e]

/-! ### refutation of the full statement (kernel-checked witness) -/

/-- candidate 20 (registered, deposit 1000 units), voter 21 with balance 150, rate 200/100 for readability;
    one block: 22 sends 100 to 21 (21 now holds 250, crossing 200), then 21 votes for 20.
    The vote tx adds ⌊250/200⌋ = 1 (gas is free here) and the end-of-block pass adds ⌊250/200⌋ − ⌊150/200⌋ = 1
    again: 20 ends with 12 votes, the tally says 10 + 1 = 11. -/
def rp : Params := { voteRate := 200, depositRate := 100, minDeposit := 1000, pool := 1 }
def rs0 : St :=
  { accts := fun a =>
      if a = 20 then { isCand := 1, deposit := some 1000, votes := 10, income := 20 }
      else if a = 21 then { bal := 150 } else if a = 22 then { bal := 500 } else if a = 3 then { income := 4 } else {} }
def rtx1 : Tx :=
  { id := 1, sender := 22, payer := 22, gasLimit := 21000, gasPrice := 0, txType := 0, msgLen := 0, nzData := 0,
    zData := 0, kind := .transfer 21 100, fromSigners := some [22], payerSigners := some [] }
def rtx2 : Tx :=
  { id := 2, sender := 21, payer := 21, gasLimit := 35000, gasPrice := 0, txType := 2, msgLen := 0, nzData := 0,
    zData := 0, kind := .vote 20, fromSigners := some [21], payerSigners := some [] }
def rctx : Ctx := { p := rp, miner := 3, height := 7 }
def rU : List Nat := [1, 3, 4, 20, 21, 22]

theorem tally_refuted :
    let s' := (mineBlock rctx rs0 100000000 [rtx1, rtx2] rU).1
    (mineBlock rctx rs0 100000000 [rtx1, rtx2] rU).2.1 = [(1, 21000), (2, 35000)] ∧
    (s'.accts 21).voteFor = 20 ∧ (s'.accts 21).bal = 250 ∧
    (s'.accts 20).votes = 12 ∧
    1000 / rp.depositRate + voterSum rp.voteRate (fun v => (s'.accts v).voteFor) (fun v => (s'.accts v).bal) 20 rU = 11 := by
  decide

/-! ### the order of the steps of Finalize matters (kernel-checked witness) -/

/-- TermDuration 10, InterimDuration 2: height 13 is the first reward block. Candidate 20 (registered, deposit 1000,
    10 votes). The closing term's only node is miner 3 whose income address 4 votes for 20 (balance 0); account 30
    unregistered earlier (deposit 1000 still held, refund postponed) and votes for 20 (balance 100). Term reward 600. -/
def op : Params := { voteRate := 200, depositRate := 100, minDeposit := 1000, termDuration := 10, interimDuration := 2,
                     pool := 1, rewardPrecision := 1 }
def os0 : St :=
  { accts := fun a =>
      if a = 1 then { bal := 2000 }
      else if a = 20 then { isCand := 1, deposit := some 1000, votes := 10, income := 20 }
      else if a = 3 then { income := 4 } else if a = 4 then { voteFor := 20 }
      else if a = 30 then { isCand := 2, deposit := some 1000, bal := 100, voteFor := 20 } else {} }
def octx (votesLast : Bool) : Ctx :=
  { p := op, miner := 3, height := 13, rf := { total := 600, nodes := [(3, 0)], refunds := [30] }, votesLast := votesLast }
def oU : List Nat := [1, 3, 4, 20, 30]

/-- the tally formula of the property, on a state -/
def tallyOf (p : Params) (s : St) (dep : Int) (x : Nat) (V : List Nat) : Int :=
  dep / p.depositRate + voterSum p.voteRate (fun v => (s.accts v).voteFor) (fun v => (s.accts v).bal) x V

/-- **votes_before_reward_refuted**: an empty reward block. In both orders the balances end the same (4 receives the
    salary 600, 30 its deposit 1000) and the tally formula gives 10 + 3 + 5 = 18 for candidate 20.
    The code as it stands (vote pass last) gives 20 exactly 18 votes; with the vote pass run before the term reward and
    the refunds, 20 keeps 10 votes: the 8 votes of the salary and the refund are never counted. -/
theorem votes_before_reward_refuted :
    isRewardBlock (octx true) = true ∧
    tallyOf op os0 1000 20 oU = (os0.accts 20).votes ∧
    ((mineBlock (octx true) os0 100000000 [] oU).1.accts 20).votes = 18 ∧
    tallyOf op (mineBlock (octx true) os0 100000000 [] oU).1 1000 20 oU = 18 ∧
    ((mineBlock (octx false) os0 100000000 [] oU).1.accts 20).votes = 10 ∧
    tallyOf op (mineBlock (octx false) os0 100000000 [] oU).1 1000 20 oU = 18 ∧
    ((mineBlock (octx false) os0 100000000 [] oU).1.accts 4).bal = 600 ∧
    ((mineBlock (octx false) os0 100000000 [] oU).1.accts 30).bal = 1100 := by
  decide

/-! non-vacuity of `finalize_keeps_tally_partial` on the same reward block -/
example : (octx true).votesLast = true ∧ (os0.accts 20).isCand = 1 ∧ (os0.accts 20).deposit = some 1000 ∧
    20 ∉ (octx true).rf.refunds ∧
    (os0.accts 20).votes = 1000 / (octx true).p.depositRate +
      voterSum (octx true).p.voteRate (fun v => (os0.accts v).voteFor) (fun a => (os0.accts a).bal) 20 oU := by
  decide

end LemoProofs.C11

/-
  C11 — THE DEPOSIT TERM: the deposit RECORDED in a candidate's profile (from which `registerCandidate` /
  `addDepositChangeVotes` compute the deposit votes, and which `Refund` pays back) is the deposit the candidate really
  PAID into the deposit pool — whatever keys the profile of its RegisterTxs carries.

  Model: `LemoModel.Ledger` with the tx-supplied profile explicit (`TxProfile`: the entry under the protected key
  types.CandidateKeyDepositAmount as the TX carries it, and every other key — nodeID, introduction, host, port, anything
  else — as opaque labels; `builtProfile` = buildProfile, `overlay` / `depositAfterOverlay` = the overlay loop of
  `modifyCandidateInfo` with its skip list {nodeID, deposit entry}), and the deposit book kept by construction
  (`LemoModel.LedgerDeposit`: `paidStep` / `paidBlock`).

  * `recorded_deposit_is_paid_deposit` — for ALL histories of blocks (any interleaving of transfers, votes, registrations,
    top-ups, updates, unregistrations, boxes, failing candidates; any heights; any tx profiles): the invariant `DepInv`
    (recorded entry of every registered candidate = its book entry; an unregistered candidate holds that entry or, after its
    refund, none) holds after every block, provided no REGISTERED candidate is on the refund list of a reward block (the
    refund clause of `guardX`; the list is a trusted input).  `recorded_deposit_of_registered` is its reading for one
    candidate, `block_keeps_recorded_deposit` the per-block step, `depInv_of_fresh_state` the start (a state without
    candidates satisfies the invariant with ANY book: the book entry is the sum since the registration).
  * `book_entry_is_pool_transfer` — what the book adds for a register / top-up tx is exactly what that tx moves from its
    sender to the deposit pool.
  * `deposit_votes_from_recorded` — after a first registration the votes are ⌊recorded deposit / rate⌋, a top-up / update
    adds ⌊recorded' / rate⌋ − ⌊recorded / rate⌋.
  * `protected_keys_not_overwritten` — an update's profile changes neither the stored nodeID nor the deposit entry (which
    grows by the amount paid, and by nothing else); `overlay_last_wins`: every other key IS written.
  * `first_registration_ignores_tx_deposit` — `registerCandidate` writes the entry itself.
  WHAT KIND OF STATEMENTS THESE ARE (round-8 review M-C11-6 / M-C11-7).  They are CONSISTENCY statements inside the model,
  close to definitional: the book (`paidStep`) is the same case split as `doRegister` over the same model state; that the
  tx's entry under the deposit key is not written is `depositAfterOverlay true stored px = stored := rfl` — a Bool switch
  of the model, NOT derived from a skip list of the overlay loop (only the nodeID half is: `overlay_keeps_nodeID`; and
  `overlay_keeps_nodeID` / `overlay_last_wins` are about a raw key/value list, not `builtProfile px`).  The evidence that
  the GO overlay loop skips the deposit key is the harness oracle c11/deposit-mismatch (independent book from tx amounts,
  forged profiles), not these theorems.  "book entry = everything the account paid" holds only with the flag check ON
  (`flagCheck = true`, the code as it stands): with `flagCheck = false` a blank flag lets the first-registration path run
  twice, `paidStep` then REOPENS the entry with the second amount and `DepInv` still holds while the first deposit sits in
  the pool unrecorded in both books (`C11.blank_flag_refuted`; `book_entry_is_pool_transfer` counts from 0 when
  `isCand = 0`).  No whole-history pool theorem (pool balance ≥ Σ book entries) is proved; `Refund`'s / unregistration's
  Go panics (deposit "" or unparsable, nodeID "", insufficient pool) are no-ops in the model.

  * `forged_deposit_refuted` (kernel-checked): the same function with `protectDeposit := false` — the overlay loop that
    skips nodeID only — on the 2-tx history "register 5000; update carrying a deposit entry 50 with amount 50":
    recorded 100 (book and pool: 5050), 51 votes instead of 50.  NOT the code as it stands (a mutant of the model).
-/
import LemoProofs.Lemmas.LedgerDeposit
namespace LemoProofs.C11Deposit
open LemoModel.Ledger LemoProofs.C11 LemoProofs.LedgerTally LemoProofs.LedgerDeposit LemoProofs.LedgerReward

/-! ### blocks and histories -/

/-- **block_keeps_recorded_deposit**: a whole block on the miner path — ApplyTxs over ANY candidate list, chargeForGas,
    Finalize — keeps `DepInv`, the book advanced over the transactions the block executes. -/
theorem block_keeps_recorded_deposit (c : Ctx) (s : St) (gp : Nat) (txs : List Tx) (V : List Nat) (paid : Nat → Int)
    (hr : NoRegisteredRefund c (mine c s gp txs).st) (hI : DepInv paid s) :
    DepInv (paidBlock c s gp txs paid) (mineBlock c s gp txs V).1 := by
  have hb : (mineBlock c s gp txs V).1 =
      finalize c (fun a => (s.accts a).bal) (chargeForGas (mine c s gp txs).st c.miner (mine c s gp txs).fee) V := rfl
  rw [hb]
  refine finalize_depInv c _ _ _ V ?_ (DepInv_chargeForGas _ _ _ _ (mine_depInv c txs paid s gp hI))
  intro hrb x hx
  rw [(chargeForGas_sameButBal _ _ _ x).1.2.2.1]
  exact hr hrb x hx

/-- the book after a history -/
def paidHistory (V : List Nat) : St → (Nat → Int) → List (Ctx × Nat × List Tx) → (Nat → Int)
  | _, paid, [] => paid
  | s, paid, (c, gp, txs) :: bs => paidHistory V (mineBlock c s gp txs V).1 (paidBlock c s gp txs paid) bs

/-- no block of the history refunds a candidate that is registered when its transactions have run -/
def HistoryNoRegisteredRefund (V : List Nat) : St → List (Ctx × Nat × List Tx) → Prop
  | _, [] => True
  | s, (c, gp, txs) :: bs =>
    NoRegisteredRefund c (mine c s gp txs).st ∧ HistoryNoRegisteredRefund V (mineBlock c s gp txs V).1 bs

/-- **recorded_deposit_is_paid_deposit**: induction over histories — after any number of blocks, at any heights, with any
    transactions carrying any profile keys: the recorded deposit of every registered candidate is its book entry (the sum
    of the amounts its registration and top-up txs paid — SINCE THE LAST TIME the first-registration path ran for it: once
    with `flagCheck = true`, possibly again with `flagCheck = false` and a blank flag, where the book is reopened), an
    unregistered candidate holds that entry or none.  `paidStep` mirrors `doRegister`'s case split: a consistency
    statement of the model, see the file header. -/
theorem recorded_deposit_is_paid_deposit (V : List Nat) :
    ∀ (bs : List (Ctx × Nat × List Tx)) (s : St) (paid : Nat → Int),
      DepInv paid s → HistoryNoRegisteredRefund V s bs → DepInv (paidHistory V s paid bs) (runBlocks V s bs) := by
  intro bs
  induction bs with
  | nil => intro s paid h _; exact h
  | cons b bs ih =>
    intro s paid hI hg
    obtain ⟨c, gp, txs⟩ := b
    obtain ⟨hr, hrest⟩ := hg
    simp only [runBlocks, paidHistory]
    exact ih _ _ (block_keeps_recorded_deposit c s gp txs V paid hr hI) hrest

/-- the reading for one candidate that is registered at the end of the history -/
theorem recorded_deposit_of_registered (V : List Nat) (bs : List (Ctx × Nat × List Tx)) (s : St) (paid : Nat → Int)
    (hI : DepInv paid s) (hg : HistoryNoRegisteredRefund V s bs) (x : Nat)
    (hc : ((runBlocks V s bs).accts x).isCand = 1) :
    ((runBlocks V s bs).accts x).deposit = some (paidHistory V s paid bs x) :=
  (recorded_deposit_is_paid_deposit V bs s paid hI hg x).1 hc

/-- the start: in a state without candidates (nobody registered or unregistered yet) the invariant holds with ANY book —
    a book entry is opened by the registration, so the entry of a candidate is the sum SINCE its registration -/
theorem depInv_of_fresh_state (paid : Nat → Int) (s : St) (h : ∀ x, (s.accts x).isCand = 0) : DepInv paid s := by
  intro x
  rw [h x]
  exact ⟨fun hh => (by omega), fun hh => (by omega)⟩

/-! ### the book entry is what the pool received -/

/-- **book_entry_is_pool_transfer**: a successful RegisterTx that is not an unregistration moves some `d` from its sender
    to the deposit pool, and the sender's book entry grows by exactly that `d` (from 0 on a first registration). -/
theorem book_entry_is_pool_transfer (c : Ctx) (paid : Nat → Int) (s s' : St) (fr : Nat) (amt : Int) (flag inc : Nat)
    (nd : Bool) (px : TxProfile) (hp : fr ≠ c.p.pool) (hnu : ¬ ((s.accts fr).isCand = 1 ∧ flag = 2))
    (h : doRegister c s fr amt flag inc nd px = .ok s') :
    ∃ d, (s'.accts c.p.pool).bal = (s.accts c.p.pool).bal + d ∧ (s'.accts fr).bal = (s.accts fr).bal - d ∧
      regBook paid (s.accts fr).isCand fr amt flag fr = (if (s.accts fr).isCand = 0 then 0 else paid fr) + d := by
  have hpf : c.p.pool ≠ fr := Ne.symm hp
  unfold doRegister at h
  simp only [depositAfterOverlay_true] at h
  split at h; · cases h
  split at h
  · rename_i h0
    split at h; · cases h
    split at h; · cases h
    split at h; · cases h
    injection h with h; subst h
    refine ⟨amt, ?_, ?_, ?_⟩
    · simp [modAcct, upd, transfer, setBal, hp, hpf]
    · simp [modAcct, upd, transfer, setBal, hp, hpf]
    · unfold regBook; rw [if_pos h0, if_pos h0, upd_self]; omega
  · split at h; · cases h
    split at h; · cases h
    rename_i hn0 hn2c h1'
    have hs1 : (s.accts fr).isCand = 1 := Decidable.of_not_not h1'
    split at h
    · rename_i hf2; exact absurd ⟨hs1, hf2⟩ hnu
    · rename_i hnf2
      split at h
      · rename_i hpos
        split at h; · cases h
        split at h; · cases h
        injection h with h; subst h
        refine ⟨amt, ?_, ?_, ?_⟩
        · simp [modAcct, upd, transfer, setBal, hp, hpf]
        · simp [modAcct, upd, transfer, setBal, hp, hpf]
        · unfold regBook; rw [if_neg hn0, if_pos ⟨hs1, hnf2, hpos⟩, if_neg hn0, upd_self]
      · rename_i hnpos
        injection h with h; subst h
        refine ⟨0, ?_, ?_, ?_⟩
        · simp [modAcct, upd, hpf]
        · simp [modAcct, upd]
        · unfold regBook; rw [if_neg hn0, if_neg (fun hh => hnpos hh.2.2), if_neg hn0]; omega

/-! ### deposit votes come from the recorded deposit -/

/-- **deposit_votes_from_recorded**: after a successful FIRST registration the votes are ⌊recorded deposit / rate⌋; a
    successful top-up or update of a registered candidate whose recorded deposit was `old` adds
    ⌊recorded' / rate⌋ − ⌊old / rate⌋ — for every tx profile. -/
theorem deposit_votes_from_recorded (c : Ctx) (hD : 0 < c.p.depositRate) (s s' : St) (fr : Nat) (amt : Int) (flag inc : Nat)
    (nd : Bool) (px : TxProfile) (hp : fr ≠ c.p.pool) (h : doRegister c s fr amt flag inc nd px = .ok s') :
    ((s.accts fr).isCand = 0 →
      ∃ d, (s'.accts fr).deposit = some d ∧ (s'.accts fr).votes = d / c.p.depositRate) ∧
    ((s.accts fr).isCand = 1 → flag ≠ 2 → ∀ old, (s.accts fr).deposit = some old →
      ∃ d, (s'.accts fr).deposit = some d ∧
        (s'.accts fr).votes = (s.accts fr).votes + (d / c.p.depositRate - old / c.p.depositRate)) := by
  constructor
  · intro h0
    have := register_sets_deposit_votes c s s' fr amt flag inc nd px h0 hp h
    exact ⟨amt, this.2.2, this.1⟩
  · intro h1 hf old hd
    by_cases ha : 0 < amt
    · have := topup_adds_floor_difference c s s' fr amt flag inc nd old hD h1 hf ha hd hp px h
      exact ⟨old + amt, this.2.1, this.1⟩
    · refine ⟨old, ?_, ?_⟩
      · unfold doRegister at h
        simp only [depositAfterOverlay_true, h1] at h
        simp only [show ¬ (1 : Nat) = 0 by decide, show ¬ (1 : Nat) = 2 by decide, if_false, hf,
          ne_eq, not_true_eq_false, show ¬ amt > 0 from ha] at h
        split at h; · cases h
        injection h with h; subst h
        simp [modAcct, upd, hd]
      · unfold doRegister at h
        simp only [depositAfterOverlay_true, h1] at h
        simp only [show ¬ (1 : Nat) = 0 by decide, show ¬ (1 : Nat) = 2 by decide, if_false, hf,
          ne_eq, not_true_eq_false, show ¬ amt > 0 from ha] at h
        split at h; · cases h
        injection h with h; subst h
        simp [modAcct, upd]

/-! ### the profile keys -/

theorem profGet_profSet_self : ∀ (p : List (Nat × Nat)) (k v : Nat), profGet (profSet p k v) k = some v := by
  intro p
  induction p with
  | nil => intro k v; simp [profSet, profGet]
  | cons e r ih =>
    intro k v
    obtain ⟨k', v'⟩ := e
    simp only [profSet]
    by_cases hk : k' = k
    · simp [hk, profGet]
    · simp [hk, profGet, ih]

theorem profGet_profSet_ne : ∀ (p : List (Nat × Nat)) (k v k2 : Nat), k2 ≠ k → profGet (profSet p k v) k2 = profGet p k2 := by
  intro p
  induction p with
  | nil => intro k v k2 h; simp [profSet, profGet, Ne.symm h]
  | cons e r ih =>
    intro k v k2 h
    obtain ⟨k', v'⟩ := e
    simp only [profSet]
    by_cases hk : k' = k
    · subst hk; simp [profGet, Ne.symm h]
    · simp only [hk, if_false, profGet]
      by_cases hk2 : k' = k2
      · simp [hk2]
      · simp [hk2, ih _ _ _ h]

/-- the overlay loop never writes the stored nodeID, whatever the tx carries under that key -/
theorem overlay_keeps_nodeID : ∀ (tx stored : List (Nat × Nat)),
    profGet (overlay stored tx) keyNodeID = profGet stored keyNodeID := by
  intro tx
  induction tx with
  | nil => intro stored; rfl
  | cons e r ih =>
    intro stored
    unfold overlay
    simp only [List.foldl_cons]
    have := ih (if e.1 = keyNodeID then stored else profSet stored e.1 e.2)
    unfold overlay at this
    rw [this]
    by_cases hk : e.1 = keyNodeID
    · simp [hk]
    · simp only [hk, if_false]
      exact profGet_profSet_ne stored e.1 e.2 keyNodeID (fun h => hk h.symm)

/-- **overlay_last_wins**: every OTHER key the tx carries is written — the value written last stands -/
theorem overlay_last_wins (stored tx : List (Nat × Nat)) (k v : Nat) (hk : k ≠ keyNodeID) :
    profGet (overlay stored (tx ++ [(k, v)])) k = some v := by
  unfold overlay
  rw [List.foldl_append]
  simp only [List.foldl_cons, List.foldl_nil, hk, if_false]
  exact profGet_profSet_self _ k v

theorem transfer_prof (s : St) (a b : Nat) (v : Int) (x : Nat) : ((transfer s a b v).accts x).prof = (s.accts x).prof := by
  unfold transfer setBal upd
  simp only
  split <;> split <;> simp_all

/-- **protected_keys_not_overwritten**: a successful update / top-up of a registered candidate — for EVERY tx profile —
    leaves the stored nodeID as it was and changes the deposit entry by the amount it paid and nothing else: the entries the
    tx carries under the two protected keys are not written.  The nodeID half is derived from the overlay loop's skip
    (`overlay_keeps_nodeID`); the deposit half is BY CONSTRUCTION (`depositAfterOverlay true stored px = stored := rfl`). -/
theorem protected_keys_not_overwritten (c : Ctx) (s s' : St) (fr : Nat) (amt : Int) (flag inc : Nat) (nd : Bool)
    (px : TxProfile) (h1 : (s.accts fr).isCand = 1) (hf : flag ≠ 2) (h : doRegister c s fr amt flag inc nd px = .ok s') :
    profGet (s'.accts fr).prof keyNodeID = profGet (s.accts fr).prof keyNodeID ∧
    (s'.accts fr).deposit = (if amt > 0 then (s.accts fr).deposit.map (· + amt) else (s.accts fr).deposit) := by
  unfold doRegister at h
  simp only [depositAfterOverlay_true, h1] at h
  simp only [show ¬ (1 : Nat) = 0 by decide, show ¬ (1 : Nat) = 2 by decide, if_false, hf,
    ne_eq, not_true_eq_false] at h
  split at h; · cases h
  split at h
  · rename_i hpos
    split at h; · cases h
    split at h; · cases h
    rename_i old hdep
    injection h with h; subst h
    rw [modAcct_self]
    refine ⟨?_, ?_⟩
    · show profGet (overlay ((transfer s fr c.p.pool amt).accts fr).prof (builtProfile px)) keyNodeID = _
      rw [overlay_keeps_nodeID, transfer_prof]
    · show some (old + amt) = _
      rw [if_pos hpos, hdep]; rfl
  · rename_i hnpos
    injection h with h; subst h
    rw [modAcct_self]
    refine ⟨?_, ?_⟩
    · show profGet (overlay (s.accts fr).prof (builtProfile px)) keyNodeID = _
      exact overlay_keeps_nodeID _ _
    · show (s.accts fr).deposit = _
      rw [if_neg hnpos]

/-- **first_registration_ignores_tx_deposit**: `registerCandidate` stores the tx profile whole and writes the deposit
    entry itself — whatever the tx carries under that key.  BY CONSTRUCTION of the model: `px.deposit` is not read by
    `doRegister` when `protectDeposit = true` (`depositAfterOverlay_true` is `rfl`); a bookkeeping fact pinning the model,
    the Go side is tied by oracle c11/deposit-mismatch. -/
theorem first_registration_ignores_tx_deposit (c : Ctx) (s s' : St) (fr : Nat) (amt : Int) (flag inc : Nat) (nd : Bool)
    (px : TxProfile) (h0 : (s.accts fr).isCand = 0) (h : doRegister c s fr amt flag inc nd px = .ok s') :
    (s'.accts fr).deposit = some amt ∧ (s'.accts fr).prof = builtProfile px := by
  unfold doRegister at h
  simp only [depositAfterOverlay_true, h0, if_true] at h
  split at h; · cases h
  split at h; · cases h
  split at h; · cases h
  split at h; · cases h
  injection h with h; subst h
  rw [modAcct_self]
  refine ⟨?_, ?_⟩
  · show ((transfer _ fr c.p.pool amt).accts fr).deposit = some amt
    rw [(transfer_sameForTally _ _ _ _ _).2.2.2, modAcct_self]
  · show ((transfer _ fr c.p.pool amt).accts fr).prof = builtProfile px
    rw [transfer_prof, modAcct_self]

/-! ### refutation for the overlay loop WITHOUT the deposit guard (kernel-checked; a mutant of the model, not the code) -/

/-- a tx profile that carries the protected deposit key with the numeral 50 -/
def forged50 : TxProfile := { deposit := some (some 50) }

/-- account 10 (balance 9000, `LemoProofs.C11.fs0`; rate 100, minimum 1000) registers with 5000, then sends an UPDATE whose
    profile carries a deposit entry 50 together with the amount `amt2` -/
def twoTxs (protectDeposit : Bool) (amt2 : Int) : Option St :=
  match doRegister rctx fs0 10 5000 1 0 false {} protectDeposit with
  | .ok s1 =>
    match doRegister rctx s1 10 amt2 1 0 false forged50 protectDeposit with
    | .ok s2 => some s2
    | .error _ => none
  | .error _ => none

/-- (recorded deposit, votes, balance of the deposit pool) of account 10 -/
def depositView (s : Option St) : Option (Option Int × Int × Int) :=
  s.map fun s => ((s.accts 10).deposit, (s.accts 10).votes, (s.accts 1).bal)

/-- the book of the same two transactions -/
def twoTxsBook (amt2 : Int) : Int := regBook (regBook (fun _ => 0) 0 10 5000 1) 1 10 amt2 1 10

/-- **forged_deposit_refuted**: with the overlay loop that skips nodeID only (`protectDeposit := false`) the 2-tx history
    "register 5000; update carrying deposit entry 50 with amount 50" ends with RECORDED deposit 100 and 51 votes, while the
    pool holds 5050 and the book says 5050 (⌊5050/100⌋ = 50 votes): `recorded_deposit_is_paid_deposit` and the deposit term
    of the tally are false for that loop — one vote is minted for 50 units.  With amount 0 the forged entry alone replaces
    the record (50 recorded, 5000 paid).  The code as it stands (`protectDeposit := true`) records 5050 / 5000, 50 votes. -/
theorem forged_deposit_refuted :
    depositView (twoTxs false 50) = some (some 100, 51, 5050) ∧ twoTxsBook 50 = 5050 ∧
    depositView (twoTxs false 0) = some (some 50, 50, 5000) ∧ twoTxsBook 0 = 5000 ∧
    depositView (twoTxs true 50) = some (some 5050, 50, 5050) ∧
    depositView (twoTxs true 0) = some (some 5000, 50, 5000) := by
  decide

/-! ### non-vacuity: a block of the code as it stands whose register txs carry forged protected keys -/

def gReg (id : Nat) (amt : Int) (px : TxProfile) : Tx :=
  { id := id, sender := 10, payer := 10, gasLimit := 200000, gasPrice := 0, txType := 3, msgLen := 0, nzData := 0,
    zData := 0, kind := .register amt 1 0 false px, fromSigners := some [10], payerSigners := some [] }

/-- register 5000 with a forged entry 7 and nodeID 40; update carrying entry 50 with amount 50; update carrying a
    non-numeral entry, nodeID 99 and another key: all three are executed; recorded deposit = book = 5050 = pool, 50 votes,
    the stored nodeID is still 40, the other key is written, introduction is defaulted to "" -/
def gBlock : List Tx :=
  [ gReg 1 5000 { deposit := some (some 7), others := [(1, 40), (3, 8)] },
    gReg 2 50 forged50,
    gReg 3 0 { deposit := some none, others := [(1, 99), (5, 3)] } ]

example :
    (mineBlock rctx fs0 100000000 gBlock fU).2.1.map (·.1) = [1, 2, 3] ∧
    ((mineBlock rctx fs0 100000000 gBlock fU).1.accts 10).deposit = some 5050 ∧
    paidBlock rctx fs0 100000000 gBlock (fun _ => 0) 10 = 5050 ∧
    ((mineBlock rctx fs0 100000000 gBlock fU).1.accts 1).bal = 5050 ∧
    ((mineBlock rctx fs0 100000000 gBlock fU).1.accts 10).votes = 50 ∧
    profGet ((mineBlock rctx fs0 100000000 gBlock fU).1.accts 10).prof keyNodeID = some 40 ∧
    profGet ((mineBlock rctx fs0 100000000 gBlock fU).1.accts 10).prof 5 = some 3 ∧
    profGet ((mineBlock rctx fs0 100000000 gBlock fU).1.accts 10).prof keyIntroduction = some 0 := by
  decide

/-- the hypotheses of `recorded_deposit_is_paid_deposit` are satisfiable: the fresh state, any book, the one-block history -/
example : DepInv (fun _ => 0) fs0 ∧ HistoryNoRegisteredRefund fU fs0 [(rctx, 100000000, gBlock)] := by
  refine ⟨depInv_of_fresh_state _ _ (fun x => ?_), ⟨fun h => absurd h (by decide), trivial⟩⟩
  unfold fs0
  simp only
  split <;> (try split) <;> (try split) <;> rfl

end LemoProofs.C11Deposit

/-
  C11 — MIXED BLOCKS: a SUFFICIENT guard (tight clause by clause, not necessary: `guard_not_necessary`) under which a whole block with ANY interleaving of transfers, votes, re-votes,
  registrations, top-ups, unregistrations, signer changes, reimbursed txs, boxes and failing candidates — at every height,
  reward blocks included — keeps the vote tally of candidate `x`.

  Model: `LemoModel.Ledger` (the code as it stands) + `LemoModel.LedgerGuard` (the guard, a Bool function).
  Statement kept (`TallyInv p V x e s`): while `x` is a registered candidate,
        votes x = ⌊deposit x / 100 LEMO⌋ + Σ_{v ∈ V, voteFor v = x} ⌊balance v / 200 LEMO⌋ + e
  (`e` = the error the count already had — 0 for an exact tally; the harness judges blocks by the CHANGE of the error), and
  while `x` has never been registered nobody of `V` votes for it.

  * `mixed_block_keeps_tally_partial`  — guardX ⇒ the block keeps `TallyInv` (any pre-state, any candidate list, any height)
  * `mixed_history_keeps_tally_partial` — induction over histories of such blocks
  * `mixed_block_keeps_registered_tally` — the same in the words of `transfer_block_keeps_tally`
  * `guard_holds_for_typical` / `guard_holds_for_fresh_voters` — readable sufficient conditions for the VOTE clause; both keep
    the refund clause as a hypothesis on the executed post-tx state; `guard_holds_for_fresh_list` replaces it by a condition
    on the context alone (not a reward block, or `x` not on the refund list): nothing is executed to check it
  * no theorem here assumes `0 < voteRate` except the sufficient conditions: at rate 0 the model's `x / 0 = 0` makes the
    guard hold where Go divides by zero; the rate is pinned to 200 LEMO by the driver's `rate` op
  * tightness (kernel-checked): `guard_vote_clause_tight_new`, `guard_vote_clause_tight_old`, `guard_vote_clause_tight_fall`,
    `guard_refund_clause_tight` — for each clause a block on which ONLY that clause fails and the tally breaks.
  The full statement (no guard) stays refuted: `LemoProofs.C11.tally_refuted`, `negative_votes_refuted`.
-/
import LemoProofs.Lemmas.LedgerTally
namespace LemoProofs.C11Mixed
open LemoModel.Ledger LemoProofs.C01 LemoProofs.C11 LemoProofs.LedgerReward LemoProofs.LedgerTally

/-- **the tally statement about a state**, for candidate `x` with error `e` over the voter universe `V` -/
def TallyInv (p : Params) (V : List Nat) (x : Nat) (e : Int) (s : St) : Prop :=
  MidInv p (fun a => (s.accts a).bal) V x e s

/-- the reading of `TallyInv` for a registered candidate with a deposit -/
theorem TallyInv_registered (p : Params) (V : List Nat) (x : Nat) (e : Int) (s : St) (h : TallyInv p V x e s)
    (hc : (s.accts x).isCand = 1) (dep : Int) (hd : (s.accts x).deposit = some dep) :
    (s.accts x).votes = dep / p.depositRate +
      voterSum p.voteRate (fun v => (s.accts v).voteFor) (fun v => (s.accts v).bal) x V + e := by
  have := h.1 hc
  simp only [depVotes, hd] at this
  exact this

theorem TallyInv_of_registered (p : Params) (V : List Nat) (x : Nat) (e : Int) (s : St)
    (hc : (s.accts x).isCand = 1) (dep : Int) (hd : (s.accts x).deposit = some dep)
    (h : (s.accts x).votes = dep / p.depositRate +
      voterSum p.voteRate (fun v => (s.accts v).voteFor) (fun v => (s.accts v).bal) x V + e) : TallyInv p V x e s := by
  constructor
  · intro _
    simp only [depVotes, hd]
    exact h
  · intro h0; rw [hc] at h0; cases h0

/-! ### Finalize -/

/-- a change that keeps everybody's voteFor and `x`'s votes and flag — and `x`'s deposit while `x` is registered -/
theorem MidInv_of_same_weak (p : Params) (start : Nat → Int) (V : List Nat) (x : Nat) (e : Int) (s s' : St)
    (hvf : ∀ y, (s'.accts y).voteFor = (s.accts y).voteFor) (hv : (s'.accts x).votes = (s.accts x).votes)
    (hc : (s'.accts x).isCand = (s.accts x).isCand)
    (hd : (s.accts x).isCand = 1 → (s'.accts x).deposit = (s.accts x).deposit)
    (hI : MidInv p start V x e s) : MidInv p start V x e s' := by
  by_cases h1 : (s.accts x).isCand = 1
  · exact MidInv_of_same p start V x e s s' hvf ⟨hvf x, hv, hc, hd h1⟩ hI
  · constructor
    · intro h; rw [hc] at h; exact absurd h h1
    · intro h; rw [hc] at h
      obtain ⟨h3, h4⟩ := hI.2 h
      exact ⟨fun v hv' => by rw [hvf v]; exact h3 v hv', h4⟩

/-- **finalize_midInv_to_tally**: `Finalize` (term reward, refunds, THEN the vote pass over the balance changes since block
    start) turns the invariant written with the start balances into the tally statement about the final state -/
theorem finalize_midInv_to_tally (c : Ctx) (hvl : c.votesLast = true) (start : Nat → Int) (V : List Nat) (x : Nat) (hx0 : x ≠ 0)
    (e : Int) (s : St) (hrc : isRewardBlock c = true → x ∈ c.rf.refunds → (s.accts x).isCand ≠ 1)
    (hI : MidInv c.p start V x e s) : TallyInv c.p V x e (finalize c start s V) := by
  unfold finalize
  rw [if_pos hvl]
  have hf := fun v => rewardSteps_frame c s v
  have h3 : MidInv c.p start V x e (rewardSteps c s) := by
    refine MidInv_of_same_weak c.p start V x e s _ (fun y => (hf y).1) (hf x).2.1 (hf x).2.2.1 ?_ hI
    intro h1
    by_cases hr : isRewardBlock c = true
    · exact rewardSteps_deposit_other c s x (fun hm => hrc hr hm h1)
    · unfold rewardSteps; rw [if_neg hr]
  have hfr := fun v => votesByBalance_frame c start (rewardSteps c s) V v
  unfold TallyInv
  constructor
  · intro hc
    rw [(hfr x).2.2.1] at hc
    have hv : ((votesByBalance c start (rewardSteps c s) V).accts x).votes =
        ((rewardSteps c s).accts x).votes + passDelta c start (rewardSteps c s) V x := by
      rw [pass_formula]; rfl
    rw [hv, passDelta_voterSum c start _ x hx0 hc V, h3.1 hc, depVotes_congr c.p _ _ (hfr x).2.2.2]
    have e1 : voterSum c.p.voteRate (fun v => ((votesByBalance c start (rewardSteps c s) V).accts v).voteFor)
        (fun a => ((votesByBalance c start (rewardSteps c s) V).accts a).bal) x V =
        voterSum c.p.voteRate (fun v => ((rewardSteps c s).accts v).voteFor) (fun v => ((rewardSteps c s).accts v).bal) x V :=
      voterSum_congr _ _ _ _ _ x (fun v => (hfr v).1) (fun v => (hfr v).2.1) V
    rw [e1]
    omega
  · intro hc
    rw [(hfr x).2.2.1] at hc
    obtain ⟨k3, k4⟩ := h3.2 hc
    exact ⟨fun v hv => by rw [(hfr v).1]; exact k3 v hv, k4⟩

/-! ### whole blocks -/

theorem guardX_parts (c : Ctx) (s : St) (gp : Nat) (txs : List Tx) (V : List Nat) (x : Nat) (h : guardX c s gp txs V x = true) :
    (isRewardBlock c = true → x ∈ c.rf.refunds → ((mine c s gp txs).st.accts x).isCand ≠ 1) ∧
    (execBlock c s gp txs).all (voteClause c (fun a => (s.accts a).bal) V x) = true := by
  unfold guardX at h
  rw [Bool.and_eq_true] at h
  refine ⟨?_, h.2⟩
  intro hr hm h1
  have h' := h.1
  unfold refundClause at h'
  have hm' : c.rf.refunds.contains x = true := List.contains_iff_mem.mpr hm
  rw [hr, hm', decide_eq_true h1] at h'
  cases h'

/-- **mixed_block_keeps_tally_partial**: the per-block invariant for MIXED blocks, with no hypothesis about the
    post-transaction state.  For every context of the code as it stands (vote pass last, flag check on, positive deposit
    rate), every pre-state, gas limit and candidate list — any interleaving of transfers, votes, re-votes, registrations,
    top-ups, unregistrations, signer changes, reimbursed txs, boxes, failing candidates —, every height (reward blocks with
    salaries and refunds included), every duplicate-free voter universe `V`, every account `x ≠ 0` and every error `e`:
    if `TallyInv` holds for `x` when the block begins and the block satisfies the guard for `x`, `TallyInv` holds for `x`
    when the block ends — `x` may be registered all along, register, top up or unregister in the block. -/
theorem mixed_block_keeps_tally_partial (c : Ctx) (hvl : c.votesLast = true) (hfc : c.flagCheck = true)
    (hD : 0 < c.p.depositRate) (s : St) (gp : Nat) (txs : List Tx) (V : List Nat) (hV : V.Nodup)
    (x : Nat) (hx0 : x ≠ 0) (e : Int) (hpre : TallyInv c.p V x e s) (hg : guardX c s gp txs V x = true) :
    TallyInv c.p V x e (mineBlock c s gp txs V).1 := by
  obtain ⟨hrc, hall⟩ := guardX_parts c s gp txs V x hg
  have h1 := mine_midInv c hfc hD (fun a => (s.accts a).bal) V hV x hx0 e txs s gp hall hpre
  have h2 := MidInv_chargeForGas c.p (fun a => (s.accts a).bal) V x e _ c.miner (mine c s gp txs).fee h1
  have hb : (mineBlock c s gp txs V).1 =
      finalize c (fun a => (s.accts a).bal) (chargeForGas (mine c s gp txs).st c.miner (mine c s gp txs).fee) V := rfl
  rw [hb]
  refine finalize_midInv_to_tally c hvl _ V x hx0 e _ ?_ h2
  intro hr hm
  rw [(chargeForGas_sameButBal _ _ _ x).1.2.2.1]
  exact hrc hr hm

/-- **mixed_block_keeps_registered_tally**: the same in the words of `transfer_block_keeps_tally` — a candidate that is
    registered with deposit `dep` and an exact tally when the block begins and is still registered (deposit `dep'`: it may
    have topped up) when a guarded block ends has an exact tally then. -/
theorem mixed_block_keeps_registered_tally (c : Ctx) (hvl : c.votesLast = true) (hfc : c.flagCheck = true)
    (hD : 0 < c.p.depositRate) (s : St) (gp : Nat) (txs : List Tx) (V : List Nat) (hV : V.Nodup)
    (x : Nat) (hx0 : x ≠ 0) (hc : (s.accts x).isCand = 1) (dep : Int) (hdep : (s.accts x).deposit = some dep)
    (htally : (s.accts x).votes = dep / c.p.depositRate +
        voterSum c.p.voteRate (fun v => (s.accts v).voteFor) (fun v => (s.accts v).bal) x V)
    (hg : guardX c s gp txs V x = true)
    (hc' : ((mineBlock c s gp txs V).1.accts x).isCand = 1) (dep' : Int)
    (hdep' : ((mineBlock c s gp txs V).1.accts x).deposit = some dep') :
    ((mineBlock c s gp txs V).1.accts x).votes = dep' / c.p.depositRate +
        voterSum c.p.voteRate (fun v => ((mineBlock c s gp txs V).1.accts v).voteFor)
          (fun v => ((mineBlock c s gp txs V).1.accts v).bal) x V := by
  have hpre : TallyInv c.p V x 0 s := TallyInv_of_registered c.p V x 0 s hc dep hdep (by rw [htally]; omega)
  have := TallyInv_registered c.p V x 0 _ (mixed_block_keeps_tally_partial c hvl hfc hD s gp txs V hV x hx0 0 hpre hg) hc' dep' hdep'
  rw [this]; omega

/-- the guard for every account at once -/
theorem mixed_block_keeps_all_tallies (c : Ctx) (hvl : c.votesLast = true) (hfc : c.flagCheck = true)
    (hD : 0 < c.p.depositRate) (s : St) (gp : Nat) (txs : List Tx) (V : List Nat) (hV : V.Nodup)
    (hg : guardBlock c s gp txs V = true) :
    ∀ x ∈ V, x ≠ 0 → ∀ e, TallyInv c.p V x e s → TallyInv c.p V x e (mineBlock c s gp txs V).1 := by
  intro x hx hx0 e hpre
  unfold guardBlock at hg
  exact mixed_block_keeps_tally_partial c hvl hfc hD s gp txs V hV x hx0 e hpre (List.all_eq_true.mp hg x hx)

/-! ### histories -/

/-- every block of the history runs the code as it stands with the parameters `p` and satisfies the guard for `x` ON THE
    STATE IT IS EXECUTED ON -/
def HistoryGuard (p : Params) (V : List Nat) (x : Nat) : St → List (Ctx × Nat × List Tx) → Prop
  | _, [] => True
  | s, (c, gp, txs) :: bs =>
    c.votesLast = true ∧ c.flagCheck = true ∧ c.p = p ∧ guardX c s gp txs V x = true ∧
    HistoryGuard p V x (mineBlock c s gp txs V).1 bs

/-- **mixed_history_keeps_tally_partial**: induction over histories — any number of mixed blocks at any heights, each
    satisfying the guard for `x` on the state it is executed on: `TallyInv` for `x` (with the same error `e`) holds after
    every prefix, in particular at the end. -/
theorem mixed_history_keeps_tally_partial (p : Params) (hD : 0 < p.depositRate) (V : List Nat) (hV : V.Nodup)
    (x : Nat) (hx0 : x ≠ 0) (e : Int) :
    ∀ (bs : List (Ctx × Nat × List Tx)) (s : St), HistoryGuard p V x s bs → TallyInv p V x e s →
      TallyInv p V x e (runBlocks V s bs) := by
  intro bs
  induction bs with
  | nil => intro s _ h; exact h
  | cons b bs ih =>
    intro s hg hpre
    obtain ⟨c, gp, txs⟩ := b
    obtain ⟨hvl, hfc, hp, hgx, hrest⟩ := hg
    subst hp
    simp only [runBlocks]
    exact ih _ hrest (mixed_block_keeps_tally_partial c hvl hfc hD s gp txs V hV x hx0 e hpre hgx)

/-! ### readable sufficient conditions -/

theorem movedWeight_of_nonneg (c : Ctx) (hR : 0 < c.p.voteRate) (b : Int) (hb : 0 ≤ b) : movedWeight c b = b / c.p.voteRate := by
  unfold movedWeight
  have := Int.ediv_nonneg hb (Int.le_of_lt hR)
  split <;> omega

/-- **guard_holds_for_typical**: if every vote tx the block executes is sent by an account of the universe whose balance,
    when its vote tx starts, is still the (non-negative) balance it had when the block began — no earlier transaction of
    the block paid, charged or credited it; what the vote tx itself costs does not matter, however many 200-LEMO boundaries
    the fee crosses — then the vote clause holds for EVERY candidate; with the refund clause, the guard. -/
theorem guard_holds_for_typical (c : Ctx) (hR : 0 < c.p.voteRate) (s : St) (gp : Nat) (txs : List Tx) (V : List Nat) (x : Nat)
    (hu : untouchedVoters c s gp txs V = true) (hr : refundClause c (mine c s gp txs).st x = true) :
    guardX c s gp txs V x = true := by
  unfold guardX
  rw [hr, Bool.true_and, List.all_eq_true]
  intro en hen
  unfold untouchedVoters at hu
  have h := List.all_eq_true.mp hu en hen
  unfold untouchedClause at h
  unfold voteClause
  cases hk : en.2.kind with
  | vote cand =>
    simp only [hk] at h ⊢
    rw [Bool.and_eq_true, Bool.and_eq_true] at h
    obtain ⟨⟨h1, h2⟩, h3⟩ := h
    have h1' : en.2.sender ∈ V := List.contains_iff_mem.mp h1
    have h2' := of_decide_eq_true h2
    have h3' := of_decide_eq_true h3
    split
    · apply decide_eq_true
      unfold startWeight
      rw [if_pos h1', h2', movedWeight_of_nonneg c hR _ h3']
    · rfl
  | transfer _ _ => rfl
  | register _ _ _ _ _ => rfl
  | setSigners _ _ _ => rfl
  | box => rfl
  | other => rfl

/-- a block that refunds nobody who is registered (every block that is not a reward block, and every reward block whose
    refund list holds unregistered candidates only) and whose voters are untouched satisfies the guard for every account -/
theorem guardBlock_of_typical (c : Ctx) (hR : 0 < c.p.voteRate) (s : St) (gp : Nat) (txs : List Tx) (V : List Nat)
    (hu : untouchedVoters c s gp txs V = true) (hr : ∀ x ∈ V, refundClause c (mine c s gp txs).st x = true) :
    guardBlock c s gp txs V = true := by
  unfold guardBlock
  rw [List.all_eq_true]
  intro x hx
  exact guard_holds_for_typical c hR s gp txs V x hu (hr x hx)

/-- the balance of an account a non-box tx does not name (sender, gas payer, transfer recipient, deposit pool) -/
theorem applySimple_bal_other (c : Ctx) (s s' : St) (gp gp' g : Nat) (tx : Tx) (h : applySimple c s gp tx = .ok (s', gp', g))
    (a : Nat) (h1 : a ≠ tx.payer) (h2 : a ∉ LemoProofs.LedgerFrame.bodyTouches c tx) : (s'.accts a).bal = (s.accts a).bal := by
  obtain ⟨sb, hb, hs', _, _⟩ := LemoProofs.LedgerFrame.applySimple_shape c s s' gp gp' g tx h
  rw [hs', LemoProofs.LedgerSum.setBal_bal, if_neg h1, LemoProofs.LedgerFrame.body_bal_other c _ sb tx _ hb a h2,
    LemoProofs.LedgerSum.setBal_bal, if_neg h1]

/-- the accounts `freshVoters` marks as named by a candidate -/
def namedBy (c : Ctx) (t : Tx) : List Nat :=
  t.sender :: t.payer :: c.p.pool :: (match t.kind with | .transfer to _ => [to] | _ => [])

theorem fresh_untouched_aux (c : Ctx) (s0 : St) (V : List Nat) : ∀ (txs : List Tx) (s : St) (gp : Nat) (seen : List Nat),
    freshVoters c s0 V seen txs = true → (∀ a, a ∉ seen → (s.accts a).bal = (s0.accts a).bal) →
    (execBlock c s gp txs).all (untouchedClause s0 V) = true := by
  intro txs
  induction txs with
  | nil => intro s gp seen _ _; rfl
  | cons t ts ih =>
    intro s gp seen hf hinv
    unfold freshVoters at hf
    rw [Bool.and_eq_true] at hf
    obtain ⟨hk, hrest⟩ := hf
    have hrest' : freshVoters c s0 V (namedBy c t ++ seen) ts = true := hrest
    unfold execBlock
    by_cases hg : gp < LemoGen.Gas.OrdinaryTxGas
    · simp only [hg, if_true]; rfl
    · simp only [hg, if_false]
      have hnb : t.kind ≠ .box := by
        intro hb; rw [hb] at hk; cases hk
      have hap : applyTx c s gp t = applySimple c s gp t := by
        unfold applyTx
        cases hk2 : t.kind with
        | box => exact absurd hk2 hnb
        | transfer _ _ => rfl
        | vote _ => rfl
        | register _ _ _ _ _ => rfl
        | setSigners _ _ _ => rfl
        | other => rfl
      cases ha : applyTx c s gp t with
      | error er =>
        obtain ⟨er, gp'⟩ := er
        simp only []
        exact ih s gp' _ hrest' (fun a hn => hinv a (fun hm => hn (List.mem_append_right _ hm)))
      | ok r =>
        obtain ⟨s1, gp1, g1⟩ := r
        simp only []
        rw [List.all_append, Bool.and_eq_true]
        constructor
        · have hex : execTx c s gp t = [(s, t)] := by
            unfold execTx
            cases hk2 : t.kind with
            | box => exact absurd hk2 hnb
            | transfer _ _ => rfl
            | vote _ => rfl
            | register _ _ _ _ _ => rfl
            | setSigners _ _ _ => rfl
            | other => rfl
          rw [hex, List.all_cons, List.all_nil, Bool.and_true]
          unfold untouchedClause
          cases hk2 : t.kind with
          | vote cand =>
            simp only [hk2] at hk ⊢
            rw [Bool.and_eq_true, Bool.and_eq_true] at hk
            obtain ⟨⟨k1, k2⟩, k3⟩ := hk
            have k2' : t.sender ∉ seen := by
              intro hm
              rw [List.contains_iff_mem.mpr hm] at k2
              cases k2
            rw [Bool.and_eq_true, Bool.and_eq_true]
            exact ⟨⟨k1, decide_eq_true (hinv _ k2')⟩, k3⟩
          | transfer _ _ => rfl
          | register _ _ _ _ _ => rfl
          | setSigners _ _ _ => rfl
          | box => rfl
          | other => rfl
        · refine ih s1 gp1 _ hrest' ?_
          intro a hn
          have hn1 : a ∉ namedBy c t := fun hm => hn (List.mem_append_left _ hm)
          have hn2 : a ∉ seen := fun hm => hn (List.mem_append_right _ hm)
          rw [hap] at ha
          have hp : a ≠ t.payer := fun e => hn1 (by rw [e]; simp [namedBy])
          have hb : a ∉ LemoProofs.LedgerFrame.bodyTouches c t := by
            intro hm
            apply hn1
            unfold LemoProofs.LedgerFrame.bodyTouches at hm
            unfold namedBy
            rcases List.mem_cons.mp hm with e | hm
            · rw [e]; exact List.mem_cons_self
            · rcases List.mem_cons.mp hm with e | hm
              · rw [e]; exact List.mem_cons_of_mem _ (List.mem_cons_of_mem _ List.mem_cons_self)
              · exact List.mem_cons_of_mem _ (List.mem_cons_of_mem _ (List.mem_cons_of_mem _ hm))
          rw [applySimple_bal_other c s s1 gp gp1 g1 t ha a hp hb]
          exact hinv a hn2

/-- **guard_holds_for_fresh_voters**: the VOTE clause from a condition on the candidate LIST alone (nothing is executed to
    check `freshVoters`; the refund clause `hr` is still a hypothesis on the executed post-tx state — see
    `guard_holds_for_fresh_list` for the form without it): no boxes,
    and the sender of every vote tx is an account of the universe with a non-negative balance that no EARLIER candidate of
    the list — included or discarded — names as sender, gas payer or transfer recipient, and that is not the deposit pool
    once any candidate precedes it.  Then the voters are untouched, and (with the refund clause) the guard holds for every
    candidate: e.g. a block in which every account sends at most one transaction and the voters receive nothing. -/
theorem guard_holds_for_fresh_voters (c : Ctx) (hR : 0 < c.p.voteRate) (s : St) (gp : Nat) (txs : List Tx) (V : List Nat) (x : Nat)
    (hf : freshVoters c s V [] txs = true) (hr : refundClause c (mine c s gp txs).st x = true) :
    guardX c s gp txs V x = true :=
  guard_holds_for_typical c hR s gp txs V x
    (fresh_untouched_aux c s V txs s gp [] hf (fun _ _ => rfl)) hr

/-- the refund clause from the context alone: the block is not a reward block, or `x` is not on its refund list -/
theorem refundClause_of_not_listed (c : Ctx) (st : St) (x : Nat)
    (h : isRewardBlock c = false ∨ x ∉ c.rf.refunds) : refundClause c st x = true := by
  unfold refundClause
  rcases h with h | h
  · rw [h]; rfl
  · have hc : c.rf.refunds.contains x = false := by
      cases hcx : c.rf.refunds.contains x with
      | false => rfl
      | true => exact absurd (List.contains_iff_mem.mp hcx) h
    rw [hc, Bool.and_false, Bool.false_and]; rfl

/-- **guard_holds_for_fresh_list**: the guard for `x` from conditions that need NO execution at all — `freshVoters` on the
    candidate list and pre-state balances, and `x` not being refunded by this block (not a reward block, or `x` not on the
    trusted refund list). -/
theorem guard_holds_for_fresh_list (c : Ctx) (hR : 0 < c.p.voteRate) (s : St) (gp : Nat) (txs : List Tx) (V : List Nat) (x : Nat)
    (hf : freshVoters c s V [] txs = true) (hl : isRewardBlock c = false ∨ x ∉ c.rf.refunds) :
    guardX c s gp txs V x = true :=
  guard_holds_for_fresh_voters c hR s gp txs V x hf (refundClause_of_not_listed c _ x hl)

/-! ### tightness: for each clause of the guard a block on which ONLY that clause fails — and the tally breaks
    (kernel-checked witnesses; rate 200 / 100 and free gas for readability, as in `LemoProofs.C11.tally_refuted`) -/

/-- **guard_vote_clause_tight_new** (vote clause, `x` = the NEW candidate; the block of `tally_refuted`): 22 sends 100 to 21
    (150 → 250: weight at block start 0, at the vote tx 1), then 21 votes for 20.  The tally of 20 is exact before; the
    refund clause holds; of the two executed txs only the vote tx fails the vote clause; after the block 20 has 12 votes
    and the tally says 11. -/
theorem guard_vote_clause_tight_new :
    (rs0.accts 20).votes = tallyOf rp rs0 1000 20 rU ∧
    refundClause rctx (mine rctx rs0 100000000 [rtx1, rtx2]).st 20 = true ∧
    (execBlock rctx rs0 100000000 [rtx1, rtx2]).map (voteClause rctx (fun a => (rs0.accts a).bal) rU 20) = [true, false] ∧
    guardX rctx rs0 100000000 [rtx1, rtx2] rU 20 = false ∧
    ((mineBlock rctx rs0 100000000 [rtx1, rtx2] rU).1.accts 20).votes = 12 ∧
    tallyOf rp (mineBlock rctx rs0 100000000 [rtx1, rtx2] rU).1 1000 20 rU = 11 := by
  decide

/-- **guard_vote_clause_tight_old** (vote clause, `x` = the candidate the voter LEAVES; the block of
    `negative_votes_refuted`): 21 (150, votes for 20 with weight 0) receives 100 and re-votes for 23: one vote is taken from
    20 that it never received.  Exact before for both candidates, refund clause holds, only the vote tx fails the clause —
    for 20 (left) and for 23 (joined); after the block 20 has −1 votes (tally 0) and 23 has 12 (tally 11). -/
theorem guard_vote_clause_tight_old :
    (ns0.accts 20).votes = tallyOf rp ns0 0 20 nU ∧ (ns0.accts 23).votes = tallyOf rp ns0 1000 23 nU ∧
    refundClause rctx (mine rctx ns0 100000000 [rtx1, ntx2]).st 20 = true ∧
    (execBlock rctx ns0 100000000 [rtx1, ntx2]).map (voteClause rctx (fun a => (ns0.accts a).bal) nU 20) = [true, false] ∧
    guardX rctx ns0 100000000 [rtx1, ntx2] nU 20 = false ∧ guardX rctx ns0 100000000 [rtx1, ntx2] nU 23 = false ∧
    ((mineBlock rctx ns0 100000000 [rtx1, ntx2] nU).1.accts 20).votes = -1 ∧
    tallyOf rp (mineBlock rctx ns0 100000000 [rtx1, ntx2] nU).1 0 20 nU = 0 ∧
    ((mineBlock rctx ns0 100000000 [rtx1, ntx2] nU).1.accts 23).votes = 12 ∧
    tallyOf rp (mineBlock rctx ns0 100000000 [rtx1, ntx2] nU).1 1000 23 nU = 11 := by
  decide

/-- voter 21 holds 450 (weight 2) and votes for nobody; it first pays 300 to 22, then votes for 20 with 150 left -/
def ws0 : St :=
  { accts := fun a =>
      if a = 20 then { isCand := 1, deposit := some 1000, votes := 10, income := 20 }
      else if a = 21 then { bal := 450 } else if a = 22 then { bal := 500 } else if a = 3 then { income := 4 } else {} }
def wtx1 : Tx :=
  { id := 1, sender := 21, payer := 21, gasLimit := 21000, gasPrice := 0, txType := 0, msgLen := 0, nzData := 0,
    zData := 0, kind := .transfer 22 300, fromSigners := some [21], payerSigners := some [] }

/-- **guard_vote_clause_tight_fall** (vote clause, the weight FALLS before the vote): the vote tx moves ⌊150/200⌋ = 0 votes,
    the end-of-block pass then takes ⌊150/200⌋ − ⌊450/200⌋ = −2 from candidate 20, which never had them: 8 votes, tally 10. -/
theorem guard_vote_clause_tight_fall :
    (ws0.accts 20).votes = tallyOf rp ws0 1000 20 rU ∧
    refundClause rctx (mine rctx ws0 100000000 [wtx1, rtx2]).st 20 = true ∧
    (execBlock rctx ws0 100000000 [wtx1, rtx2]).map (voteClause rctx (fun a => (ws0.accts a).bal) rU 20) = [true, false] ∧
    guardX rctx ws0 100000000 [wtx1, rtx2] rU 20 = false ∧
    ((mineBlock rctx ws0 100000000 [wtx1, rtx2] rU).1.accts 20).votes = 8 ∧
    tallyOf rp (mineBlock rctx ws0 100000000 [wtx1, rtx2] rU).1 1000 20 rU = 10 := by
  decide

/-- the reward block of `votes_before_reward_refuted`, with the REGISTERED candidate 20 on the refund list (which the real
    `LoadRefundCandidates` never does: it lists unregistered candidates; the list is a trusted input of the model) -/
def octxR : Ctx :=
  { p := op, miner := 3, height := 13, rf := { total := 600, nodes := [(3, 0)], refunds := [20] } }

/-- **guard_refund_clause_tight** (refund clause): an EMPTY reward block — no transaction, so the vote clause holds
    vacuously — that refunds the deposit of registered candidate 20: the deposit entry is cleared, the 10 deposit votes
    stay: 13 votes (10 + the 3 of the salary its voter 4 received), the tally says 0 + 3 + 0 = 3. -/
theorem guard_refund_clause_tight :
    isRewardBlock octxR = true ∧
    (os0.accts 20).votes = tallyOf op os0 1000 20 oU ∧
    (execBlock octxR os0 100000000 []).all (voteClause octxR (fun a => (os0.accts a).bal) oU 20) = true ∧
    refundClause octxR (mine octxR os0 100000000 []).st 20 = false ∧
    guardX octxR os0 100000000 [] oU 20 = false ∧
    ((mineBlock octxR os0 100000000 [] oU).1.accts 20).isCand = 1 ∧
    ((mineBlock octxR os0 100000000 [] oU).1.accts 20).deposit = none ∧
    ((mineBlock octxR os0 100000000 [] oU).1.accts 20).votes = 13 ∧
    depVotes op ((mineBlock octxR os0 100000000 [] oU).1.accts 20) +
      voterSum op.voteRate (fun v => ((mineBlock octxR os0 100000000 [] oU).1.accts v).voteFor)
        (fun v => ((mineBlock octxR os0 100000000 [] oU).1.accts v).bal) 20 oU = 3 := by
  decide

/-! ### non-vacuity: a mixed block that satisfies the guard for every account -/

/-- pool 1 (holds the two deposits), miner 3 with income address 4; candidates 20 (deposit 1000, its voter 21 holds 450:
    12 votes; balance 500) and 23 (deposit 1000, 10 votes); 22 holds 900 and votes for nobody; 24 holds 3000 -/
def ms0 : St :=
  { accts := fun a =>
      if a = 1 then { bal := 2000 }
      else if a = 20 then { isCand := 1, deposit := some 1000, votes := 12, income := 20, bal := 500 }
      else if a = 23 then { isCand := 1, deposit := some 1000, votes := 10, income := 23 }
      else if a = 21 then { bal := 450, voteFor := 20 } else if a = 22 then { bal := 900 }
      else if a = 24 then { bal := 3000 } else if a = 3 then { income := 4 } else {} }
def mtx (id sender gasLimit txType : Nat) (kind : Kind) (payer : Nat := sender) : Tx :=
  { id := id, sender := sender, payer := payer, gasLimit := gasLimit, gasPrice := 0, txType := txType, msgLen := 0, nzData := 0,
    zData := 0, kind := kind, fromSigners := some [sender], payerSigners := if payer = sender then some [] else some [payer] }
/-- 22 votes for 23 (untouched: weight 4); 22 pays 100 to 21 (450 → 550: still weight 2; 22: 800, still weight 4); 24
    registers with 2000; 21 re-votes from 20 to 23 (touched, same weight: the guard holds although the block is not
    "typical"); 20 tops up 150 (deposit 1150: one more vote); a failing overdraft by 22 (discarded); a box of 22 whose
    sub-txs are a transfer 24 → 21 of 30 and a re-vote of 22 from 23 to 20 whose gas 24 reimburses; 23 unregisters
    (refunded at once). -/
def mblock : List Tx :=
  [ mtx 1 22 35000 2 (.vote 23),
    mtx 2 22 21000 0 (.transfer 21 100),
    mtx 3 24 92000 3 (.register 2000 1 0),
    mtx 4 21 35000 2 (.vote 23),
    mtx 5 20 92000 3 (.register 150 1 0),
    mtx 6 22 21000 0 (.transfer 21 99999),
    { mtx 7 22 40000 10 .box with subs := [ mtx 8 24 21000 0 (.transfer 21 30), mtx 9 22 35000 2 (.vote 20) 24 ] },
    mtx 10 23 92000 3 (.register 0 2 0) ]
def mU : List Nat := [1, 3, 4, 20, 21, 22, 23, 24]

/-- the hypotheses of `mixed_block_keeps_tally_partial` are satisfiable by a block that mixes everything: all candidates
    but the overdraft are executed (the box with both sub-txs), the guard holds for EVERY account of the universe, the
    tallies of 20 and 23 are exact before — and after the block 20 (deposit now 1150) and the newly registered 24 have
    exact tallies, 23 is unregistered with 0 votes. -/
example :
    rctx.votesLast = true ∧ rctx.flagCheck = true ∧ 0 < rctx.p.depositRate ∧ mU.Nodup ∧
    (mineBlock rctx ms0 100000000 mblock mU).2.1.map (·.1) = [1, 2, 3, 4, 5, 7, 10] ∧
    (mineBlock rctx ms0 100000000 mblock mU).2.2.1 = [(6, "ErrInsufficientBalance")] ∧
    (execBlock rctx ms0 100000000 mblock).map (·.2.id) = [1, 2, 3, 4, 5, 8, 9, 10] ∧
    guardBlock rctx ms0 100000000 mblock mU = true ∧
    untouchedVoters rctx ms0 100000000 mblock mU = false ∧
    (ms0.accts 20).votes = tallyOf rp ms0 1000 20 mU ∧ (ms0.accts 23).votes = tallyOf rp ms0 1000 23 mU ∧
    ((mineBlock rctx ms0 100000000 mblock mU).1.accts 20).votes = tallyOf rp (mineBlock rctx ms0 100000000 mblock mU).1 1150 20 mU ∧
    ((mineBlock rctx ms0 100000000 mblock mU).1.accts 24).votes = tallyOf rp (mineBlock rctx ms0 100000000 mblock mU).1 2000 24 mU ∧
    ((mineBlock rctx ms0 100000000 mblock mU).1.accts 23).isCand = 2 ∧
    ((mineBlock rctx ms0 100000000 mblock mU).1.accts 23).votes = 0 := by
  decide

/-- `TallyInv` itself on the start state of the example (both clauses, for a registered and a never-registered account) -/
example : TallyInv rp mU 20 0 ms0 ∧ TallyInv rp mU 24 0 ms0 := by
  refine ⟨⟨?_, ?_⟩, ⟨?_, ?_⟩⟩
  · intro _; decide
  · intro h; exact absurd h (by decide)
  · intro h; exact absurd h (by decide)
  · intro _; exact ⟨by decide, rfl⟩

/-- a "typical" block in which the FEE of the vote tx crosses the boundary (rate 200000, gas price 1): 21 holds 210000
    (weight 1) and votes for 20; the vote costs 35000: 175000 left (weight 0). The voter is untouched when its tx starts:
    the guard holds, the vote tx moves 1, the pass takes it back: 10 votes, tally 10 + 0. -/
def fp : Params := { voteRate := 200000, depositRate := 100, minDeposit := 1000, pool := 1 }
def fctx : Ctx := { p := fp, miner := 3, height := 7 }
def fs1 : St :=
  { accts := fun a =>
      if a = 20 then { isCand := 1, deposit := some 1000, votes := 10, income := 20 }
      else if a = 21 then { bal := 210000 } else if a = 3 then { income := 4 } else {} }
def ftx : Tx :=
  { id := 1, sender := 21, payer := 21, gasLimit := 35000, gasPrice := 1, txType := 2, msgLen := 0, nzData := 0,
    zData := 0, kind := .vote 20, fromSigners := some [21], payerSigners := some [] }
example :
    untouchedVoters fctx fs1 100000000 [ftx] rU = true ∧ freshVoters fctx fs1 rU [] [ftx] = true ∧
    guardX fctx fs1 100000000 [ftx] rU 20 = true ∧
    ((mineBlock fctx fs1 100000000 [ftx] rU).1.accts 21).bal = 175000 ∧
    ((mineBlock fctx fs1 100000000 [ftx] rU).1.accts 4).bal = 35000 ∧
    ((mineBlock fctx fs1 100000000 [ftx] rU).1.accts 20).votes = 10 ∧
    tallyOf fp (mineBlock fctx fs1 100000000 [ftx] rU).1 1000 20 rU = 10 := by
  decide

/-- the guard is sufficient, not necessary: two errors can cancel — 21 (150 → 250 after receiving 100) votes for 20 and
    then re-votes for 23 in the same block: 20 gets one vote and loses it again; the guard rejects the block for 20 (and
    for 23), the tally of 20 is exact afterwards (that of 23 is not) -/
def ctx3 : Tx :=
  { id := 3, sender := 21, payer := 21, gasLimit := 35000, gasPrice := 0, txType := 2, msgLen := 0, nzData := 0,
    zData := 0, kind := .vote 23, fromSigners := some [21], payerSigners := some [] }
def cs0 : St :=
  { accts := fun a =>
      if a = 20 then { isCand := 1, deposit := some 1000, votes := 10, income := 20 }
      else if a = 23 then { isCand := 1, deposit := some 1000, votes := 10, income := 23 }
      else if a = 21 then { bal := 150 } else if a = 22 then { bal := 500 } else if a = 3 then { income := 4 } else {} }
theorem guard_not_necessary :
    guardX rctx cs0 100000000 [rtx1, rtx2, ctx3] nU 20 = false ∧
    ((mineBlock rctx cs0 100000000 [rtx1, rtx2, ctx3] nU).1.accts 20).votes =
      tallyOf rp (mineBlock rctx cs0 100000000 [rtx1, rtx2, ctx3] nU).1 1000 20 nU ∧
    ((mineBlock rctx cs0 100000000 [rtx1, rtx2, ctx3] nU).1.accts 23).votes = 12 ∧
    tallyOf rp (mineBlock rctx cs0 100000000 [rtx1, rtx2, ctx3] nU).1 1000 23 nU = 11 := by
  decide

end LemoProofs.C11Mixed

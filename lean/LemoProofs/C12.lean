/-
  C12 — issued assets are conserved; only holders / issuers move or mint them.

  Model: `LemoModel.Assets` (hand-written from chain/transaction/asset_tx.go, chain/vm/evm.go
  TransferAssetTx, tx_processor.go VerifyAssetTx, hexutil.Big10), tied to the real engine by `hx c12`
  (outcome of every candidate tx, supply / freeze flag of every asset and every equity entry after
  every block; miner path + validator path, every block stable).

  Full statement (kept visible): for every divisible asset the recorded total supply equals the sum of
  all holders' equity; it changes only through the issuer's issue / replenish and a holder's burn; a
  transfer moves a non-negative amount out of the sender's own entry only; nothing is negative; frozen
  assets do not move.

  Two defects of the code:
  (1) EVM.TransferAssetTx had no sign check on the amount (hexutil.Big10 accepts "-60").  REPAIRED in
      /repo by commit 71158df ("fix: EVM.TransferAssetTx rejects a negative transfer amount"); the code
      before it is commit 2b30546.  `fixed = true` is the LIVE model (the only one the correspondence
      run uses); `fixed = false`, the code before the repair, exists for the refutation theorems.
        * `transfer_exact`                        FULL, unguarded, live model: 0 ≤ amount ≤ equity, the
                                                  sender's entry falls by exactly the amount, which is
                                                  exactly what the receiver gains / the supply loses on a burn
        * `transfer_only_debits_sender`           full theorem for `transferFixed`
        * `transfer_only_debits_sender_partial`   as-is model, under the guard 0 ≤ amount
        * `transfer_only_debits_sender_refuted`   kernel-checked witness on the as-is model (Bob sends
                                                  -60 to Alice: Alice 100 → 40, Bob 100 → 160)
        * `negative_burn_mints_refuted`           as-is: "-7" sent to 0x0 mints 7 for a non-issuer
        * `supply_changes_only_by`                full for the fixed model / as-is under 0 ≤ amount
                                                  (hypothesis `FreshCreate`: CreateAssetTx has no existence
                                                  check, see `create_resets_existing`)
  (2) NOT repaired (known finding c12/…/foreign-asset-id): ReplenishAssetTx accepts ANY asset id, and
      IssueAssetTx adds to / overwrites whatever entry sits under its id.
        * `supply_eq_sum_refuted`                 witness: 1 000 000 units of an attacker's own asset
                                                  become 1 000 000 units of the victim asset
        * `supply_eq_sum_equity_partial`          the sum invariant over ALL chains of blocks (arbitrary
                                                  stable state per block) under `Disciplined`: a condition on
                                                  the id a REPLENISH names + pairwise different create / issue
                                                  tx hashes (nothing an adversary can break for somebody else)
        * `no_third_party_debit`                  all tx kinds, unguarded: states exactly where an issue may
                                                  relabel / overwrite; `_partial` under the discipline: never;
                                                  `issue_overwrites_entry_refuted` the witness
        * `frozen_immovable`                      under the same discipline (state invariant `IdInv`)
        * `frozen_asset_does_not_move`            FULL, unguarded, all categories: a transfer / burn whose sender's
                                                  entry names a frozen asset CODE is refused (state unchanged);
                                                  `frozen_asset_not_minted` the same for issue / replenish
  `no_negative_equity` (both variants): the guard it rests on is the RLP encoder's refusal of negative
  big ints (see LemoModel.Assets.putEquity); `rlp_guard_fires_only_on_burn` shows that for EQUITY entries
  the guard is dead on the live model (non-negativity follows from the operations).  Parser: `parse_amount_sign`.
-/
import LemoProofs.Lemmas.AssetsOps
namespace LemoProofs.C12
open LemoModel.Assets LemoProofs.AssetsLemmas LemoProofs.AssetsOps

/-! ## the amount parser accepts a minus sign -/

/-- `-` followed by a non-empty digit string is accepted and yields the negative value; so is the same
    text behind a "0x" prefix (which the decimal decoder silently drops) -/
theorem parse_amount_sign (ds : List Char) (n : Nat) (h : parseDigits ds = some n) :
    parseAmount ('-' :: ds) = some (-(n : Int)) ∧
    parseAmount ('+' :: ds) = some (n : Int) ∧
    parseAmount ('0' :: 'x' :: '-' :: ds) = some (-(n : Int)) := by
  refine ⟨?_, ?_, ?_⟩ <;> simp [parseAmount, stripHexPrefix, setString10, h]

/-- conversely: a negative result needs an explicit minus sign in front of the digits -/
theorem parse_amount_negative_only_by_minus (s : List Char) (v : Int) (h : parseAmount s = some v) (hv : v < 0) :
    ∃ ds n, parseDigits ds = some n ∧ v = -(n : Int) ∧
      (s = '-' :: ds ∨ s = '0' :: 'x' :: '-' :: ds ∨ s = '0' :: 'X' :: '-' :: ds) := by
  have key : ∀ r : List Char, setString10 r = some v → ∃ ds n, parseDigits ds = some n ∧ v = -(n : Int) ∧ r = '-' :: ds := by
    intro r hr
    unfold setString10 at hr
    split at hr
    · rename_i ds
      cases hp : parseDigits ds with
      | none => rw [hp] at hr; cases hr
      | some n =>
        rw [hp] at hr; simp only [Option.map] at hr
        injection hr with hr; exact ⟨ds, n, hp, hr.symm, rfl⟩
    · rename_i ds
      cases hp : parseDigits ds with
      | none => rw [hp] at hr; cases hr
      | some n =>
        rw [hp] at hr; simp only [Option.map] at hr
        injection hr with hr; omega
    · cases hp : parseDigits r with
      | none => rw [hp] at hr; cases hr
      | some n =>
        rw [hp] at hr; simp only [Option.map] at hr
        injection hr with hr; omega
  unfold parseAmount at h
  split at h
  · injection h with h; omega
  · split at h
    · cases h
    · rename_i r hs
      obtain ⟨ds, n, h1, h2, h3⟩ := key r h
      unfold stripHexPrefix at hs
      split at hs
      · split at hs
        · cases hs
        · injection hs with hs; subst hs
          exact ⟨ds, n, h1, h2, Or.inr (Or.inl (by rw [h3]))⟩
      · split at hs
        · cases hs
        · injection hs with hs; subst hs
          exact ⟨ds, n, h1, h2, Or.inr (Or.inr (by rw [h3]))⟩
      · injection hs with hs; subst hs
        exact ⟨ds, n, h1, h2, Or.inl h3⟩

/-- what the decimal decoder accepts: the empty string, or (after an optional, silently dropped "0x"/"0X")
    an optional sign followed by a non-empty string of decimal digits — nothing else -/
theorem parse_amount_accepts_only (s : List Char) (v : Int) (h : parseAmount s = some v) :
    (s = [] ∧ v = 0) ∨
    ∃ body ds n, (s = body ∨ s = '0' :: 'x' :: body ∨ s = '0' :: 'X' :: body) ∧
      ds ≠ [] ∧ ds.all isDigit = true ∧ n = digitsVal ds 0 ∧
      ((body = '-' :: ds ∧ v = -(n : Int)) ∨ (body = '+' :: ds ∧ v = (n : Int)) ∨ (body = ds ∧ v = (n : Int))) := by
  have pd : ∀ ds n, parseDigits ds = some n → ds ≠ [] ∧ ds.all isDigit = true ∧ n = digitsVal ds 0 := by
    intro ds n hp
    unfold parseDigits at hp
    split at hp
    · cases hp
    · rename_i hne
      split at hp
      · rename_i hall
        injection hp with hp
        refine ⟨?_, hall, hp.symm⟩
        intro e; subst e; simp at hne
      · cases hp
  have key : ∀ r : List Char, setString10 r = some v → ∃ ds n, parseDigits ds = some n ∧
      ((r = '-' :: ds ∧ v = -(n : Int)) ∨ (r = '+' :: ds ∧ v = (n : Int)) ∨ (r = ds ∧ v = (n : Int))) := by
    intro r hr
    unfold setString10 at hr
    split at hr
    · rename_i ds
      cases hp : parseDigits ds with
      | none => rw [hp] at hr; cases hr
      | some n =>
        rw [hp] at hr; simp only [Option.map] at hr
        injection hr with hr; exact ⟨ds, n, hp, Or.inl ⟨rfl, hr.symm⟩⟩
    · rename_i ds
      cases hp : parseDigits ds with
      | none => rw [hp] at hr; cases hr
      | some n =>
        rw [hp] at hr; simp only [Option.map] at hr
        injection hr with hr; exact ⟨ds, n, hp, Or.inr (Or.inl ⟨rfl, hr.symm⟩)⟩
    · cases hp : parseDigits r with
      | none => rw [hp] at hr; cases hr
      | some n =>
        rw [hp] at hr; simp only [Option.map] at hr
        injection hr with hr; exact ⟨r, n, hp, Or.inr (Or.inr ⟨rfl, hr.symm⟩)⟩
  unfold parseAmount at h
  split at h
  · rename_i he
    injection h with h
    left
    refine ⟨?_, h.symm⟩
    cases s with
    | nil => rfl
    | cons c cs => simp at he
  · right
    split at h
    · cases h
    · rename_i r hs
      obtain ⟨ds, n, h1, h2⟩ := key r h
      obtain ⟨p1, p2, p3⟩ := pd ds n h1
      unfold stripHexPrefix at hs
      split at hs
      · split at hs
        · cases hs
        · injection hs with hs; subst hs
          exact ⟨_, ds, n, Or.inr (Or.inl rfl), p1, p2, p3, h2⟩
      · split at hs
        · cases hs
        · injection hs with hs; subst hs
          exact ⟨_, ds, n, Or.inr (Or.inr rfl), p1, p2, p3, h2⟩
      · injection hs with hs; subst hs
        exact ⟨_, ds, n, Or.inl rfl, p1, p2, p3, h2⟩

example : parseAmount "-60".toList = some (-60) := by decide
example : parseAmount "+5".toList = some 5 := by decide
example : parseAmount "007".toList = some 7 := by decide
example : parseAmount "0x15".toList = some 15 := by decide
example : parseAmount "".toList = some 0 := by decide
example : parseAmount "0x".toList = none := by decide
example : parseAmount "1e3".toList = none := by decide
example : parseAmount "--5".toList = none := by decide

/-! ## nothing is ever negative (both variants, all block sequences) -/

def NonNeg (s : St) : Prop :=
  (∀ a id c e, s.equity a id = some (c, e) → 0 ≤ e) ∧ (∀ x r, s.assets x = some r → 0 ≤ r.supply)

theorem nonNeg_putEquity {s s' : St} {a id : Nat} {e : Nat × Int} (h : putEquity s a id e = .ok s')
    (N : NonNeg s) : NonNeg s' := by
  obtain ⟨hp, ha, _, he⟩ := putEquity_ok h
  constructor
  · intro x y c v hv
    rw [he] at hv
    by_cases hk : x = a ∧ y = id
    · simp only [hk, and_self, if_true] at hv
      injection hv with hv; subst hv; exact hp
    · simp only [hk, if_false] at hv
      exact N.1 x y c v hv
  · intro x r hr; rw [ha] at hr; exact N.2 x r hr

theorem nonNeg_putSupply {s s' : St} {code : Nat} {v : Int} (h : putSupply s code v = .ok s')
    (N : NonNeg s) : NonNeg s' := by
  obtain ⟨r0, _, hv, he, _, ha⟩ := putSupply_ok h
  constructor
  · intro x y c w hw; rw [he] at hw; exact N.1 x y c w hw
  · intro x r hr
    rw [ha] at hr
    by_cases e : x = code
    · simp only [e, if_true] at hr
      injection hr with hr; subst hr; exact hv
    · simp only [e, if_false] at hr
      exact N.2 x r hr

theorem nonNeg_apply {fixed : Bool} {stable s s' : St} {op : Op} (h : apply fixed stable s op = .ok s')
    (N : NonNeg s) : NonNeg s' := by
  cases op with
  | create sd hsh cat dv rp dc fz big =>
    obtain ⟨he, _, ha⟩ := create_ok h
    constructor
    · intro x y c w hw; rw [he] at hw; exact N.1 x y c w hw
    · intro x r hr
      rw [ha] at hr
      by_cases e : x = hsh
      · simp only [e, if_true] at hr
        injection hr with hr; subst hr; simp
      · simp only [e, if_false] at hr
        exact N.2 x r hr
  | issue sd rc hsh code m amt =>
    obtain ⟨a, r, s1, s2, tid, newEq, _, _, _, _, h1, h2, h3, _⟩ := issue_ok h
    subst h3
    have N2 : NonNeg s2 := nonNeg_putEquity h2 (nonNeg_putSupply h1 N)
    exact N2
  | replenish sd rc code id amt =>
    obtain ⟨a, r, s1, _, _, _, _, _, _, _, h1, h2⟩ := replenish_ok h
    exact nonNeg_putSupply h2 (nonNeg_putEquity h1 N)
  | modify sd code fz =>
    obtain ⟨r, hl, he, _, hcase⟩ := modify_ok h
    rcases hcase with rfl | ⟨b, _, ha⟩
    · exact N
    · constructor
      · intro x y c w hw; rw [he] at hw; exact N.1 x y c w hw
      · intro x r' hr
        rw [ha] at hr
        by_cases e : x = code
        · simp only [e, if_true] at hr
          injection hr with hr; subst hr
          exact N.2 code r (lookup_some hl).1
        · simp only [e, if_false] at hr
          exact N.2 x r' hr
  | transfer sd rc id ck amt =>
    obtain ⟨a, c, e, r, _, _, _, _, _, _, _, hcase⟩ := transfer_ok h
    rcases hcase with rfl | hm
    · exact N
    · obtain ⟨s1, c', e', h1, _, h2⟩ := moveEquity_ok hm
      rcases h1 with ⟨_, h1⟩ | ⟨_, h1⟩
      · exact nonNeg_putEquity h2 (nonNeg_putEquity h1 N)
      · exact nonNeg_putEquity h2 (nonNeg_putSupply h1 N)

theorem nonNeg_step (fixed : Bool) (stable s : St) (op : Op) (N : NonNeg s) : NonNeg (step fixed stable s op) := by
  unfold step
  split
  · rename_i s' h; exact nonNeg_apply h N
  · exact N

theorem nonNeg_runOps (fixed : Bool) (stable : St) : ∀ (ops : List Op) (s : St), NonNeg s → NonNeg (runOps fixed stable s ops) := by
  intro ops
  induction ops with
  | nil => intro s N; exact N
  | cons op ops ih => intro s N; exact ih _ (nonNeg_step fixed stable s op N)

/-- `no_negative_equity`: after ANY sequence of blocks of asset transactions (any amounts, either variant of
    the transfer) every stored equity and every recorded supply is ≥ 0 -/
theorem no_negative_equity (fixed : Bool) : ∀ (blocks : List (List Op)) (s : St), NonNeg s →
    NonNeg (runBlocks fixed s blocks) := by
  intro blocks
  induction blocks with
  | nil => intro s N; exact N
  | cons b bs ih => intro s N; exact ih _ (nonNeg_runOps fixed s b s N)

theorem nonNeg_empty : NonNeg St.empty := by
  constructor
  · intro a id c e h; simp [St.empty] at h
  · intro x r h; simp [St.empty] at h

/-! ## a transfer debits nobody but its sender -/

theorem transfer_debit_core {fixed : Bool} {stable s s' : St} {sd rc id ck : Nat} {amt : Option Int}
    (h : transfer fixed stable s sd rc id ck amt = .ok s')
    (hg : fixed = true ∨ ∀ a, amt = some a → 0 ≤ a) :
    ∀ a i c e, s.equity a i = some (c, e) → (a, i) ≠ (sd, id) →
      ∃ e', s'.equity a i = some (c, e') ∧ e ≤ e' := by
  obtain ⟨am, c0, e0, r, hamt, hse, hpos, hfix, hr, hfz, hle, hcase⟩ := transfer_ok h
  have hnn : 0 ≤ am := by
    rcases hg with hf | hg
    · exact hfix hf
    · exact hg am hamt
  intro a i c e hai hne
  rcases hcase with rfl | hm
  · exact ⟨e, hai, by omega⟩
  · obtain ⟨s1, c', e', h1, hs1, h2⟩ := moveEquity_ok hm
    obtain ⟨_, _, _, he2⟩ := putEquity_ok h2
    have hamount : 0 ≤ (if r.divisible = true then am else e0) := by split <;> omega
    have hk2 : ¬ (a = sd ∧ i = id) := fun ⟨x, y⟩ => hne (by rw [x, y])
    rw [he2]; simp only [hk2, if_false]
    rcases h1 with ⟨hrc, h1⟩ | ⟨hrc, h1⟩
    · obtain ⟨_, _, _, he1⟩ := putEquity_ok h1
      rw [he1]
      by_cases hk1 : a = rc ∧ i = id
      · simp only [hk1, and_self, if_true]
        obtain ⟨rfl, rfl⟩ := hk1
        unfold creditEntry; rw [hai]
        exact ⟨_, rfl, by omega⟩
      · simp only [hk1, if_false]; exact ⟨e, hai, by omega⟩
    · obtain ⟨_, _, _, he1, _, _⟩ := putSupply_ok h1
      rw [he1]; exact ⟨e, hai, by omega⟩

/-- FULL theorem, live model (`transferFixed`): whatever the amount text, a successful transfer leaves every
    entry other than the sender's own (sender, id) entry in place, with the same asset code and an amount
    that did not decrease -/
theorem transfer_only_debits_sender (stable s s' : St) (sd rc id ck : Nat) (amt : Option Int)
    (h : transferFixed stable s sd rc id ck amt = .ok s') :
    ∀ a i c e, s.equity a i = some (c, e) → (a, i) ≠ (sd, id) →
      ∃ e', s'.equity a i = some (c, e') ∧ e ≤ e' :=
  transfer_debit_core h (Or.inl rfl)

/-- the code before commit 71158df: the same holds only under the guard 0 ≤ amount -/
theorem transfer_only_debits_sender_partial (stable s s' : St) (sd rc id ck : Nat) (amt : Option Int)
    (h : transferAsIs stable s sd rc id ck amt = .ok s') (hg : ∀ a, amt = some a → 0 ≤ a) :
    ∀ a i c e, s.equity a i = some (c, e) → (a, i) ≠ (sd, id) →
      ∃ e', s'.equity a i = some (c, e') ∧ e ≤ e' :=
  transfer_debit_core h (Or.inr hg)

/-- account 1 creates token 1, issues 100 to Alice (2) and 100 to Bob (3); Bob sends "-60" to Alice -/
def witnessBlocks : List (List Op) :=
  [[.create 1 1 1 true true 2 false false],
   [.issue 1 2 10 1 3 (some 100), .issue 1 3 11 1 3 (some 100)],
   [.transfer 3 2 1 0 (parseAmount "-60".toList)]]

/-- REFUTATION on the faithful model of the code before commit 71158df (parent 2b30546): the transfer is
    accepted, ALICE (the receiver, who signed nothing) goes 100 → 40, Bob 100 → 160, supply unchanged.
    Reproduced on the real engine by `hx c12` (signature c12/third-party-debited/negative-amount). -/
theorem transfer_only_debits_sender_refuted :
    (runBlocks false St.empty (witnessBlocks.take 2)).equity 2 1 = some (1, 100) ∧
    (runBlocks false St.empty (witnessBlocks.take 2)).equity 3 1 = some (1, 100) ∧
    (runBlocks false St.empty witnessBlocks).equity 2 1 = some (1, 40) ∧
    (runBlocks false St.empty witnessBlocks).equity 3 1 = some (1, 160) ∧
    ((runBlocks false St.empty witnessBlocks).assets 1).map (·.supply) = some 200 := by decide

/-- the same blocks on the repaired model: the transfer is discarded -/
example : (runBlocks true St.empty witnessBlocks).equity 2 1 = some (1, 100) ∧
    (runBlocks true St.empty witnessBlocks).equity 3 1 = some (1, 100) := by decide

/-! ## the supply changes only by the issuer's issue / replenish and a holder's burn -/

/-- `op` is an issue / replenish of asset `x` sent by `issuer` -/
def IssuerMint (op : Op) (issuer x : Nat) : Prop :=
  (∃ rc h m a, op = .issue issuer rc h x m a) ∨ (∃ rc i a, op = .replenish issuer rc x i a)

/-- `op` is a transfer to the burn address 0x0 by an account holding a positive entry of asset `x` -/
def HolderBurn (s : St) (op : Op) (x : Nat) : Prop :=
  ∃ sd id ck a e, op = .transfer sd 0 id ck a ∧ s.equity sd id = some (x, e) ∧ 0 < e

def NonNegAmt : Op → Prop
  | .transfer _ _ _ _ (some a) => 0 ≤ a
  | _ => True

/-- CreateAssetTx has no existence check: the theorems about existing assets assume that a create's tx hash does
    not already name an asset (tx hashes are unique; see `create_resets_existing` for what the code would do) -/
def FreshCreate (s : St) : Op → Prop
  | .create _ h _ _ _ _ _ _ => s.assets h = none
  | _ => True

/-- TOTALISATION made visible: a create whose hash already names an asset is accepted and replaces the record —
    new issuer, supply 0 — whatever the old record was -/
theorem create_resets_existing (fixed : Bool) (stable s s' : St) (sd x cat dc : Nat) (dv rp fz big : Bool)
    (h : apply fixed stable s (.create sd x cat dv rp dc fz big) = .ok s') :
    s'.assets x = some { issuer := sd, category := cat, divisible := dv, replenishable := rp, frozen := fz, supply := 0 } := by
  obtain ⟨_, _, ha⟩ := create_ok h
  rw [ha]; simp

theorem supply_changes_core {fixed : Bool} {stable s s' : St} {op : Op}
    (h : apply fixed stable s op = .ok s') (hg : fixed = true ∨ NonNegAmt op) (hc : FreshCreate s op)
    (x : Nat) (r r' : AssetRec) (hr : s.assets x = some r) (hr' : s'.assets x = some r')
    (hne : r'.supply ≠ r.supply) :
    (r.supply < r'.supply ∧ IssuerMint op r.issuer x) ∨ (r'.supply < r.supply ∧ HolderBurn s op x) := by
  cases op with
  | create sd hsh cat dv rp dc fz big =>
    obtain ⟨_, _, ha⟩ := create_ok h
    rw [ha] at hr'
    by_cases e : x = hsh
    · subst e; rw [hc] at hr; cases hr
    · simp only [e, if_false] at hr'
      rw [hr] at hr'; injection hr' with hr'; subst hr'; exact absurd rfl hne
  | issue sd rc hsh code m amt =>
    obtain ⟨a, r0, s1, s2, tid, newEq, hamt, hpos, hl, _, h1, h2, h3, _⟩ := issue_ok h
    subst h3
    obtain ⟨hr0, hiss⟩ := lookup_some hl
    obtain ⟨_, ha2, _, _⟩ := putEquity_ok h2
    obtain ⟨r1, hr1, _, _, _, ha1⟩ := putSupply_ok h1
    rw [setMeta_assets, ha2, ha1] at hr'
    by_cases e : x = code
    · subst e
      simp only [if_true] at hr'
      rw [hr1] at hr0; injection hr0 with hr0; subst hr0
      rw [hr] at hr1; injection hr1 with hr1; subst hr1
      injection hr' with hr'; subst hr'
      left
      refine ⟨?_, Or.inl ⟨rc, hsh, m, amt, by rw [hiss]⟩⟩
      simp only
      split <;> omega
    · simp only [e, if_false] at hr'
      rw [hr] at hr'; injection hr' with hr'; subst hr'; exact absurd rfl hne
  | replenish sd rc code id amt =>
    obtain ⟨a, r0, s1, hamt, hpos, hl, _, _, _, _, h1, h2⟩ := replenish_ok h
    obtain ⟨hr0, hiss⟩ := lookup_some hl
    obtain ⟨_, ha1, _, _⟩ := putEquity_ok h1
    obtain ⟨r1, hr1, _, _, _, ha2⟩ := putSupply_ok h2
    rw [ha2] at hr'
    rw [ha1] at hr1
    by_cases e : x = code
    · subst e
      simp only [if_true] at hr'
      rw [hr1] at hr0; injection hr0 with hr0; subst hr0
      rw [hr] at hr1; injection hr1 with hr1; subst hr1
      injection hr' with hr'; subst hr'
      left
      refine ⟨?_, Or.inr ⟨rc, id, amt, by rw [hiss]⟩⟩
      simp only
      omega
    · simp only [e, if_false] at hr'
      rw [ha1, hr] at hr'; injection hr' with hr'; subst hr'; exact absurd rfl hne
  | modify sd code fz =>
    obtain ⟨r0, hl, _, _, hcase⟩ := modify_ok h
    rcases hcase with rfl | ⟨b, _, ha⟩
    · rw [hr] at hr'; injection hr' with hr'; subst hr'; exact absurd rfl hne
    · rw [ha] at hr'
      by_cases e : x = code
      · subst e
        simp only [if_true] at hr'
        injection hr' with hr'; subst hr'
        rw [(lookup_some hl).1] at hr; injection hr with hr; subst hr
        exact absurd rfl hne
      · simp only [e, if_false] at hr'
        rw [hr] at hr'; injection hr' with hr'; subst hr'; exact absurd rfl hne
  | transfer sd rc id ck amt =>
    obtain ⟨am, c0, e0, r0, hamt, hse, hpos, hfix, hr0, _, hle, hcase⟩ := transfer_ok h
    have hnn : 0 ≤ am := by
      rcases hg with hf | hg
      · exact hfix hf
      · subst hamt; exact hg
    rcases hcase with rfl | hm
    · rw [hr] at hr'; injection hr' with hr'; subst hr'; exact absurd rfl hne
    · obtain ⟨s1, c', e', h1, _, h2⟩ := moveEquity_ok hm
      obtain ⟨_, ha2, _, _⟩ := putEquity_ok h2
      rw [ha2] at hr'
      rcases h1 with ⟨_, h1⟩ | ⟨hrc, h1⟩
      · obtain ⟨_, ha1, _, _⟩ := putEquity_ok h1
        rw [ha1, hr] at hr'; injection hr' with hr'; subst hr'; exact absurd rfl hne
      · obtain ⟨r1, hr1, _, _, _, ha1⟩ := putSupply_ok h1
        rw [ha1] at hr'
        by_cases e : x = c0
        · subst e
          simp only [if_true] at hr'
          rw [hr1] at hr0; injection hr0 with hr0; subst hr0
          rw [hr] at hr1; injection hr1 with hr1; subst hr1
          injection hr' with hr'; subst hr'
          right
          subst hrc
          refine ⟨?_, sd, id, ck, amt, e0, rfl, hse, hpos⟩
          simp only at hne ⊢
          split at hne <;> split <;> first | omega | (rename_i h1 h2; exact absurd h1 h2) | (rename_i h1 h2; exact absurd h2 h1)
        · simp only [e, if_false] at hr'
          rw [hr] at hr'; injection hr' with hr'; subst hr'; exact absurd rfl hne

/-- `supply_changes_only_by`, FULL theorem for the live model: one transaction changes the recorded supply of an
    existing asset only upwards by an issue / replenish SENT BY ITS ISSUER, or downwards by a transfer to 0x0
    sent by an account that holds a positive entry of the asset -/
theorem supply_changes_only_by (stable s s' : St) (op : Op) (h : apply true stable s op = .ok s')
    (hc : FreshCreate s op) (x : Nat) (r r' : AssetRec) (hr : s.assets x = some r) (hr' : s'.assets x = some r')
    (hne : r'.supply ≠ r.supply) :
    (r.supply < r'.supply ∧ IssuerMint op r.issuer x) ∨ (r'.supply < r.supply ∧ HolderBurn s op x) :=
  supply_changes_core h (Or.inl rfl) hc x r r' hr hr' hne

/-- the code before the repair: only under the guard 0 ≤ amount -/
theorem supply_changes_only_by_partial (stable s s' : St) (op : Op) (h : apply false stable s op = .ok s')
    (hg : NonNegAmt op) (hc : FreshCreate s op)
    (x : Nat) (r r' : AssetRec) (hr : s.assets x = some r) (hr' : s'.assets x = some r')
    (hne : r'.supply ≠ r.supply) :
    (r.supply < r'.supply ∧ IssuerMint op r.issuer x) ∨ (r'.supply < r.supply ∧ HolderBurn s op x) :=
  supply_changes_core h (Or.inr hg) hc x r r' hr hr' hne

/-- a new asset record appears only through a create, with supply 0 -/
theorem asset_born_by_create (fixed : Bool) (stable s s' : St) (op : Op) (h : apply fixed stable s op = .ok s')
    (x : Nat) (r' : AssetRec) (hr : s.assets x = none) (hr' : s'.assets x = some r') :
    r'.supply = 0 ∧ ∃ cat dv rp dc fz big, op = .create r'.issuer x cat dv rp dc fz big := by
  cases op with
  | create sd hsh cat dv rp dc fz big =>
    obtain ⟨_, _, ha⟩ := create_ok h
    rw [ha] at hr'
    by_cases e : x = hsh
    · subst e
      simp only [if_true] at hr'
      injection hr' with hr'; subst hr'
      exact ⟨rfl, cat, dv, rp, dc, fz, big, rfl⟩
    · simp only [e, if_false] at hr'; rw [hr] at hr'; cases hr'
  | issue sd rc hsh code m amt =>
    obtain ⟨a, r0, s1, s2, tid, newEq, _, _, _, _, h1, h2, h3, _⟩ := issue_ok h
    subst h3
    obtain ⟨_, ha2, _, _⟩ := putEquity_ok h2
    obtain ⟨r1, hr1, _, _, _, ha1⟩ := putSupply_ok h1
    rw [setMeta_assets, ha2, ha1] at hr'
    by_cases e : x = code
    · subst e; rw [hr] at hr1; cases hr1
    · simp only [e, if_false] at hr'; rw [hr] at hr'; cases hr'
  | replenish sd rc code id amt =>
    obtain ⟨a, r0, s1, _, _, _, _, _, _, _, h1, h2⟩ := replenish_ok h
    obtain ⟨_, ha1, _, _⟩ := putEquity_ok h1
    obtain ⟨r1, hr1, _, _, _, ha2⟩ := putSupply_ok h2
    rw [ha2] at hr'
    rw [ha1] at hr1
    by_cases e : x = code
    · subst e; rw [hr] at hr1; cases hr1
    · simp only [e, if_false] at hr'; rw [ha1, hr] at hr'; cases hr'
  | modify sd code fz =>
    obtain ⟨r0, hl, _, _, hcase⟩ := modify_ok h
    rcases hcase with rfl | ⟨b, _, ha⟩
    · rw [hr] at hr'; cases hr'
    · rw [ha] at hr'
      by_cases e : x = code
      · subst e; rw [(lookup_some hl).1] at hr; cases hr
      · simp only [e, if_false] at hr'; rw [hr] at hr'; cases hr'
  | transfer sd rc id ck amt =>
    obtain ⟨am, c0, e0, r0, _, _, _, _, hr0, _, _, hcase⟩ := transfer_ok h
    rcases hcase with rfl | hm
    · rw [hr] at hr'; cases hr'
    · obtain ⟨s1, c', e', h1, _, h2⟩ := moveEquity_ok hm
      obtain ⟨_, ha2, _, _⟩ := putEquity_ok h2
      rw [ha2] at hr'
      rcases h1 with ⟨_, h1⟩ | ⟨_, h1⟩
      · obtain ⟨_, ha1, _, _⟩ := putEquity_ok h1
        rw [ha1, hr] at hr'; cases hr'
      · obtain ⟨r1, hr1, _, _, _, ha1⟩ := putSupply_ok h1
        rw [ha1] at hr'
        by_cases e : x = c0
        · subst e; rw [hr] at hr1; cases hr1
        · simp only [e, if_false] at hr'; rw [hr] at hr'; cases hr'

/-- blocks of the witness for minting by a non-issuer: Alice (2) holds 100 of token 1 and sends "-7" to 0x0 -/
def burnWitness : List (List Op) :=
  [[.create 1 1 1 true true 2 false false],
   [.issue 1 2 10 1 3 (some 100)],
   [.transfer 2 0 1 0 (parseAmount "-7".toList)]]

/-- REFUTATION on the faithful model of the code before commit 71158df: a transfer to the burn address with a
    negative amount is accepted and RAISES supply and the sender's equity (real engine: signature
    c12/minted-by-non-issuer/negative-amount-burn) -/
theorem negative_burn_mints_refuted :
    (runBlocks false St.empty burnWitness).equity 2 1 = some (1, 107) ∧
    ((runBlocks false St.empty burnWitness).assets 1).map (·.supply) = some 107 ∧
    ((runBlocks true St.empty burnWitness).assets 1).map (·.supply) = some 100 := by decide


/-! ## the id discipline (what ReplenishAssetTx / IssueAssetTx do NOT enforce) -/

/-- all entries stored under one asset id carry the same asset code -/
def IdConsistent (s : St) : Prop :=
  ∀ a b id c1 e1 c2 e2, s.equity a id = some (c1, e1) → s.equity b id = some (c2, e2) → c1 = c2

/-- an entry whose id is itself an asset code carries that code -/
def OwnCode (s : St) : Prop :=
  ∀ a id c e r, s.equity a id = some (c, e) → s.assets id = some r → c = id

structure IdInv (s : St) : Prop where
  idc : IdConsistent s
  own : OwnCode s

/-- the discipline a transaction has to respect for the sum invariant: tx hashes are fresh (never used as an
    asset id or asset code before), and a replenish names an id that belongs to its own asset code.
    The real code checks neither (see `supply_eq_sum_refuted`). -/
def IdOK (s : St) : Op → Prop
  | .create _ h _ _ _ _ _ _ => (∀ a, s.equity a h = none) ∧ s.assets h = none
  | .issue sd _ h code _ _ =>
    ∀ r, lookup s sd code = some r → r.category ≠ 1 → (∀ a, s.equity a h = none) ∧ s.assets h = none
  | .replenish sd _ code id _ =>
    ∀ r, lookup s sd code = some r →
      (∀ a c e, s.equity a id = some (c, e) → c = code) ∧ (∀ r', s.assets id = some r' → id = code)
  | _ => True

theorem idInv_putEquity {s s' : St} {a id c : Nat} {e : Int} (h : putEquity s a id (c, e) = .ok s')
    (I : IdInv s) (h1 : ∀ b c2 e2, s.equity b id = some (c2, e2) → c2 = c)
    (h2 : ∀ r, s.assets id = some r → c = id) : IdInv s' := by
  obtain ⟨_, ha, _, he⟩ := putEquity_ok h
  constructor
  · intro x y i c1 e1 c2 e2 hx hy
    rw [he] at hx hy
    by_cases kx : x = a ∧ i = id
    · simp only [kx, and_self, if_true] at hx
      injection hx with hx; injection hx with hx1 hx2; subst hx1
      by_cases ky : y = a ∧ i = id
      · simp only [ky, and_self, if_true] at hy
        cases hy; rfl
      · simp only [ky, if_false] at hy
        rw [kx.2] at hy
        exact (h1 y c2 e2 hy).symm
    · simp only [kx, if_false] at hx
      by_cases ky : y = a ∧ i = id
      · simp only [ky, and_self, if_true] at hy
        injection hy with hy; injection hy with hy1 hy2; subst hy1
        rw [ky.2] at hx
        exact h1 x c1 e1 hx
      · simp only [ky, if_false] at hy
        exact I.idc x y i c1 e1 c2 e2 hx hy
  · intro x i c1 e1 r hx hr
    rw [he] at hx; rw [ha] at hr
    by_cases kx : x = a ∧ i = id
    · simp only [kx, and_self, if_true] at hx
      injection hx with hx; injection hx with hx1 hx2; subst hx1
      rw [kx.2] at hr ⊢
      exact h2 r hr
    · simp only [kx, if_false] at hx
      exact I.own x i c1 e1 r hx hr

theorem idInv_sameEquity {s s' : St} (he : s'.equity = s.equity)
    (ha : ∀ x r', s'.assets x = some r' → ∃ r, s.assets x = some r) (I : IdInv s) : IdInv s' := by
  constructor
  · intro x y i c1 e1 c2 e2 hx hy
    rw [he] at hx hy; exact I.idc x y i c1 e1 c2 e2 hx hy
  · intro x i c e r' hx hr'
    rw [he] at hx
    obtain ⟨r, hr⟩ := ha i r' hr'
    exact I.own x i c e r hx hr

theorem idInv_putSupply {s s' : St} {code : Nat} {v : Int} (h : putSupply s code v = .ok s')
    (I : IdInv s) : IdInv s' := by
  obtain ⟨r0, hr0, _, he, _, ha⟩ := putSupply_ok h
  refine idInv_sameEquity he ?_ I
  intro x r' hr'
  rw [ha] at hr'
  by_cases e : x = code
  · subst e; exact ⟨r0, hr0⟩
  · simp only [e, if_false] at hr'; exact ⟨r', hr'⟩

theorem idInv_apply {fixed : Bool} {stable s s' : St} {op : Op} (h : apply fixed stable s op = .ok s')
    (I : IdInv s) (g : IdOK s op) : IdInv s' := by
  cases op with
  | create sd hsh cat dv rp dc fz big =>
    obtain ⟨he, _, ha⟩ := create_ok h
    constructor
    · intro x y i c1 e1 c2 e2 hx hy
      rw [he] at hx hy; exact I.idc x y i c1 e1 c2 e2 hx hy
    · intro x i c e r' hx hr'
      rw [he] at hx; rw [ha] at hr'
      by_cases k : i = hsh
      · subst k; rw [g.1 x] at hx; cases hx
      · simp only [k, if_false] at hr'; exact I.own x i c e r' hx hr'
  | issue sd rc hsh code m amt =>
    obtain ⟨a, r, s1, s2, tid, newEq, _, _, hl, _, h1, h2, h3, hcat⟩ := issue_ok h
    subst h3
    obtain ⟨hr, _⟩ := lookup_some hl
    have I1 := idInv_putSupply h1 I
    obtain ⟨r1, _, _, he1, _, ha1⟩ := putSupply_ok h1
    have I2 : IdInv s2 := by
      refine idInv_putEquity h2 I1 ?_ ?_
      · intro b c2 e2 hb
        rw [he1] at hb
        rcases hcat with ⟨_, ht, _⟩ | ⟨hc, ht, _⟩
        · subst ht; exact I.own b tid c2 e2 r hb hr
        · subst ht; rw [(g r hl hc).1 b] at hb; cases hb
      · intro r' hr'
        rcases hcat with ⟨_, ht, _⟩ | ⟨hc, ht, _⟩
        · exact ht.symm
        · subst ht
          rw [ha1] at hr'
          by_cases k : tid = code
          · exact k.symm
          · simp only [k, if_false] at hr'; rw [(g r hl hc).2] at hr'; cases hr'
    exact ⟨I2.idc, I2.own⟩
  | replenish sd rc code id amt =>
    obtain ⟨a, r, s1, _, _, hl, _, _, _, _, h1, h2⟩ := replenish_ok h
    exact idInv_putSupply h2 (idInv_putEquity h1 I (fun b c2 e2 hb => (g r hl).1 b c2 e2 hb)
      (fun r' hr' => ((g r hl).2 r' hr').symm))
  | modify sd code fz =>
    obtain ⟨r, hl, he, _, hcase⟩ := modify_ok h
    rcases hcase with rfl | ⟨b, _, ha⟩
    · exact I
    · refine idInv_sameEquity he ?_ I
      intro x r' hr'
      rw [ha] at hr'
      by_cases e : x = code
      · subst e; exact ⟨r, (lookup_some hl).1⟩
      · simp only [e, if_false] at hr'; exact ⟨r', hr'⟩
  | transfer sd rc id ck amt =>
    obtain ⟨am, c0, e0, r0, _, hse, _, _, hr0, _, _, hcase⟩ := transfer_ok h
    rcases hcase with rfl | hm
    · exact I
    · obtain ⟨s1, c', e', h1, hs1, h2⟩ := moveEquity_ok hm
      -- the state after the credit still satisfies the discipline, and every entry under `id` carries c0
      have key : IdInv s1 ∧ ∀ b c2 e2, s1.equity b id = some (c2, e2) → c2 = c0 := by
        rcases h1 with ⟨_, h1⟩ | ⟨_, h1⟩
        · have hce : (creditEntry s rc id c0 (if r0.divisible = true then am else e0)).1 = c0 := by
            unfold creditEntry
            split
            · rfl
            · rename_i c2 e2 hq; exact I.idc rc sd id c2 e2 c0 e0 hq hse
          generalize creditEntry s rc id c0 (if r0.divisible = true then am else e0) = X at h1 hce
          obtain ⟨x1, x2⟩ := X
          simp only at hce; subst hce
          obtain ⟨_, _, _, he1⟩ := putEquity_ok h1
          refine ⟨idInv_putEquity h1 I (fun b c2 e2 hb => I.idc b sd id c2 e2 x1 e0 hb hse)
            (fun r' hr' => I.own sd id x1 e0 r' hse hr'), ?_⟩
          intro b c2 e2 hb
          rw [he1] at hb
          by_cases k : b = rc
          · simp [k] at hb; exact hb.1.symm
          · simp [k] at hb
            exact I.idc b sd id c2 e2 x1 e0 hb hse
        · obtain ⟨_, _, _, he1, _, _⟩ := putSupply_ok h1
          refine ⟨idInv_putSupply h1 I, ?_⟩
          intro b c2 e2 hb
          rw [he1] at hb
          exact I.idc b sd id c2 e2 c0 e0 hb hse
      have hc' : c' = c0 := key.2 sd c' e' hs1
      subst hc'
      have hassets : ∀ r', s1.assets id = some r' → c' = id := by
        intro r' hr'
        exact key.1.own sd id c' e' r' hs1 hr'
      exact idInv_putEquity h2 key.1 key.2 hassets

theorem idInv_empty : IdInv St.empty := by
  constructor
  · intro a b id c1 e1 c2 e2 h; simp [St.empty] at h
  · intro a id c e r h; simp [St.empty] at h

/-! ## frozen assets do not move -/

/-- `frozen_immovable`: in a state respecting the id discipline, a transaction other than a ModifyAssetTx of
    asset `x` leaves a frozen asset `x` exactly as it is: same record (supply, flags) and every entry carrying
    its code, before or after, untouched.  Either variant of the transfer. -/
theorem frozen_immovable (fixed : Bool) (stable s s' : St) (op : Op) (h : apply fixed stable s op = .ok s')
    (I : IdInv s) (g : IdOK s op)
    (x : Nat) (r : AssetRec) (hr : s.assets x = some r) (hf : r.frozen = true)
    (hop : ∀ sd fz, op ≠ .modify sd x fz) :
    s'.assets x = some r ∧
    ∀ a i, ((∃ e, s.equity a i = some (x, e)) ∨ (∃ e, s'.equity a i = some (x, e))) →
      s'.equity a i = s.equity a i := by
  cases op with
  | create sd hsh cat dv rp dc fz big =>
    obtain ⟨he, _, ha⟩ := create_ok h
    refine ⟨?_, fun a i _ => by rw [he]⟩
    rw [ha]
    by_cases e : x = hsh
    · subst e; rw [g.2] at hr; cases hr
    · simp only [e, if_false]; exact hr
  | issue sd rc hsh code m amt =>
    obtain ⟨a, r0, s1, s2, tid, newEq, _, _, hl, hfz, h1, h2, h3, hcat⟩ := issue_ok h
    subst h3
    obtain ⟨hr0, _⟩ := lookup_some hl
    have hx : x ≠ code := by
      intro e; subst e; rw [hr] at hr0; injection hr0 with hr0; subst hr0; rw [hf] at hfz; cases hfz
    obtain ⟨_, ha2, _, he2⟩ := putEquity_ok h2
    obtain ⟨r1, _, _, he1, _, ha1⟩ := putSupply_ok h1
    refine ⟨?_, ?_⟩
    · rw [setMeta_assets, ha2, ha1]; simp only [hx, if_false]; exact hr
    · intro b i hcase
      rw [setMeta_equity, he2, he1]
      by_cases k : b = rc ∧ i = tid
      · exfalso
        obtain ⟨rfl, rfl⟩ := k
        rcases hcase with ⟨e, hb⟩ | ⟨e, hb⟩
        · rcases hcat with ⟨_, ht, _⟩ | ⟨hc, ht, _⟩
          · subst ht; exact hx (I.own b i x e r0 hb hr0)
          · subst ht; rw [(g r0 hl hc).1 b] at hb; cases hb
        · rw [setMeta_equity, he2] at hb
          simp only [and_self, if_true] at hb
          injection hb with hb; injection hb with hb1 hb2; exact hx hb1.symm
      · simp only [k, if_false]
  | replenish sd rc code id amt =>
    obtain ⟨a, r0, s1, _, _, hl, hfz, _, _, hold, h1, h2⟩ := replenish_ok h
    obtain ⟨hr0, _⟩ := lookup_some hl
    have hx : x ≠ code := by
      intro e; subst e; rw [hr] at hr0; injection hr0 with hr0; subst hr0; rw [hf] at hfz; cases hfz
    obtain ⟨_, ha1, _, he1⟩ := putEquity_ok h1
    obtain ⟨r1, _, _, he2, _, ha2⟩ := putSupply_ok h2
    refine ⟨?_, ?_⟩
    · rw [ha2]; simp only [hx, if_false]; rw [ha1]; exact hr
    · intro b i hcase
      rw [he2, he1]
      by_cases k : b = rc ∧ i = id
      · exfalso
        obtain ⟨rfl, rfl⟩ := k
        rcases hcase with ⟨e, hb⟩ | ⟨e, hb⟩
        · unfold oldEntry at hold; rw [hb] at hold; exact hx hold
        · rw [he2, he1] at hb
          simp only [and_self, if_true] at hb
          injection hb with hb; injection hb with hb1 hb2; exact hx hb1.symm
      · simp only [k, if_false]
  | modify sd code fz =>
    obtain ⟨r0, hl, he, _, hcase⟩ := modify_ok h
    rcases hcase with rfl | ⟨b, _, ha⟩
    · exact ⟨hr, fun _ _ _ => rfl⟩
    · refine ⟨?_, fun a i _ => by rw [he]⟩
      rw [ha]
      by_cases e : x = code
      · subst e; exact absurd rfl (hop sd fz)
      · simp only [e, if_false]; exact hr
  | transfer sd rc id ck amt =>
    obtain ⟨am, c0, e0, r0, _, hse, _, _, hr0, hfz, _, hcase⟩ := transfer_ok h
    have hx : x ≠ c0 := by
      intro e; subst e; rw [hr] at hr0; injection hr0 with hr0; subst hr0; rw [hf] at hfz; cases hfz
    rcases hcase with rfl | hm
    · exact ⟨hr, fun _ _ _ => rfl⟩
    · obtain ⟨s1, c', e', h1, hs1, h2⟩ := moveEquity_ok hm
      obtain ⟨_, ha2, _, he2⟩ := putEquity_ok h2
      -- after the credit: asset x untouched, only key (rc, id) possibly changed, every entry under id carries c0
      have key : s1.assets x = some r ∧ (∀ b i, ¬ (b = rc ∧ i = id) → s1.equity b i = s.equity b i) ∧
          (∀ b c2 e2, s1.equity b id = some (c2, e2) → c2 = c0) := by
        rcases h1 with ⟨_, h1⟩ | ⟨_, h1⟩
        · obtain ⟨_, ha1, _, he1⟩ := putEquity_ok h1
          refine ⟨by rw [ha1]; exact hr, fun b i k => by rw [he1]; simp only [k, if_false], ?_⟩
          have hce : (creditEntry s rc id c0 (if r0.divisible = true then am else e0)).1 = c0 := by
            unfold creditEntry
            split
            · rfl
            · rename_i c3 e3 hq; exact I.idc rc sd id c3 e3 c0 e0 hq hse
          generalize creditEntry s rc id c0 (if r0.divisible = true then am else e0) = X at he1 hce
          obtain ⟨x1, x2⟩ := X
          simp only at hce; subst hce
          intro b c2 e2 hb
          rw [he1] at hb
          by_cases k : b = rc
          · simp [k] at hb; exact hb.1.symm
          · simp [k] at hb
            exact I.idc b sd id c2 e2 x1 e0 hb hse
        · obtain ⟨r1, _, _, he1, _, ha1⟩ := putSupply_ok h1
          refine ⟨by rw [ha1]; simp only [hx, if_false]; exact hr, fun b i _ => by rw [he1], ?_⟩
          intro b c2 e2 hb
          rw [he1] at hb
          exact I.idc b sd id c2 e2 c0 e0 hb hse
      obtain ⟨k1, k2, k3⟩ := key
      refine ⟨by rw [ha2]; exact k1, ?_⟩
      intro b i hcase
      -- an entry carrying code x cannot sit under id (all of those carry c0 ≠ x)
      have hi : i ≠ id := by
        intro e; subst e
        rcases hcase with ⟨e, hb⟩ | ⟨e, hb⟩
        · exact hx (I.idc b sd i x e c0 e0 hb hse)
        · rw [he2] at hb
          by_cases k : b = sd
          · simp [k] at hb
            exact hx (hb.1.symm.trans (k3 sd c' e' hs1))
          · simp [k] at hb
            exact hx (k3 b x e hb)
      rw [he2]
      have n1 : ¬ (b = sd ∧ i = id) := fun k => hi k.2
      have n2 : ¬ (b = rc ∧ i = id) := fun k => hi k.2
      simp only [n1, if_false]
      exact k2 b i n2


/-! ## supply = Σ equity (divisible assets), over all block sequences, under the id discipline -/

/-- the (holder, id) keys a transaction may write -/
def touched : Op → List (Nat × Nat)
  | .issue _ rc h code _ _ => [(rc, code), (rc, h)]
  | .replenish _ rc _ id _ => [(rc, id)]
  | .transfer sd rc id _ _ => [(sd, id), (rc, id)]
  | _ => []

/-- every entry's asset code names an existing asset -/
def Live (s : St) : Prop := ∀ a id c e, s.equity a id = some (c, e) → ∃ r, s.assets c = some r

structure SumInv (s : St) (keys : List (Nat × Nat)) : Prop where
  sum : Gap s keys (fun _ => 0)
  supp : ∀ a id, s.equity a id ≠ none → (a, id) ∈ keys
  ids : IdInv s
  live : Live s

theorem supp_putEquity {s s' : St} {keys : List (Nat × Nat)} {a id : Nat} {e : Nat × Int}
    (h : putEquity s a id e = .ok s') (S : ∀ a id, s.equity a id ≠ none → (a, id) ∈ keys)
    (hk : (a, id) ∈ keys) : ∀ a id, s'.equity a id ≠ none → (a, id) ∈ keys := by
  obtain ⟨_, _, _, he⟩ := putEquity_ok h
  intro x y hxy
  rw [he] at hxy
  by_cases k : x = a ∧ y = id
  · rw [k.1, k.2]; exact hk
  · simp only [k, if_false] at hxy; exact S x y hxy

theorem live_putEquity {s s' : St} {a id c : Nat} {e : Int} (h : putEquity s a id (c, e) = .ok s')
    (L : Live s) (hc : ∃ r, s.assets c = some r) : Live s' := by
  obtain ⟨_, ha, _, he⟩ := putEquity_ok h
  intro x y c1 e1 hxy
  rw [he] at hxy; rw [ha]
  by_cases k : x = a ∧ y = id
  · simp only [k, and_self, if_true] at hxy
    cases hxy; exact hc
  · simp only [k, if_false] at hxy; exact L x y c1 e1 hxy

theorem live_sameEquity {s s' : St} (he : s'.equity = s.equity)
    (ha : ∀ x r, s.assets x = some r → ∃ r', s'.assets x = some r') (L : Live s) : Live s' := by
  intro x y c e hxy
  rw [he] at hxy
  obtain ⟨r, hr⟩ := L x y c e hxy
  exact ha c r hr

theorem live_putSupply {s s' : St} {code : Nat} {v : Int} (h : putSupply s code v = .ok s')
    (L : Live s) : Live s' := by
  obtain ⟨r0, _, _, he, _, ha⟩ := putSupply_ok h
  refine live_sameEquity he ?_ L
  intro x r hr
  rw [ha]
  by_cases e : x = code
  · simp only [e, if_true]; exact ⟨_, rfl⟩
  · simp only [e, if_false]; exact ⟨r, hr⟩

theorem sumCode_zero (s : St) (x : Nat) : ∀ keys : List (Nat × Nat),
    (∀ k ∈ keys, valOf x (s.equity k.1 k.2) = 0) → sumCode s x keys = 0 := by
  intro keys
  induction keys with
  | nil => intro _; rfl
  | cons k ks ih =>
    intro h
    rw [sumCode_cons, entryOf_eq, h k List.mem_cons_self, ih (fun k' hk' => h k' (List.mem_cons_of_mem _ hk'))]
    rfl

theorem gap_close {s : St} {keys : List (Nat × Nat)} {δ : Nat → Int} (G : Gap s keys δ)
    (hz : ∀ x r, s.assets x = some r → r.divisible = true → δ x = 0) : Gap s keys (fun _ => 0) := by
  intro x r hr hd
  have := G x r hr hd
  rw [hz x r hr hd] at this
  exact this

theorem valOf_some (x c : Nat) (e : Int) : valOf x (some (c, e)) = if c = x then e else 0 := rfl
theorem valOf_none (x : Nat) : valOf x none = 0 := rfl

theorem sumInv_apply {fixed : Bool} {stable s s' : St} {op : Op} {keys : List (Nat × Nat)}
    (hn : keys.Nodup) (h : apply fixed stable s op = .ok s') (V : SumInv s keys) (g : IdOK s op)
    (ht : ∀ k ∈ touched op, k ∈ keys) : SumInv s' keys := by
  have hids : IdInv s' := idInv_apply h V.ids g
  cases op with
  | create sd hsh cat dv rp dc fz big =>
    obtain ⟨he, _, ha⟩ := create_ok h
    have hnone : s.assets hsh = none := g.2
    have hsum : ∀ x, sumCode s' x keys = sumCode s x keys :=
      fun x => sumCode_congr s s' x keys (fun _ _ => by rw [he])
    refine ⟨?_, ?_, hids, ?_⟩
    · intro x r' hr' hd
      rw [hsum x]
      rw [ha] at hr'
      by_cases e : x = hsh
      · subst e
        simp only [if_true] at hr'
        injection hr' with hr'; subst hr'
        have : sumCode s x keys = 0 := by
          apply sumCode_zero
          intro k _
          cases hq : s.equity k.1 k.2 with
          | none => rfl
          | some p =>
            obtain ⟨c, e⟩ := p
            rw [valOf_some]
            by_cases hc : c = x
            · subst hc
              obtain ⟨r, hr⟩ := V.live k.1 k.2 c e hq
              rw [hnone] at hr; cases hr
            · simp only [hc, if_false]
        rw [this]; rfl
      · simp only [e, if_false] at hr'
        exact V.sum x r' hr' hd
    · intro a id hne; rw [he] at hne; exact V.supp a id hne
    · refine live_sameEquity he ?_ V.live
      intro x r hr
      rw [ha]
      by_cases e : x = hsh
      · simp only [e, if_true]; exact ⟨_, rfl⟩
      · simp only [e, if_false]; exact ⟨r, hr⟩
  | issue sd rc hsh code m amt =>
    obtain ⟨a, r, s1, s2, tid, newEq, _, hpos, hl, _, h1, h2, h3, hcat⟩ := issue_ok h
    subst h3
    obtain ⟨hr, _⟩ := lookup_some hl
    have hk : (rc, tid) ∈ keys := by
      rcases hcat with ⟨_, ht', _⟩ | ⟨_, ht', _⟩
      · subst ht'; exact ht _ (by simp [touched])
      · subst ht'; exact ht _ (by simp [touched])
    obtain ⟨r1, hr1, G1⟩ := gap_putSupply h1 V.sum
    rw [hr] at hr1; injection hr1 with hr1; subst hr1
    have G2 := gap_putEquity hn hk h2 G1
    obtain ⟨rr, hrr, _, he1, _, ha1⟩ := putSupply_ok h1
    rw [hr] at hrr; injection hrr with hrr; subst hrr
    obtain ⟨_, ha2, _, he2⟩ := putEquity_ok h2
    -- net effect of the entry write on the holdings of asset x
    have hdelta : ∀ x, valOf x (some (code, newEq)) - valOf x (s1.equity rc tid) = if code = x then a else 0 := by
      intro x
      rw [he1, valOf_some]
      rcases hcat with ⟨_, ht', hne⟩ | ⟨hc, ht', hne⟩
      · subst ht'
        cases hq : s.equity rc tid with
        | none => rw [hq] at hne; simp only at hne; subst hne; rw [valOf_none]; split <;> omega
        | some p =>
          obtain ⟨c0, e0⟩ := p
          rw [hq] at hne; simp only at hne; subst hne
          have : c0 = tid := V.ids.own rc tid c0 e0 r hq hr
          subst this
          rw [valOf_some]; split <;> omega
      · subst ht'; subst hne
        rw [(g r hl hc).1 rc, valOf_none]; split <;> omega
    refine ⟨?_, ?_, hids, ?_⟩
    · have G3 : Gap (setMeta s2 rc tid (decide (m > 0))) keys
          (fun x => (fun _ => (0 : Int)) x + (if x = code then (if r.divisible = true then r.supply + a else r.supply + 1) - r.supply else 0) -
            (valOf x (some (code, newEq)) - valOf x (s1.equity rc tid))) := by
        intro x r' hr' hd
        have := G2 x r' hr' hd
        rw [show sumCode (setMeta s2 rc tid (decide (m > 0))) x keys = sumCode s2 x keys from
          sumCode_congr _ _ x keys (fun _ _ => rfl)]
        exact this
      refine gap_close G3 ?_
      intro x r' hr' hd
      rw [setMeta_assets, ha2, ha1] at hr'
      rw [hdelta x]
      by_cases e : x = code
      · subst e
        simp only [if_true] at hr' ⊢
        injection hr' with hr'; subst hr'
        try simp only at hd
        (try simp only [hd, if_true]); omega
      · have e' : ¬ code = x := fun k => e k.symm
        simp only [e, e', if_false]; omega
    · intro x y hne
      rw [setMeta_equity] at hne
      exact supp_putEquity h2 (fun a id hq => V.supp a id (by rw [he1] at hq; exact hq)) hk x y hne
    · have L1 := live_putSupply h1 V.live
      have L2 : Live s2 := live_putEquity h2 L1 (by rw [ha1]; simp only [if_true]; exact ⟨_, rfl⟩)
      exact L2
  | replenish sd rc code id amt =>
    obtain ⟨a, r, s1, _, hpos, hl, _, _, hdiv, hold, h1, h2⟩ := replenish_ok h
    obtain ⟨hr, _⟩ := lookup_some hl
    have hk : (rc, id) ∈ keys := ht _ (by simp [touched])
    have G1 := gap_putEquity hn hk h1 V.sum
    obtain ⟨r1, hr1, G2⟩ := gap_putSupply h2 G1
    obtain ⟨_, ha1, _, he1⟩ := putEquity_ok h1
    rw [ha1, hr] at hr1; injection hr1 with hr1; subst hr1
    obtain ⟨_, _, _, he2, _, ha2⟩ := putSupply_ok h2
    have hdelta : ∀ x, valOf x (some (code, (oldEntry s rc id code).2 + a)) - valOf x (s.equity rc id) = if code = x then a else 0 := by
      intro x
      rw [valOf_some]
      unfold oldEntry at hold ⊢
      cases hq : s.equity rc id with
      | none => simp only [valOf_none]; split <;> omega
      | some p =>
        obtain ⟨c0, e0⟩ := p
        rw [hq] at hold; simp only at hold; subst hold
        simp only [valOf_some]; split <;> omega
    refine ⟨?_, ?_, hids, ?_⟩
    · refine gap_close G2 ?_
      intro x r' hr' hd
      try simp only
      rw [hdelta x]
      by_cases e : x = code
      · subst e; simp only [if_true]; omega
      · have e' : ¬ code = x := fun k => e k.symm
        simp only [e, e', if_false]; omega
    · intro x y hne
      rw [he2] at hne
      exact supp_putEquity h1 V.supp hk x y hne
    · exact live_putSupply h2 (live_putEquity h1 V.live ⟨r, hr⟩)
  | modify sd code fz =>
    obtain ⟨r, hl, he, _, hcase⟩ := modify_ok h
    rcases hcase with rfl | ⟨b, _, ha⟩
    · exact V
    · have hsum : ∀ x, sumCode s' x keys = sumCode s x keys :=
        fun x => sumCode_congr s s' x keys (fun _ _ => by rw [he])
      refine ⟨?_, ?_, hids, ?_⟩
      · intro x r' hr' hd
        rw [hsum x]
        rw [ha] at hr'
        by_cases e : x = code
        · subst e
          simp only [if_true] at hr'
          injection hr' with hr'; subst hr'
          exact V.sum x r (lookup_some hl).1 hd
        · simp only [e, if_false] at hr'
          exact V.sum x r' hr' hd
      · intro a id hne; rw [he] at hne; exact V.supp a id hne
      · refine live_sameEquity he ?_ V.live
        intro x r0 hr0
        rw [ha]
        by_cases e : x = code
        · simp only [e, if_true]; exact ⟨_, rfl⟩
        · simp only [e, if_false]; exact ⟨r0, hr0⟩
  | transfer sd rc id ck amt =>
    obtain ⟨am, c0, e0, r0, _, hse, _, _, hr0, _, _, hcase⟩ := transfer_ok h
    rcases hcase with rfl | hm
    · exact V
    · obtain ⟨s1, c', e', h1, hs1, h2⟩ := moveEquity_ok hm
      have hks : (sd, id) ∈ keys := ht _ (by simp [touched])
      have hkr : (rc, id) ∈ keys := ht _ (by simp [touched])
      obtain ⟨_, ha2, _, he2⟩ := putEquity_ok h2
      generalize hamount : (if r0.divisible = true then am else e0) = amount at h1 h2 hm he2
      rcases h1 with ⟨_, h1⟩ | ⟨hrc, h1⟩
      · -- credit the receiver's entry
        have hce : (creditEntry s rc id c0 amount).1 = c0 := by
          unfold creditEntry
          split
          · rfl
          · rename_i c2 e2 hq; exact V.ids.idc rc sd id c2 e2 c0 e0 hq hse
        have hdelta1 : ∀ x, valOf x (some (creditEntry s rc id c0 amount)) - valOf x (s.equity rc id) = if c0 = x then amount else 0 := by
          intro x
          unfold creditEntry at hce ⊢
          cases hq : s.equity rc id with
          | none => simp only [valOf_none, valOf_some]; split <;> omega
          | some p =>
            obtain ⟨c2, e2⟩ := p
            rw [hq] at hce; simp only at hce; subst hce
            simp only [valOf_some]; split <;> omega
        have G1 := gap_putEquity hn hkr h1 V.sum
        have G2 := gap_putEquity hn hks h2 G1
        obtain ⟨_, ha1, _, he1⟩ := putEquity_ok h1
        have I1 : IdInv s1 ∧ Live s1 := by
          generalize creditEntry s rc id c0 amount = X at h1 hce
          obtain ⟨x1, x2⟩ := X
          simp only at hce; subst hce
          exact ⟨idInv_putEquity h1 V.ids (fun b c2 e2 hb => V.ids.idc b sd id c2 e2 x1 e0 hb hse)
            (fun r' hr' => V.ids.own sd id x1 e0 r' hse hr'), live_putEquity h1 V.live ⟨r0, hr0⟩⟩
        have hc' : c' = c0 := by
          rw [he1] at hs1
          by_cases k : sd = rc
          · simp [k] at hs1; rw [← hce, hs1]
          · simp [k] at hs1; rw [hse] at hs1; cases hs1; rfl
        subst hc'
        refine ⟨?_, ?_, hids, ?_⟩
        · refine gap_close G2 ?_
          intro x r' hr' hd
          try simp only
          rw [hdelta1 x, hs1, valOf_some, valOf_some]
          split <;> omega
        · exact supp_putEquity h2 (supp_putEquity h1 V.supp hkr) hks
        · exact live_putEquity h2 I1.2 (by rw [ha1]; exact ⟨r0, hr0⟩)
      · -- burn: the recorded supply shrinks
        obtain ⟨r1, hr1, G1⟩ := gap_putSupply h1 V.sum
        rw [hr0] at hr1; injection hr1 with hr1; subst hr1
        have G2 := gap_putEquity hn hks h2 G1
        obtain ⟨rr, hrr, _, he1, _, ha1⟩ := putSupply_ok h1
        rw [hr0] at hrr; injection hrr with hrr; subst hrr
        have hc' : c' = c0 := by rw [he1, hse] at hs1; cases hs1; rfl
        subst hc'
        refine ⟨?_, ?_, hids, ?_⟩
        · refine gap_close G2 ?_
          intro x r' hr' hd
          rw [ha2, ha1] at hr'
          try simp only
          rw [hs1, valOf_some, valOf_some]
          by_cases e : x = c'
          · subst e
            simp only [if_true] at hr' ⊢
            injection hr' with hr'; subst hr'
            try simp only at hd
            (try simp only [hd, if_true]); omega
          · have e' : ¬ c' = x := fun k => e k.symm
            simp only [e, e', if_false]; omega
        · exact supp_putEquity h2 (fun a i hq => V.supp a i (by rw [he1] at hq; exact hq)) hks
        · exact live_putEquity h2 (live_putSupply h1 V.live) (by rw [ha1]; simp only [if_true]; exact ⟨_, rfl⟩)

/-! ### the discipline as a condition on the REPLENISH alone

`IdOK` puts freshness conditions on create / issue, and those an adversary could break for somebody else's
transaction (a replenish under the hash of a pending create / issue).  The condition below constrains only what
the code fails to check — the id named by a replenish — plus the one fact about hashes nobody can influence:
the hash of a create / issue tx differs from the hashes of all earlier create / issue txs (`used`). -/

/-- a replenish is disciplined when its id already carries an entry of ITS asset code, or is the code itself;
    a create / issue only needs a tx hash different from the hashes of the earlier create / issue txs -/
def Disciplined (s : St) (used : List Nat) : Op → Prop
  | .create _ h _ _ _ _ _ _ => h ∉ used
  | .issue _ _ h _ _ _ => h ∉ used
  | .replenish _ _ code id _ => (∃ a e, s.equity a id = some (code, e)) ∨ id = code
  | _ => True

/-- the hashes of the create / issue txs seen so far (whether they succeeded or not) -/
def usedAfter (used : List Nat) : Op → List Nat
  | .create _ h _ _ _ _ _ _ => h :: used
  | .issue _ _ h _ _ _ => h :: used
  | _ => used

/-- every id that carries an entry and every asset code is the hash of an earlier create / issue tx -/
structure Used (s : St) (used : List Nat) : Prop where
  ids : ∀ a id c e, s.equity a id = some (c, e) → id ∈ used
  codes : ∀ x r, s.assets x = some r → x ∈ used

theorem used_mono {s : St} {used : List Nat} (U : Used s used) (op : Op) : Used s (usedAfter used op) := by
  cases op <;> first | exact U | exact ⟨fun a id c e h => List.mem_cons_of_mem _ (U.ids a id c e h),
    fun x r h => List.mem_cons_of_mem _ (U.codes x r h)⟩

/-- the adversary-proof discipline implies the freshness conditions of `IdOK` -/
theorem idOK_of_disciplined {s : St} {used : List Nat} {op : Op} (U : Used s used) (I : IdInv s)
    (d : Disciplined s used op) : IdOK s op := by
  cases op with
  | create sd hsh cat dv rp dc fz big =>
    refine ⟨fun a => ?_, ?_⟩
    · cases hq : s.equity a hsh with
      | none => rfl
      | some p => obtain ⟨c, e⟩ := p; exact absurd (U.ids a hsh c e hq) d
    · cases hq : s.assets hsh with
      | none => rfl
      | some r => exact absurd (U.codes hsh r hq) d
  | issue sd rc hsh code m amt =>
    intro r _ _
    refine ⟨fun a => ?_, ?_⟩
    · cases hq : s.equity a hsh with
      | none => rfl
      | some p => obtain ⟨c, e⟩ := p; exact absurd (U.ids a hsh c e hq) d
    · cases hq : s.assets hsh with
      | none => rfl
      | some r => exact absurd (U.codes hsh r hq) d
  | replenish sd rc code id amt =>
    intro r hl
    obtain ⟨hr, _⟩ := lookup_some hl
    rcases d with ⟨a0, e0, h0⟩ | rfl
    · exact ⟨fun a c e hq => I.idc a a0 id c e code e0 hq h0,
        fun r' hr' => (I.own a0 id code e0 r' h0 hr').symm⟩
    · exact ⟨fun a c e hq => I.own a id c e r hq hr, fun _ _ => rfl⟩
  | modify sd code fz => trivial
  | transfer sd rc id ck amt => trivial

theorem used_putEquity {s s' : St} {used : List Nat} {a id : Nat} {e : Nat × Int}
    (h : putEquity s a id e = .ok s') (U : Used s used) (hid : id ∈ used) : Used s' used := by
  obtain ⟨_, ha, _, he⟩ := putEquity_ok h
  constructor
  · intro x y c v hq
    rw [he] at hq
    by_cases k : x = a ∧ y = id
    · rw [k.2]; exact hid
    · simp only [k, if_false] at hq; exact U.ids x y c v hq
  · intro x r hr; rw [ha] at hr; exact U.codes x r hr

theorem used_sameEquity {s s' : St} {used : List Nat} (he : s'.equity = s.equity)
    (ha : ∀ x r', s'.assets x = some r' → x ∈ used) (U : Used s used) : Used s' used :=
  ⟨fun a id c e h => U.ids a id c e (by rw [he] at h; exact h), ha⟩

theorem used_putSupply {s s' : St} {used : List Nat} {code : Nat} {v : Int}
    (h : putSupply s code v = .ok s') (U : Used s used) : Used s' used := by
  obtain ⟨r0, hr0, _, he, _, ha⟩ := putSupply_ok h
  refine used_sameEquity he ?_ U
  intro x r' hr'
  rw [ha] at hr'
  by_cases e : x = code
  · subst e; exact U.codes x r0 hr0
  · simp only [e, if_false] at hr'; exact U.codes x r' hr'

theorem used_apply {fixed : Bool} {stable s s' : St} {op : Op} {used : List Nat}
    (h : apply fixed stable s op = .ok s') (U : Used s used) (d : Disciplined s used op) :
    Used s' (usedAfter used op) := by
  cases op with
  | create sd hsh cat dv rp dc fz big =>
    obtain ⟨he, _, ha⟩ := create_ok h
    constructor
    · intro a id c e hq; rw [he] at hq; exact List.mem_cons_of_mem _ (U.ids a id c e hq)
    · intro x r' hr'
      rw [ha] at hr'
      by_cases e : x = hsh
      · subst e; exact List.mem_cons_self
      · simp only [e, if_false] at hr'; exact List.mem_cons_of_mem _ (U.codes x r' hr')
  | issue sd rc hsh code m amt =>
    obtain ⟨a, r, s1, s2, tid, newEq, _, _, hl, _, h1, h2, h3, hcat⟩ := issue_ok h
    subst h3
    have U0 : Used s (hsh :: used) := used_mono U (.issue sd rc hsh code m amt)
    have U1 := used_putSupply h1 U0
    have htid : tid ∈ hsh :: used := by
      rcases hcat with ⟨_, ht, _⟩ | ⟨_, ht, _⟩
      · subst ht; exact List.mem_cons_of_mem _ (U.codes tid r (lookup_some hl).1)
      · subst ht; exact List.mem_cons_self
    have U2 : Used s2 (hsh :: used) := used_putEquity h2 U1 htid
    exact ⟨U2.ids, U2.codes⟩
  | replenish sd rc code id amt =>
    obtain ⟨a, r, s1, _, _, hl, _, _, _, _, h1, h2⟩ := replenish_ok h
    have hid : id ∈ used := by
      rcases d with ⟨a0, e0, h0⟩ | rfl
      · exact U.ids a0 id code e0 h0
      · exact U.codes id r (lookup_some hl).1
    exact used_putSupply h2 (used_putEquity h1 U hid)
  | modify sd code fz =>
    obtain ⟨r, hl, he, _, hcase⟩ := modify_ok h
    rcases hcase with rfl | ⟨b, _, ha⟩
    · exact U
    · refine used_sameEquity he ?_ U
      intro x r' hr'
      rw [ha] at hr'
      by_cases e : x = code
      · subst e; exact U.codes x r (lookup_some hl).1
      · simp only [e, if_false] at hr'; exact U.codes x r' hr'
  | transfer sd rc id ck amt =>
    obtain ⟨am, c0, e0, r0, _, hse, _, _, hr0, _, _, hcase⟩ := transfer_ok h
    rcases hcase with rfl | hm
    · exact U
    · obtain ⟨s1, c', e', h1, _, h2⟩ := moveEquity_ok hm
      have hid : id ∈ used := U.ids sd id c0 e0 hse
      rcases h1 with ⟨_, h1⟩ | ⟨_, h1⟩
      · exact used_putEquity h2 (used_putEquity h1 U hid) hid
      · exact used_putEquity h2 (used_putSupply h1 U) hid

/-- the guard over a run -/
def DisciplinedOps (fixed : Bool) (stable : St) : St → List Nat → List Op → Prop
  | _, _, [] => True
  | s, u, op :: ops =>
    Disciplined s u op ∧ DisciplinedOps fixed stable (step fixed stable s op) (usedAfter u op) ops

def usedAfterOps (u : List Nat) (ops : List Op) : List Nat := ops.foldl usedAfter u

/-- the guard over a chain of blocks, each with its own (arbitrary) stable state -/
def DisciplinedChain (fixed : Bool) : St → List Nat → List (St × List Op) → Prop
  | _, _, [] => True
  | s, u, (stable, b) :: bs =>
    DisciplinedOps fixed stable s u b ∧ DisciplinedChain fixed (runOps fixed stable s b) (usedAfterOps u b) bs

theorem sumInv_runOps (fixed : Bool) (stable : St) (keys : List (Nat × Nat)) (hn : keys.Nodup) :
    ∀ (ops : List Op) (s : St) (u : List Nat), SumInv s keys → Used s u → DisciplinedOps fixed stable s u ops →
      (∀ op ∈ ops, ∀ k ∈ touched op, k ∈ keys) →
      SumInv (runOps fixed stable s ops) keys ∧ Used (runOps fixed stable s ops) (usedAfterOps u ops) := by
  intro ops
  induction ops with
  | nil => intro s u V U _ _; exact ⟨V, U⟩
  | cons op ops ih =>
    intro s u V U g ht
    have hstep : SumInv (step fixed stable s op) keys ∧ Used (step fixed stable s op) (usedAfter u op) := by
      unfold step
      split
      · rename_i s' h
        exact ⟨sumInv_apply hn h V (idOK_of_disciplined U V.ids g.1) (ht op List.mem_cons_self), used_apply h U g.1⟩
      · exact ⟨V, used_mono U op⟩
    exact ih _ _ hstep.1 hstep.2 g.2 (fun op' h' => ht op' (List.mem_cons_of_mem _ h'))

theorem sumInv_runChain (fixed : Bool) (keys : List (Nat × Nat)) (hn : keys.Nodup) :
    ∀ (chain : List (St × List Op)) (s : St) (u : List Nat), SumInv s keys → Used s u →
      DisciplinedChain fixed s u chain →
      (∀ b ∈ chain, ∀ op ∈ b.2, ∀ k ∈ touched op, k ∈ keys) → SumInv (runChain fixed s chain) keys := by
  intro chain
  induction chain with
  | nil => intro s u V _ _ _; exact V
  | cons b bs ih =>
    intro s u V U g ht
    obtain ⟨stable, ops⟩ := b
    have hb := sumInv_runOps fixed stable keys hn ops s u V U g.1 (ht (stable, ops) List.mem_cons_self)
    exact ih _ _ hb.1 hb.2 g.2 (fun b' h' => ht b' (List.mem_cons_of_mem _ h'))

theorem sumInv_empty (keys : List (Nat × Nat)) : SumInv St.empty keys := by
  refine ⟨?_, ?_, idInv_empty, ?_⟩
  · intro x r h; simp [St.empty] at h
  · intro a id h; simp [St.empty] at h
  · intro a id c e h; simp [St.empty] at h

theorem used_empty : Used St.empty [] :=
  ⟨fun a id c e h => by simp [St.empty] at h, fun x r h => by simp [St.empty] at h⟩

/-- `supply_eq_sum_equity` (partial: under the discipline `Disciplined`; either variant of the transfer, any
    amounts, every block executed against an ARBITRARY stable state): after ANY chain of blocks from the empty
    state, for every divisible asset the recorded total supply equals the sum, over any duplicate-free key list
    containing every (holder, id) the transactions may write, of the entries carrying its code — and there is no
    entry outside that list.  The guard constrains only the id a REPLENISH names (what the code does not check:
    finding c12/…/foreign-asset-id) and asks the create / issue tx hashes to be pairwise different. -/
theorem supply_eq_sum_equity_partial (fixed : Bool) (chain : List (St × List Op)) (keys : List (Nat × Nat))
    (hn : keys.Nodup) (ht : ∀ b ∈ chain, ∀ op ∈ b.2, ∀ k ∈ touched op, k ∈ keys)
    (hg : DisciplinedChain fixed St.empty [] chain) :
    (∀ x r, (runChain fixed St.empty chain).assets x = some r → r.divisible = true →
        r.supply = sumCode (runChain fixed St.empty chain) x keys) ∧
    (∀ a id, (runChain fixed St.empty chain).equity a id ≠ none → (a, id) ∈ keys) := by
  have V := sumInv_runChain fixed keys hn chain St.empty [] (sumInv_empty keys) used_empty hg ht
  refine ⟨?_, V.supp⟩
  intro x r hr hd
  simpa using V.sum x r hr hd

/-- blocks that are stable before the next one is built (what `runBlocks` and the harness' default do), as a chain -/
def withStable (fixed : Bool) : St → List (List Op) → List (St × List Op)
  | _, [] => []
  | s, b :: bs => (s, b) :: withStable fixed (runOps fixed s s b) bs

theorem runChain_withStable (fixed : Bool) : ∀ (blocks : List (List Op)) (s : St),
    runChain fixed s (withStable fixed s blocks) = runBlocks fixed s blocks := by
  intro blocks
  induction blocks with
  | nil => intro s; rfl
  | cons b bs ih => intro s; simp only [withStable, runChain, runBlocks]; exact ih _

/-- a successful box is the same as running its sub-transactions one by one (each of them succeeded); a failed
    box leaves the state alone: a chain with boxes reaches the same states as the chain with the successful boxes
    flattened and the failed ones removed, so every run-level theorem covers boxes -/
theorem applyBox_ok (fixed : Bool) (stable : St) : ∀ (ops : List Op) (s s' : St),
    applyBox fixed stable s ops = .ok s' → s' = runOps fixed stable s ops := by
  intro ops
  induction ops with
  | nil => intro s s' h; simp only [applyBox] at h; injection h with h; exact h.symm
  | cons op ops ih =>
    intro s s' h
    simp only [applyBox] at h
    split at h
    · rename_i s1 h1
      have : step fixed stable s op = s1 := by unfold step; rw [h1]
      simp only [runOps, this]
      exact ih s1 s' h
    · cases h

/-- the foreign-asset-id witness: account 1 creates token 1 (victim asset), account 4 creates token 7 and
    replenishes 1 000 000 units of ITS asset 7 to itself under the id of asset 1; then the issuer of asset 1
    issues ONE unit to account 4 -/
def foreignWitness : List (List Op) :=
  [[.create 1 1 1 true true 2 false false, .create 4 7 1 true true 2 false false],
   [.replenish 4 4 7 1 (some 1000000)],
   [.issue 1 4 20 1 4 (some 1)]]

/-- REFUTATION of the unguarded sum invariant on the live model (defect NOT repaired, known finding
    c12/supply-not-sum/foreign-asset-id; reproduced on the real engine by `hx c12`): asset 1 records supply 1,
    account 4 owns 1 000 001 units of it (and can spend them: its AssetIdState is set); asset 7 records
    1 000 000 that nobody owns. -/
theorem supply_eq_sum_refuted :
    ((runBlocks true St.empty foreignWitness).assets 1).map (·.supply) = some 1 ∧
    (runBlocks true St.empty foreignWitness).equity 4 1 = some (1, 1000001) ∧
    (runBlocks true St.empty foreignWitness).idMeta 4 1 = true ∧
    sumCode (runBlocks true St.empty foreignWitness) 1 [(4, 1)] = 1000001 ∧
    ((runBlocks true St.empty foreignWitness).assets 7).map (·.supply) = some 1000000 ∧
    sumCode (runBlocks true St.empty foreignWitness) 7 [(4, 1)] = 0 := by decide

/-- non-vacuity of the guard: the negative-transfer witness blocks (create, two issues, a transfer; all of them
    succeed on the as-is model) are disciplined -/
example : DisciplinedChain false St.empty [] (withStable false St.empty witnessBlocks) := by
  simp [DisciplinedChain, DisciplinedOps, Disciplined, usedAfter, usedAfterOps, withStable, witnessBlocks]

/-- without the id discipline even `frozen_immovable` fails (same unrepaired defect): account 4 parks 50 units of
    ITS asset 7 under the id of asset 1 in account 5 and freezes asset 7; a holder of asset 1 then sends 10 units
    to account 5 — the frozen asset's holdings grow to 60 -/
def frozenWitness : List (List Op) :=
  [[.create 1 1 1 true true 2 false false, .create 4 7 1 true true 2 false false],
   [.issue 1 2 20 1 3 (some 100), .replenish 4 5 7 1 (some 50)],
   [.modify 4 7 (.set true)],
   [.transfer 2 5 1 0 (some 10)]]

theorem frozen_moved_refuted :
    ((runBlocks true St.empty (frozenWitness.take 3)).assets 7).map (·.frozen) = some true ∧
    (runBlocks true St.empty (frozenWitness.take 3)).equity 5 1 = some (7, 50) ∧
    ((runBlocks true St.empty frozenWitness).assets 7).map (·.frozen) = some true ∧
    (runBlocks true St.empty frozenWitness).equity 5 1 = some (7, 60) := by decide


/-! ## what an accepted transfer does, exactly -/


/-- `transfer_exact` — FULL, unguarded, live model: what an accepted TransferAssetTx did.  Either nothing
    (zero amount to a code-less receiver, or the receiver's code failed and the state was reverted), or there is
    an `amount` with 0 ≤ amount ≤ the sender's equity (the tx amount for a divisible asset, the whole equity
    otherwise) such that nothing but the (sender, id) and (receiver, id) entries and — on a burn — the asset's
    recorded supply changes, and
      * to self: the sender's entry is unchanged;
      * to another account: the sender's entry falls by exactly `amount` and the receiver's entry (created with
        the sender's asset code if absent) rises by exactly `amount`;
      * to the burn address 0x0: the sender's entry falls by exactly `amount` and the recorded supply falls by
        `amount` (divisible) / by 1 (non-divisible), nothing is credited. -/
theorem transfer_exact (stable s s' : St) (sd rc id ck : Nat) (amt : Option Int)
    (h : transferFixed stable s sd rc id ck amt = .ok s') :
    s' = s ∨
    ∃ c e r amount, s.equity sd id = some (c, e) ∧ s.assets c = some r ∧ 0 ≤ amount ∧ amount ≤ e ∧
      (r.divisible = true → amt = some amount) ∧ (r.divisible = false → amount = e) ∧
      s'.idMeta = s.idMeta ∧
      (∀ a i, ¬ (a = sd ∧ i = id) → ¬ (a = rc ∧ i = id) → s'.equity a i = s.equity a i) ∧
      ((rc ≠ 0 ∧ rc = sd ∧ s'.assets = s.assets ∧ s'.equity sd id = some (c, e)) ∨
       (rc ≠ 0 ∧ rc ≠ sd ∧ s'.assets = s.assets ∧ s'.equity sd id = some (c, e - amount) ∧
          s'.equity rc id = some (match s.equity rc id with
            | none => (c, amount)
            | some (c2, e2) => (c2, e2 + amount))) ∨
       (rc = 0 ∧ s'.equity sd id = some (c, e - amount) ∧
          s'.assets = fun x => if x = c then
            some { r with supply := if r.divisible then r.supply - amount else r.supply - 1 } else s.assets x)) := by
  obtain ⟨am, c, e, r, hamt, hse, hpos, hfix, hr, _, hle, hcase⟩ := transfer_ok h
  have hnn : 0 ≤ am := hfix rfl
  rcases hcase with rfl | hm
  · exact Or.inl rfl
  · right
    refine ⟨c, e, r, (if r.divisible = true then am else e), hse, hr, ?_, ?_, ?_, ?_, ?_⟩
    · split <;> omega
    · split
      · rename_i hd; exact hle hd
      · omega
    · intro hd; simp only [hd, if_true]; exact hamt
    · intro hd; simp [hd]
    · generalize (if r.divisible = true then am else e) = amount at hm
      obtain ⟨s1, c', e', h1, hs1, h2⟩ := moveEquity_ok hm
      obtain ⟨_, ha2, hm2, he2⟩ := putEquity_ok h2
      rcases h1 with ⟨hrc, h1⟩ | ⟨hrc, h1⟩
      · obtain ⟨_, ha1, hm1, he1⟩ := putEquity_ok h1
        refine ⟨by rw [hm2, hm1], ?_, ?_⟩
        · intro a i n1 n2
          rw [he2]; simp only [n1, if_false]
          rw [he1]; simp only [n2, if_false]
        · by_cases k : rc = sd
          · left
            subst k
            rw [he1] at hs1
            simp only [and_self, if_true] at hs1
            unfold creditEntry at hs1
            rw [hse] at hs1
            simp only at hs1
            injection hs1 with hs1; injection hs1 with hc he'
            subst hc; subst he'
            refine ⟨hrc, rfl, by rw [ha2, ha1], ?_⟩
            rw [he2]; simp only [and_self, if_true]
            congr 2; omega
          · right; left
            have n : ¬ sd = rc := fun x => k x.symm
            rw [he1] at hs1
            simp [n] at hs1
            rw [hse] at hs1
            injection hs1 with hs1; injection hs1 with hc he'
            subst hc; subst he'
            refine ⟨hrc, k, by rw [ha2, ha1], ?_, ?_⟩
            · rw [he2]; simp only [and_self, if_true]
            · rw [he2]; simp [k]
              rw [he1]; simp
              unfold creditEntry; rfl
      · obtain ⟨r1, hr1, _, he1, hm1, ha1⟩ := putSupply_ok h1
        rw [hr] at hr1; injection hr1 with hr1; subst hr1
        refine ⟨by rw [hm2, hm1], ?_, ?_⟩
        · intro a i n1 _
          rw [he2]; simp only [n1, if_false]; rw [he1]
        · right; right
          rw [he1, hse] at hs1
          injection hs1 with hs1; injection hs1 with hc he'
          subst hc; subst he'
          have hsd : s'.equity sd id = some (c, e - amount) := by
            rw [he2]; simp only [and_self, if_true]
          exact ⟨hrc, hsd, by rw [ha2, ha1]⟩


/-! ## the RLP guard -/


theorem bind_err {α β : Type} {x : Except Err α} {f : α → Except Err β} {e : Err}
    (h : (x >>= f) = .error e) : x = .error e ∨ ∃ a, x = .ok a ∧ f a = .error e := by
  cases x with
  | error e' => left; simpa [bind, Except.bind] using h
  | ok a => right; exact ⟨a, rfl, by simpa [bind, Except.bind] using h⟩

theorem putEquity_of_nonneg (s : St) (a id : Nat) (e : Nat × Int) (h : 0 ≤ e.2) :
    ∃ s', putEquity s a id e = .ok s' := by
  unfold putEquity; rw [if_neg (by omega)]; exact ⟨_, rfl⟩

theorem putSupply_of (s : St) (code : Nat) (v : Int) (r : AssetRec) (hr : s.assets code = some r) (hv : 0 ≤ v) :
    ∃ s', putSupply s code v = .ok s' := by
  unfold putSupply; rw [hr]; simp only; rw [if_neg (by omega)]; exact ⟨_, rfl⟩

/-- `rlp_guard_fires_only_on_burn` — the non-negativity of EQUITY entries is not an artefact of the guard written
    into `putEquity`: on the live model, from a state without negative values, the RLP refusal can only come from
    the SUPPLY write of a transfer to the burn address 0x0 (a burn larger than the recorded supply).  Every equity
    write of every accepted-so-far transaction is non-negative by the operations' own checks
    (amount > 0 on issue / replenish, 0 ≤ amount ≤ equity on transfer). -/
theorem rlp_guard_fires_only_on_burn (stable s : St) (op : Op) (N : NonNeg s)
    (h : apply true stable s op = .error .rlpNegative) :
    ∃ sd id ck amt, op = .transfer sd 0 id ck amt := by
  cases op with
  | create sd hsh cat dv rp dc fz big =>
    simp only [apply] at h
    unfold create at h
    split at h; · cases h
    split at h; · cases h
    split at h; · cases h
    split at h; · cases h
    split at h; · cases h
    cases h
  | modify sd code fz =>
    simp only [apply] at h
    unfold LemoModel.Assets.modify at h
    split at h; · cases h
    split at h; · cases h
    split at h; · cases h
    split at h <;> cases h
  | issue sd rc hsh code m amt =>
    exfalso
    simp only [apply] at h
    unfold issue at h
    split at h; · cases h
    rename_i a
    split at h; · cases h
    split at h; · cases h
    split at h; · cases h
    rename_i hpos
    split at h; · cases h
    rename_i r hl
    obtain ⟨hr, _⟩ := lookup_some hl
    split at h; · cases h
    have hv : 0 ≤ (if r.divisible = true then r.supply + a else r.supply + 1) := by
      have := N.2 code r hr
      split <;> omega
    obtain ⟨s1, hs1⟩ := putSupply_of s code _ r hr hv
    split at h
    · cases hq : s.equity rc code with
      | none =>
        rw [hq] at h; simp only at h
        rcases bind_err h with h | ⟨s1', _, h⟩
        · rw [hs1] at h; cases h
        · obtain ⟨s2, hs2⟩ := putEquity_of_nonneg s1' rc code (code, a) (by simp only; omega)
          rcases bind_err h with h | ⟨_, _, h⟩
          · rw [hs2] at h; cases h
          · cases h
      | some p =>
        obtain ⟨c0, e0⟩ := p
        have := N.1 rc code c0 e0 hq
        rw [hq] at h; simp only at h
        rcases bind_err h with h | ⟨s1', _, h⟩
        · rw [hs1] at h; cases h
        · obtain ⟨s2, hs2⟩ := putEquity_of_nonneg s1' rc code (code, a + e0) (by simp only; omega)
          rcases bind_err h with h | ⟨_, _, h⟩
          · rw [hs2] at h; cases h
          · cases h
    · split at h
      · rcases bind_err h with h | ⟨s1', _, h⟩
        · rw [hs1] at h; cases h
        · obtain ⟨s2, hs2⟩ := putEquity_of_nonneg s1' rc hsh (code, a) (by simp only; omega)
          rcases bind_err h with h | ⟨_, _, h⟩
          · rw [hs2] at h; cases h
          · cases h
      · cases h
  | replenish sd rc code id amt =>
    exfalso
    simp only [apply] at h
    unfold replenish at h
    split at h; · cases h
    rename_i a
    split at h; · cases h
    split at h; · cases h
    rename_i hpos
    split at h; · cases h
    rename_i r hl
    obtain ⟨hr, _⟩ := lookup_some hl
    split at h; · cases h
    split at h; · cases h
    split at h; · cases h
    split at h; · cases h
    have hold : 0 ≤ (oldEntry s rc id code).2 := by
      unfold oldEntry
      split
      · simp
      · rename_i p hq; obtain ⟨c0, e0⟩ := p; exact N.1 rc id c0 e0 hq
    obtain ⟨s1, hs1⟩ := putEquity_of_nonneg s rc id ((oldEntry s rc id code).1, (oldEntry s rc id code).2 + a)
      (by simp only; omega)
    rcases bind_err h with h | ⟨s1', h1', h⟩
    · rw [hs1] at h; cases h
    · obtain ⟨_, ha1, _, _⟩ := putEquity_ok h1'
      obtain ⟨s2, hs2⟩ := putSupply_of s1' code (r.supply + a) r (by rw [ha1]; exact hr)
        (by have := N.2 code r hr; omega)
      rw [hs2] at h; cases h
  | transfer sd rc id ck amt =>
    by_cases hrc : rc = 0
    · subst hrc; exact ⟨sd, id, ck, amt, rfl⟩
    · exfalso
      simp only [apply] at h
      unfold transfer at h
      split at h; · cases h
      rename_i a
      split at h; · cases h
      split at h; · cases h
      rename_i c e hse
      split at h; · cases h
      rename_i hpos
      split at h; · cases h
      rename_i hfix
      split at h; · cases h
      split at h; · cases h
      rename_i r hr
      split at h; · cases h
      split at h; · cases h
      rename_i hins
      split at h; · cases h
      have hnn : 0 ≤ a := by
        by_cases hneg : a < 0
        · exact absurd ⟨rfl, hneg⟩ hfix
        · omega
      have hle : r.divisible = true → a ≤ e := by
        intro hd
        by_cases hlt : e < a
        · exact absurd ⟨hlt, hd⟩ hins
        · omega
      generalize hamount : (if r.divisible = true then a else e) = amount at h
      have h0 : 0 ≤ amount := by rw [← hamount]; split <;> omega
      have h1 : amount ≤ e := by
        rw [← hamount]; split
        · rename_i hd; exact hle hd
        · omega
      -- the move itself cannot fail
      have hmove : ∃ s', moveEquity s sd rc id c r amount = .ok s' := by
        unfold moveEquity credit
        rw [if_pos hrc]
        have hce : 0 ≤ (creditEntry s rc id c amount).2 := by
          unfold creditEntry
          split
          · exact h0
          · rename_i c2 e2 hq; have := N.1 rc id c2 e2 hq; simp only; omega
        obtain ⟨s1, hs1⟩ := putEquity_of_nonneg s rc id (creditEntry s rc id c amount) hce
        rw [hs1]
        simp only [bind, Except.bind]
        obtain ⟨_, _, _, he1⟩ := putEquity_ok hs1
        unfold debit
        rw [he1]
        by_cases k : sd = rc
        · subst k
          simp only [and_self, if_true]
          have : creditEntry s sd id c amount = (c, e + amount) := by unfold creditEntry; rw [hse]
          rw [this]
          exact putEquity_of_nonneg _ sd id (c, e + amount - amount) (by simp only; omega)
        · simp [k, hse]
          exact putEquity_of_nonneg _ sd id (c, e - amount) (by simp only; omega)
      obtain ⟨s2, hs2⟩ := hmove
      rw [hs2] at h
      simp only at h
      split at h <;> cases h


/-! ## nobody but the sender of a transfer is debited — all transaction kinds -/


/-- the op is an issue to account `a` that writes the entry under id `i` (the asset code for a token, the tx hash
    otherwise) -/
def IssueWrites (op : Op) (a i : Nat) : Prop :=
  ∃ sd h code m amt, op = .issue sd a h code m amt ∧ (i = code ∨ i = h)

/-- `no_third_party_debit` — live model, unguarded, ALL transaction kinds: an existing entry keeps its asset code
    and does not decrease, unless (a) its owner sent a transfer of that id, or (b) an issue to its owner wrote the
    id it sits under.  (b) is exactly where IssueAssetTx relabels (token: code := the issued code, amount added) or
    overwrites (category 2/3: entry := the issued amount) — reachable only through an entry parked under a foreign
    id: the unrepaired finding c12/…/foreign-asset-id, see `no_third_party_debit_partial` and
    `issue_overwrites_entry_refuted`. -/
theorem no_third_party_debit (stable s s' : St) (op : Op) (h : apply true stable s op = .ok s')
    (a i c : Nat) (e : Int) (hai : s.equity a i = some (c, e)) :
    (∃ e', s'.equity a i = some (c, e') ∧ e ≤ e') ∨
    (∃ rc ck amt, op = .transfer a rc i ck amt) ∨
    IssueWrites op a i := by
  cases op with
  | create sd hsh cat dv rp dc fz big =>
    obtain ⟨he, _, _⟩ := create_ok h
    exact Or.inl ⟨e, by rw [he]; exact hai, by omega⟩
  | issue sd rc hsh code m amt =>
    obtain ⟨am, r, s1, s2, tid, newEq, _, _, _, _, h1, h2, h3, hcat⟩ := issue_ok h
    subst h3
    obtain ⟨_, _, _, he2⟩ := putEquity_ok h2
    obtain ⟨_, _, _, he1, _, _⟩ := putSupply_ok h1
    by_cases k : a = rc ∧ i = tid
    · right; right
      obtain ⟨rfl, rfl⟩ := k
      refine ⟨sd, hsh, code, m, amt, rfl, ?_⟩
      rcases hcat with ⟨_, ht, _⟩ | ⟨_, ht, _⟩
      · exact Or.inl ht
      · exact Or.inr ht
    · left
      refine ⟨e, ?_, by omega⟩
      rw [setMeta_equity, he2]; simp only [k, if_false]; rw [he1]; exact hai
  | replenish sd rc code id amt =>
    obtain ⟨am, r, s1, _, hpos, _, _, _, _, hold, h1, h2⟩ := replenish_ok h
    obtain ⟨_, _, _, he1⟩ := putEquity_ok h1
    obtain ⟨_, _, _, he2, _, _⟩ := putSupply_ok h2
    left
    rw [he2, he1]
    by_cases k : a = rc ∧ i = id
    · obtain ⟨rfl, rfl⟩ := k
      simp only [and_self, if_true]
      unfold oldEntry at hold ⊢
      rw [hai] at hold ⊢
      simp only at hold ⊢
      subst hold
      exact ⟨_, rfl, by omega⟩
    · simp only [k, if_false]; exact ⟨e, hai, by omega⟩
  | modify sd code fz =>
    obtain ⟨_, _, he, _, _⟩ := modify_ok h
    exact Or.inl ⟨e, by rw [he]; exact hai, by omega⟩
  | transfer sd rc id ck amt =>
    by_cases k : a = sd ∧ i = id
    · obtain ⟨rfl, rfl⟩ := k
      exact Or.inr (Or.inl ⟨rc, ck, amt, rfl⟩)
    · left
      exact transfer_only_debits_sender stable s s' sd rc id ck amt h a i c e hai
        (fun x => k (by cases x; exact ⟨rfl, rfl⟩))

/-- under the id discipline case (b) never debits: a token issue finds an entry of ITS code and adds to it, a
    category-2/3 issue finds no entry at all — so nobody but the sender of a transfer is ever debited -/
theorem no_third_party_debit_partial (stable s s' : St) (op : Op) (h : apply true stable s op = .ok s')
    (I : IdInv s) (g : IdOK s op)
    (a i c : Nat) (e : Int) (hai : s.equity a i = some (c, e)) :
    (∃ e', s'.equity a i = some (c, e') ∧ e ≤ e') ∨ (∃ rc ck amt, op = .transfer a rc i ck amt) := by
  rcases no_third_party_debit stable s s' op h a i c e hai with h1 | h1 | ⟨sd, hsh, code, m, amt, rfl, hi⟩
  · exact Or.inl h1
  · exact Or.inr h1
  · left
    obtain ⟨am, r, s1, s2, tid, newEq, _, hpos, hl, _, h1, h2, h3, hcat⟩ := issue_ok h
    subst h3
    obtain ⟨hr, _⟩ := lookup_some hl
    obtain ⟨_, _, _, he2⟩ := putEquity_ok h2
    obtain ⟨_, _, _, he1, _, _⟩ := putSupply_ok h1
    rw [setMeta_equity, he2, he1]
    rcases hcat with ⟨_, ht, hne⟩ | ⟨hc, ht, _⟩
    · subst ht
      by_cases k : i = tid
      · subst k
        have : c = i := I.own a i c e r hai hr
        subst this
        simp only [and_self, if_true]
        rw [hai] at hne; simp only at hne; subst hne
        exact ⟨_, rfl, by omega⟩
      · simp [k]; exact ⟨e, hai, by omega⟩
    · subst ht
      by_cases k : i = tid
      · subst k; rw [(g r hl hc).1 a] at hai; cases hai
      · simp [k]; exact ⟨e, hai, by omega⟩

/-- account 2 creates the divisible category-3 asset 3, replenishes 30 units to account 5 under the id 35, which is
    the hash of an issue tx it has already signed; that issue (8 units to account 5) then OVERWRITES the entry -/
def overwriteWitness : List (List Op) :=
  [[.create 2 3 3 true true 2 false false],
   [.replenish 2 5 3 35 (some 30)],
   [.issue 2 5 35 3 0 (some 8)]]

/-- REFUTATION of the unguarded "nobody but a transfer's sender is debited" on the live model (same unrepaired
    defect; real engine: signature c12/third-party-debited/foreign-asset-id): 30 → 8, recorded supply 38 -/
theorem issue_overwrites_entry_refuted :
    (runBlocks true St.empty (overwriteWitness.take 2)).equity 5 35 = some (3, 30) ∧
    (runBlocks true St.empty overwriteWitness).equity 5 35 = some (3, 8) ∧
    ((runBlocks true St.empty overwriteWitness).assets 3).map (·.supply) = some 38 := by decide


/-! ## a frozen asset does not move — all categories, no guard -/

/-- `frozen_asset_does_not_move` — FULL, unguarded, either variant, ALL categories: the freeze check of the transfer is
    keyed by the asset CODE carried by the sender's entry (not by the asset id, which equals the code only for a
    token asset).  Whatever the id, receiver (account, contract, 0x0 = burn), amount and stable state: if the
    asset named by the sender's entry is frozen, the transfer is refused, so every equity entry, every asset record
    (supply included) and every AssetIdState stay exactly as they are. -/
theorem frozen_asset_does_not_move (fixed : Bool) (stable s : St) (sd rc id ck : Nat) (amt : Option Int)
    (c : Nat) (e : Int) (r : AssetRec)
    (hse : s.equity sd id = some (c, e)) (hr : s.assets c = some r) (hf : r.frozen = true) :
    (∀ s', transfer fixed stable s sd rc id ck amt ≠ .ok s') ∧
    step fixed stable s (.transfer sd rc id ck amt) = s := by
  have hno : ∀ s', transfer fixed stable s sd rc id ck amt ≠ .ok s' := by
    intro s' h
    obtain ⟨_, c', e', r', _, hse', _, _, hr', hfz, _, _⟩ := transfer_ok h
    rw [hse] at hse'; injection hse' with hse'; injection hse' with hc _
    subst hc
    rw [hr] at hr'; injection hr' with hr'; subst hr'
    rw [hf] at hfz; cases hfz
  refine ⟨hno, ?_⟩
  unfold step
  split
  · rename_i s' h
    simp only [apply] at h
    exact absurd h (hno s')
  · rfl

/-- the same for minting: a frozen asset is neither issued nor replenished, whatever its category -/
theorem frozen_asset_not_minted (stable s : St) (sd rc h code id m : Nat) (amt : Option Int) (r : AssetRec)
    (hl : lookup s sd code = some r) (hf : r.frozen = true) :
    (∀ s', issue stable s sd rc h code m amt ≠ .ok s') ∧ (∀ s', replenish stable s sd rc code id amt ≠ .ok s') := by
  constructor
  · intro s' hh
    obtain ⟨_, r', _, _, _, _, _, _, hl', hfz, _⟩ := issue_ok hh
    rw [hl] at hl'; injection hl' with hl'; subst hl'
    rw [hf] at hfz; cases hfz
  · intro s' hh
    obtain ⟨_, r', _, _, _, hl', hfz, _⟩ := replenish_ok hh
    rw [hl] at hl'; injection hl' with hl'; subst hl'
    rw [hf] at hfz; cases hfz

/-- non-vacuity, category 3: account 5 creates the divisible common asset 3 and issues 100 to account 6 under the id 40
    (the issue tx's hash ≠ the code); frozen, neither a transfer nor a burn moves anything; unfrozen, the same txs do -/
def freezeWitness : List (List Op) :=
  [[.create 5 3 3 true true 2 false false],
   [.issue 5 6 40 3 2 (some 100)],
   [.modify 5 3 (.set true)],
   [.transfer 6 3 40 0 (some 1), .transfer 6 0 40 0 (some 1)]]

example :
    (runBlocks true St.empty freezeWitness).equity 6 40 = some (3, 100) ∧
    (runBlocks true St.empty freezeWitness).equity 3 40 = none ∧
    ((runBlocks true St.empty freezeWitness).assets 3).map (·.supply) = some 100 ∧
    (runBlocks true St.empty (freezeWitness.take 2 ++ freezeWitness.drop 3)).equity 6 40 = some (3, 98) ∧
    ((runBlocks true St.empty (freezeWitness.take 2 ++ freezeWitness.drop 3)).assets 3).map (·.supply) = some 99 := by
  decide

end LemoProofs.C12

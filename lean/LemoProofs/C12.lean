/-
  C12 — issued assets are conserved; only holders / issuers move or mint them.

  Model: `LemoModel.Assets` (hand-written from chain/transaction/asset_tx.go, chain/vm/evm.go
  TransferAssetTx, tx_processor.go VerifyAssetTx, hexutil.Big10), tied to the real engine by `hx c12`
  (outcome of every candidate tx, supply / freeze flag of every asset and every equity entry after
  every block; miner path + validator path, every block stable).

  Full statement (kept visible): for every divisible asset the recorded total supply equals the sum of
  all holders' equity; it changes only through the issuer's issue / replenish and a holder's burn; a
  transfer moves a non-negative amount out of the sender's own entry only; nothing is negative; frozen
  assets do not move.

  Two defects of the code:
  (1) EVM.TransferAssetTx had no sign check on the amount (hexutil.Big10 accepts "-60").  REPAIRED in
      /repo by commit 71158df ("fix: EVM.TransferAssetTx rejects a negative transfer amount"); the code
      before it is commit 2b30546.  `fixed = false` is the model of the code before the repair,
      `fixed = true` the live model.
        * `transfer_only_debits_sender`           full theorem for `transferFixed`
        * `transfer_only_debits_sender_partial`   as-is model, under the guard 0 ≤ amount
        * `transfer_only_debits_sender_refuted`   kernel-checked witness on the as-is model (Bob sends
                                                  -60 to Alice: Alice 100 → 40, Bob 100 → 160)
        * `negative_burn_mints_refuted`           as-is: "-7" sent to 0x0 mints 7 for a non-issuer
        * `supply_changes_only_by`                full for the fixed model / as-is under 0 ≤ amount
  (2) NOT repaired (known finding c12/…/foreign-asset-id): ReplenishAssetTx accepts ANY asset id, and
      IssueAssetTx adds to / overwrites whatever entry sits under its id.
        * `supply_eq_sum_refuted`                 witness: 1 000 000 units of an attacker's own asset
                                                  become 1 000 000 units of the victim asset
        * `supply_eq_sum_equity_partial`          the sum invariant over ALL block sequences, under the
                                                  id discipline `IdOK` (a replenish uses an id of its own
                                                  asset; tx hashes are fresh)
        * `frozen_immovable`                      under the same discipline (state invariant `IdInv`)
  Unconditional, both variants: `no_negative_equity`.  Parser: `parse_amount_sign`.
-/
import LemoProofs.Lemmas.AssetsOps
namespace LemoProofs.C12
open LemoModel.Assets LemoProofs.AssetsLemmas LemoProofs.AssetsOps

/-! ## the amount parser accepts a minus sign -/

/-- `-` followed by a non-empty digit string is accepted and yields the negative value; so is the same
    text behind a "0x" prefix (which the decimal decoder silently drops) -/
theorem parse_amount_sign (ds : List Char) (n : Nat) (h : parseDigits ds = some n) :
    parseAmount ('-' :: ds) = some (-(n : Int)) ∧
    parseAmount ('+' :: ds) = some (n : Int) ∧
    parseAmount ('0' :: 'x' :: '-' :: ds) = some (-(n : Int)) := by
  refine ⟨?_, ?_, ?_⟩ <;> simp [parseAmount, stripHexPrefix, setString10, h]

/-- conversely: a negative result needs an explicit minus sign in front of the digits -/
theorem parse_amount_negative_only_by_minus (s : List Char) (v : Int) (h : parseAmount s = some v) (hv : v < 0) :
    ∃ ds n, parseDigits ds = some n ∧ v = -(n : Int) ∧
      (s = '-' :: ds ∨ s = '0' :: 'x' :: '-' :: ds ∨ s = '0' :: 'X' :: '-' :: ds) := by
  have key : ∀ r : List Char, setString10 r = some v → ∃ ds n, parseDigits ds = some n ∧ v = -(n : Int) ∧ r = '-' :: ds := by
    intro r hr
    unfold setString10 at hr
    split at hr
    · rename_i ds
      cases hp : parseDigits ds with
      | none => rw [hp] at hr; cases hr
      | some n =>
        rw [hp] at hr; simp only [Option.map] at hr
        injection hr with hr; exact ⟨ds, n, hp, hr.symm, rfl⟩
    · rename_i ds
      cases hp : parseDigits ds with
      | none => rw [hp] at hr; cases hr
      | some n =>
        rw [hp] at hr; simp only [Option.map] at hr
        injection hr with hr; omega
    · cases hp : parseDigits r with
      | none => rw [hp] at hr; cases hr
      | some n =>
        rw [hp] at hr; simp only [Option.map] at hr
        injection hr with hr; omega
  unfold parseAmount at h
  split at h
  · injection h with h; omega
  · split at h
    · cases h
    · rename_i r hs
      obtain ⟨ds, n, h1, h2, h3⟩ := key r h
      unfold stripHexPrefix at hs
      split at hs
      · split at hs
        · cases hs
        · injection hs with hs; subst hs
          exact ⟨ds, n, h1, h2, Or.inr (Or.inl (by rw [h3]))⟩
      · split at hs
        · cases hs
        · injection hs with hs; subst hs
          exact ⟨ds, n, h1, h2, Or.inr (Or.inr (by rw [h3]))⟩
      · injection hs with hs; subst hs
        exact ⟨ds, n, h1, h2, Or.inl h3⟩

/-- what the decimal decoder accepts: the empty string, or (after an optional, silently dropped "0x"/"0X")
    an optional sign followed by a non-empty string of decimal digits — nothing else -/
theorem parse_amount_accepts_only (s : List Char) (v : Int) (h : parseAmount s = some v) :
    (s = [] ∧ v = 0) ∨
    ∃ body ds n, (s = body ∨ s = '0' :: 'x' :: body ∨ s = '0' :: 'X' :: body) ∧
      ds ≠ [] ∧ ds.all isDigit = true ∧ n = digitsVal ds 0 ∧
      ((body = '-' :: ds ∧ v = -(n : Int)) ∨ (body = '+' :: ds ∧ v = (n : Int)) ∨ (body = ds ∧ v = (n : Int))) := by
  have pd : ∀ ds n, parseDigits ds = some n → ds ≠ [] ∧ ds.all isDigit = true ∧ n = digitsVal ds 0 := by
    intro ds n hp
    unfold parseDigits at hp
    split at hp
    · cases hp
    · rename_i hne
      split at hp
      · rename_i hall
        injection hp with hp
        refine ⟨?_, hall, hp.symm⟩
        intro e; subst e; simp at hne
      · cases hp
  have key : ∀ r : List Char, setString10 r = some v → ∃ ds n, parseDigits ds = some n ∧
      ((r = '-' :: ds ∧ v = -(n : Int)) ∨ (r = '+' :: ds ∧ v = (n : Int)) ∨ (r = ds ∧ v = (n : Int))) := by
    intro r hr
    unfold setString10 at hr
    split at hr
    · rename_i ds
      cases hp : parseDigits ds with
      | none => rw [hp] at hr; cases hr
      | some n =>
        rw [hp] at hr; simp only [Option.map] at hr
        injection hr with hr; exact ⟨ds, n, hp, Or.inl ⟨rfl, hr.symm⟩⟩
    · rename_i ds
      cases hp : parseDigits ds with
      | none => rw [hp] at hr; cases hr
      | some n =>
        rw [hp] at hr; simp only [Option.map] at hr
        injection hr with hr; exact ⟨ds, n, hp, Or.inr (Or.inl ⟨rfl, hr.symm⟩)⟩
    · cases hp : parseDigits r with
      | none => rw [hp] at hr; cases hr
      | some n =>
        rw [hp] at hr; simp only [Option.map] at hr
        injection hr with hr; exact ⟨r, n, hp, Or.inr (Or.inr ⟨rfl, hr.symm⟩)⟩
  unfold parseAmount at h
  split at h
  · rename_i he
    injection h with h
    left
    refine ⟨?_, h.symm⟩
    cases s with
    | nil => rfl
    | cons c cs => simp at he
  · right
    split at h
    · cases h
    · rename_i r hs
      obtain ⟨ds, n, h1, h2⟩ := key r h
      obtain ⟨p1, p2, p3⟩ := pd ds n h1
      unfold stripHexPrefix at hs
      split at hs
      · split at hs
        · cases hs
        · injection hs with hs; subst hs
          exact ⟨_, ds, n, Or.inr (Or.inl rfl), p1, p2, p3, h2⟩
      · split at hs
        · cases hs
        · injection hs with hs; subst hs
          exact ⟨_, ds, n, Or.inr (Or.inr rfl), p1, p2, p3, h2⟩
      · injection hs with hs; subst hs
        exact ⟨_, ds, n, Or.inl rfl, p1, p2, p3, h2⟩

example : parseAmount "-60".toList = some (-60) := by decide
example : parseAmount "+5".toList = some 5 := by decide
example : parseAmount "007".toList = some 7 := by decide
example : parseAmount "0x15".toList = some 15 := by decide
example : parseAmount "".toList = some 0 := by decide
example : parseAmount "0x".toList = none := by decide
example : parseAmount "1e3".toList = none := by decide
example : parseAmount "--5".toList = none := by decide

/-! ## nothing is ever negative (both variants, all block sequences) -/

def NonNeg (s : St) : Prop :=
  (∀ a id c e, s.equity a id = some (c, e) → 0 ≤ e) ∧ (∀ x r, s.assets x = some r → 0 ≤ r.supply)

theorem nonNeg_putEquity {s s' : St} {a id : Nat} {e : Nat × Int} (h : putEquity s a id e = .ok s')
    (N : NonNeg s) : NonNeg s' := by
  obtain ⟨hp, ha, _, he⟩ := putEquity_ok h
  constructor
  · intro x y c v hv
    rw [he] at hv
    by_cases hk : x = a ∧ y = id
    · simp only [hk, and_self, if_true] at hv
      injection hv with hv; subst hv; exact hp
    · simp only [hk, if_false] at hv
      exact N.1 x y c v hv
  · intro x r hr; rw [ha] at hr; exact N.2 x r hr

theorem nonNeg_putSupply {s s' : St} {code : Nat} {v : Int} (h : putSupply s code v = .ok s')
    (N : NonNeg s) : NonNeg s' := by
  obtain ⟨r0, _, hv, he, _, ha⟩ := putSupply_ok h
  constructor
  · intro x y c w hw; rw [he] at hw; exact N.1 x y c w hw
  · intro x r hr
    rw [ha] at hr
    by_cases e : x = code
    · simp only [e, if_true] at hr
      injection hr with hr; subst hr; exact hv
    · simp only [e, if_false] at hr
      exact N.2 x r hr

theorem nonNeg_apply {fixed : Bool} {stable s s' : St} {op : Op} (h : apply fixed stable s op = .ok s')
    (N : NonNeg s) : NonNeg s' := by
  cases op with
  | create sd hsh cat dv rp dc fz big =>
    obtain ⟨he, _, ha⟩ := create_ok h
    constructor
    · intro x y c w hw; rw [he] at hw; exact N.1 x y c w hw
    · intro x r hr
      rw [ha] at hr
      by_cases e : x = hsh
      · simp only [e, if_true] at hr
        injection hr with hr; subst hr; simp
      · simp only [e, if_false] at hr
        exact N.2 x r hr
  | issue sd rc hsh code m amt =>
    obtain ⟨a, r, s1, s2, tid, newEq, _, _, _, _, h1, h2, h3, _⟩ := issue_ok h
    subst h3
    have N2 : NonNeg s2 := nonNeg_putEquity h2 (nonNeg_putSupply h1 N)
    exact N2
  | replenish sd rc code id amt =>
    obtain ⟨a, r, s1, _, _, _, _, _, _, _, h1, h2⟩ := replenish_ok h
    exact nonNeg_putSupply h2 (nonNeg_putEquity h1 N)
  | modify sd code fz =>
    obtain ⟨r, hl, he, _, hcase⟩ := modify_ok h
    rcases hcase with rfl | ⟨b, _, ha⟩
    · exact N
    · constructor
      · intro x y c w hw; rw [he] at hw; exact N.1 x y c w hw
      · intro x r' hr
        rw [ha] at hr
        by_cases e : x = code
        · simp only [e, if_true] at hr
          injection hr with hr; subst hr
          exact N.2 code r (lookup_some hl).1
        · simp only [e, if_false] at hr
          exact N.2 x r' hr
  | transfer sd rc id ck amt =>
    obtain ⟨a, c, e, r, _, _, _, _, _, _, _, hcase⟩ := transfer_ok h
    rcases hcase with rfl | hm
    · exact N
    · obtain ⟨s1, c', e', h1, _, h2⟩ := moveEquity_ok hm
      rcases h1 with ⟨_, h1⟩ | ⟨_, h1⟩
      · exact nonNeg_putEquity h2 (nonNeg_putEquity h1 N)
      · exact nonNeg_putEquity h2 (nonNeg_putSupply h1 N)

theorem nonNeg_step (fixed : Bool) (stable s : St) (op : Op) (N : NonNeg s) : NonNeg (step fixed stable s op) := by
  unfold step
  split
  · rename_i s' h; exact nonNeg_apply h N
  · exact N

theorem nonNeg_runOps (fixed : Bool) (stable : St) : ∀ (ops : List Op) (s : St), NonNeg s → NonNeg (runOps fixed stable s ops) := by
  intro ops
  induction ops with
  | nil => intro s N; exact N
  | cons op ops ih => intro s N; exact ih _ (nonNeg_step fixed stable s op N)

/-- `no_negative_equity`: after ANY sequence of blocks of asset transactions (any amounts, either variant of
    the transfer) every stored equity and every recorded supply is ≥ 0 -/
theorem no_negative_equity (fixed : Bool) : ∀ (blocks : List (List Op)) (s : St), NonNeg s →
    NonNeg (runBlocks fixed s blocks) := by
  intro blocks
  induction blocks with
  | nil => intro s N; exact N
  | cons b bs ih => intro s N; exact ih _ (nonNeg_runOps fixed s b s N)

theorem nonNeg_empty : NonNeg St.empty := by
  constructor
  · intro a id c e h; simp [St.empty] at h
  · intro x r h; simp [St.empty] at h

/-! ## a transfer debits nobody but its sender -/

theorem transfer_debit_core {fixed : Bool} {stable s s' : St} {sd rc id ck : Nat} {amt : Option Int}
    (h : transfer fixed stable s sd rc id ck amt = .ok s')
    (hg : fixed = true ∨ ∀ a, amt = some a → 0 ≤ a) :
    ∀ a i c e, s.equity a i = some (c, e) → (a, i) ≠ (sd, id) →
      ∃ e', s'.equity a i = some (c, e') ∧ e ≤ e' := by
  obtain ⟨am, c0, e0, r, hamt, hse, hpos, hfix, hr, hfz, hle, hcase⟩ := transfer_ok h
  have hnn : 0 ≤ am := by
    rcases hg with hf | hg
    · exact hfix hf
    · exact hg am hamt
  intro a i c e hai hne
  rcases hcase with rfl | hm
  · exact ⟨e, hai, by omega⟩
  · obtain ⟨s1, c', e', h1, hs1, h2⟩ := moveEquity_ok hm
    obtain ⟨_, _, _, he2⟩ := putEquity_ok h2
    have hamount : 0 ≤ (if r.divisible = true then am else e0) := by split <;> omega
    have hk2 : ¬ (a = sd ∧ i = id) := fun ⟨x, y⟩ => hne (by rw [x, y])
    rw [he2]; simp only [hk2, if_false]
    rcases h1 with ⟨hrc, h1⟩ | ⟨hrc, h1⟩
    · obtain ⟨_, _, _, he1⟩ := putEquity_ok h1
      rw [he1]
      by_cases hk1 : a = rc ∧ i = id
      · simp only [hk1, and_self, if_true]
        obtain ⟨rfl, rfl⟩ := hk1
        unfold creditEntry; rw [hai]
        exact ⟨_, rfl, by omega⟩
      · simp only [hk1, if_false]; exact ⟨e, hai, by omega⟩
    · obtain ⟨_, _, _, he1, _, _⟩ := putSupply_ok h1
      rw [he1]; exact ⟨e, hai, by omega⟩

/-- FULL theorem, live model (`transferFixed`): whatever the amount text, a successful transfer leaves every
    entry other than the sender's own (sender, id) entry in place, with the same asset code and an amount
    that did not decrease -/
theorem transfer_only_debits_sender (stable s s' : St) (sd rc id ck : Nat) (amt : Option Int)
    (h : transferFixed stable s sd rc id ck amt = .ok s') :
    ∀ a i c e, s.equity a i = some (c, e) → (a, i) ≠ (sd, id) →
      ∃ e', s'.equity a i = some (c, e') ∧ e ≤ e' :=
  transfer_debit_core h (Or.inl rfl)

/-- the code before commit 71158df: the same holds only under the guard 0 ≤ amount -/
theorem transfer_only_debits_sender_partial (stable s s' : St) (sd rc id ck : Nat) (amt : Option Int)
    (h : transferAsIs stable s sd rc id ck amt = .ok s') (hg : ∀ a, amt = some a → 0 ≤ a) :
    ∀ a i c e, s.equity a i = some (c, e) → (a, i) ≠ (sd, id) →
      ∃ e', s'.equity a i = some (c, e') ∧ e ≤ e' :=
  transfer_debit_core h (Or.inr hg)

/-- account 1 creates token 1, issues 100 to Alice (2) and 100 to Bob (3); Bob sends "-60" to Alice -/
def witnessBlocks : List (List Op) :=
  [[.create 1 1 1 true true 2 false false],
   [.issue 1 2 10 1 3 (some 100), .issue 1 3 11 1 3 (some 100)],
   [.transfer 3 2 1 0 (parseAmount "-60".toList)]]

/-- REFUTATION on the faithful model of the code before commit 71158df (parent 2b30546): the transfer is
    accepted, ALICE (the receiver, who signed nothing) goes 100 → 40, Bob 100 → 160, supply unchanged.
    Reproduced on the real engine by `hx c12` (signature c12/third-party-debited/negative-amount). -/
theorem transfer_only_debits_sender_refuted :
    (runBlocks false St.empty (witnessBlocks.take 2)).equity 2 1 = some (1, 100) ∧
    (runBlocks false St.empty (witnessBlocks.take 2)).equity 3 1 = some (1, 100) ∧
    (runBlocks false St.empty witnessBlocks).equity 2 1 = some (1, 40) ∧
    (runBlocks false St.empty witnessBlocks).equity 3 1 = some (1, 160) ∧
    ((runBlocks false St.empty witnessBlocks).assets 1).map (·.supply) = some 200 := by decide

/-- the same blocks on the repaired model: the transfer is discarded -/
example : (runBlocks true St.empty witnessBlocks).equity 2 1 = some (1, 100) ∧
    (runBlocks true St.empty witnessBlocks).equity 3 1 = some (1, 100) := by decide

/-! ## the supply changes only by the issuer's issue / replenish and a holder's burn -/

/-- `op` is an issue / replenish of asset `x` sent by `issuer` -/
def IssuerMint (op : Op) (issuer x : Nat) : Prop :=
  (∃ rc h m a, op = .issue issuer rc h x m a) ∨ (∃ rc i a, op = .replenish issuer rc x i a)

/-- `op` is a transfer to the burn address 0x0 by an account holding a positive entry of asset `x` -/
def HolderBurn (s : St) (op : Op) (x : Nat) : Prop :=
  ∃ sd id ck a e, op = .transfer sd 0 id ck a ∧ s.equity sd id = some (x, e) ∧ 0 < e

def NonNegAmt : Op → Prop
  | .transfer _ _ _ _ (some a) => 0 ≤ a
  | _ => True

/-- CreateAssetTx has no existence check: the theorems about existing assets assume that a create's tx hash does
    not already name an asset (tx hashes are unique; see `create_resets_existing` for what the code would do) -/
def FreshCreate (s : St) : Op → Prop
  | .create _ h _ _ _ _ _ _ => s.assets h = none
  | _ => True

/-- TOTALISATION made visible: a create whose hash already names an asset is accepted and replaces the record —
    new issuer, supply 0 — whatever the old record was -/
theorem create_resets_existing (fixed : Bool) (stable s s' : St) (sd x cat dc : Nat) (dv rp fz big : Bool)
    (h : apply fixed stable s (.create sd x cat dv rp dc fz big) = .ok s') :
    s'.assets x = some { issuer := sd, category := cat, divisible := dv, replenishable := rp, frozen := fz, supply := 0 } := by
  obtain ⟨_, _, ha⟩ := create_ok h
  rw [ha]; simp

theorem supply_changes_core {fixed : Bool} {stable s s' : St} {op : Op}
    (h : apply fixed stable s op = .ok s') (hg : fixed = true ∨ NonNegAmt op) (hc : FreshCreate s op)
    (x : Nat) (r r' : AssetRec) (hr : s.assets x = some r) (hr' : s'.assets x = some r')
    (hne : r'.supply ≠ r.supply) :
    (r.supply < r'.supply ∧ IssuerMint op r.issuer x) ∨ (r'.supply < r.supply ∧ HolderBurn s op x) := by
  cases op with
  | create sd hsh cat dv rp dc fz big =>
    obtain ⟨_, _, ha⟩ := create_ok h
    rw [ha] at hr'
    by_cases e : x = hsh
    · subst e; rw [hc] at hr; cases hr
    · simp only [e, if_false] at hr'
      rw [hr] at hr'; injection hr' with hr'; subst hr'; exact absurd rfl hne
  | issue sd rc hsh code m amt =>
    obtain ⟨a, r0, s1, s2, tid, newEq, hamt, hpos, hl, _, h1, h2, h3, _⟩ := issue_ok h
    subst h3
    obtain ⟨hr0, hiss⟩ := lookup_some hl
    obtain ⟨_, ha2, _, _⟩ := putEquity_ok h2
    obtain ⟨r1, hr1, _, _, _, ha1⟩ := putSupply_ok h1
    rw [setMeta_assets, ha2, ha1] at hr'
    by_cases e : x = code
    · subst e
      simp only [if_true] at hr'
      rw [hr1] at hr0; injection hr0 with hr0; subst hr0
      rw [hr] at hr1; injection hr1 with hr1; subst hr1
      injection hr' with hr'; subst hr'
      left
      refine ⟨?_, Or.inl ⟨rc, hsh, m, amt, by rw [hiss]⟩⟩
      simp only
      split <;> omega
    · simp only [e, if_false] at hr'
      rw [hr] at hr'; injection hr' with hr'; subst hr'; exact absurd rfl hne
  | replenish sd rc code id amt =>
    obtain ⟨a, r0, s1, hamt, hpos, hl, _, _, _, _, h1, h2⟩ := replenish_ok h
    obtain ⟨hr0, hiss⟩ := lookup_some hl
    obtain ⟨_, ha1, _, _⟩ := putEquity_ok h1
    obtain ⟨r1, hr1, _, _, _, ha2⟩ := putSupply_ok h2
    rw [ha2] at hr'
    rw [ha1] at hr1
    by_cases e : x = code
    · subst e
      simp only [if_true] at hr'
      rw [hr1] at hr0; injection hr0 with hr0; subst hr0
      rw [hr] at hr1; injection hr1 with hr1; subst hr1
      injection hr' with hr'; subst hr'
      left
      refine ⟨?_, Or.inr ⟨rc, id, amt, by rw [hiss]⟩⟩
      simp only
      omega
    · simp only [e, if_false] at hr'
      rw [ha1, hr] at hr'; injection hr' with hr'; subst hr'; exact absurd rfl hne
  | modify sd code fz =>
    obtain ⟨r0, hl, _, _, hcase⟩ := modify_ok h
    rcases hcase with rfl | ⟨b, _, ha⟩
    · rw [hr] at hr'; injection hr' with hr'; subst hr'; exact absurd rfl hne
    · rw [ha] at hr'
      by_cases e : x = code
      · subst e
        simp only [if_true] at hr'
        injection hr' with hr'; subst hr'
        rw [(lookup_some hl).1] at hr; injection hr with hr; subst hr
        exact absurd rfl hne
      · simp only [e, if_false] at hr'
        rw [hr] at hr'; injection hr' with hr'; subst hr'; exact absurd rfl hne
  | transfer sd rc id ck amt =>
    obtain ⟨am, c0, e0, r0, hamt, hse, hpos, hfix, hr0, _, hle, hcase⟩ := transfer_ok h
    have hnn : 0 ≤ am := by
      rcases hg with hf | hg
      · exact hfix hf
      · subst hamt; exact hg
    rcases hcase with rfl | hm
    · rw [hr] at hr'; injection hr' with hr'; subst hr'; exact absurd rfl hne
    · obtain ⟨s1, c', e', h1, _, h2⟩ := moveEquity_ok hm
      obtain ⟨_, ha2, _, _⟩ := putEquity_ok h2
      rw [ha2] at hr'
      rcases h1 with ⟨_, h1⟩ | ⟨hrc, h1⟩
      · obtain ⟨_, ha1, _, _⟩ := putEquity_ok h1
        rw [ha1, hr] at hr'; injection hr' with hr'; subst hr'; exact absurd rfl hne
      · obtain ⟨r1, hr1, _, _, _, ha1⟩ := putSupply_ok h1
        rw [ha1] at hr'
        by_cases e : x = c0
        · subst e
          simp only [if_true] at hr'
          rw [hr1] at hr0; injection hr0 with hr0; subst hr0
          rw [hr] at hr1; injection hr1 with hr1; subst hr1
          injection hr' with hr'; subst hr'
          right
          subst hrc
          refine ⟨?_, sd, id, ck, amt, e0, rfl, hse, hpos⟩
          simp only at hne ⊢
          split at hne <;> split <;> first | omega | (rename_i h1 h2; exact absurd h1 h2) | (rename_i h1 h2; exact absurd h2 h1)
        · simp only [e, if_false] at hr'
          rw [hr] at hr'; injection hr' with hr'; subst hr'; exact absurd rfl hne

/-- `supply_changes_only_by`, FULL theorem for the live model: one transaction changes the recorded supply of an
    existing asset only upwards by an issue / replenish SENT BY ITS ISSUER, or downwards by a transfer to 0x0
    sent by an account that holds a positive entry of the asset -/
theorem supply_changes_only_by (stable s s' : St) (op : Op) (h : apply true stable s op = .ok s')
    (hc : FreshCreate s op) (x : Nat) (r r' : AssetRec) (hr : s.assets x = some r) (hr' : s'.assets x = some r')
    (hne : r'.supply ≠ r.supply) :
    (r.supply < r'.supply ∧ IssuerMint op r.issuer x) ∨ (r'.supply < r.supply ∧ HolderBurn s op x) :=
  supply_changes_core h (Or.inl rfl) hc x r r' hr hr' hne

/-- the code before the repair: only under the guard 0 ≤ amount -/
theorem supply_changes_only_by_partial (stable s s' : St) (op : Op) (h : apply false stable s op = .ok s')
    (hg : NonNegAmt op) (hc : FreshCreate s op)
    (x : Nat) (r r' : AssetRec) (hr : s.assets x = some r) (hr' : s'.assets x = some r')
    (hne : r'.supply ≠ r.supply) :
    (r.supply < r'.supply ∧ IssuerMint op r.issuer x) ∨ (r'.supply < r.supply ∧ HolderBurn s op x) :=
  supply_changes_core h (Or.inr hg) hc x r r' hr hr' hne

/-- a new asset record appears only through a create, with supply 0 -/
theorem asset_born_by_create (fixed : Bool) (stable s s' : St) (op : Op) (h : apply fixed stable s op = .ok s')
    (x : Nat) (r' : AssetRec) (hr : s.assets x = none) (hr' : s'.assets x = some r') :
    r'.supply = 0 ∧ ∃ cat dv rp dc fz big, op = .create r'.issuer x cat dv rp dc fz big := by
  cases op with
  | create sd hsh cat dv rp dc fz big =>
    obtain ⟨_, _, ha⟩ := create_ok h
    rw [ha] at hr'
    by_cases e : x = hsh
    · subst e
      simp only [if_true] at hr'
      injection hr' with hr'; subst hr'
      exact ⟨rfl, cat, dv, rp, dc, fz, big, rfl⟩
    · simp only [e, if_false] at hr'; rw [hr] at hr'; cases hr'
  | issue sd rc hsh code m amt =>
    obtain ⟨a, r0, s1, s2, tid, newEq, _, _, _, _, h1, h2, h3, _⟩ := issue_ok h
    subst h3
    obtain ⟨_, ha2, _, _⟩ := putEquity_ok h2
    obtain ⟨r1, hr1, _, _, _, ha1⟩ := putSupply_ok h1
    rw [setMeta_assets, ha2, ha1] at hr'
    by_cases e : x = code
    · subst e; rw [hr] at hr1; cases hr1
    · simp only [e, if_false] at hr'; rw [hr] at hr'; cases hr'
  | replenish sd rc code id amt =>
    obtain ⟨a, r0, s1, _, _, _, _, _, _, _, h1, h2⟩ := replenish_ok h
    obtain ⟨_, ha1, _, _⟩ := putEquity_ok h1
    obtain ⟨r1, hr1, _, _, _, ha2⟩ := putSupply_ok h2
    rw [ha2] at hr'
    rw [ha1] at hr1
    by_cases e : x = code
    · subst e; rw [hr] at hr1; cases hr1
    · simp only [e, if_false] at hr'; rw [ha1, hr] at hr'; cases hr'
  | modify sd code fz =>
    obtain ⟨r0, hl, _, _, hcase⟩ := modify_ok h
    rcases hcase with rfl | ⟨b, _, ha⟩
    · rw [hr] at hr'; cases hr'
    · rw [ha] at hr'
      by_cases e : x = code
      · subst e; rw [(lookup_some hl).1] at hr; cases hr
      · simp only [e, if_false] at hr'; rw [hr] at hr'; cases hr'
  | transfer sd rc id ck amt =>
    obtain ⟨am, c0, e0, r0, _, _, _, _, hr0, _, _, hcase⟩ := transfer_ok h
    rcases hcase with rfl | hm
    · rw [hr] at hr'; cases hr'
    · obtain ⟨s1, c', e', h1, _, h2⟩ := moveEquity_ok hm
      obtain ⟨_, ha2, _, _⟩ := putEquity_ok h2
      rw [ha2] at hr'
      rcases h1 with ⟨_, h1⟩ | ⟨_, h1⟩
      · obtain ⟨_, ha1, _, _⟩ := putEquity_ok h1
        rw [ha1, hr] at hr'; cases hr'
      · obtain ⟨r1, hr1, _, _, _, ha1⟩ := putSupply_ok h1
        rw [ha1] at hr'
        by_cases e : x = c0
        · subst e; rw [hr] at hr1; cases hr1
        · simp only [e, if_false] at hr'; rw [hr] at hr'; cases hr'

/-- blocks of the witness for minting by a non-issuer: Alice (2) holds 100 of token 1 and sends "-7" to 0x0 -/
def burnWitness : List (List Op) :=
  [[.create 1 1 1 true true 2 false false],
   [.issue 1 2 10 1 3 (some 100)],
   [.transfer 2 0 1 0 (parseAmount "-7".toList)]]

/-- REFUTATION on the faithful model of the code before commit 71158df: a transfer to the burn address with a
    negative amount is accepted and RAISES supply and the sender's equity (real engine: signature
    c12/minted-by-non-issuer/negative-amount-burn) -/
theorem negative_burn_mints_refuted :
    (runBlocks false St.empty burnWitness).equity 2 1 = some (1, 107) ∧
    ((runBlocks false St.empty burnWitness).assets 1).map (·.supply) = some 107 ∧
    ((runBlocks true St.empty burnWitness).assets 1).map (·.supply) = some 100 := by decide


/-! ## the id discipline (what ReplenishAssetTx / IssueAssetTx do NOT enforce) -/

/-- all entries stored under one asset id carry the same asset code -/
def IdConsistent (s : St) : Prop :=
  ∀ a b id c1 e1 c2 e2, s.equity a id = some (c1, e1) → s.equity b id = some (c2, e2) → c1 = c2

/-- an entry whose id is itself an asset code carries that code -/
def OwnCode (s : St) : Prop :=
  ∀ a id c e r, s.equity a id = some (c, e) → s.assets id = some r → c = id

structure IdInv (s : St) : Prop where
  idc : IdConsistent s
  own : OwnCode s

/-- the discipline a transaction has to respect for the sum invariant: tx hashes are fresh (never used as an
    asset id or asset code before), and a replenish names an id that belongs to its own asset code.
    The real code checks neither (see `supply_eq_sum_refuted`). -/
def IdOK (s : St) : Op → Prop
  | .create _ h _ _ _ _ _ _ => (∀ a, s.equity a h = none) ∧ s.assets h = none
  | .issue sd _ h code _ _ =>
    ∀ r, lookup s sd code = some r → r.category ≠ 1 → (∀ a, s.equity a h = none) ∧ s.assets h = none
  | .replenish sd _ code id _ =>
    ∀ r, lookup s sd code = some r →
      (∀ a c e, s.equity a id = some (c, e) → c = code) ∧ (∀ r', s.assets id = some r' → id = code)
  | _ => True

theorem idInv_putEquity {s s' : St} {a id c : Nat} {e : Int} (h : putEquity s a id (c, e) = .ok s')
    (I : IdInv s) (h1 : ∀ b c2 e2, s.equity b id = some (c2, e2) → c2 = c)
    (h2 : ∀ r, s.assets id = some r → c = id) : IdInv s' := by
  obtain ⟨_, ha, _, he⟩ := putEquity_ok h
  constructor
  · intro x y i c1 e1 c2 e2 hx hy
    rw [he] at hx hy
    by_cases kx : x = a ∧ i = id
    · simp only [kx, and_self, if_true] at hx
      injection hx with hx; injection hx with hx1 hx2; subst hx1
      by_cases ky : y = a ∧ i = id
      · simp only [ky, and_self, if_true] at hy
        cases hy; rfl
      · simp only [ky, if_false] at hy
        rw [kx.2] at hy
        exact (h1 y c2 e2 hy).symm
    · simp only [kx, if_false] at hx
      by_cases ky : y = a ∧ i = id
      · simp only [ky, and_self, if_true] at hy
        injection hy with hy; injection hy with hy1 hy2; subst hy1
        rw [ky.2] at hx
        exact h1 x c1 e1 hx
      · simp only [ky, if_false] at hy
        exact I.idc x y i c1 e1 c2 e2 hx hy
  · intro x i c1 e1 r hx hr
    rw [he] at hx; rw [ha] at hr
    by_cases kx : x = a ∧ i = id
    · simp only [kx, and_self, if_true] at hx
      injection hx with hx; injection hx with hx1 hx2; subst hx1
      rw [kx.2] at hr ⊢
      exact h2 r hr
    · simp only [kx, if_false] at hx
      exact I.own x i c1 e1 r hx hr

theorem idInv_sameEquity {s s' : St} (he : s'.equity = s.equity)
    (ha : ∀ x r', s'.assets x = some r' → ∃ r, s.assets x = some r) (I : IdInv s) : IdInv s' := by
  constructor
  · intro x y i c1 e1 c2 e2 hx hy
    rw [he] at hx hy; exact I.idc x y i c1 e1 c2 e2 hx hy
  · intro x i c e r' hx hr'
    rw [he] at hx
    obtain ⟨r, hr⟩ := ha i r' hr'
    exact I.own x i c e r hx hr

theorem idInv_putSupply {s s' : St} {code : Nat} {v : Int} (h : putSupply s code v = .ok s')
    (I : IdInv s) : IdInv s' := by
  obtain ⟨r0, hr0, _, he, _, ha⟩ := putSupply_ok h
  refine idInv_sameEquity he ?_ I
  intro x r' hr'
  rw [ha] at hr'
  by_cases e : x = code
  · subst e; exact ⟨r0, hr0⟩
  · simp only [e, if_false] at hr'; exact ⟨r', hr'⟩

theorem idInv_apply {fixed : Bool} {stable s s' : St} {op : Op} (h : apply fixed stable s op = .ok s')
    (I : IdInv s) (g : IdOK s op) : IdInv s' := by
  cases op with
  | create sd hsh cat dv rp dc fz big =>
    obtain ⟨he, _, ha⟩ := create_ok h
    constructor
    · intro x y i c1 e1 c2 e2 hx hy
      rw [he] at hx hy; exact I.idc x y i c1 e1 c2 e2 hx hy
    · intro x i c e r' hx hr'
      rw [he] at hx; rw [ha] at hr'
      by_cases k : i = hsh
      · subst k; rw [g.1 x] at hx; cases hx
      · simp only [k, if_false] at hr'; exact I.own x i c e r' hx hr'
  | issue sd rc hsh code m amt =>
    obtain ⟨a, r, s1, s2, tid, newEq, _, _, hl, _, h1, h2, h3, hcat⟩ := issue_ok h
    subst h3
    obtain ⟨hr, _⟩ := lookup_some hl
    have I1 := idInv_putSupply h1 I
    obtain ⟨r1, _, _, he1, _, ha1⟩ := putSupply_ok h1
    have I2 : IdInv s2 := by
      refine idInv_putEquity h2 I1 ?_ ?_
      · intro b c2 e2 hb
        rw [he1] at hb
        rcases hcat with ⟨_, ht, _⟩ | ⟨hc, ht, _⟩
        · subst ht; exact I.own b tid c2 e2 r hb hr
        · subst ht; rw [(g r hl hc).1 b] at hb; cases hb
      · intro r' hr'
        rcases hcat with ⟨_, ht, _⟩ | ⟨hc, ht, _⟩
        · exact ht.symm
        · subst ht
          rw [ha1] at hr'
          by_cases k : tid = code
          · exact k.symm
          · simp only [k, if_false] at hr'; rw [(g r hl hc).2] at hr'; cases hr'
    exact ⟨I2.idc, I2.own⟩
  | replenish sd rc code id amt =>
    obtain ⟨a, r, s1, _, _, hl, _, _, _, _, h1, h2⟩ := replenish_ok h
    exact idInv_putSupply h2 (idInv_putEquity h1 I (fun b c2 e2 hb => (g r hl).1 b c2 e2 hb)
      (fun r' hr' => ((g r hl).2 r' hr').symm))
  | modify sd code fz =>
    obtain ⟨r, hl, he, _, hcase⟩ := modify_ok h
    rcases hcase with rfl | ⟨b, _, ha⟩
    · exact I
    · refine idInv_sameEquity he ?_ I
      intro x r' hr'
      rw [ha] at hr'
      by_cases e : x = code
      · subst e; exact ⟨r, (lookup_some hl).1⟩
      · simp only [e, if_false] at hr'; exact ⟨r', hr'⟩
  | transfer sd rc id ck amt =>
    obtain ⟨am, c0, e0, r0, _, hse, _, _, hr0, _, _, hcase⟩ := transfer_ok h
    rcases hcase with rfl | hm
    · exact I
    · obtain ⟨s1, c', e', h1, hs1, h2⟩ := moveEquity_ok hm
      -- the state after the credit still satisfies the discipline, and every entry under `id` carries c0
      have key : IdInv s1 ∧ ∀ b c2 e2, s1.equity b id = some (c2, e2) → c2 = c0 := by
        rcases h1 with ⟨_, h1⟩ | ⟨_, h1⟩
        · have hce : (creditEntry s rc id c0 (if r0.divisible = true then am else e0)).1 = c0 := by
            unfold creditEntry
            split
            · rfl
            · rename_i c2 e2 hq; exact I.idc rc sd id c2 e2 c0 e0 hq hse
          generalize creditEntry s rc id c0 (if r0.divisible = true then am else e0) = X at h1 hce
          obtain ⟨x1, x2⟩ := X
          simp only at hce; subst hce
          obtain ⟨_, _, _, he1⟩ := putEquity_ok h1
          refine ⟨idInv_putEquity h1 I (fun b c2 e2 hb => I.idc b sd id c2 e2 x1 e0 hb hse)
            (fun r' hr' => I.own sd id x1 e0 r' hse hr'), ?_⟩
          intro b c2 e2 hb
          rw [he1] at hb
          by_cases k : b = rc
          · simp [k] at hb; exact hb.1.symm
          · simp [k] at hb
            exact I.idc b sd id c2 e2 x1 e0 hb hse
        · obtain ⟨_, _, _, he1, _, _⟩ := putSupply_ok h1
          refine ⟨idInv_putSupply h1 I, ?_⟩
          intro b c2 e2 hb
          rw [he1] at hb
          exact I.idc b sd id c2 e2 c0 e0 hb hse
      have hc' : c' = c0 := key.2 sd c' e' hs1
      subst hc'
      have hassets : ∀ r', s1.assets id = some r' → c' = id := by
        intro r' hr'
        exact key.1.own sd id c' e' r' hs1 hr'
      exact idInv_putEquity h2 key.1 key.2 hassets

theorem idInv_empty : IdInv St.empty := by
  constructor
  · intro a b id c1 e1 c2 e2 h; simp [St.empty] at h
  · intro a id c e r h; simp [St.empty] at h

/-! ## frozen assets do not move -/

/-- `frozen_immovable`: in a state respecting the id discipline, a transaction other than a ModifyAssetTx of
    asset `x` leaves a frozen asset `x` exactly as it is: same record (supply, flags) and every entry carrying
    its code, before or after, untouched.  Either variant of the transfer. -/
theorem frozen_immovable (fixed : Bool) (stable s s' : St) (op : Op) (h : apply fixed stable s op = .ok s')
    (I : IdInv s) (g : IdOK s op)
    (x : Nat) (r : AssetRec) (hr : s.assets x = some r) (hf : r.frozen = true)
    (hop : ∀ sd fz, op ≠ .modify sd x fz) :
    s'.assets x = some r ∧
    ∀ a i, ((∃ e, s.equity a i = some (x, e)) ∨ (∃ e, s'.equity a i = some (x, e))) →
      s'.equity a i = s.equity a i := by
  cases op with
  | create sd hsh cat dv rp dc fz big =>
    obtain ⟨he, _, ha⟩ := create_ok h
    refine ⟨?_, fun a i _ => by rw [he]⟩
    rw [ha]
    by_cases e : x = hsh
    · subst e; rw [g.2] at hr; cases hr
    · simp only [e, if_false]; exact hr
  | issue sd rc hsh code m amt =>
    obtain ⟨a, r0, s1, s2, tid, newEq, _, _, hl, hfz, h1, h2, h3, hcat⟩ := issue_ok h
    subst h3
    obtain ⟨hr0, _⟩ := lookup_some hl
    have hx : x ≠ code := by
      intro e; subst e; rw [hr] at hr0; injection hr0 with hr0; subst hr0; rw [hf] at hfz; cases hfz
    obtain ⟨_, ha2, _, he2⟩ := putEquity_ok h2
    obtain ⟨r1, _, _, he1, _, ha1⟩ := putSupply_ok h1
    refine ⟨?_, ?_⟩
    · rw [setMeta_assets, ha2, ha1]; simp only [hx, if_false]; exact hr
    · intro b i hcase
      rw [setMeta_equity, he2, he1]
      by_cases k : b = rc ∧ i = tid
      · exfalso
        obtain ⟨rfl, rfl⟩ := k
        rcases hcase with ⟨e, hb⟩ | ⟨e, hb⟩
        · rcases hcat with ⟨_, ht, _⟩ | ⟨hc, ht, _⟩
          · subst ht; exact hx (I.own b i x e r0 hb hr0)
          · subst ht; rw [(g r0 hl hc).1 b] at hb; cases hb
        · rw [setMeta_equity, he2] at hb
          simp only [and_self, if_true] at hb
          injection hb with hb; injection hb with hb1 hb2; exact hx hb1.symm
      · simp only [k, if_false]
  | replenish sd rc code id amt =>
    obtain ⟨a, r0, s1, _, _, hl, hfz, _, _, hold, h1, h2⟩ := replenish_ok h
    obtain ⟨hr0, _⟩ := lookup_some hl
    have hx : x ≠ code := by
      intro e; subst e; rw [hr] at hr0; injection hr0 with hr0; subst hr0; rw [hf] at hfz; cases hfz
    obtain ⟨_, ha1, _, he1⟩ := putEquity_ok h1
    obtain ⟨r1, _, _, he2, _, ha2⟩ := putSupply_ok h2
    refine ⟨?_, ?_⟩
    · rw [ha2]; simp only [hx, if_false]; rw [ha1]; exact hr
    · intro b i hcase
      rw [he2, he1]
      by_cases k : b = rc ∧ i = id
      · exfalso
        obtain ⟨rfl, rfl⟩ := k
        rcases hcase with ⟨e, hb⟩ | ⟨e, hb⟩
        · unfold oldEntry at hold; rw [hb] at hold; exact hx hold
        · rw [he2, he1] at hb
          simp only [and_self, if_true] at hb
          injection hb with hb; injection hb with hb1 hb2; exact hx hb1.symm
      · simp only [k, if_false]
  | modify sd code fz =>
    obtain ⟨r0, hl, he, _, hcase⟩ := modify_ok h
    rcases hcase with rfl | ⟨b, _, ha⟩
    · exact ⟨hr, fun _ _ _ => rfl⟩
    · refine ⟨?_, fun a i _ => by rw [he]⟩
      rw [ha]
      by_cases e : x = code
      · subst e; exact absurd rfl (hop sd fz)
      · simp only [e, if_false]; exact hr
  | transfer sd rc id ck amt =>
    obtain ⟨am, c0, e0, r0, _, hse, _, _, hr0, hfz, _, hcase⟩ := transfer_ok h
    have hx : x ≠ c0 := by
      intro e; subst e; rw [hr] at hr0; injection hr0 with hr0; subst hr0; rw [hf] at hfz; cases hfz
    rcases hcase with rfl | hm
    · exact ⟨hr, fun _ _ _ => rfl⟩
    · obtain ⟨s1, c', e', h1, hs1, h2⟩ := moveEquity_ok hm
      obtain ⟨_, ha2, _, he2⟩ := putEquity_ok h2
      -- after the credit: asset x untouched, only key (rc, id) possibly changed, every entry under id carries c0
      have key : s1.assets x = some r ∧ (∀ b i, ¬ (b = rc ∧ i = id) → s1.equity b i = s.equity b i) ∧
          (∀ b c2 e2, s1.equity b id = some (c2, e2) → c2 = c0) := by
        rcases h1 with ⟨_, h1⟩ | ⟨_, h1⟩
        · obtain ⟨_, ha1, _, he1⟩ := putEquity_ok h1
          refine ⟨by rw [ha1]; exact hr, fun b i k => by rw [he1]; simp only [k, if_false], ?_⟩
          have hce : (creditEntry s rc id c0 (if r0.divisible = true then am else e0)).1 = c0 := by
            unfold creditEntry
            split
            · rfl
            · rename_i c3 e3 hq; exact I.idc rc sd id c3 e3 c0 e0 hq hse
          generalize creditEntry s rc id c0 (if r0.divisible = true then am else e0) = X at he1 hce
          obtain ⟨x1, x2⟩ := X
          simp only at hce; subst hce
          intro b c2 e2 hb
          rw [he1] at hb
          by_cases k : b = rc
          · simp [k] at hb; exact hb.1.symm
          · simp [k] at hb
            exact I.idc b sd id c2 e2 x1 e0 hb hse
        · obtain ⟨r1, _, _, he1, _, ha1⟩ := putSupply_ok h1
          refine ⟨by rw [ha1]; simp only [hx, if_false]; exact hr, fun b i _ => by rw [he1], ?_⟩
          intro b c2 e2 hb
          rw [he1] at hb
          exact I.idc b sd id c2 e2 c0 e0 hb hse
      obtain ⟨k1, k2, k3⟩ := key
      refine ⟨by rw [ha2]; exact k1, ?_⟩
      intro b i hcase
      -- an entry carrying code x cannot sit under id (all of those carry c0 ≠ x)
      have hi : i ≠ id := by
        intro e; subst e
        rcases hcase with ⟨e, hb⟩ | ⟨e, hb⟩
        · exact hx (I.idc b sd i x e c0 e0 hb hse)
        · rw [he2] at hb
          by_cases k : b = sd
          · simp [k] at hb
            exact hx (hb.1.symm.trans (k3 sd c' e' hs1))
          · simp [k] at hb
            exact hx (k3 b x e hb)
      rw [he2]
      have n1 : ¬ (b = sd ∧ i = id) := fun k => hi k.2
      have n2 : ¬ (b = rc ∧ i = id) := fun k => hi k.2
      simp only [n1, if_false]
      exact k2 b i n2


/-! ## supply = Σ equity (divisible assets), over all block sequences, under the id discipline -/

/-- the (holder, id) keys a transaction may write -/
def touched : Op → List (Nat × Nat)
  | .issue _ rc h code _ _ => [(rc, code), (rc, h)]
  | .replenish _ rc _ id _ => [(rc, id)]
  | .transfer sd rc id _ _ => [(sd, id), (rc, id)]
  | _ => []

/-- every entry's asset code names an existing asset -/
def Live (s : St) : Prop := ∀ a id c e, s.equity a id = some (c, e) → ∃ r, s.assets c = some r

structure SumInv (s : St) (keys : List (Nat × Nat)) : Prop where
  sum : Gap s keys (fun _ => 0)
  supp : ∀ a id, s.equity a id ≠ none → (a, id) ∈ keys
  ids : IdInv s
  live : Live s

theorem supp_putEquity {s s' : St} {keys : List (Nat × Nat)} {a id : Nat} {e : Nat × Int}
    (h : putEquity s a id e = .ok s') (S : ∀ a id, s.equity a id ≠ none → (a, id) ∈ keys)
    (hk : (a, id) ∈ keys) : ∀ a id, s'.equity a id ≠ none → (a, id) ∈ keys := by
  obtain ⟨_, _, _, he⟩ := putEquity_ok h
  intro x y hxy
  rw [he] at hxy
  by_cases k : x = a ∧ y = id
  · rw [k.1, k.2]; exact hk
  · simp only [k, if_false] at hxy; exact S x y hxy

theorem live_putEquity {s s' : St} {a id c : Nat} {e : Int} (h : putEquity s a id (c, e) = .ok s')
    (L : Live s) (hc : ∃ r, s.assets c = some r) : Live s' := by
  obtain ⟨_, ha, _, he⟩ := putEquity_ok h
  intro x y c1 e1 hxy
  rw [he] at hxy; rw [ha]
  by_cases k : x = a ∧ y = id
  · simp only [k, and_self, if_true] at hxy
    cases hxy; exact hc
  · simp only [k, if_false] at hxy; exact L x y c1 e1 hxy

theorem live_sameEquity {s s' : St} (he : s'.equity = s.equity)
    (ha : ∀ x r, s.assets x = some r → ∃ r', s'.assets x = some r') (L : Live s) : Live s' := by
  intro x y c e hxy
  rw [he] at hxy
  obtain ⟨r, hr⟩ := L x y c e hxy
  exact ha c r hr

theorem live_putSupply {s s' : St} {code : Nat} {v : Int} (h : putSupply s code v = .ok s')
    (L : Live s) : Live s' := by
  obtain ⟨r0, _, _, he, _, ha⟩ := putSupply_ok h
  refine live_sameEquity he ?_ L
  intro x r hr
  rw [ha]
  by_cases e : x = code
  · simp only [e, if_true]; exact ⟨_, rfl⟩
  · simp only [e, if_false]; exact ⟨r, hr⟩

theorem sumCode_zero (s : St) (x : Nat) : ∀ keys : List (Nat × Nat),
    (∀ k ∈ keys, valOf x (s.equity k.1 k.2) = 0) → sumCode s x keys = 0 := by
  intro keys
  induction keys with
  | nil => intro _; rfl
  | cons k ks ih =>
    intro h
    rw [sumCode_cons, entryOf_eq, h k List.mem_cons_self, ih (fun k' hk' => h k' (List.mem_cons_of_mem _ hk'))]
    rfl

theorem gap_close {s : St} {keys : List (Nat × Nat)} {δ : Nat → Int} (G : Gap s keys δ)
    (hz : ∀ x r, s.assets x = some r → r.divisible = true → δ x = 0) : Gap s keys (fun _ => 0) := by
  intro x r hr hd
  have := G x r hr hd
  rw [hz x r hr hd] at this
  exact this

theorem valOf_some (x c : Nat) (e : Int) : valOf x (some (c, e)) = if c = x then e else 0 := rfl
theorem valOf_none (x : Nat) : valOf x none = 0 := rfl

theorem sumInv_apply {fixed : Bool} {stable s s' : St} {op : Op} {keys : List (Nat × Nat)}
    (hn : keys.Nodup) (h : apply fixed stable s op = .ok s') (V : SumInv s keys) (g : IdOK s op)
    (ht : ∀ k ∈ touched op, k ∈ keys) : SumInv s' keys := by
  have hids : IdInv s' := idInv_apply h V.ids g
  cases op with
  | create sd hsh cat dv rp dc fz big =>
    obtain ⟨he, _, ha⟩ := create_ok h
    have hnone : s.assets hsh = none := g.2
    have hsum : ∀ x, sumCode s' x keys = sumCode s x keys :=
      fun x => sumCode_congr s s' x keys (fun _ _ => by rw [he])
    refine ⟨?_, ?_, hids, ?_⟩
    · intro x r' hr' hd
      rw [hsum x]
      rw [ha] at hr'
      by_cases e : x = hsh
      · subst e
        simp only [if_true] at hr'
        injection hr' with hr'; subst hr'
        have : sumCode s x keys = 0 := by
          apply sumCode_zero
          intro k _
          cases hq : s.equity k.1 k.2 with
          | none => rfl
          | some p =>
            obtain ⟨c, e⟩ := p
            rw [valOf_some]
            by_cases hc : c = x
            · subst hc
              obtain ⟨r, hr⟩ := V.live k.1 k.2 c e hq
              rw [hnone] at hr; cases hr
            · simp only [hc, if_false]
        rw [this]; rfl
      · simp only [e, if_false] at hr'
        exact V.sum x r' hr' hd
    · intro a id hne; rw [he] at hne; exact V.supp a id hne
    · refine live_sameEquity he ?_ V.live
      intro x r hr
      rw [ha]
      by_cases e : x = hsh
      · simp only [e, if_true]; exact ⟨_, rfl⟩
      · simp only [e, if_false]; exact ⟨r, hr⟩
  | issue sd rc hsh code m amt =>
    obtain ⟨a, r, s1, s2, tid, newEq, _, hpos, hl, _, h1, h2, h3, hcat⟩ := issue_ok h
    subst h3
    obtain ⟨hr, _⟩ := lookup_some hl
    have hk : (rc, tid) ∈ keys := by
      rcases hcat with ⟨_, ht', _⟩ | ⟨_, ht', _⟩
      · subst ht'; exact ht _ (by simp [touched])
      · subst ht'; exact ht _ (by simp [touched])
    obtain ⟨r1, hr1, G1⟩ := gap_putSupply h1 V.sum
    rw [hr] at hr1; injection hr1 with hr1; subst hr1
    have G2 := gap_putEquity hn hk h2 G1
    obtain ⟨rr, hrr, _, he1, _, ha1⟩ := putSupply_ok h1
    rw [hr] at hrr; injection hrr with hrr; subst hrr
    obtain ⟨_, ha2, _, he2⟩ := putEquity_ok h2
    -- net effect of the entry write on the holdings of asset x
    have hdelta : ∀ x, valOf x (some (code, newEq)) - valOf x (s1.equity rc tid) = if code = x then a else 0 := by
      intro x
      rw [he1, valOf_some]
      rcases hcat with ⟨_, ht', hne⟩ | ⟨hc, ht', hne⟩
      · subst ht'
        cases hq : s.equity rc tid with
        | none => rw [hq] at hne; simp only at hne; subst hne; rw [valOf_none]; split <;> omega
        | some p =>
          obtain ⟨c0, e0⟩ := p
          rw [hq] at hne; simp only at hne; subst hne
          have : c0 = tid := V.ids.own rc tid c0 e0 r hq hr
          subst this
          rw [valOf_some]; split <;> omega
      · subst ht'; subst hne
        rw [(g r hl hc).1 rc, valOf_none]; split <;> omega
    refine ⟨?_, ?_, hids, ?_⟩
    · have G3 : Gap (setMeta s2 rc tid (decide (m > 0))) keys
          (fun x => (fun _ => (0 : Int)) x + (if x = code then (if r.divisible = true then r.supply + a else r.supply + 1) - r.supply else 0) -
            (valOf x (some (code, newEq)) - valOf x (s1.equity rc tid))) := by
        intro x r' hr' hd
        have := G2 x r' hr' hd
        rw [show sumCode (setMeta s2 rc tid (decide (m > 0))) x keys = sumCode s2 x keys from
          sumCode_congr _ _ x keys (fun _ _ => rfl)]
        exact this
      refine gap_close G3 ?_
      intro x r' hr' hd
      rw [setMeta_assets, ha2, ha1] at hr'
      rw [hdelta x]
      by_cases e : x = code
      · subst e
        simp only [if_true] at hr' ⊢
        injection hr' with hr'; subst hr'
        try simp only at hd
        (try simp only [hd, if_true]); omega
      · have e' : ¬ code = x := fun k => e k.symm
        simp only [e, e', if_false]; omega
    · intro x y hne
      rw [setMeta_equity] at hne
      exact supp_putEquity h2 (fun a id hq => V.supp a id (by rw [he1] at hq; exact hq)) hk x y hne
    · have L1 := live_putSupply h1 V.live
      have L2 : Live s2 := live_putEquity h2 L1 (by rw [ha1]; simp only [if_true]; exact ⟨_, rfl⟩)
      exact L2
  | replenish sd rc code id amt =>
    obtain ⟨a, r, s1, _, hpos, hl, _, _, hdiv, hold, h1, h2⟩ := replenish_ok h
    obtain ⟨hr, _⟩ := lookup_some hl
    have hk : (rc, id) ∈ keys := ht _ (by simp [touched])
    have G1 := gap_putEquity hn hk h1 V.sum
    obtain ⟨r1, hr1, G2⟩ := gap_putSupply h2 G1
    obtain ⟨_, ha1, _, he1⟩ := putEquity_ok h1
    rw [ha1, hr] at hr1; injection hr1 with hr1; subst hr1
    obtain ⟨_, _, _, he2, _, ha2⟩ := putSupply_ok h2
    have hdelta : ∀ x, valOf x (some (code, (oldEntry s rc id code).2 + a)) - valOf x (s.equity rc id) = if code = x then a else 0 := by
      intro x
      rw [valOf_some]
      unfold oldEntry at hold ⊢
      cases hq : s.equity rc id with
      | none => simp only [valOf_none]; split <;> omega
      | some p =>
        obtain ⟨c0, e0⟩ := p
        rw [hq] at hold; simp only at hold; subst hold
        simp only [valOf_some]; split <;> omega
    refine ⟨?_, ?_, hids, ?_⟩
    · refine gap_close G2 ?_
      intro x r' hr' hd
      try simp only
      rw [hdelta x]
      by_cases e : x = code
      · subst e; simp only [if_true]; omega
      · have e' : ¬ code = x := fun k => e k.symm
        simp only [e, e', if_false]; omega
    · intro x y hne
      rw [he2] at hne
      exact supp_putEquity h1 V.supp hk x y hne
    · exact live_putSupply h2 (live_putEquity h1 V.live ⟨r, hr⟩)
  | modify sd code fz =>
    obtain ⟨r, hl, he, _, hcase⟩ := modify_ok h
    rcases hcase with rfl | ⟨b, _, ha⟩
    · exact V
    · have hsum : ∀ x, sumCode s' x keys = sumCode s x keys :=
        fun x => sumCode_congr s s' x keys (fun _ _ => by rw [he])
      refine ⟨?_, ?_, hids, ?_⟩
      · intro x r' hr' hd
        rw [hsum x]
        rw [ha] at hr'
        by_cases e : x = code
        · subst e
          simp only [if_true] at hr'
          injection hr' with hr'; subst hr'
          exact V.sum x r (lookup_some hl).1 hd
        · simp only [e, if_false] at hr'
          exact V.sum x r' hr' hd
      · intro a id hne; rw [he] at hne; exact V.supp a id hne
      · refine live_sameEquity he ?_ V.live
        intro x r0 hr0
        rw [ha]
        by_cases e : x = code
        · simp only [e, if_true]; exact ⟨_, rfl⟩
        · simp only [e, if_false]; exact ⟨r0, hr0⟩
  | transfer sd rc id ck amt =>
    obtain ⟨am, c0, e0, r0, _, hse, _, _, hr0, _, _, hcase⟩ := transfer_ok h
    rcases hcase with rfl | hm
    · exact V
    · obtain ⟨s1, c', e', h1, hs1, h2⟩ := moveEquity_ok hm
      have hks : (sd, id) ∈ keys := ht _ (by simp [touched])
      have hkr : (rc, id) ∈ keys := ht _ (by simp [touched])
      obtain ⟨_, ha2, _, he2⟩ := putEquity_ok h2
      generalize hamount : (if r0.divisible = true then am else e0) = amount at h1 h2 hm he2
      rcases h1 with ⟨_, h1⟩ | ⟨hrc, h1⟩
      · -- credit the receiver's entry
        have hce : (creditEntry s rc id c0 amount).1 = c0 := by
          unfold creditEntry
          split
          · rfl
          · rename_i c2 e2 hq; exact V.ids.idc rc sd id c2 e2 c0 e0 hq hse
        have hdelta1 : ∀ x, valOf x (some (creditEntry s rc id c0 amount)) - valOf x (s.equity rc id) = if c0 = x then amount else 0 := by
          intro x
          unfold creditEntry at hce ⊢
          cases hq : s.equity rc id with
          | none => simp only [valOf_none, valOf_some]; split <;> omega
          | some p =>
            obtain ⟨c2, e2⟩ := p
            rw [hq] at hce; simp only at hce; subst hce
            simp only [valOf_some]; split <;> omega
        have G1 := gap_putEquity hn hkr h1 V.sum
        have G2 := gap_putEquity hn hks h2 G1
        obtain ⟨_, ha1, _, he1⟩ := putEquity_ok h1
        have I1 : IdInv s1 ∧ Live s1 := by
          generalize creditEntry s rc id c0 amount = X at h1 hce
          obtain ⟨x1, x2⟩ := X
          simp only at hce; subst hce
          exact ⟨idInv_putEquity h1 V.ids (fun b c2 e2 hb => V.ids.idc b sd id c2 e2 x1 e0 hb hse)
            (fun r' hr' => V.ids.own sd id x1 e0 r' hse hr'), live_putEquity h1 V.live ⟨r0, hr0⟩⟩
        have hc' : c' = c0 := by
          rw [he1] at hs1
          by_cases k : sd = rc
          · simp [k] at hs1; rw [← hce, hs1]
          · simp [k] at hs1; rw [hse] at hs1; cases hs1; rfl
        subst hc'
        refine ⟨?_, ?_, hids, ?_⟩
        · refine gap_close G2 ?_
          intro x r' hr' hd
          try simp only
          rw [hdelta1 x, hs1, valOf_some, valOf_some]
          split <;> omega
        · exact supp_putEquity h2 (supp_putEquity h1 V.supp hkr) hks
        · exact live_putEquity h2 I1.2 (by rw [ha1]; exact ⟨r0, hr0⟩)
      · -- burn: the recorded supply shrinks
        obtain ⟨r1, hr1, G1⟩ := gap_putSupply h1 V.sum
        rw [hr0] at hr1; injection hr1 with hr1; subst hr1
        have G2 := gap_putEquity hn hks h2 G1
        obtain ⟨rr, hrr, _, he1, _, ha1⟩ := putSupply_ok h1
        rw [hr0] at hrr; injection hrr with hrr; subst hrr
        have hc' : c' = c0 := by rw [he1, hse] at hs1; cases hs1; rfl
        subst hc'
        refine ⟨?_, ?_, hids, ?_⟩
        · refine gap_close G2 ?_
          intro x r' hr' hd
          rw [ha2, ha1] at hr'
          try simp only
          rw [hs1, valOf_some, valOf_some]
          by_cases e : x = c'
          · subst e
            simp only [if_true] at hr' ⊢
            injection hr' with hr'; subst hr'
            try simp only at hd
            (try simp only [hd, if_true]); omega
          · have e' : ¬ c' = x := fun k => e k.symm
            simp only [e, e', if_false]; omega
        · exact supp_putEquity h2 (fun a i hq => V.supp a i (by rw [he1] at hq; exact hq)) hks
        · exact live_putEquity h2 (live_putSupply h1 V.live) (by rw [ha1]; simp only [if_true]; exact ⟨_, rfl⟩)

/-- the guard over a run: every transaction respects the id discipline in the state it is applied to -/
def GuardedOps (fixed : Bool) (stable : St) : St → List Op → Prop
  | _, [] => True
  | s, op :: ops => IdOK s op ∧ GuardedOps fixed stable (step fixed stable s op) ops

def GuardedBlocks (fixed : Bool) : St → List (List Op) → Prop
  | _, [] => True
  | s, b :: bs => GuardedOps fixed s s b ∧ GuardedBlocks fixed (runOps fixed s s b) bs

theorem sumInv_runOps (fixed : Bool) (stable : St) (keys : List (Nat × Nat)) (hn : keys.Nodup) :
    ∀ (ops : List Op) (s : St), SumInv s keys → GuardedOps fixed stable s ops →
      (∀ op ∈ ops, ∀ k ∈ touched op, k ∈ keys) → SumInv (runOps fixed stable s ops) keys := by
  intro ops
  induction ops with
  | nil => intro s V _ _; exact V
  | cons op ops ih =>
    intro s V g ht
    apply ih _ _ g.2 (fun op' h' => ht op' (List.mem_cons_of_mem _ h'))
    unfold step
    split
    · rename_i s' h
      exact sumInv_apply hn h V g.1 (ht op List.mem_cons_self)
    · exact V

theorem sumInv_runBlocks (fixed : Bool) (keys : List (Nat × Nat)) (hn : keys.Nodup) :
    ∀ (blocks : List (List Op)) (s : St), SumInv s keys → GuardedBlocks fixed s blocks →
      (∀ b ∈ blocks, ∀ op ∈ b, ∀ k ∈ touched op, k ∈ keys) → SumInv (runBlocks fixed s blocks) keys := by
  intro blocks
  induction blocks with
  | nil => intro s V _ _; exact V
  | cons b bs ih =>
    intro s V g ht
    exact ih _ (sumInv_runOps fixed s keys hn b s V g.1 (ht b List.mem_cons_self)) g.2
      (fun b' h' => ht b' (List.mem_cons_of_mem _ h'))

theorem sumInv_empty (keys : List (Nat × Nat)) : SumInv St.empty keys := by
  refine ⟨?_, ?_, idInv_empty, ?_⟩
  · intro x r h; simp [St.empty] at h
  · intro a id h; simp [St.empty] at h
  · intro a id c e h; simp [St.empty] at h

/-- `supply_eq_sum_equity` (partial: under the id discipline; either variant of the transfer, any amounts):
    after ANY sequence of blocks from the empty state, for every divisible asset the recorded total supply
    equals the sum, over any duplicate-free key list containing every (holder, id) the transactions may write,
    of the entries carrying its code — and there is no entry outside that list. -/
theorem supply_eq_sum_equity_partial (fixed : Bool) (blocks : List (List Op)) (keys : List (Nat × Nat))
    (hn : keys.Nodup) (ht : ∀ b ∈ blocks, ∀ op ∈ b, ∀ k ∈ touched op, k ∈ keys)
    (hg : GuardedBlocks fixed St.empty blocks) :
    (∀ x r, (runBlocks fixed St.empty blocks).assets x = some r → r.divisible = true →
        r.supply = sumCode (runBlocks fixed St.empty blocks) x keys) ∧
    (∀ a id, (runBlocks fixed St.empty blocks).equity a id ≠ none → (a, id) ∈ keys) := by
  have V := sumInv_runBlocks fixed keys hn blocks St.empty (sumInv_empty keys) hg ht
  refine ⟨?_, V.supp⟩
  intro x r hr hd
  simpa using V.sum x r hr hd

/-- the foreign-asset-id witness: account 1 creates token 1 (victim asset), account 4 creates token 7 and
    replenishes 1 000 000 units of ITS asset 7 to itself under the id of asset 1; then the issuer of asset 1
    issues ONE unit to account 4 -/
def foreignWitness : List (List Op) :=
  [[.create 1 1 1 true true 2 false false, .create 4 7 1 true true 2 false false],
   [.replenish 4 4 7 1 (some 1000000)],
   [.issue 1 4 20 1 4 (some 1)]]

/-- REFUTATION of the unguarded sum invariant on the live model (defect NOT repaired, known finding
    c12/supply-not-sum/foreign-asset-id; reproduced on the real engine by `hx c12`): asset 1 records supply 1,
    account 4 owns 1 000 001 units of it (and can spend them: its AssetIdState is set); asset 7 records
    1 000 000 that nobody owns. -/
theorem supply_eq_sum_refuted :
    ((runBlocks true St.empty foreignWitness).assets 1).map (·.supply) = some 1 ∧
    (runBlocks true St.empty foreignWitness).equity 4 1 = some (1, 1000001) ∧
    (runBlocks true St.empty foreignWitness).idMeta 4 1 = true ∧
    sumCode (runBlocks true St.empty foreignWitness) 1 [(4, 1)] = 1000001 ∧
    ((runBlocks true St.empty foreignWitness).assets 7).map (·.supply) = some 1000000 ∧
    sumCode (runBlocks true St.empty foreignWitness) 7 [(4, 1)] = 0 := by decide

/-- non-vacuity of the guard: the negative-transfer witness blocks respect the id discipline -/
example : GuardedBlocks false St.empty witnessBlocks := by
  simp [GuardedBlocks, GuardedOps, witnessBlocks, IdOK, St.empty, runOps, step, apply, create, issue, lookup,
    verifyCode, putSupply, putEquity, setMeta, bind, Except.bind, pure, Except.pure]


/-- without the id discipline even `frozen_immovable` fails (same unrepaired defect): account 4 parks 50 units of
    ITS asset 7 under the id of asset 1 in account 5 and freezes asset 7; a holder of asset 1 then sends 10 units
    to account 5 — the frozen asset's holdings grow to 60 -/
def frozenWitness : List (List Op) :=
  [[.create 1 1 1 true true 2 false false, .create 4 7 1 true true 2 false false],
   [.issue 1 2 20 1 3 (some 100), .replenish 4 5 7 1 (some 50)],
   [.modify 4 7 (.set true)],
   [.transfer 2 5 1 0 (some 10)]]

theorem frozen_moved_refuted :
    ((runBlocks true St.empty (frozenWitness.take 3)).assets 7).map (·.frozen) = some true ∧
    (runBlocks true St.empty (frozenWitness.take 3)).equity 5 1 = some (7, 50) ∧
    ((runBlocks true St.empty frozenWitness).assets 7).map (·.frozen) = some true ∧
    (runBlocks true St.empty frozenWitness).equity 5 1 = some (7, 60) := by decide


end LemoProofs.C12

/-
  C12 — issued assets are conserved; only holders / issuers move or mint them.

  Model: `LemoModel.Assets` (hand-written from chain/transaction/asset_tx.go, chain/vm/evm.go
  TransferAssetTx, tx_processor.go VerifyAssetTx, hexutil.Big10), tied to the real engine by `hx c12`
  (outcome of every candidate tx, supply / freeze flag of every asset and every equity entry after
  every block; miner path + validator path, every block stable).

  Full statement (kept visible): for every divisible asset the recorded total supply equals the sum of
  all holders' equity; it changes only through the issuer's issue / replenish and a holder's burn; a
  transfer moves a non-negative amount out of the sender's own entry only; nothing is negative; frozen
  assets do not move.

  Two defects of the code:
  (1) EVM.TransferAssetTx had no sign check on the amount (hexutil.Big10 accepts "-60").  REPAIRED in
      /repo by commit 71158df ("fix: EVM.TransferAssetTx rejects a negative transfer amount"); the code
      before it is commit 2b30546.  `fixed = false` is the model of the code before the repair,
      `fixed = true` the live model.
        * `transfer_only_debits_sender`           full theorem for `transferFixed`
        * `transfer_only_debits_sender_partial`   as-is model, under the guard 0 ≤ amount
        * `transfer_only_debits_sender_refuted`   kernel-checked witness on the as-is model (Bob sends
                                                  -60 to Alice: Alice 100 → 40, Bob 100 → 160)
        * `negative_burn_mints_refuted`           as-is: "-7" sent to 0x0 mints 7 for a non-issuer
        * `supply_changes_only_by`                full for the fixed model / as-is under 0 ≤ amount
  (2) NOT repaired (known finding c12/…/foreign-asset-id): ReplenishAssetTx accepts ANY asset id, and
      IssueAssetTx adds to / overwrites whatever entry sits under its id.
        * `supply_eq_sum_refuted`                 witness: 1 000 000 units of an attacker's own asset
                                                  become 1 000 000 units of the victim asset
        * `supply_eq_sum_equity_partial`          the sum invariant over ALL block sequences, under the
                                                  id discipline `IdOK` (a replenish uses an id of its own
                                                  asset; tx hashes are fresh)
        * `frozen_immovable`                      under the same discipline (state invariant `IdInv`)
  Unconditional, both variants: `no_negative_equity`.  Parser: `parse_amount_sign`.
-/
import LemoProofs.Lemmas.AssetsOps
namespace LemoProofs.C12
open LemoModel.Assets LemoProofs.AssetsLemmas LemoProofs.AssetsOps

/-! ## the amount parser accepts a minus sign -/

/-- `-` followed by a non-empty digit string is accepted and yields the negative value; so is the same
    text behind a "0x" prefix (which the decimal decoder silently drops) -/
theorem parse_amount_sign (ds : List Char) (n : Nat) (h : parseDigits ds = some n) :
    parseAmount ('-' :: ds) = some (-(n : Int)) ∧
    parseAmount ('+' :: ds) = some (n : Int) ∧
    parseAmount ('0' :: 'x' :: '-' :: ds) = some (-(n : Int)) := by
  refine ⟨?_, ?_, ?_⟩ <;> simp [parseAmount, stripHexPrefix, setString10, h]

/-- conversely: a negative result needs an explicit minus sign in front of the digits -/
theorem parse_amount_negative_only_by_minus (s : List Char) (v : Int) (h : parseAmount s = some v) (hv : v < 0) :
    ∃ ds n, parseDigits ds = some n ∧ v = -(n : Int) ∧
      (s = '-' :: ds ∨ s = '0' :: 'x' :: '-' :: ds ∨ s = '0' :: 'X' :: '-' :: ds) := by
  have key : ∀ r : List Char, setString10 r = some v → ∃ ds n, parseDigits ds = some n ∧ v = -(n : Int) ∧ r = '-' :: ds := by
    intro r hr
    unfold setString10 at hr
    split at hr
    · rename_i ds
      cases hp : parseDigits ds with
      | none => simp [hp] at hr
      | some n => simp [hp] at hr; exact ⟨ds, n, hp, hr.symm, rfl⟩
    · rename_i ds
      cases hp : parseDigits ds with
      | none => simp [hp] at hr
      | some n => simp [hp] at hr; omega
    · rename_i ds _ _
      cases hp : parseDigits ds with
      | none => simp [hp] at hr
      | some n => simp [hp] at hr; omega
  unfold parseAmount at h
  split at h
  · injection h with h; omega
  · unfold stripHexPrefix at h
    split at h
    · split at h
      · cases h
      · obtain ⟨ds, n, h1, h2, h3⟩ := key _ h
        exact ⟨ds, n, h1, h2, Or.inr (Or.inl (by rw [h3]))⟩
    · split at h
      · cases h
      · obtain ⟨ds, n, h1, h2, h3⟩ := key _ h
        exact ⟨ds, n, h1, h2, Or.inr (Or.inr (by rw [h3]))⟩
    · obtain ⟨ds, n, h1, h2, h3⟩ := key _ h
      exact ⟨ds, n, h1, h2, Or.inl h3⟩

example : parseAmount "-60".toList = some (-60) := by decide
example : parseAmount "+5".toList = some 5 := by decide
example : parseAmount "007".toList = some 7 := by decide
example : parseAmount "0x15".toList = some 15 := by decide
example : parseAmount "".toList = some 0 := by decide
example : parseAmount "0x".toList = none := by decide
example : parseAmount "1e3".toList = none := by decide
example : parseAmount "--5".toList = none := by decide

/-! ## nothing is ever negative (both variants, all block sequences) -/

def NonNeg (s : St) : Prop :=
  (∀ a id c e, s.equity a id = some (c, e) → 0 ≤ e) ∧ (∀ x r, s.assets x = some r → 0 ≤ r.supply)

theorem nonNeg_putEquity {s s' : St} {a id : Nat} {e : Nat × Int} (h : putEquity s a id e = .ok s')
    (N : NonNeg s) : NonNeg s' := by
  obtain ⟨hp, ha, _, he⟩ := putEquity_ok h
  constructor
  · intro x y c v hv
    rw [he] at hv
    by_cases hk : x = a ∧ y = id
    · simp only [hk, and_self, if_true] at hv
      injection hv with hv; subst hv; exact hp
    · simp only [hk, if_false] at hv
      exact N.1 x y c v hv
  · intro x r hr; rw [ha] at hr; exact N.2 x r hr

theorem nonNeg_putSupply {s s' : St} {code : Nat} {v : Int} (h : putSupply s code v = .ok s')
    (N : NonNeg s) : NonNeg s' := by
  obtain ⟨r0, _, hv, he, _, ha⟩ := putSupply_ok h
  constructor
  · intro x y c w hw; rw [he] at hw; exact N.1 x y c w hw
  · intro x r hr
    rw [ha] at hr
    by_cases e : x = code
    · simp only [e, if_true] at hr
      injection hr with hr; subst hr; exact hv
    · simp only [e, if_false] at hr
      exact N.2 x r hr

theorem nonNeg_apply {fixed : Bool} {stable s s' : St} {op : Op} (h : apply fixed stable s op = .ok s')
    (N : NonNeg s) : NonNeg s' := by
  cases op with
  | create sd hsh cat dv rp dc fz =>
    obtain ⟨_, he, _, ha⟩ := create_ok h
    constructor
    · intro x y c w hw; rw [he] at hw; exact N.1 x y c w hw
    · intro x r hr
      rw [ha] at hr
      by_cases e : x = hsh
      · simp only [e, if_true] at hr
        injection hr with hr; subst hr; simp
      · simp only [e, if_false] at hr
        exact N.2 x r hr
  | issue sd rc hsh code m amt =>
    obtain ⟨a, r, s1, s2, tid, newEq, _, _, _, _, h1, h2, h3, _⟩ := issue_ok h
    subst h3
    exact nonNeg_putEquity h2 (nonNeg_putSupply h1 N)
  | replenish sd rc code id amt =>
    obtain ⟨a, r, s1, _, _, _, _, _, _, _, h1, h2⟩ := replenish_ok h
    exact nonNeg_putSupply h2 (nonNeg_putEquity h1 N)
  | modify sd code fz =>
    obtain ⟨r, hl, he, _, hcase⟩ := modify_ok h
    rcases hcase with rfl | ⟨b, _, ha⟩
    · exact N
    · constructor
      · intro x y c w hw; rw [he] at hw; exact N.1 x y c w hw
      · intro x r' hr
        rw [ha] at hr
        by_cases e : x = code
        · simp only [e, if_true] at hr
          injection hr with hr; subst hr
          exact N.2 code r (lookup_some hl).1
        · simp only [e, if_false] at hr
          exact N.2 x r' hr
  | transfer sd rc id ck amt =>
    obtain ⟨a, c, e, r, _, _, _, _, _, _, _, hcase⟩ := transfer_ok h
    rcases hcase with rfl | hm
    · exact N
    · obtain ⟨s1, c', e', h1, _, h2⟩ := moveEquity_ok hm
      rcases h1 with ⟨_, h1⟩ | ⟨_, h1⟩
      · exact nonNeg_putEquity h2 (nonNeg_putEquity h1 N)
      · exact nonNeg_putEquity h2 (nonNeg_putSupply h1 N)

theorem nonNeg_step (fixed : Bool) (stable s : St) (op : Op) (N : NonNeg s) : NonNeg (step fixed stable s op) := by
  unfold step
  split
  · rename_i s' h; exact nonNeg_apply h N
  · exact N

theorem nonNeg_runOps (fixed : Bool) (stable : St) : ∀ (ops : List Op) (s : St), NonNeg s → NonNeg (runOps fixed stable s ops) := by
  intro ops
  induction ops with
  | nil => intro s N; exact N
  | cons op ops ih => intro s N; exact ih _ (nonNeg_step fixed stable s op N)

/-- `no_negative_equity`: after ANY sequence of blocks of asset transactions (any amounts, either variant of
    the transfer) every stored equity and every recorded supply is ≥ 0 -/
theorem no_negative_equity (fixed : Bool) : ∀ (blocks : List (List Op)) (s : St), NonNeg s →
    NonNeg (runBlocks fixed s blocks) := by
  intro blocks
  induction blocks with
  | nil => intro s N; exact N
  | cons b bs ih => intro s N; exact ih _ (nonNeg_runOps fixed s b s N)

theorem nonNeg_empty : NonNeg St.empty := by
  constructor
  · intro a id c e h; simp [St.empty] at h
  · intro x r h; simp [St.empty] at h

end LemoProofs.C12

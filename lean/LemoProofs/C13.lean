/-
  C13 — Mining schedule: exactly one deputy is in turn; miner and verifier agree.

  Every statement below is about the definitions in `LemoGen.Schedule`, which
  are regenerated from /repo's working tree by tools/go2lean on every run
  (GetNextMineWindow, GetCorrectMiner, the index expressions of
  GetDeputyByDistance / GetMinerDistance), composed by the small hand model
  `LemoModel.Sched` (control flow of the two Manager methods, tied by the
  correspondence sweep `hx c13`).

  Quantifiers: all deputy counts n ≥ 1 (n < 2^31: the code's uint32), all slot
  lengths T > 0, all parent times, all instants not before the parent, all
  parent miners (deputy or not), term-boundary ("special") heights included.
  int64 overflow is outside the model (stated in the evidence).
-/
import LemoModel.Sched
import LemoProofs.Lemmas.SchedArith
namespace LemoProofs.C13
open LemoModel LemoModel.Sched LemoGen.Schedule LemoProofs.SchedArith

/-! ### the generated arithmetic, simplified under the range hypotheses -/

theorem rewardIndex_eq (d n : Nat) (hd : 1 ≤ d) (hdn : d ≤ n) (hn : n < 2147483648) :
    byDistanceRewardIndex (distance := d) (nodeCount := n) = d - 1 := by
  unfold byDistanceRewardIndex
  rw [GoSem.usub_small hd (by omega), GoSem.uadd_small (by omega)]
  rw [Nat.add_mod_right]
  exact Nat.mod_eq_of_lt (by omega)

theorem index_eq (d p n : Nat) (hdn : d ≤ n) (hp : p < n) (hn : n < 1000000000) :
    byDistanceIndex (distance := d) (index := (p : Int)) (nodeCount := n) = (p + d) % n := by
  unfold byDistanceIndex
  have h1 : GoSem.toU 4294967296 (p : Int) = p := by
    rw [GoSem.toU_small (by omega) (by omega)]; simp
  rw [h1, GoSem.uadd_small (a := p) (b := d) (by omega), GoSem.uadd_small (by omega)]
  rw [Nat.add_mod_right]

theorem distRanks_eq (p t n : Nat) (hp : p < n) (ht : t < n) (hn : n < 1000000000) :
    minerDistanceRanks (lastDeputy_Rank := p) (nodeCount := n) (targetDeputy_Rank := t) = (n + t - p) % n := by
  unfold minerDistanceRanks
  rw [GoSem.uadd_small (by omega), GoSem.usub_small (by omega) (by omega)]

theorem distReward_eq (t n : Nat) (ht : t < n) (hn : n < 1000000000) :
    minerDistanceReward (targetDeputy_Rank := t) = t + 1 := by
  unfold minerDistanceReward
  rw [GoSem.uadd_small (by omega)]

/-! ### GetCorrectMiner computes the slot number `dist` -/

theorem getCorrectMiner_ok (n : Nat) (T mt : Int) (pts ph : Nat) (pm : Nat)
    (hn : 0 < n) (hT : 0 < T) (hms : 10000000000 ≤ mt) (hpt : (pts : Int) * 1000 ≤ mt) :
    GetCorrectMiner (mineTime := mt) (mineTimeout := T) (parent_Time := pts) (nodeCount := (n : Int))
        (parent_Height := ph) (parent_MinerAddress := pm)
      = .ok (GoSem.uadd 4294967296 ph 1, pm, GoSem.toU 4294967296 (dist n T ((pts : Int) * 1000) mt)) := by
  unfold GetCorrectMiner
  have h1 : ¬ (mt < 10000000000) := by omega
  have h2 : ¬ (mt - (Int.ofNat pts) * 1000 < 0) := by
    have : (Int.ofNat pts) = (pts : Int) := rfl
    omega
  simp only [h1, h2, decide_false, Bool.false_eq_true, if_false]
  have hL : (0 : Int) < n * T := Int.mul_pos (by exact_mod_cast hn) hT
  have hp0 : 0 ≤ mt - (Int.ofNat pts) * 1000 := by
    have : (Int.ofNat pts) = (pts : Int) := rfl
    omega
  rw [Int.tmod_eq_emod_of_nonneg hp0]
  have hm0 : 0 ≤ (mt - (Int.ofNat pts) * 1000) % (n * T) := Int.emod_nonneg _ (ne_of_gt hL)
  rw [Int.tdiv_eq_ediv_of_nonneg hm0]
  rfl

/-- the distance handed to the deputy lookup is always in `1..n` -/
theorem dist_toU (n : Nat) (T pt t : Int) (hn : 0 < n) (hn' : n < 1000000000) (hT : 0 < T) (ht : pt ≤ t) :
    ∃ d : Nat, 1 ≤ d ∧ d ≤ n ∧ GoSem.toU 4294967296 (dist n T pt t) = d ∧ (d : Int) = dist n T pt t := by
  obtain ⟨h1, h2⟩ := dist_range n T pt t (by exact_mod_cast hn) hT ht
  refine ⟨(dist n T pt t).toNat, by omega, by omega, ?_, by omega⟩
  rw [GoSem.toU_small (by omega) (by omega)]

/-! ### Property theorems -/

/-- **exactly_one**: for every instant not before the parent exactly one deputy (rank `< n`) is in turn.
    (`parentRank = none` is allowed at special heights: a parent miner that is no longer a deputy.) -/
theorem exactly_one (n : Nat) (special : Bool) (pr : Option Nat) (T mt : Int) (pts ph : Nat)
    (hn : 0 < n) (hn' : n < 1000000000) (hT : 0 < T) (hms : 10000000000 ≤ mt)
    (hpt : (pts : Int) * 1000 ≤ mt)
    (hpr : special = true ∨ ∃ p, pr = some p ∧ p < n) :
    ∃ r, (r < n ∧ correctMiner n special pr pts ph mt T = .ok r) ∧
      ∀ r', correctMiner n special pr pts ph mt T = .ok r' → r' = r := by
  unfold correctMiner
  rw [getCorrectMiner_ok n T mt pts ph 0 hn hT hms hpt]
  obtain ⟨d, hd1, hdn, hd, _⟩ := dist_toU n T ((pts : Int) * 1000) mt hn hn' hT hpt
  simp only [hd]
  unfold deputyByDistance
  have hd' : ¬ d < 1 := by omega
  have hn0 : (n == 0) = false := by simp; omega
  simp only [hd', hn0, if_false, Bool.false_eq_true]
  rcases hpr with hs | ⟨p, hp, hpn⟩
  · subst hs
    simp only [if_true]
    rw [rewardIndex_eq d n hd1 hdn (by omega)]
    exact ⟨d - 1, ⟨by omega, rfl⟩, fun r' h => by injection h with h; exact h.symm⟩
  · subst hp
    cases special with
    | true =>
      simp only [if_true]
      rw [rewardIndex_eq d n hd1 hdn (by omega)]
      exact ⟨d - 1, ⟨by omega, rfl⟩, fun r' h => by injection h with h; exact h.symm⟩
    | false =>
      simp only [Bool.false_eq_true, if_false]
      rw [index_eq d p n hdn hpn hn']
      exact ⟨(p + d) % n, ⟨Nat.mod_lt _ hn, rfl⟩, fun r' h => by injection h with h; exact h.symm⟩

/-! ### Go's division panics (the generated arithmetic is total; the hand model restores the panic) -/

/-- under the hypotheses of all schedule theorems (`0 < n`, `0 < T`) the panic-aware function is `correctMiner` -/
theorem correctMinerGo_eq (n : Nat) (special : Bool) (pr : Option Nat) (T mt : Int) (pts ph : Nat)
    (hn : 0 < n) (hT : 0 < T) :
    correctMinerGo n special pr pts ph mt T = correctMiner n special pr pts ph mt T := by
  unfold correctMinerGo correctMiner
  have hne : ¬ ((n : Int) * T = 0) := by
    have : (0 : Int) < n * T := Int.mul_pos (by exact_mod_cast hn) hT
    omega
  cases h : GetCorrectMiner (mineTime := mt) (mineTimeout := T) (parent_Time := pts) (nodeCount := (n : Int))
      (parent_Height := ph) (parent_MinerAddress := 0) with
  | panic => rfl
  | err e => rfl
  | ok v => simp [hne]

/-- with `0 < n`, `0 < T` and a stamp that passes both checks the lookup gets a distance `≥ 1`: no panic -/
theorem correctMiner_ne_panic (n : Nat) (special : Bool) (pr : Option Nat) (T mt : Int) (pts ph : Nat)
    (hn : 0 < n) (hn' : n < 1000000000) (hT : 0 < T) (hms : 10000000000 ≤ mt) (hpt : (pts : Int) * 1000 ≤ mt) :
    correctMiner n special pr pts ph mt T ≠ .panic := by
  unfold correctMiner
  rw [getCorrectMiner_ok n T mt pts ph 0 hn hT hms hpt]
  obtain ⟨d, hd1, hdn, hd, _⟩ := dist_toU n T ((pts : Int) * 1000) mt hn hn' hT hpt
  simp only [hd]
  unfold deputyByDistance
  have hd' : ¬ d < 1 := by omega
  have hn0 : (n == 0) = false := by simp; omega
  simp only [hd', hn0, if_false, Bool.false_eq_true]
  cases special <;> cases pr <;> simp

/-- **correctMinerGo_panics_iff**: the call crashes exactly when the stamp passes both error checks and the round
    length `n·T` is zero — a term without deputies (not loaded / not yet stable) or a zero timeout.  The callers
    must exclude it: `verifySigner` rejects first on the validator path (C02 `turnCore`), `isSelfDeputyNode` on the
    miner path. -/
theorem correctMinerGo_panics_iff (n : Nat) (special : Bool) (pr : Option Nat) (T mt : Int) (pts ph : Nat)
    (hn' : n < 1000000000) (hT' : 0 ≤ T) :
    correctMinerGo n special pr pts ph mt T = .panic ↔
      (10000000000 ≤ mt ∧ (pts : Int) * 1000 ≤ mt ∧ (n = 0 ∨ T = 0)) := by
  unfold correctMinerGo
  by_cases h1 : mt < 10000000000
  · have : GetCorrectMiner (mineTime := mt) (mineTimeout := T) (parent_Time := pts) (nodeCount := (n : Int))
        (parent_Height := ph) (parent_MinerAddress := 0) = .err "ErrSmallerMineTime" := by
      unfold GetCorrectMiner; simp [h1]
    rw [this]; constructor
    · intro h; cases h
    · intro h; omega
  · by_cases h2 : mt - (Int.ofNat pts) * 1000 < 0
    · have h2' : mt < (pts : Int) * 1000 := by
        have : (Int.ofNat pts) = (pts : Int) := rfl
        omega
      have : GetCorrectMiner (mineTime := mt) (mineTimeout := T) (parent_Time := pts) (nodeCount := (n : Int))
          (parent_Height := ph) (parent_MinerAddress := 0) = .err "ErrSmallerMineTime" := by
        unfold GetCorrectMiner; simp [h1, h2']
      rw [this]; constructor
      · intro h; cases h
      · intro h
        have : (Int.ofNat pts) = (pts : Int) := rfl
        omega
    · have h2' : ¬ mt < (pts : Int) * 1000 := by
        have : (Int.ofNat pts) = (pts : Int) := rfl
        omega
      have hok : ∃ v, GetCorrectMiner (mineTime := mt) (mineTimeout := T) (parent_Time := pts) (nodeCount := (n : Int))
          (parent_Height := ph) (parent_MinerAddress := 0) = .ok v := by
        unfold GetCorrectMiner; simp [h1, h2']
      obtain ⟨v, hv⟩ := hok
      rw [hv]
      have hpts : (Int.ofNat pts) = (pts : Int) := rfl
      by_cases hz : (n : Int) * T = 0
      · simp only [hz, beq_self_eq_true, if_true, true_iff]
        refine ⟨by omega, by omega, ?_⟩
        rcases Int.mul_eq_zero.mp hz with h | h
        · left; exact_mod_cast h
        · right; exact h
      · have hbeq : ((n : Int) * T == 0) = false := by simpa using hz
        simp only [hbeq, Bool.false_eq_true, if_false]
        have hn : 0 < n := by
          rcases Nat.eq_zero_or_pos n with h | h
          · exact absurd (by rw [h]; simp) hz
          · exact h
        have hT : 0 < T := by
          rcases Int.lt_or_eq_of_le hT' with h | h
          · exact h
          · exact absurd (by rw [← h]; simp) hz
        constructor
        · intro hp
          exact absurd hp (correctMiner_ne_panic n special pr T mt pts ph hn hn' hT (by omega) (by omega))
        · intro h; omega

/-- **divisors_accounted**: the complete list of variable divisors in the regenerated schedule arithmetic (emitted by
    the translator from the current source) is the list this file accounts for.  `oneLoopTime = n·T` and
    `mineTimeout = T` of `GetCorrectMiner`: `correctMinerGo` panics (C02's `turnCore` likewise); `oneLoopTime` of
    `GetNextMineWindow`: only reached from `miner.schedule` after `GetMyMinerAddress` succeeded (the term is loaded,
    `0 < n`), theorems assume `0 < n`, `0 < T`; `nodeCount` of the three index expressions: `GetDeputyByDistance`
    returns ErrNotDeputy for an empty list first (`deputyByDistance`), `GetMinerDistance` fails to find the target
    first; `params.TermDuration`: a non-zero configuration constant.  A new variable division in the source changes a
    list and breaks this theorem. -/
theorem divisors_accounted :
    GetCorrectMiner_divisors = ["oneLoopTime", "mineTimeout"] ∧ GetNextMineWindow_divisors = ["oneLoopTime"] ∧
    byDistanceRewardIndex_divisors = ["nodeCount"] ∧ byDistanceIndex_divisors = ["nodeCount"] ∧
    minerDistanceRanks_divisors = ["nodeCount"] ∧ IsRewardBlock_divisors = ["params.TermDuration"] ∧
    IsSnapshotBlock_divisors = ["params.TermDuration"] ∧ GetSignerTermIndexByHeight_divisors = ["params.TermDuration"] ∧
    GetDeputyTermIndexByHeight_divisors = ["params.TermDuration"] ∧ GetLastSnapshotHeight_divisors = ["params.TermDuration"] := by
  decide

/-- **rotation**: the `k`-th slot after the parent (k ≥ 0, any number of elapsed rounds) belongs to
    rank `(r_parent + k + 1) mod n`, and to rank `k mod n` at height 1 / the first block of a term. -/
theorem rotation (n : Nat) (special : Bool) (pr : Option Nat) (T mt : Int) (pts ph k : Nat) (r : Int)
    (hn : 0 < n) (hn' : n < 1000000000) (hT : 0 < T) (hms : 10000000000 ≤ mt)
    (hr0 : 0 ≤ r) (hrT : r < T) (hmt : mt = (pts : Int) * 1000 + k * T + r)
    (hpr : ∀ p, pr = some p → p < n) :
    correctMiner n special pr pts ph mt T =
      if special then .ok (k % n)
      else match pr with
        | some p => .ok ((p + k + 1) % n)
        | none => .err "ErrNotDeputy" := by
  have hkT : 0 ≤ (k : Int) * T := Int.mul_nonneg (by omega) (le_of_lt hT)
  have hpt : (pts : Int) * 1000 ≤ mt := by omega
  -- slot number
  have hdist : dist n T ((pts : Int) * 1000) mt = ((k % n : Nat) : Int) + 1 := by
    unfold dist
    have e : mt - (pts : Int) * 1000 = ((k / n : Nat) : Int) * (n * T) + ((((k % n : Nat) : Int) + 1 - 1) * T + r) := by
      have hk : (k : Int) = (n : Int) * ((k / n : Nat) : Int) + ((k % n : Nat) : Int) := by
        exact_mod_cast (Nat.div_add_mod k n).symm
      rw [hmt]
      have : (k : Int) * T = ((n : Int) * ((k / n : Nat) : Int) + ((k % n : Nat) : Int)) * T := by rw [← hk]
      rw [this]; ring
    rw [e]
    have hlt : (k % n) < n := Nat.mod_lt _ hn
    exact dist_of_decomp n T _ _ r hT (by omega) (by omega) hr0 hrT
  unfold correctMiner
  rw [getCorrectMiner_ok n T mt pts ph 0 hn hT hms hpt]
  have hlt : (k % n) < n := Nat.mod_lt _ hn
  have hd : GoSem.toU 4294967296 (dist n T ((pts : Int) * 1000) mt) = k % n + 1 := by
    rw [hdist, GoSem.toU_small (by omega) (by omega)]; omega
  simp only [hd]
  unfold deputyByDistance
  have hd' : ¬ (k % n + 1 < 1) := by omega
  have hn0 : (n == 0) = false := by simp; omega
  simp only [hd', hn0, if_false, Bool.false_eq_true]
  cases special with
  | true =>
    simp only [if_true]
    rw [rewardIndex_eq _ n (by omega) (by omega) (by omega)]; simp
  | false =>
    simp only [Bool.false_eq_true, if_false]
    cases pr with
    | none => rfl
    | some p =>
      simp only
      have hp : p < n := hpr p rfl
      rw [index_eq _ p n (by omega) hp hn']
      congr 1
      rw [show p + (k % n + 1) = (p + 1) + k % n by omega, Nat.add_mod, Nat.mod_mod, ← Nat.add_mod]
      congr 1; omega

/-- **distance_inverse**: `GetMinerDistance` is always in `1..n` and `GetDeputyByDistance` inverts it. -/
theorem distance_inverse (n : Nat) (special : Bool) (pr : Option Nat) (t : Nat)
    (hn' : n < 1000000000) (ht : t < n)
    (hpr : special = true ∨ ∃ p, pr = some p ∧ p < n) :
    ∃ d, minerDistance n special pr (some t) = .ok d ∧ 1 ≤ d ∧ d ≤ n ∧
      deputyByDistance n special pr d = .ok t := by
  have hn0 : (n == 0) = false := by simp; omega
  unfold minerDistance
  cases special with
  | true =>
    simp only [if_true]
    refine ⟨_, rfl, ?_, ?_, ?_⟩
    · rw [distReward_eq t n ht hn']; omega
    · rw [distReward_eq t n ht hn']; omega
    · rw [distReward_eq t n ht hn']
      unfold deputyByDistance
      simp only [show ¬ (t + 1 < 1) by omega, hn0, if_false, if_true, Bool.false_eq_true]
      rw [rewardIndex_eq _ n (by omega) (by omega) (by omega)]; simp
  | false =>
    rcases hpr with h | ⟨p, hp, hpn⟩
    · cases h
    subst hp
    simp only [Bool.false_eq_true, if_false]
    by_cases hsame : p = t
    · subst hsame
      simp only [beq_self_eq_true, if_true]
      refine ⟨n, rfl, by omega, by omega, ?_⟩
      unfold deputyByDistance
      simp only [show ¬ (n < 1) by omega, hn0, if_false, Bool.false_eq_true]
      rw [index_eq n p n (by omega) hpn hn']
      simp [Nat.add_mod_right, Nat.mod_eq_of_lt hpn]
    · have hne : (some p == some t) = false := by simp [hsame]
      simp only [hne, Bool.false_eq_true, if_false]
      rw [distRanks_eq p t n hpn ht hn']
      have hval : (n + t - p) % n = if p < t then t - p else n + t - p := by
        by_cases h : p < t
        · simp only [h, if_true]
          rw [show n + t - p = (t - p) + n by omega, Nat.add_mod_right]
          exact Nat.mod_eq_of_lt (by omega)
        · simp only [h, if_false]
          exact Nat.mod_eq_of_lt (by omega)
      refine ⟨_, rfl, ?_, ?_, ?_⟩
      · rw [hval]; split <;> omega
      · rw [hval]; split <;> omega
      · unfold deputyByDistance
        have hd1 : ¬ ((n + t - p) % n < 1) := by rw [hval]; split <;> omega
        simp only [hd1, hn0, if_false, Bool.false_eq_true]
        rw [index_eq _ p n (by rw [hval]; split <;> omega) hpn hn', hval]
        congr 1
        by_cases h : p < t
        · simp only [h, if_true]
          rw [show p + (t - p) = t by omega]; exact Nat.mod_eq_of_lt ht
        · simp only [h, if_false]
          rw [show p + (n + t - p) = t + n by omega, Nat.add_mod_right]; exact Nat.mod_eq_of_lt ht

/-! ### the miner's own window -/

/-- the window computed by `GetNextMineWindow`, in closed form -/
theorem window_closed_form (n d : Nat) (pt now T : Int) (hn : 0 < n) (hT : 0 < T)
    (hd1 : 1 ≤ d) (hdn : d ≤ n) (hn' : n < 1000000000) :
    ∃ q : Int, 0 ≤ q ∧
      GetNextMineWindow (nextHeight := 0) (distance := d) (parentTime := pt) (currentTime := now)
        (mineTimeout := T) (nodeCount := (n : Int))
        = (pt + q * (n * T) + ((d : Int) - 1) * T, pt + q * (n * T) + (d : Int) * T) ∧
      now < pt + q * (n * T) + (d : Int) * T ∧
      (pt ≤ now → pt + q * (n * T) + (d : Int) * T - n * T ≤ now) ∧
      (now < pt → q = 0) := by
  have hL : (0 : Int) < n * T := Int.mul_pos (by exact_mod_cast hn) hT
  unfold GetNextMineWindow
  have hsub : GoSem.usub 4294967296 d 1 = d - 1 := GoSem.usub_small hd1 (by omega)
  simp only [hsub]
  have hcast : (Int.ofNat (d - 1)) = (d : Int) - 1 := by
    have : ((d - 1 : Nat) : Int) = (d : Int) - 1 := by omega
    exact this
  have hcast2 : (Int.ofNat d) = (d : Int) := rfl
  simp only [hcast, hcast2]
  -- pass time
  by_cases hneg : now - pt < 0
  · simp only [hneg, decide_true, if_true]
    have hz : Int.tdiv 0 ((n : Int) * T) = 0 := by simp
    simp only [hz]
    have hdT : 0 < (d : Int) * T := Int.mul_pos (by omega) hT
    have hnot : ¬ (pt + 0 * ((n : Int) * T) + (d : Int) * T ≤ now) := by
      simp only [Int.zero_mul, Int.add_zero]; omega
    simp only [hnot, decide_false, Bool.false_eq_true, if_false]
    refine ⟨0, le_refl _, rfl, ?_, ?_, fun _ => rfl⟩
    · simp only [Int.zero_mul, Int.add_zero]; omega
    · intro h; omega
  · simp only [hneg, decide_false, Bool.false_eq_true, if_false]
    have hp0 : 0 ≤ now - pt := by omega
    rw [Int.tdiv_eq_ediv_of_nonneg hp0]
    have hq0 : 0 ≤ (now - pt) / (n * T) := Int.ediv_nonneg hp0 (le_of_lt hL)
    have hdm := Int.emod_add_mul_ediv (now - pt) (n * T)
    have hm0 : 0 ≤ (now - pt) % (n * T) := Int.emod_nonneg _ (ne_of_gt hL)
    have hm1 : (now - pt) % (n * T) < n * T := Int.emod_lt_of_pos _ hL
    have hdn' : (d : Int) * T ≤ n * T := Int.mul_le_mul_of_nonneg_right (by exact_mod_cast hdn) (le_of_lt hT)
    generalize hq : (now - pt) / ((n : Int) * T) = q at *
    generalize hm : (now - pt) % ((n : Int) * T) = m at *
    have hnow : now = pt + q * (n * T) + m := by
      have : (n : Int) * T * q = q * (n * T) := by ring
      linarith
    by_cases hle : pt + q * ((n : Int) * T) + (d : Int) * T ≤ now
    · simp only [hle, decide_true, if_true]
      refine ⟨q + 1, by omega, ?_, ?_, ?_, fun h => by omega⟩
      · apply Prod.ext <;> simp only <;> ring
      · have : (q + 1) * ((n : Int) * T) = q * (n * T) + n * T := by ring
        rw [this]
        have hdT : 0 < (d : Int) * T := Int.mul_pos (by omega) hT
        linarith
      · intro _
        have : (q + 1) * ((n : Int) * T) = q * (n * T) + n * T := by ring
        rw [this]; linarith
    · simp only [hle, decide_false, Bool.false_eq_true, if_false]
      refine ⟨q, hq0, rfl, by omega, ?_, fun h => by omega⟩
      intro _
      linarith

/-- **window_accepts**: at every instant inside the window a deputy at distance `d` computes for itself,
    every verifier's slot number is `d` — i.e. exactly that deputy, and no other, is accepted. -/
theorem window_accepts (n d : Nat) (pt now T t : Int) (hn : 0 < n) (hT : 0 < T)
    (hd1 : 1 ≤ d) (hdn : d ≤ n) (hn' : n < 1000000000)
    (hw : (GetNextMineWindow (nextHeight := 0) (distance := d) (parentTime := pt) (currentTime := now)
            (mineTimeout := T) (nodeCount := (n : Int))).1 ≤ t)
    (hw' : t < (GetNextMineWindow (nextHeight := 0) (distance := d) (parentTime := pt) (currentTime := now)
            (mineTimeout := T) (nodeCount := (n : Int))).2) :
    pt ≤ t ∧ dist n T pt t = d := by
  obtain ⟨q, hq0, heq, _, _, _⟩ := window_closed_form n d pt now T hn hT hd1 hdn hn'
  rw [heq] at hw hw'
  simp only at hw hw'
  have hL : (0 : Int) < n * T := Int.mul_pos (by exact_mod_cast hn) hT
  have hqL : 0 ≤ q * ((n : Int) * T) := Int.mul_nonneg hq0 (le_of_lt hL)
  have hdT : 0 ≤ ((d : Int) - 1) * T := Int.mul_nonneg (by omega) (le_of_lt hT)
  refine ⟨by linarith, ?_⟩
  unfold dist
  have e : t - pt = q * (n * T) + (((d : Int) - 1) * T + (t - (pt + q * (n * T) + ((d : Int) - 1) * T))) := by ring
  rw [e]
  apply dist_of_decomp n T q d _ hT (by omega) (by exact_mod_cast hdn) (by linarith)
  have : (d : Int) * T = ((d : Int) - 1) * T + T := by ring
  linarith

/-- **window_is_earliest_open_slot**: the window is one slot long, has not ended yet, starts no earlier
    than the parent, and the same deputy's previous slot (one round earlier) has already ended. -/
theorem window_is_earliest_open_slot (n d : Nat) (pt now T : Int) (hn : 0 < n) (hT : 0 < T)
    (hd1 : 1 ≤ d) (hdn : d ≤ n) (hn' : n < 1000000000) :
    let w := GetNextMineWindow (nextHeight := 0) (distance := d) (parentTime := pt) (currentTime := now)
            (mineTimeout := T) (nodeCount := (n : Int))
    w.2 - w.1 = T ∧ now < w.2 ∧ pt ≤ w.1 ∧ (pt ≤ now → w.2 - n * T ≤ now) := by
  obtain ⟨q, hq0, heq, h1, h2, _⟩ := window_closed_form n d pt now T hn hT hd1 hdn hn'
  simp only [heq]
  have hL : (0 : Int) < n * T := Int.mul_pos (by exact_mod_cast hn) hT
  have hqL : 0 ≤ q * ((n : Int) * T) := Int.mul_nonneg hq0 (le_of_lt hL)
  have hdT : 0 ≤ ((d : Int) - 1) * T := Int.mul_nonneg (by omega) (le_of_lt hT)
  refine ⟨by ring, h1, by linarith, h2⟩

/-- **seconds_stamp_accepts**: `PrepareHeader` stamps whole seconds. With a slot length that is a whole
    number of seconds and the parent's stamp in whole seconds, truncating any instant of the window to
    the second stays inside the window, so the stamped header is accepted too. -/
theorem seconds_stamp_accepts (n d : Nat) (pts : Nat) (now T t : Int) (hn : 0 < n) (hT : 0 < T)
    (hd1 : 1 ≤ d) (hdn : d ≤ n) (hn' : n < 1000000000) (hdiv : (1000 : Int) ∣ T)
    (hw : (GetNextMineWindow (nextHeight := 0) (distance := d) (parentTime := (pts : Int) * 1000) (currentTime := now)
            (mineTimeout := T) (nodeCount := (n : Int))).1 ≤ t)
    (hw' : t < (GetNextMineWindow (nextHeight := 0) (distance := d) (parentTime := (pts : Int) * 1000) (currentTime := now)
            (mineTimeout := T) (nodeCount := (n : Int))).2) :
    dist n T ((pts : Int) * 1000) (t / 1000 * 1000) = d := by
  obtain ⟨q, hq0, heq, _, _, _⟩ := window_closed_form n d ((pts : Int) * 1000) now T hn hT hd1 hdn hn'
  have hw0 := hw
  rw [heq] at hw0
  simp only at hw0
  obtain ⟨c, hc⟩ := hdiv
  -- the window start is a multiple of 1000
  have hfrom : ∃ f : Int, (pts : Int) * 1000 + q * (n * T) + ((d : Int) - 1) * T = f * 1000 := by
    refine ⟨pts + q * (n * c) + ((d : Int) - 1) * c, ?_⟩
    rw [hc]; ring
  obtain ⟨f, hf⟩ := hfrom
  have h1 : f * 1000 ≤ t := by rw [← hf]; exact hw0
  have h2 : f ≤ t / 1000 := by
    have := Int.le_ediv_of_mul_le (show (0 : Int) < 1000 by norm_num) h1
    exact this
  have h3 : t / 1000 * 1000 ≤ t := by
    have := Int.ediv_mul_le t (show (1000 : Int) ≠ 0 by norm_num)
    exact this
  apply (window_accepts n d ((pts : Int) * 1000) now T (t / 1000 * 1000) hn hT hd1 hdn hn' ?_ ?_).2
  · rw [heq]; simp only; rw [hf]; linarith
  · linarith

/-- **window_never_rejected** (the property's last clause, end to end on the model): a deputy of rank `me`
    whose distance is what `GetMinerDistance` returns, mining at any instant `t ≥ 1e10 ms` inside the
    window `GetNextMineWindow` gives it, is exactly the deputy `GetCorrectMiner` + `GetDeputyByDistance`
    name — for any elapsed time, any parent miner, special heights included. -/
theorem window_never_rejected (n : Nat) (special : Bool) (pr : Option Nat) (me : Nat) (pts ph : Nat)
    (now T t : Int) (hn' : n < 1000000000) (hme : me < n) (hT : 0 < T) (hms : 10000000000 ≤ t)
    (hpr : special = true ∨ ∃ p, pr = some p ∧ p < n) :
    ∃ d, minerDistance n special pr (some me) = .ok d ∧
      ((GetNextMineWindow (nextHeight := 0) (distance := d) (parentTime := (pts : Int) * 1000) (currentTime := now)
            (mineTimeout := T) (nodeCount := (n : Int))).1 ≤ t →
       t < (GetNextMineWindow (nextHeight := 0) (distance := d) (parentTime := (pts : Int) * 1000) (currentTime := now)
            (mineTimeout := T) (nodeCount := (n : Int))).2 →
       correctMiner n special pr pts ph t T = .ok me) := by
  obtain ⟨d, hd, hd1, hdn, hinv⟩ := distance_inverse n special pr me hn' hme hpr
  refine ⟨d, hd, fun hw hw' => ?_⟩
  have hn : 0 < n := by omega
  obtain ⟨hpt, hdist⟩ := window_accepts n d ((pts : Int) * 1000) now T t hn hT hd1 hdn hn' hw hw'
  unfold correctMiner
  rw [getCorrectMiner_ok n T t pts ph 0 hn hT hms hpt, hdist]
  have : GoSem.toU 4294967296 (d : Int) = d := by
    rw [GoSem.toU_small (by omega) (by omega)]; simp
  simp only [this]
  exact hinv

/-- **sleep_wakes_in_window** (`miner.getSleepTime`): the instant the miner wakes up to seal
    (`now + waitTime`) lies inside the window `GetNextMineWindow` gives it — also when the
    "next block is mine, wait one block interval" adjustment applies — provided the configured
    block interval is shorter than the slot (`0 ≤ blockInterval < timeout`, a configuration guard);
    and the deadline it returns is the end of that window. Together with `window_accepts` the block
    sealed at wake-up time is in turn. -/
theorem sleep_wakes_in_window (n d : Nat) (pt now T bi : Int) (hn : 0 < n) (hT : 0 < T)
    (hd1 : 1 ≤ d) (hdn : d ≤ n) (hn' : n < 1000000000) (hbi0 : 0 ≤ bi) (hbi : bi < T) :
    let r := getSleepTime (mineHeight := 0) (distance := d) (parentTime := pt) (currentTime := now)
              (m_timeoutTime := T) (nodeCount := (n : Int)) (m_blockInterval := bi)
    let w := GetNextMineWindow (nextHeight := 0) (distance := d) (parentTime := pt) (currentTime := now)
              (mineTimeout := T) (nodeCount := (n : Int))
    0 ≤ r.1 ∧ r.2 = w.2 ∧ w.1 ≤ now + r.1 ∧ now + r.1 < w.2 := by
  obtain ⟨q, hq0, heq, hlt, hprev, hq00⟩ := window_closed_form n d pt now T hn hT hd1 hdn hn'
  have hL : (0 : Int) < n * T := Int.mul_pos (by exact_mod_cast hn) hT
  have hqL : 0 ≤ q * ((n : Int) * T) := Int.mul_nonneg hq0 (le_of_lt hL)
  have hdT : 0 ≤ ((d : Int) - 1) * T := Int.mul_nonneg (by omega) (le_of_lt hT)
  have hdT' : (d : Int) * T = ((d : Int) - 1) * T + T := by ring
  unfold getSleepTime
  simp only [heq]
  by_cases hA : ((d == 1) && decide (now - pt < T)) = true
  · -- the next block is mine and the parent is fresh: wait one block interval
    simp only [hA, if_true]
    have hd : d = 1 := by
      have := (Bool.and_eq_true _ _).mp hA
      simpa using this.1
    have hpass : now - pt < T := by
      have := (Bool.and_eq_true _ _).mp hA
      simpa using this.2
    subst hd
    -- q = 0
    have hq : q = 0 := by
      by_cases hnp : now < pt
      · exact hq00 hnp
      · have h1 := hprev (by omega)
        have hnT : (n : Int) * T ≥ T := by
          have : (1 : Int) ≤ n := by exact_mod_cast hn
          have := Int.mul_le_mul_of_nonneg_right this (le_of_lt hT)
          linarith
        by_contra hne
        have hq1 : 1 ≤ q := by omega
        have : (n : Int) * T ≤ q * (n * T) := by
          have := Int.mul_le_mul_of_nonneg_right hq1 (le_of_lt hL)
          linarith
        simp only [Nat.cast_one, one_mul] at h1
        linarith
    subst hq
    simp only [Nat.cast_one, one_mul, zero_mul, add_zero, sub_self] at *
    by_cases hw : pt + bi - now < 0
    · simp only [hw, decide_true, if_true]; refine ⟨le_refl _, trivial, ?_, ?_⟩ <;> linarith
    · simp only [hw, decide_false, Bool.false_eq_true, if_false]; refine ⟨by linarith, trivial, ?_, ?_⟩ <;> linarith
  · have hA' : ((d == 1) && decide (now - pt < T)) = false := by simpa using hA
    simp only [hA', Bool.false_eq_true, if_false]
    by_cases hw : pt + q * ((n : Int) * T) + ((d : Int) - 1) * T - now < 0
    · simp only [hw, decide_true, if_true]; refine ⟨le_refl _, trivial, ?_, ?_⟩ <;> linarith
    · simp only [hw, decide_false, Bool.false_eq_true, if_false]; refine ⟨by linarith, trivial, ?_, ?_⟩ <;> linarith

/-! ### non-vacuity: concrete instances of the hypotheses -/

example : (GetNextMineWindow (nextHeight := 5) (distance := 2) (parentTime := 20000000000) (currentTime := 20000047000)
    (mineTimeout := 10000) (nodeCount := 3)) = (20000040000, 20000050000) := by decide

example : correctMiner 3 false (some 1) 20000000 4 20000045000 10000 = .ok 0 := by decide
example : minerDistance 3 false (some 1) (some 0) = .ok 2 := by decide


/-! ### Which heights restart the rotation, and which deputy list governs a height

The theorems above take `special` ("the rotation restarts at rank 0 here") and the deputy count as parameters.
In the code `special = (height == 1 || IsRewardBlock(height))` and the list comes from the term
`GetSignerTermIndexByHeight(height)`. The statements below are about the functions REGENERATED from
`chain/deputynode/term_record.go` on every run: their closed forms, and the fact the property's wording relies on —
the reward heights are exactly the heights whose signer term differs from their parent's, i.e. "the first block of
a term". A change of either Go function breaks these proofs instead of being followed silently. -/

theorem usub_small' {a b : Nat} (hb : b ≤ a) (ha : a < 4294967296) : GoSem.usub 4294967296 a b = a - b := by
  unfold GoSem.usub
  have hb' : b % 4294967296 = b := Nat.mod_eq_of_lt (by omega)
  rw [hb']
  have : a + 4294967296 - b = (a - b) + 4294967296 := by omega
  rw [this, Nat.add_mod_right]
  exact Nat.mod_eq_of_lt (by omega)

/-- closed form of the signer term of a height -/
theorem signerTerm_closed (h T I : Nat) (hh : h < 4294967296) (hTI : T + I + 1 < 4294967296) :
    GetSignerTermIndexByHeight h T I = if h < T + I + 1 then 0 else (h - I - 1) / T := by
  unfold GetSignerTermIndexByHeight
  rw [GoSem.uadd_small (by omega : T + I < 4294967296), GoSem.uadd_small (by omega : T + I + 1 < 4294967296)]
  by_cases hlt : h < T + I + 1
  · simp [hlt]
  · simp only [hlt, decide_false, if_false, Bool.false_eq_true]
    rw [usub_small' (by omega) hh, usub_small' (by omega) (by omega)]

/-- closed form of `IsRewardBlock` -/
theorem reward_closed (h T I : Nat) (hTI : T + I + 1 < 4294967296) :
    IsRewardBlock h T I = (decide (T + I + 1 ≤ h) && (h % T == I + 1)) := by
  unfold IsRewardBlock
  rw [GoSem.uadd_small (by omega : T + I < 4294967296), GoSem.uadd_small (by omega : T + I + 1 < 4294967296),
    GoSem.uadd_small (by omega : I + 1 < 4294967296)]
  by_cases hlt : h < T + I + 1
  · simp [hlt] <;> omega
  · have : T + I + 1 ≤ h := by omega
    by_cases hm : h % T = I + 1 <;> simp [hlt, this, hm]

theorem div_pred (x T : Nat) (hT : 0 < T) (hx : 0 < x) :
    (x - 1) / T = if x % T = 0 then x / T - 1 else x / T := by
  have hq : x / T * T + x % T = x := Nat.div_add_mod' x T
  have hr := Nat.mod_lt x hT
  by_cases hz : x % T = 0
  · simp only [hz, if_true]
    have hq1 : 1 ≤ x / T := by
      rcases Nat.eq_zero_or_pos (x / T) with h0 | h0
      · rw [h0] at hq; omega
      · exact h0
    apply Nat.div_eq_of_lt_le
    · have : (x / T - 1) * T = x / T * T - T := by rw [Nat.sub_mul, Nat.one_mul]
      rw [this]; omega
    · have : (x / T - 1 + 1) * T = x / T * T := by rw [Nat.sub_add_cancel hq1]
      rw [this]; omega
  · simp only [hz, if_false]
    apply Nat.div_eq_of_lt_le
    · omega
    · rw [Nat.add_mul, Nat.one_mul]; omega

theorem mod_shift (h T I : Nat) (hI : I + 1 < T) (hge : I + 1 ≤ h) :
    (h % T = I + 1) ↔ ((h - I - 1) % T = 0) := by
  have hT : 0 < T := by omega
  have e : h = (h - I - 1) + (I + 1) := by omega
  have hq : (h - I - 1) / T * T + (h - I - 1) % T = h - I - 1 := Nat.div_add_mod' _ T
  have hr := Nat.mod_lt (h - I - 1) hT
  constructor
  · intro hm
    rw [e, Nat.add_mod, Nat.mod_eq_of_lt hI] at hm
    by_cases hsum : (h - I - 1) % T + (I + 1) < T
    · rw [Nat.mod_eq_of_lt hsum] at hm; omega
    · rw [Nat.mod_eq_sub_mod (by omega), Nat.mod_eq_of_lt (by omega)] at hm; omega
  · intro hz
    rw [e, Nat.add_mod, hz, Nat.zero_add, Nat.mod_mod, Nat.mod_eq_of_lt hI]

/-- **the reward heights are exactly the first heights of the signer terms after term 0**: the height at which
    `GetDeputyByDistance` restarts the rotation at rank 0 (`IsRewardBlock`) is the height whose deputy list
    (`GetSignerTermIndexByHeight`) differs from its parent's — for every term length, interim length shorter than
    a term, and height of the uint32 range. -/
theorem reward_iff_term_starts (h T I : Nat) (h1 : 1 ≤ h) (hh : h < 4294967296) (hT : 0 < T) (hI : I + 1 < T)
    (hTI : T + I + 1 < 4294967296) :
    IsRewardBlock h T I = true ↔ GetSignerTermIndexByHeight h T I ≠ GetSignerTermIndexByHeight (h - 1) T I := by
  rw [reward_closed h T I hTI, signerTerm_closed h T I hh hTI, signerTerm_closed (h - 1) T I (by omega) hTI]
  by_cases hlt : h < T + I + 1
  · have h2 : h - 1 < T + I + 1 := by omega
    simp [hlt, h2] <;> omega
  · have hge : T + I + 1 ≤ h := by omega
    simp only [hlt, if_false, hge, decide_true, Bool.true_and, beq_iff_eq]
    rw [mod_shift h T I hI (by omega)]
    have hxpos : 0 < h - I - 1 := by omega
    have hq1 : 1 ≤ (h - I - 1) / T := Nat.div_pos (by omega) hT
    by_cases hprev : h - 1 < T + I + 1
    · have heq : h = T + I + 1 := by omega
      subst heq
      simp only [hprev, if_true]
      have e1 : T + I + 1 - I - 1 = T := by omega
      rw [e1, Nat.div_self hT, Nat.mod_self]; simp
    · simp only [hprev, if_false]
      have e3 : h - 1 - I - 1 = (h - I - 1) - 1 := by omega
      rw [e3, div_pred (h - I - 1) T hT hxpos]
      by_cases hz : (h - I - 1) % T = 0
      · simp only [hz, if_true, true_iff]; omega
      · simp [hz]

/-- the hypotheses hold for the shipped parameters, and the first reward height is the first height of term 1 -/
example : (1000 : Nat) + 1 < 1000000 ∧ IsRewardBlock 1001001 1000000 1000 = true ∧
    GetSignerTermIndexByHeight 1001001 1000000 1000 = 1 ∧ GetSignerTermIndexByHeight 1001000 1000000 1000 = 0 := by
  decide

end LemoProofs.C13

/-
  C14 — Encodings round-trip and are canonical, so hashes and signatures survive.

  Statements are about the executable model `LemoModel.Rlp` of /repo/common/rlp (tied to the real
  package by the `hx c14` correspondence stream: same bytes in, same value tree / same error out;
  same tree in, same bytes out) and `LemoModel.Base26` (address text form).

  Quantifiers: all items (arbitrary nesting and sizes), all byte strings, both decoding contexts
  (`top = true`: `DecodeBytes`, limit = input length; `top = false`: inside a list).
  The only side condition is `(encode x).length < 2^64` for the encoder → decoder direction: a Go
  slice is shorter than 2^63 bytes, and a 9-byte length does not exist in the format
  (`encode_needs_bound` shows the condition cannot be dropped in the model).

  Typed layer (reflection schemas, Header, Profile, Asset, change-log payloads, ChangeLog, lists of change logs, Block):
  the statements are about the model with `fx = true`, i.e. /repo with the strictness fixes listed in
  LemoModel/RlpSchema.lean.  For that code BOTH directions hold without a guard on the wire form:
  `X_roundtrip` (decode ∘ encode = id on well-formed values) and `X_reencode` (decode b = some v → encode v = b: one
  byte string per value, hence Hash(decoded) = Keccak(wire)).  `namespace Legacy` keeps the refutations of the
  `X_reencode` statements on the code before the fixes (`fx = false`) as labelled witnesses; they are not registered.
-/
import LemoModel.Rlp
import LemoProofs.Lemmas.RlpBytes
import LemoProofs.Lemmas.RlpSplit
import LemoModel.RlpSchema
import LemoProofs.Lemmas.RlpSchemaLemmas
import LemoModel.Base26
import LemoModel.RlpCustom
import LemoModel.RlpChk
import LemoProofs.Lemmas.RlpCustomLemmas
import LemoProofs.Lemmas.Base26Lemmas
namespace LemoProofs.C14
open LemoModel.Rlp LemoModel.RlpSchema LemoProofs.RlpBytes LemoProofs.RlpSplit LemoProofs.RlpSchemaLemmas

/-! ### unfolding the well-founded list loop -/

theorem decodeList_nil : decodeList [] = .ok [] := by
  rw [decodeList]; rfl

theorem decodeList_step (inp : List UInt8) (hne : inp ≠ []) :
    decodeList inp =
      match split false inp with
      | .error e => .error e
      | .ok (isL, p, r) =>
        if isL = true then
          match decodeList p with
          | .error e => .error e
          | .ok xs =>
            match decodeList r with
            | .error e => .error e
            | .ok ys => .ok (.list xs :: ys)
        else
          match decodeList r with
          | .error e => .error e
          | .ok ys => .ok (.bytes p :: ys) := by
  rw [decodeList]
  have : inp.isEmpty = false := by
    cases inp with
    | nil => exact absurd rfl hne
    | cons a t => rfl
  rw [this]
  simp only [Bool.false_eq_true, if_false]
  split
  · rename_i e heq; rw [heq]
  · rename_i isL p r heq
    rw [heq]
    cases isL with
    | false =>
      simp
      cases decodeList r <;> rfl
    | true =>
      simp
      cases decodeList p with
      | error e => rfl
      | ok xs => cases decodeList r <;> rfl

/-- the list loop is "decode one item, then the rest" -/
theorem decodeList_cons (inp : List UInt8) (hne : inp ≠ []) :
    decodeList inp =
      match decodeItem false inp with
      | .error e => .error e
      | .ok (x, r) =>
        match decodeList r with
        | .error e => .error e
        | .ok ys => .ok (x :: ys) := by
  rw [decodeList_step inp hne]
  unfold decodeItem
  cases hs : split false inp with
  | error e => rfl
  | ok v =>
    obtain ⟨isL, p, r⟩ := v
    cases isL with
    | true =>
      simp only [if_true]
      cases decodeList p with
      | error e => rfl
      | ok xs => rfl
    | false => simp

/-! ### encoder → decoder -/

theorem encodeBytes_length_ge (b : List UInt8) : b.length ≤ (encodeBytes b).length := by
  unfold encodeBytes
  split
  · split <;> simp
  · simp

theorem encodeBytes_ne_nil (b : List UInt8) : encodeBytes b ≠ [] := by
  unfold encodeBytes
  split
  · split <;> simp
  · simp [encLen_ne_nil]

theorem encode_ne_nil (x : Item) : encode x ≠ [] := by
  cases x with
  | bytes b => rw [encode]; exact encodeBytes_ne_nil b
  | list xs => rw [encode]; simp [encLen_ne_nil]

mutual
  theorem decodeItem_encode : ∀ (x : Item) (top : Bool) (tail : List UInt8), (encode x).length < 2 ^ 64 →
      decodeItem top (encode x ++ tail) = .ok (x, tail)
    | .bytes b, top, tail, h => by
      rw [encode] at h ⊢
      have hb : b.length < 2 ^ 64 := Nat.lt_of_le_of_lt (encodeBytes_length_ge b) h
      unfold decodeItem
      rw [split_encodeBytes top b tail hb]
      rfl
    | .list xs, top, tail, h => by
      rw [encode] at h ⊢
      have hp : (encodeList xs).length < 2 ^ 64 := by
        rw [List.length_append] at h; omega
      unfold decodeItem
      rw [split_encLst top _ tail hp]
      simp only [if_true]
      rw [decodeList_encodeList xs hp]
  theorem decodeList_encodeList : ∀ (xs : List Item), (encodeList xs).length < 2 ^ 64 →
      decodeList (encodeList xs) = .ok xs
    | [], _ => by rw [encodeList]; exact decodeList_nil
    | x :: xs, h => by
      rw [encodeList] at h ⊢
      rw [List.length_append] at h
      rw [decodeList_cons _ (by simp [encode_ne_nil])]
      rw [decodeItem_encode x false (encodeList xs) (by omega)]
      simp only
      rw [decodeList_encodeList xs (by omega)]
end

/-- **decode_encode**: every item decodes from its own encoding to itself (nothing left over). -/
theorem decode_encode (x : Item) (h : (encode x).length < 2 ^ 64) : decode (encode x) = .ok x := by
  unfold decode
  have := decodeItem_encode x true [] h
  rw [List.append_nil] at this
  rw [this]
  rfl

/-! ### decoder → encoder: canonicity -/

theorem decodeList_canon : ∀ (n : Nat) (inp : List UInt8) (xs : List Item), inp.length ≤ n →
    decodeList inp = .ok xs → inp = encodeList xs := by
  intro n
  induction n with
  | zero =>
    intro inp xs hl h
    have : inp = [] := List.length_eq_zero_iff.mp (by omega)
    subst this
    rw [decodeList_nil] at h
    cases h
    rw [encodeList]
  | succ n ih =>
    intro inp xs hl h
    by_cases hne : inp = []
    · subst hne
      rw [decodeList_nil] at h
      cases h
      rw [encodeList]
    · rw [decodeList_step inp hne] at h
      split at h
      · cases h
      · rename_i isL p r hs
        have hlen := split_length hs
        have hc := split_canon hs
        cases isL with
        | true =>
          simp only [if_true] at h hc
          split at h
          · cases h
          · rename_i xs' hp
            split at h
            · cases h
            · rename_i ys hr
              cases h
              have e1 := ih p xs' (by have := hlen.2.2 rfl; omega) hp
              have e2 := ih r ys (by omega) hr
              rw [encodeList, encode, ← e1, ← e2]
              exact hc
        | false =>
          simp only [Bool.false_eq_true, if_false] at h hc
          split at h
          · cases h
          · rename_i ys hr
            cases h
            have e2 := ih r ys (by omega) hr
            rw [encodeList, encode, ← e2]
            exact hc

/-- an accepted item is, on the wire, exactly its encoding followed by the unread rest -/
theorem decodeItem_canon {top : Bool} {inp : List UInt8} {x : Item} {r : List UInt8}
    (h : decodeItem top inp = .ok (x, r)) : inp = encode x ++ r := by
  unfold decodeItem at h
  split at h
  · cases h
  · rename_i isL p r' hs
    have hc := split_canon hs
    cases isL with
    | true =>
      simp only [if_true] at h hc
      split at h
      · cases h
      · rename_i xs hp
        cases h
        have e1 := decodeList_canon p.length p xs (Nat.le_refl _) hp
        rw [encode, ← e1]
        exact hc
    | false =>
      simp only [Bool.false_eq_true, if_false] at h hc
      cases h
      rw [encode]
      exact hc

/-- **canonical**: the decoder accepts `b` as `x` only if `b` is *the* encoding of `x`
    (no non-minimal length prefix, no leading zero in a size, no wrapped single byte,
    no trailing bytes). -/
theorem canonical {b : List UInt8} {x : Item} (h : decode b = .ok x) : encode x = b := by
  unfold decode at h
  split at h
  · cases h
  · rename_i x' r hd
    split at h
    · rename_i hr
      cases h
      have := decodeItem_canon hd
      have hr' : r = [] := by cases r with
        | nil => rfl
        | cons a t => simp at hr
      rw [hr', List.append_nil] at this
      exact this.symm
    · cases h

/-- exactly one byte string per value -/
theorem unique_encoding {b₁ b₂ : List UInt8} {x : Item} (h₁ : decode b₁ = .ok x) (h₂ : decode b₂ = .ok x) :
    b₁ = b₂ := by
  rw [← canonical h₁, ← canonical h₂]

/-- accepted inputs are fixed points: re-encoding the decoded value gives the original bytes,
    and decoding that again gives the same value -/
theorem reencode_stable {b : List UInt8} {x : Item} (h : decode b = .ok x) : decode (encode x) = .ok x := by
  rw [canonical h]; exact h

/-- trailing bytes after an accepted value are rejected at top level (`ErrMoreThanOneValue`) -/
theorem no_trailing {b : List UInt8} {x : Item} (h : decode b = .ok x) (hb : b.length < 2 ^ 64)
    (t : List UInt8) (ht : t ≠ []) : decode (b ++ t) = .error .moreThanOne := by
  have e1 := canonical h
  have hd := decodeItem_encode x true t (by rw [e1]; exact hb)
  rw [e1] at hd
  unfold decode
  rw [hd]
  have : t.isEmpty = false := by
    cases t with
    | nil => exact absurd rfl ht
    | cons a t => rfl
  simp [this]

/-! ### nesting depth is bounded by the input -/

/-- `decode` is a total function into `Except Err Item` (true of ANY Lean function of that type: this is NOT the
    "never a panic" statement — that one is `split_never_panics` / `rawSplit_never_panics` below, about the
    readers rewritten with partial primitives).  Kept for reference, not a registered theorem. -/
theorem decode_total (b : List UInt8) : (∃ x, decode b = .ok x) ∨ (∃ e, decode b = .error e) := by
  cases h : decode b with
  | ok x => exact Or.inl ⟨x, rfl⟩
  | error e => exact Or.inr ⟨e, rfl⟩

mutual
  def depth : Item → Nat
    | .bytes _ => 0
    | .list xs => depthList xs + 1
  def depthList : List Item → Nat
    | [] => 0
    | x :: xs => max (depth x) (depthList xs)
end

mutual
  theorem depth_le_length : ∀ x : Item, depth x ≤ (encode x).length
    | .bytes b => by
      rw [depth]; omega
    | .list xs => by
      rw [depth, encode, List.length_append]
      have := depthList_le_length xs
      have := encLen_length_pos 192 (encodeList xs).length
      omega
  theorem depthList_le_length : ∀ xs : List Item, depthList xs ≤ (encodeList xs).length
    | [] => by rw [depthList]; omega
    | x :: xs => by
      rw [depthList, encodeList, List.length_append]
      have := depth_le_length x
      have := depthList_le_length xs
      omega
end

/-- the recursion depth of an accepted value is at most the number of input bytes -/
theorem decode_depth_bounded {b : List UInt8} {x : Item} (h : decode b = .ok x) : depth x ≤ b.length := by
  rw [← canonical h]; exact depth_le_length x

/-! ### unsigned integers (`writeUint` / `Stream.uint`) and big integers -/

theorem toBE_small {n : Nat} (h0 : n ≠ 0) (h : n < 256) : toBE n = [UInt8.ofNat n] := by
  rw [toBE_pos h0]
  have h1 : n / 256 = 0 := by omega
  have h2 : n % 256 = n := by omega
  rw [h1, h2, toBE_zero]; rfl

/-- an integer is written as the byte string of its minimal big-endian form … -/
theorem encodeUint_eq (n : Nat) (h : n < 2 ^ 64) : encodeUint n = encodeBytes (toBE n) := by
  unfold encodeUint
  by_cases h0 : n = 0
  · subst h0; rw [toBE_zero]; rfl
  · rw [if_neg h0]
    by_cases h1 : n < 128
    · rw [if_pos h1, toBE_small h0 (by omega)]
      rw [encodeBytes_single_low (by rw [u8_ofNat_toNat (by omega)]; exact h1)]
    · rw [if_neg h1]
      have h8 := toBE_len_8 h
      have hs : singleLow (toBE n) = false := by
        by_cases h2 : n < 256
        · rw [toBE_small h0 h2]
          simp [singleLow, u8_ofNat_toNat h2]; omega
        · have : 1 < (toBE n).length := toBE_length_ge (k := 1) (by omega)
          match hm : toBE n, this with
          | a :: b :: t, _ => rfl
      rw [encodeBytes_of_not_singleLow hs, encLen_short (by omega)]
      rfl

/-- … which never starts with a zero byte -/
theorem encodeUint_no_leading_zero (n : Nat) (h : n ≠ 0) : (toBE n).head? ≠ some 0 := toBE_head n h

theorem decodeUint_encodeUint (bits n : Nat) (tail : List UInt8) (hb8 : 8 ≤ bits) (hb : bits ≤ 64)
    (hn : n < 256 ^ (bits / 8)) : decodeUint bits (encodeUint n ++ tail) = .ok (n, tail) := by
  have hk8 : bits / 8 ≤ 8 := by omega
  have hn64 : n < 2 ^ 64 := by
    rw [pow64]
    exact Nat.lt_of_lt_of_le hn (Nat.pow_le_pow_right (by omega) hk8)
  unfold encodeUint
  by_cases h0 : n = 0
  · subst h0
    rw [if_pos rfl]
    have e : ([128] : List UInt8) = encLen 128 0 := rfl
    unfold decodeUint
    rw [e, readHead_encLen_str true 0 tail (by omega) (by omega)]
    simp [fromBE_nil]
  · rw [if_neg h0]
    by_cases h1 : n < 128
    · rw [if_pos h1]
      have hb' : (UInt8.ofNat n).toNat = n := u8_ofNat_toNat (by omega)
      unfold decodeUint
      simp only [List.cons_append, List.nil_append, readHead, hb']
      rw [if_pos h1]
      simp only [hb']
      rw [if_neg h0]
    · rw [if_neg h1]
      have hlen := toBE_length_le (bits / 8) n hn
      have hpos := toBE_length_pos h0
      have e : UInt8.ofNat (128 + (toBE n).length) :: toBE n ++ tail = encLen 128 (toBE n).length ++ (toBE n ++ tail) := by
        rw [encLen_short (by omega)]; rfl
      unfold decodeUint
      rw [e, readHead_encLen_str true _ _ (by omega) (by simp)]
      simp only [List.take_left, List.drop_left, fromBE_toBE]
      rw [if_neg (by omega), if_neg (fun h => toBE_head n h0 h.2), if_neg (by omega)]

/-- the integer decoder accepts exactly the encoder's output: minimal length, no leading zero,
    a value below 0x80 only as the single byte, and the value fits the Go type -/
theorem decodeUint_canon {bits : Nat} {inp : List UInt8} {v : Nat} {r : List UInt8}
    (hb8 : 8 ≤ bits) (hb : bits ≤ 64) (h : decodeUint bits inp = .ok (v, r)) :
    inp = encodeUint v ++ r ∧ v < 256 ^ (bits / 8) := by
  have hk1 : 1 ≤ bits / 8 := by omega
  have hk8 : bits / 8 ≤ 8 := by omega
  have hpow : 256 ≤ 256 ^ (bits / 8) := by
    have := Nat.pow_le_pow_right (n := 256) (by omega) hk1
    simpa using this
  unfold decodeUint at h
  split at h
  · cases h
  · rename_i b rest hh
    have hc := readHead_canon hh
    simp only at hc
    split at h
    · cases h
    · rename_i hb0
      cases h
      refine ⟨?_, by omega⟩
      unfold encodeUint
      rw [if_neg hb0, if_pos hc.2, UInt8.ofNat_toNat, hc.1]; rfl
  · rename_i n rest hh
    have hc := readHead_canon hh
    simp only at hc
    split at h
    · cases h
    · rename_i hnb
      split at h
      · cases h
      · rename_i hlead
        split at h
        · cases h
        · rename_i hsmall
          cases h
          have hl : (List.take n rest).length = n := by rw [List.length_take]; omega
          have hlt := fromBE_lt (List.take n rest)
          rw [hl] at hlt
          have hle : 256 ^ n ≤ 256 ^ (bits / 8) := Nat.pow_le_pow_right (by omega) (by omega)
          refine ⟨?_, by omega⟩
          by_cases hn0 : n = 0
          · subst hn0
            simp only [List.take_zero, fromBE_nil, List.drop_zero]
            rw [hc.1]; rfl
          · have hv : 128 ≤ fromBE (List.take n rest) := by
              by_cases hq : fromBE (List.take n rest) < 128
              · exact absurd ⟨by omega, hq⟩ hsmall
              · omega
            have hhead : (List.take n rest).head? ≠ some 0 := by
              by_cases hn1 : n > 1
              · exact fun hz => hlead ⟨hn1, hz⟩
              · have hn1' : n = 1 := by omega
                match hm : List.take n rest, hl with
                | [x], _ =>
                  rw [hm] at hv
                  simp only [fromBE_cons, List.length_nil, Nat.pow_zero, Nat.mul_one, fromBE_nil, Nat.add_zero] at hv
                  simp only [List.head?_cons, ne_eq, Option.some.injEq]
                  intro hx; subst hx; simp at hv
                | [], hl' => simp at hl'; omega
                | a :: b :: t, hl' => simp at hl'; omega
            unfold encodeUint
            rw [if_neg (by omega), if_neg (by omega), toBE_fromBE _ hhead, hl, hc.1, encLen_short (by omega)]
            simp only [List.cons_append, List.nil_append, List.take_append_drop]
  · cases h

theorem decodeBig_encodeBig (n : Nat) (tail : List UInt8) (h : (toBE n).length < 2 ^ 64) :
    decodeBig (encodeBig n ++ tail) = .ok (n, tail) := by
  unfold encodeBig decodeBig
  by_cases h0 : n = 0
  · subst h0
    rw [if_pos rfl]
    have e : ([128] : List UInt8) = encodeBytes [] := rfl
    rw [e, split_encodeBytes true [] tail (by simp)]
    simp [fromBE_nil]
  · rw [if_neg h0, split_encodeBytes true _ tail h]
    simp only
    rw [if_neg (toBE_head n h0), fromBE_toBE]

theorem decodeBig_canon {inp : List UInt8} {v : Nat} {r : List UInt8} (h : decodeBig inp = .ok (v, r)) :
    inp = encodeBig v ++ r := by
  unfold decodeBig at h
  split at h
  · cases h
  · cases h
  · rename_i p r' hs
    have hc := split_canon hs
    simp only [Bool.false_eq_true, if_false] at hc
    split at h
    · cases h
    · rename_i hhead
      cases h
      unfold encodeBig
      by_cases hv : fromBE p = 0
      · rw [if_pos hv]
        have : p = [] := by
          by_cases hp : p = []
          · exact hp
          · have := fromBE_pos_of_head hp hhead
            have : 0 < 256 ^ (p.length - 1) := Nat.pow_pos (by omega)
            omega
        subst this
        exact hc
      · rw [if_neg hv, toBE_fromBE p hhead]
        exact hc

/-! ### the size side condition of `decode_encode` cannot be dropped in the model -/

/-- A byte string of exactly 2^64 bytes would need a 9-byte length; the header writer then produces
    the tag 0xB7+9 = 0xC0, which the reader takes for an empty list.  (Unreachable in Go: `len` is an
    `int`.)  So `decode_encode` is stated with `(encode x).length < 2^64`. -/
theorem encode_needs_bound (b : List UInt8) (hb : b.length = 2 ^ 64) :
    decodeItem true (encode (.bytes b)) ≠ .ok (.bytes b, []) := by
  have h9 : (toBE (2 ^ 64)).length = 9 := by
    have h1 : 8 < (toBE (2 ^ 64)).length := toBE_length_ge (k := 8) (by decide)
    have h2 := toBE_length_le 9 (2 ^ 64) (by decide)
    omega
  have hs : singleLow b = false := by
    match b, hb with
    | [], hb => simp at hb
    | [x], hb => simp at hb
    | a :: c :: t, _ => rfl
  rw [encode, encodeBytes_of_not_singleLow hs, hb, encLen_long (by decide), h9]
  have hb' : (UInt8.ofNat (128 + 55 + 9)).toNat = 192 := by decide
  unfold decodeItem split
  simp only [List.cons_append, readHead, hb']
  rw [if_neg (by omega), if_neg (by omega), if_neg (by omega), if_pos (by omega), if_neg (by omega)]
  simp only [Nat.sub_self, List.take_zero, List.drop_zero, if_true, decodeList_nil]
  intro h
  cases h

/-! ### typed layer: structs of uint / byte-string / fixed-array / big.Int / slice fields

  `fx` is the flag of LemoModel/RlpSchema.lean: `true` = /repo as it is (with the strictness fixes), `false` = the code
  before them (only the labelled witnesses of `namespace Legacy` below use `false`). -/

/-- typed decoding of bytes = generic decoding, then the per-type checks of the schema -/
def decodeTyped (fx : Bool) (s : Schema) (b : List UInt8) : Option Val :=
  match decode b with
  | .ok it => decodeS fx s it
  | .error _ => none

def encodeTyped (s : Schema) (v : Val) : Option (List UInt8) := (encodeS s v).map encode

/-- **schema_roundtrip**: a well-typed value decodes from its own encoding to itself — for every schema,
    `rlp:"nil"` pointers included (the code as it is and the code before ac28a64 alike: strictness only). -/
theorem schema_roundtrip {fx : Bool} {s : Schema} {v : Val} {b : List UInt8}
    (h : encodeTyped s v = some b) (hb : b.length < 2 ^ 64) : decodeTyped fx s b = some v := by
  unfold encodeTyped at h
  cases he : encodeS s v with
  | none => rw [he] at h; cases h
  | some it =>
    rw [he] at h
    simp only [Option.map_some, Option.some.injEq] at h
    subst h
    unfold decodeTyped
    rw [decode_encode it hb]
    exact decodeS_encodeS fx v s it he

/-- **schema_reencode** (the FULL statement "re-encoding the decoded value yields the original bytes"): whatever a typed
    reflection decoder accepts re-encodes to exactly the accepted bytes — every schema, `rlp:"nil"` pointer fields
    included, no guard.  (Before /repo ac28a64 this held only for schemas without such a field:
    `Legacy.schema_reencode_refuted`, `Legacy.tx_reencode_refuted`.) -/
theorem schema_reencode {s : Schema} {v : Val} {b : List UInt8}
    (h : decodeTyped true s b = some v) : encodeTyped s v = some b := by
  unfold decodeTyped at h
  split at h
  · rename_i it hd
    unfold encodeTyped
    rw [encodeS_decodeS it s v h]
    simp only [Option.map_some, Option.some.injEq]
    exact canonical hd
  · cases h

/-- a `rlp:"nil"` field: every accepted item re-encodes identically (nil is the empty string and nothing else) -/
theorem optFixed_reencode {n : Nat} {it : Item} {v : Val}
    (h : decodeS true (.optFixed n) it = some v) : encodeS (.optFixed n) v = some it :=
  encodeS_decodeS it (.optFixed n) v h

/-- the empty list in a `rlp:"nil"` position is an error ("wrong kind of empty value") -/
theorem optFixed_rejects_list (n : Nat) (xs : List Item) : decodeS true (.optFixed n) (.list xs) = none := rfl

/-- two byte strings that decode to the same typed value are equal: one wire encoding per value -/
theorem schema_unique_encoding {s : Schema} {v : Val} {b₁ b₂ : List UInt8}
    (h₁ : decodeTyped true s b₁ = some v) (h₂ : decodeTyped true s b₂ = some v) : b₁ = b₂ := by
  have e₁ := schema_reencode h₁
  have e₂ := schema_reencode h₂
  rw [e₁] at e₂
  exact Option.some.inj e₂

/-- instances: wire header (`rlpHeader`), deputy node, confirm / confirms / handshake messages, event, equity and —
    new with ac28a64 — the transaction body -/
theorem rlpHeader_reencode {v : Val} {b : List UInt8} (h : decodeTyped true headerSchema b = some v) :
    encodeTyped headerSchema v = some b := schema_reencode h
theorem deputyNode_reencode {v : Val} {b : List UInt8} (h : decodeTyped true deputyNodeSchema b = some v) :
    encodeTyped deputyNodeSchema v = some b := schema_reencode h
theorem blockConfirm_reencode {v : Val} {b : List UInt8} (h : decodeTyped true blockConfirmSchema b = some v) :
    encodeTyped blockConfirmSchema v = some b := schema_reencode h
theorem blockConfirms_reencode {v : Val} {b : List UInt8} (h : decodeTyped true blockConfirmsSchema b = some v) :
    encodeTyped blockConfirmsSchema v = some b := schema_reencode h
theorem handshake_reencode {v : Val} {b : List UInt8} (h : decodeTyped true handshakeSchema b = some v) :
    encodeTyped handshakeSchema v = some b := schema_reencode h
theorem event_reencode {v : Val} {b : List UInt8} (h : decodeTyped true eventSchema b = some v) :
    encodeTyped eventSchema v = some b := schema_reencode h
theorem assetEquity_reencode {v : Val} {b : List UInt8} (h : decodeTyped true assetEquitySchema b = some v) :
    encodeTyped assetEquitySchema v = some b := schema_reencode h
/-- **tx_reencode**: a transaction has exactly one wire encoding (`to` / `gasPayer` are `rlp:"nil"` fields) -/
theorem tx_reencode {v : Val} {b : List UInt8} (h : decodeTyped true txSchema b = some v) :
    encodeTyped txSchema v = some b := schema_reencode h
theorem tx_roundtrip {v : Val} {b : List UInt8} (h : encodeTyped txSchema v = some b) (hb : b.length < 2 ^ 64) :
    decodeTyped true txSchema b = some v := schema_roundtrip h hb

/-- a complete transaction body whose `to` field is the empty list (the witness of the closed finding
    `nil-pointer-as-empty-list`) -/
def txWitness : Item :=
  .list [.bytes [1], .bytes [1], .bytes [7], .bytes (List.replicate 20 1), .bytes [], .list [], .bytes [],
         .bytes [2], .bytes [100], .bytes [], .bytes [5], .bytes [1, 2], .bytes [3, 232], .bytes [],
         .list [], .list []]

/-- … is rejected by the code as it is -/
theorem txWitness_rejected : decodeS true txSchema txWitness = none := by rfl

/-! ### `Header` on top of `rlpHeader`: elision of the empty transaction / change-log root -/

theorem bytesToHash_32 {h : List UInt8} (hl : h.length = 32) : bytesToHash h = h := by
  unfold bytesToHash
  simp [hl]

/-- a header root survives the round trip (`E` = `merkle.EmptyTrieHash`, any 32-byte constant) -/
theorem root_roundtrip (E h : List UInt8) (hl : h.length = 32) :
    decRoot E (encRoot E h) = h := by
  unfold encRoot decRoot
  by_cases he : h = E
  · rw [if_pos he]; simp [he]
  · rw [if_neg he]
    have : h.isEmpty = false := by cases h with
      | nil => simp at hl
      | cons a t => rfl
    simp [this, bytesToHash_32 hl]

/-- what the encoder writes for a root is accepted by `decodeRoot` -/
theorem rootOk_encRoot (E h : List UInt8) (hl : h.length = 32) : rootOk E (encRoot E h) = true := by
  unfold encRoot rootOk
  by_cases he : h = E
  · rw [if_pos he]; rfl
  · rw [if_neg he]
    have : h.isEmpty = false := by cases h with
      | nil => simp at hl
      | cons a t => rfl
    simp [this, hl, he]

/-- **root_reencode** (full): every wire form of a root that `decodeRoot` accepts (`rootOk`: empty, or 32 bytes other
    than the empty-trie hash) is what the encoder writes for the decoded root.  (Before /repo 05de783 every byte string
    was accepted: `Legacy.root_reencode_refuted_short`, `Legacy.root_reencode_refuted_explicit`.) -/
theorem root_reencode (E b : List UInt8) (hb : rootOk E b = true) : encRoot E (decRoot E b) = b := by
  have hb' := LemoProofs.RlpCustomLemmas.rootOk_iff hb
  unfold encRoot decRoot
  cases hb' with
  | inl h => subst h; simp
  | inr h =>
    have : b.isEmpty = false := by cases b with
      | nil => simp at h
      | cons a t => rfl
    simp [this, bytesToHash_32 h.1, h.2]

/-- the two shapes of the closed finding `header-root` are rejected: a root of another length, and the empty-trie root
    written out in full -/
theorem root_rejects_short (E : List UInt8) : rootOk E [1] = false := by
  unfold rootOk; simp
theorem root_rejects_explicit (E : List UInt8) (hE : E.length = 32) : rootOk E E = false := by
  unfold rootOk
  have : E.isEmpty = false := by cases E with
    | nil => simp at hE
    | cons a t => rfl
  simp [this]

/-! ### never a panic: the partial primitives of the generic decoder are always used inside their domain -/

section NoPanic
open LemoModel.RlpChk

theorem readSizeChk_eq (top : Bool) (n : Nat) (inp : List UInt8) (h1 : 1 ≤ n) (h8 : n ≤ 8) :
    readSizeChk top n inp = Out.ofExcept (readSize top n inp) := by
  unfold readSizeChk readSize
  rw [if_neg (by omega)]
  by_cases hl : inp.length < n
  · rw [if_pos hl, if_pos hl]; rfl
  · rw [if_neg hl, if_neg hl]
    have h1 : takeChk n inp = some (inp.take n) := by unfold takeChk; rw [if_pos (by omega)]
    have h2 : dropChk n inp = some (inp.drop n) := by unfold dropChk; rw [if_pos (by omega)]
    rw [h1, h2]
    simp only
    split
    · rfl
    · split <;> rfl

theorem readHeadChk_eq (top : Bool) (inp : List UInt8) : readHeadChk top inp = Out.ofExcept (readHead top inp) := by
  unfold readHeadChk readHead
  cases inp with
  | nil => rfl
  | cons b rest =>
    have hb := UInt8.toNat_lt b
    simp only
    split
    · rfl
    · split
      · split <;> rfl
      · split
        · rw [readSizeChk_eq top _ rest (by omega) (by omega)]
          cases readSize top (b.toNat - 183) rest with
          | error e => rfl
          | ok v =>
            obtain ⟨n, r⟩ := v
            simp only [Out.ofExcept]
            split <;> rfl
        · split
          · split <;> rfl
          · rw [readSizeChk_eq top _ rest (by omega) (by omega)]
            cases readSize top (b.toNat - 247) rest with
            | error e => rfl
            | ok v =>
              obtain ⟨n, r⟩ := v
              simp only [Out.ofExcept]
              split <;> rfl

/-- the checked reader computes exactly what the unchecked one does: no `make`, `uintbuf[8-size:]` or slice
    expression of `Stream.Kind` / `readUint` / `Bytes` / `List` is ever evaluated outside its domain -/
theorem splitChk_eq (top : Bool) (inp : List UInt8) : splitChk top inp = Out.ofExcept (split top inp) := by
  unfold splitChk split
  rw [readHeadChk_eq]
  cases h : readHead top inp with
  | error e => rfl
  | ok v =>
    obtain ⟨hd, rest⟩ := v
    have hc := readHead_canon h
    cases hd with
    | byte b => rfl
    | str n =>
      simp only at hc
      have h1 : takeChk n rest = some (rest.take n) := by unfold takeChk; rw [if_pos hc.2]
      have h2 : dropChk n rest = some (rest.drop n) := by unfold dropChk; rw [if_pos hc.2]
      simp only [Out.ofExcept, h1, h2]
      split <;> rfl
    | lst n =>
      simp only at hc
      have h1 : takeChk n rest = some (rest.take n) := by unfold takeChk; rw [if_pos hc.2]
      have h2 : dropChk n rest = some (rest.drop n) := by unfold dropChk; rw [if_pos hc.2]
      simp only [Out.ofExcept, h1, h2]

/-- **split_never_panics**: for every byte string, in both contexts, the header/payload reader of the generic
    decoder ends in a value or an error; the panic outcome of the partial primitives is unreachable. -/
theorem split_never_panics (top : Bool) (inp : List UInt8) : splitChk top inp ≠ .panic := by
  rw [splitChk_eq]
  cases split top inp <;> simp [Out.ofExcept]

theorem rawReadSize_len {b : List UInt8} {slen v : Nat} (h : rawReadSize b slen = .ok v) : slen ≤ b.length := by
  unfold rawReadSize at h
  split at h
  · cases h
  · omega

theorem rawReadKind_bounds {b : List UInt8} {k ts cs : Nat} (h : rawReadKind b = .ok (k, ts, cs)) :
    ts ≤ b.length ∧ cs ≤ b.length - ts := by
  unfold rawReadKind at h
  cases b with
  | nil => cases h
  | cons x rest =>
    simp only at h
    have fin : ∀ k' ts' cs', (if cs' > (x :: rest).length - ts' then (Except.error Err.valueTooLarge : Except Err (Nat × Nat × Nat))
        else Except.ok (k', ts', cs')) = Except.ok (k, ts, cs) → ts' = ts ∧ cs' = cs ∧ cs' ≤ (x :: rest).length - ts' := by
      intro k' ts' cs' hh
      split at hh
      · cases hh
      · cases hh; exact ⟨rfl, rfl, by omega⟩
    split at h
    · obtain ⟨e1, e2, e3⟩ := fin _ _ _ h
      subst e1 e2; simp at e3 ⊢ <;> omega
    · split at h
      · split at h
        · cases h
        · obtain ⟨e1, e2, e3⟩ := fin _ _ _ h
          subst e1 e2; simp at e3 ⊢ <;> omega
      · split at h
        · split at h
          · cases h
          · rename_i v hs
            obtain ⟨e1, e2, e3⟩ := fin _ _ _ h
            have := rawReadSize_len hs
            subst e1 e2; simp at e3 ⊢ <;> omega
        · split at h
          · obtain ⟨e1, e2, e3⟩ := fin _ _ _ h
            subst e1 e2; simp at e3 ⊢ <;> omega
          · split at h
            · cases h
            · rename_i v hs
              obtain ⟨e1, e2, e3⟩ := fin _ _ _ h
              have := rawReadSize_len hs
              subst e1 e2; simp at e3 ⊢ <;> omega

/-- **rawSplit_never_panics**: the slice expressions of `rlp.Split` (raw.go:28) stay inside the buffer -/
theorem rawSplit_never_panics (b : List UInt8) : rawSplitChk b ≠ .panic := by
  unfold rawSplitChk
  cases h : rawReadKind b with
  | error e => simp
  | ok v =>
    obtain ⟨k, ts, cs⟩ := v
    have hb := rawReadKind_bounds h
    have h1 : dropChk ts b = some (b.drop ts) := by unfold dropChk; rw [if_pos hb.1]
    have h2 : takeChk cs (b.drop ts) = some ((b.drop ts).take cs) := by
      unfold takeChk; rw [if_pos (by rw [List.length_drop]; exact hb.2)]
    have h3 : dropChk (ts + cs) b = some (b.drop (ts + cs)) := by unfold dropChk; rw [if_pos (by omega)]
    simp [h1, h2, h3]

end NoPanic

/-! ### hand-written codecs: Profile, Asset, change-log payloads, ChangeLog, lists of change logs, Header

  `ChangeLog.Hash()` is Keccak of the log's own RLP, so for change logs "re-encoding the decoded value yields
  the original bytes" is exactly "the hash of what was received is the hash of what is stored".  Since the strictness
  fixes of /repo (05de783, 8a6b205, 7e982c7, 4ab6b74, a0389ea, 29ca096, f02560a, 4e3d12b) the clause HOLDS for the code
  as it is: the theorems below state it without any guard on the wire form.  The model (LemoModel/RlpCustom.lean with
  `fx = true`) is tied to the real decoders by the `typed …` ops; the laxness of the code before the fixes is kept as
  `fx = false` and refuted in `namespace Legacy` (labelled witnesses, not registered). -/

section Custom
open LemoModel.RlpCustom LemoProofs.RlpCustomLemmas

/-- two list encodings are equal only if the payloads are (used to compare encodings of ≥ 56 bytes without
    evaluating the well-founded `toBE`) -/
theorem encode_list_inj {xs ys : List Item} (hx : (encodeList xs).length < 2 ^ 64) (hy : (encodeList ys).length < 2 ^ 64)
    (h : encode (.list xs) = encode (.list ys)) : encodeList xs = encodeList ys := by
  have h1 := split_encLst true (encodeList xs) [] hx
  have h2 := split_encLst true (encodeList ys) [] hy
  rw [encode, encode] at h
  rw [List.append_nil] at h1 h2
  rw [h, h2] at h1
  injection h1 with h1
  injection h1 with _ h1
  injection h1 with h1 _
  exact h1.symm

/-- a Profile (a Go map, kept as a key-sorted association list) decodes from its own encoding to itself -/
theorem profile_roundtrip (ps : List KV) (h : Sorted ps) : decodeProfile true (encodeProfile ps) = some ps :=
  decodeProfile_encodeProfile ps h

/-- **profile_reencode** (full): whatever `Profile.DecodeRLP` accepts is the encoding of the decoded map — no size-zero
    forms, no duplicate and no unsorted keys.  (Before /repo 8a6b205: `Legacy.profile_refuted_*`.) -/
theorem profile_reencode {it : Item} {ps : List KV} (h : decodeProfile true it = some ps) : encodeProfile ps = it :=
  (encodeProfile_decodeProfile h).1

/-- … and the decoded association list is key-sorted, i.e. a map -/
theorem profile_decoded_sorted {it : Item} {ps : List KV} (h : decodeProfile true it = some ps) : Sorted ps :=
  (encodeProfile_decodeProfile h).2

theorem asset_roundtrip (fs : List Val) (ps : List KV) (it : Item) (hs : Sorted ps)
    (h : encodeAsset (fs, ps) = some it) : decodeAsset true it = some (fs, ps) :=
  decodeAsset_encodeAsset fs ps it hs h

/-- **asset_reencode** (full): an accepted Asset has all eight elements and re-encodes identically
    (before 8a6b205 the Profile element could be missing: `Legacy.asset_refuted_missing_profile`) -/
theorem asset_reencode {it : Item} {fs : List Val} {ps : List KV} (h : decodeAsset true it = some (fs, ps)) :
    encodeAsset (fs, ps) = some it := (encodeAsset_decodeAsset h).1

/-- **payload_roundtrip**: every payload value written by the encoder is read back by the registered decoder.  `Wf` holds
    representation invariants of the VALUE only (a Profile is a key-sorted association list, a Signers payload is a
    list); the value-level asymmetries of the code before 29ca096 / f02560a / 4e3d12b (an empty Signers list or an empty
    Profile read back as an untyped nil / a `*interface{}`) are gone. -/
theorem payload_roundtrip (p : PDec) (v : CVal) (it : Item) (h : runEnc p v = some it) (hok : Wf p v) :
    runDec true p it = some v := runDec_runEnc p v it h hok

/-- **payload_reencode** (full): every registered payload decoder is injective on everything it accepts. -/
theorem payload_reencode (p : PDec) (v : CVal) (it : Item) (h : runDec true p it = some v) :
    runEnc p v = some it := runEnc_runDec p v it h

theorem decU32_enc {n : Nat} {a : Item} (h : encodeS (.uint 32) (.nat n) = some a) : decU32 a = some n := by
  unfold decU32; rw [decodeS_encodeS true _ _ _ h]

theorem decAddr_enc {b : List UInt8} {a : Item} (h : encodeS (.fixed 20) (.bytes b) = some a) : decAddr a = some b := by
  unfold decAddr; rw [decodeS_encodeS true _ _ _ h]

theorem enc_decU32 {n : Nat} {a : Item} (h : decU32 a = some n) : encodeS (.uint 32) (.nat n) = some a := by
  unfold decU32 at h
  split at h
  · rename_i m hm
    cases h
    exact encodeS_decodeS a (.uint 32) _ hm
  · cases h

theorem enc_decAddr {b : List UInt8} {a : Item} (h : decAddr a = some b) : encodeS (.fixed 20) (.bytes b) = some a := by
  unfold decAddr at h
  split at h
  · rename_i m hm
    cases h
    exact encodeS_decodeS a (.fixed 20) _ hm
  · cases h

/-- representation invariants of a change-log VALUE (see `Wf`): its profiles are maps, a SignerLog holds a Signers list -/
def WfLog (l : CLog) : Prop :=
  ∀ p q, logDecoders l.logType = some (p, q) → Wf p l.newVal ∧ Wf q l.extra

/-- in the registered table a `nilOr` decoder belongs to a struct with fields (AssetEquity, ProfileChangeLogExtra) -/
theorem logDecoders_nilOr {lt : Nat} {p q : PDec} (h : logDecoders lt = some (p, q)) :
    (∀ fs, p = .nilOr fs → fs ≠ []) ∧ (∀ fs, q = .nilOr fs → fs ≠ []) := by
  unfold logDecoders at h
  split at h
  all_goals first
    | (cases h; done)
    | (cases h
       refine ⟨?_, ?_⟩ <;> intro fs hfs <;> cases hfs <;> simp [extraFields, equityFields])

/-- **changeLog_roundtrip**: a change log of any of the 19 registered types decodes from its own encoding to itself. -/
theorem changeLog_roundtrip (l : CLog) (it : Item) (h : encodeChangeLog l = some it) (hg : WfLog l) :
    decodeChangeLog true it = some l := by
  unfold encodeChangeLog at h
  split at h
  · rename_i p q hpq
    split at h
    · rename_i a b c d e ha hb hc hd he
      cases h
      have g := hg p q hpq
      simp only [decodeChangeLog, decU32_enc ha, decAddr_enc hb, decU32_enc hc, hpq,
        runDec_runEnc p _ d hd g.1, runDec_runEnc q _ e he g.2]
    · cases h
  · cases h

/-- **changeLog_reencode** (the FULL statement): `decodeChangeLog it = some l → encodeChangeLog l = some it`, so that
    `l.Hash()` = Keccak(wire) for every accepted log of every registered type.  No guard.  (Before the payload fixes
    4ab6b74 / a0389ea / 8a6b205 it needed `StrictLog`; the refutations are `Legacy.payload_refuted_*`.) -/
theorem changeLog_reencode (l : CLog) (it : Item) (h : decodeChangeLog true it = some l) :
    encodeChangeLog l = some it := by
  unfold decodeChangeLog at h
  split at h
  · rename_i a b c d e
    split at h
    · rename_i lt addr ver ha hb hc
      split at h
      · rename_i p q hpq
        split at h
        · rename_i nv ex hd he
          cases h
          simp only [encodeChangeLog, hpq, enc_decU32 ha, enc_decAddr hb, enc_decU32 hc,
            runEnc_runDec p nv d hd, runEnc_runDec q ex e he]
        · cases h
      · cases h
    · cases h
  · cases h

/-- a decoded change log satisfies the representation invariants, hence round-trips again -/
theorem changeLog_decoded_wf (l : CLog) (it : Item) (h : decodeChangeLog true it = some l) : WfLog l := by
  unfold decodeChangeLog at h
  split at h
  · rename_i a b c d e
    split at h
    · rename_i lt addr ver ha hb hc
      split at h
      · rename_i p q hpq
        split at h
        · rename_i nv ex hd he
          cases h
          intro p' q' hpq'
          simp only at hpq'
          rw [hpq] at hpq'
          cases hpq'
          have hn := logDecoders_nilOr hpq
          exact ⟨runDec_wf p nv d hd hn.1, runDec_wf q ex e he hn.2⟩
        · cases h
      · cases h
    · cases h
  · cases h

/-- a log with fewer (or more) than five elements is a decoding error — never an accepted value, and (7e982c7) never the
    `rlp.EOL` that the enclosing list decoder would take for its own end -/
theorem changeLog_five_elements (xs : List Item) (l : CLog) (h : decodeChangeLog true (.list xs) = some l) :
    xs.length = 5 := by
  unfold decodeChangeLog at h
  split at h
  · rename_i a b c d e heq
    cases heq; rfl
  · cases h

/-- the change log read from the wire hashes to the hash of the wire bytes: its encoding IS the received byte string -/
theorem changeLog_wire_canonical {b : List UInt8} {it : Item} {l : CLog} (hd : decode b = .ok it)
    (h : decodeChangeLog true it = some l) : (encodeChangeLog l).map encode = some b := by
  rw [changeLog_reencode l it h]
  simp [canonical hd]

/-- a complete change log: type, 20-byte address, version 1, NewVal, Extra -/
def logItem (lt : UInt8) (nv ex : Item) : Item :=
  .list [.bytes [lt], .bytes (List.replicate 20 7), .bytes [1], nv, ex]

/-- **logSlice_reencode** (full): an accepted list of change logs re-encodes identically — every element is a complete,
    canonical log (before 7e982c7 a short last element ended the list: `Legacy.changelog_eol_refuted`) -/
theorem logElems_reencode : ∀ (xs : List Item) (ls : List CLog), decodeLogElems true xs = some ls →
    encodeLogElems ls = some xs
  | [], ls, h => by simp [decodeLogElems] at h; subst h; rfl
  | x :: rest, ls, h => by
    simp only [decodeLogElems, Bool.not_true, Bool.false_and, Bool.false_eq_true, if_false] at h
    split at h
    · rename_i l ls' h1 h2
      cases h
      have ih := logElems_reencode rest ls' h2
      simp only [encodeLogElems, changeLog_reencode l x h1, ih]
    · cases h

theorem logSlice_reencode {it : Item} {ls : List CLog} (h : decodeLogSlice true it = some ls) :
    encodeLogSlice ls = some it := by
  cases it with
  | bytes b => simp [decodeLogSlice] at h
  | list xs =>
    simp only [decodeLogSlice] at h
    simp [encodeLogSlice, logElems_reencode xs ls h]

theorem logElems_roundtrip : ∀ (ls : List CLog) (xs : List Item), encodeLogElems ls = some xs →
    (∀ l ∈ ls, WfLog l) → decodeLogElems true xs = some ls
  | [], xs, h, _ => by simp [encodeLogElems] at h; subst h; rfl
  | l :: ls, xs, h, hg => by
    rw [encodeLogElems] at h
    split at h
    · rename_i x xs' h1 h2
      cases h
      have ih := logElems_roundtrip ls xs' h2 (fun y hy => hg y (List.mem_cons_of_mem _ hy))
      simp only [decodeLogElems, Bool.not_true, Bool.false_and, Bool.false_eq_true, if_false,
        changeLog_roundtrip l x h1 (hg l (List.mem_cons_self ..)), ih]
    · cases h

/-- a list of change logs (the ChangeLogs of a block) decodes from its own encoding to itself -/
theorem logSlice_roundtrip (ls : List CLog) (it : Item) (h : encodeLogSlice ls = some it) (hg : ∀ l ∈ ls, WfLog l) :
    decodeLogSlice true it = some ls := by
  unfold encodeLogSlice at h
  cases he : encodeLogElems ls with
  | none => simp [he] at h
  | some xs =>
    simp only [he, Option.map_some, Option.some.injEq] at h
    subst h
    simp only [decodeLogSlice]
    exact logElems_roundtrip ls xs he hg

/-! #### Header = rlpHeader + root elision, composed -/

def rootLen32 : Val → Prop
  | .bytes r => r.length = 32
  | _ => True

theorem rootsOk_enc (E : List UInt8) : ∀ (i : Nat) (vs : List Val), okAt rootLen32 i vs →
    rootsOk E i (mapAt (onBytes (encRoot E)) i vs) = true
  | _, [], _ => rfl
  | i, x :: xs, h => by
    simp only [okAt] at h
    simp only [mapAt, rootsOk, Bool.and_eq_true]
    refine ⟨?_, rootsOk_enc E (i + 1) xs h.2⟩
    by_cases hi : i = 3 ∨ i = 4
    · rw [if_pos hi, if_pos hi]
      cases x with
      | bytes r => exact rootOk_encRoot E r (h.1 hi)
      | nat _ => rfl
      | list _ => rfl
      | nil => rfl
    · rw [if_neg hi]

/-- **header_roundtrip**: a Header (both roots 32 bytes, `E` = EmptyTrieHash included) decodes from its own
    encoding to itself. -/
theorem header_roundtrip (E : List UInt8) (vs : List Val) (it : Item) (h : encodeHeader E (.list vs) = some it)
    (hr : okAt rootLen32 0 vs) : decodeHeader true E it = some (.list vs) := by
  unfold encodeHeader at h
  unfold decodeHeader
  rw [decodeS_encodeS true _ _ _ h]
  simp only [rootsOk_enc E 0 vs hr, Bool.not_true, Bool.and_false, Bool.false_eq_true, if_false]
  rw [mapAt_mapAt, mapAt_id]
  refine okAt_mono ?_ 0 vs hr
  intro x hx
  cases x with
  | bytes r => simp only [Function.comp, onBytes]; rw [root_roundtrip E r hx]
  | nat _ => rfl
  | list _ => rfl
  | nil => rfl

/-- **header_reencode** (the FULL statement): `decodeHeader E it = some v → encodeHeader E v = some it` — one wire
    encoding per header, wherever it sits (block, blocks message).  No guard: `Header.DecodeRLP` itself refuses a root
    that is not empty or 32 bytes other than EmptyTrieHash.  (Before /repo 05de783: `Legacy.header_reencode_refuted`.) -/
theorem header_reencode (E : List UInt8) (it : Item) (v : Val) (h : decodeHeader true E it = some v) :
    encodeHeader E v = some it := by
  unfold decodeHeader at h
  split at h
  · rename_i ws hd
    by_cases hr : rootsOk E 0 ws = true
    · simp only [hr, Bool.not_true, Bool.and_false, Bool.false_eq_true, if_false, Option.some.injEq] at h
      subst h
      show encodeS headerSchema (.list (mapAt (onBytes (encRoot E)) 0 (mapAt (onBytes (decRoot E)) 0 ws))) = some it
      rw [mapAt_mapAt, mapAt_id]
      · exact encodeS_decodeS it headerSchema _ hd
      · refine okAt_mono ?_ 0 ws (okAt_of_rootsOk E 0 ws hr)
        intro x hx
        cases x with
        | bytes r =>
          simp only [Function.comp, onBytes]
          have hx' : rootOk E r = true := by
            unfold rootOk
            cases hx with
            | inl h0 => subst h0; rfl
            | inr h1 =>
              have : r.isEmpty = false := by cases r with
                | nil => simp at h1
                | cons a t => rfl
              simp [this, h1.1, h1.2]
          rw [root_reencode E r hx']
        | nat _ => rfl
        | list _ => rfl
        | nil => rfl
    · have hr' : rootsOk E 0 ws = false := by cases hh : rootsOk E 0 ws with
        | true => exact absurd hh hr
        | false => rfl
      simp [hr'] at h
  · cases h

/-- the header read from the wire: its encoding is the received byte string -/
theorem header_wire_canonical {E b : List UInt8} {it : Item} {v : Val} (hd : decode b = .ok it)
    (h : decodeHeader true E it = some v) : (encodeHeader E v).map encode = some b := by
  rw [header_reencode E it v h]
  simp [canonical hd]

/-- a complete wire header whose TxRoot is the single byte 0x64 (the witness of the closed finding `header-root`) -/
def headerWitness : Item :=
  .list [.bytes (List.replicate 32 0), .bytes (List.replicate 20 0), .bytes (List.replicate 32 0), .bytes [0x64], .bytes [],
         .bytes [], .bytes [], .bytes [], .bytes [], .bytes [], .bytes [], .bytes []]

/-- … is rejected by the code as it is -/
theorem headerWitness_rejected : decodeHeader true emptyTrieHash headerWitness = none := by rfl

/-- what `Header.Hash()` feeds to Keccak is a function of the decoded value only (it reads the fields, never the wire
    bytes or a cache filled by the decoder), so the round trip preserves it; Keccak itself is not modelled. -/
theorem header_hash_preimage_stable (E : List UInt8) (vs : List Val) (it : Item) (v' : Val)
    (h : encodeHeader E (.list vs) = some it) (hr : okAt rootLen32 0 vs) (hd : decodeHeader true E it = some v') :
    headerHashPreimage v' = headerHashPreimage (.list vs) := by
  rw [header_roundtrip E vs it h hr] at hd
  cases hd; rfl

/-! #### Block = Header + transactions + change logs + confirms + deputy nodes -/

/-- representation invariants of a block VALUE: 32-byte header roots, well-formed change logs (`WfLog`) -/
def WfBlock (b : BlockV) : Prop :=
  (∀ vs, b.header = .list vs → okAt rootLen32 0 vs) ∧ (∀ l ∈ b.logs, WfLog l)

/-- **block_roundtrip**: a block decodes from its own encoding to itself -/
theorem block_roundtrip (E : List UInt8) (b : BlockV) (it : Item) (h : encodeBlock E b = some it) (hw : WfBlock b) :
    decodeBlock E it = some b := by
  unfold encodeBlock at h
  split at h
  · rename_i hi ti li ci di hh ht hl hc hd
    cases h
    obtain ⟨hdr, txs, logs, cfs, dns⟩ := b
    simp only at hh ht hl hc hd hw
    have hhdr : decodeHeader true E hi = some hdr := by
      cases hdr with
      | list vs => exact header_roundtrip E vs hi hh (hw.1 vs rfl)
      | bytes _ => simp [encodeHeader] at hh
      | nat _ => simp [encodeHeader] at hh
      | nil => simp [encodeHeader] at hh
    simp only [decodeBlock, hhdr, decodeS_encodeS true _ _ _ ht, logSlice_roundtrip logs li hl hw.2,
      decodeS_encodeS true _ _ _ hc, decodeS_encodeS true _ _ _ hd]
  · cases h

/-- **block_reencode** (full): whatever the Block decoder accepts re-encodes to exactly the accepted item — one wire
    encoding per block.  (Before the fixes a block inherited the laxness of headers, `rlp:"nil"` fields, profiles and
    payloads, and a short change log desynchronised the list stack: [hdr, c0, [c0, c0, c0]] was read as [hdr, c0, c0, c0, c0].) -/
theorem block_reencode (E : List UInt8) (it : Item) (b : BlockV) (h : decodeBlock E it = some b) :
    encodeBlock E b = some it := by
  unfold decodeBlock at h
  split at h
  · rename_i hi ti li ci di
    split at h
    · rename_i hv tv lv cv dv hh ht hl hc hd
      cases h
      simp only [encodeBlock, header_reencode E hi hv hh, encodeS_decodeS ti _ tv ht, logSlice_reencode hl,
        encodeS_decodeS ci _ cv hc, encodeS_decodeS di _ dv hd]
    · cases h
  · cases h

/-- the block read from the wire: its encoding is the received byte string -/
theorem block_wire_canonical {E b : List UInt8} {it : Item} {v : BlockV} (hd : decode b = .ok it)
    (h : decodeBlock E it = some v) : (encodeBlock E v).map encode = some b := by
  rw [block_reencode E it v h]
  simp [canonical hd]

/-- the block of the closed finding `changelog-eol`, [hdr, [], [[], [], []]] (the three-element form whose inner list was
    read as the remaining fields), is rejected whatever the header is: a block has five elements -/
theorem block_three_elements_rejected (E : List UInt8) (h x : Item) : decodeBlock E (.list [h, .list [], x]) = none := by
  rfl

/-! #### the witnesses of the closed findings are rejected by the code as it is (tests of the model, `fx = true`) -/

example : decodeProfile true (.list [pairItem ([0x6b], [0x76, 0x31]), pairItem ([0x6b], [0x76, 0x32])]) = none := by decide
example : decodeProfile true (.list [pairItem ([0x62], [1]), pairItem ([0x61], [1])]) = none := by decide
example : decodeProfile true (.bytes []) = none ∧ decodeProfile true (.bytes [0x12]) = none := ⟨rfl, rfl⟩
example : decodeProfile true (.list []) = some [] := by rfl
example : decodeAsset true (.list [.bytes [1], .bytes [], .bytes (List.replicate 32 0), .bytes [5], .bytes [], .bytes [],
    .bytes (List.replicate 20 0)]) = none := by rfl
example : decodeChangeLog true (logItem 3 (.bytes [1]) (.list [])) = none := by rfl                  -- decodeHash, 1 byte
example : decodeChangeLog true (logItem 17 (.bytes (List.replicate 21 9)) (.list [])) = none := by rfl  -- decodeAddress, 21 bytes
example : decodeChangeLog true (logItem 1 (.bytes [9]) (.bytes [])) = none := by rfl                 -- Extra 0x80
example : decodeChangeLog true (logItem 1 (.bytes [9]) (.bytes [5])) = none := by rfl                -- Extra 0x05
example : decodeChangeLog true (logItem 19 (.bytes []) (.list [])) = none := by rfl                  -- signers 0x80
example : decodeChangeLog true (logItem 4 (.bytes []) (.bytes (List.replicate 32 1))) = none := by rfl  -- asset 0x80
example : decodeChangeLog true (logItem 10 (.bytes [5]) (.bytes (List.replicate 32 1))) = none := by rfl -- equity 0x05
example : decodeChangeLog true (logItem 5 (.bytes [0x61]) (.bytes [])) = none := by rfl              -- extra struct 0x80
example : decodeLogSlice true (.list [.list []]) = none := by rfl                                    -- 0xC1C0
example : decodeLogSlice true (.list [.list [.bytes [1], .bytes (List.replicate 20 7), .bytes [1], .bytes [9]]]) = none := by rfl
/-- the typed values behind the closed findings `changelog-redo-after-decode/*`: an empty Signers list, an empty
    candidate Profile and a nil Asset are read back as a Signers list / a Profile / a nil payload, and round-trip -/
example : runDec true .signers (.list []) = some (.v (.list [])) ∧ runEnc .signers (.v (.list [])) = some (.list []) := ⟨rfl, rfl⟩
example : runDec true .candidate (.list []) = some (.prof []) ∧ runEnc .candidate (.prof []) = some (.list []) := ⟨rfl, rfl⟩
example : runDec true .asset (.list []) = some (.v .nil) ∧ runEnc .asset (.v .nil) = some (.list []) := ⟨rfl, rfl⟩

end Custom

/-! ### the code BEFORE the strictness fixes (`fx = false`): labelled refutation witnesses

  NOT registered and not counted.  They record what refuted the full statements above on the code before the fixes (each
  names the /repo commit that closed the finding) and keep the `fx = false` branch of the model meaningful: the same
  witnesses are REJECTED under `fx = true` (`txWitness_rejected`, `headerWitness_rejected`, `root_rejects_*`, the
  examples at the end of the section above). -/

namespace Legacy
section
open LemoModel.RlpCustom LemoProofs.RlpCustomLemmas

/-- [before ac28a64, finding nil-pointer-as-empty-list] 0xC0 in a `rlp:"nil"` position was taken for nil, which is written 0x80 -/
theorem schema_reencode_refuted :
    decodeS false (.optFixed 20) (.list []) = some .nil ∧ encodeS (.optFixed 20) .nil = some (.bytes []) ∧
    encode (.bytes []) = [0x80] ∧ encode (.list []) = [0xC0] := by
  refine ⟨rfl, rfl, by decide, by decide⟩

/-- [before ac28a64] the transaction decoder accepted `txWitness`, and the decoded transaction encodes to different bytes -/
theorem tx_reencode_refuted :
    ∃ v it', decodeS false txSchema txWitness = some v ∧ encodeS txSchema v = some it' ∧ encode it' ≠ encode txWitness := by
  refine ⟨_, _, rfl, rfl, ?_⟩
  simp (disch := decide) only [toBE_fromBE]
  decide

/-- [before 05de783, finding header-root] `decRoot` was applied to EVERY byte string: a 1-byte root came back as 32 bytes -/
theorem root_reencode_refuted_short (E : List UInt8) (hE : E ≠ bytesToHash [1]) :
    encRoot E (decRoot E [1]) ≠ [1] := by
  unfold encRoot decRoot
  simp only [List.isEmpty_cons, Bool.false_eq_true, if_false]
  rw [if_neg (fun h => hE h.symm)]
  decide

/-- [before 05de783] the empty root written out explicitly (32 bytes) came back elided -/
theorem root_reencode_refuted_explicit (E : List UInt8) (hE : E.length = 32) :
    encRoot E (decRoot E E) ≠ E := by
  unfold encRoot decRoot
  have hne : E.isEmpty = false := by cases E with
    | nil => simp at hE
    | cons a t => rfl
  simp only [hne, Bool.false_eq_true, if_false, bytesToHash_32 hE, if_true]
  intro h
  rw [← h] at hE
  simp at hE

theorem root_reencode_refuted_short_emptyTrieHash :
    encRoot emptyTrieHash (decRoot emptyTrieHash [1]) ≠ [1] :=
  root_reencode_refuted_short _ (by decide)

set_option maxRecDepth 8192 in
/-- [before 05de783] a complete header with a 1-byte TxRoot was accepted and re-encoded to other bytes -/
theorem header_reencode_refuted :
    ∃ v it', decodeHeader false emptyTrieHash headerWitness = some v ∧ encodeHeader emptyTrieHash v = some it' ∧
      encode it' ≠ encode headerWitness := by
  refine ⟨_, _, rfl, rfl, ?_⟩
  simp (disch := decide) only [toBE_fromBE, headerWitness]
  intro h
  exact absurd (encode_list_inj (by decide) (by decide) h) (by decide)

/-- [before 8a6b205, finding profile/duplicate-key] a duplicate key was accepted, the last value won -/
theorem profile_refuted_duplicate :
    decodeProfile false (.list [pairItem ([0x6b], [0x76, 0x31]), pairItem ([0x6b], [0x76, 0x32])]) = some [([0x6b], [0x76, 0x32])] ∧
    encode (encodeProfile [([0x6b], [0x76, 0x32])]) ≠
      encode (.list [pairItem ([0x6b], [0x76, 0x31]), pairItem ([0x6b], [0x76, 0x32])]) := by
  refine ⟨by decide, by decide⟩

/-- [before 8a6b205, finding profile/unsorted] unsorted pairs were accepted and came back sorted -/
theorem profile_refuted_unsorted :
    decodeProfile false (.list [pairItem ([0x62], [1]), pairItem ([0x61], [1])]) = some [([0x61], [1]), ([0x62], [1])] ∧
    encode (encodeProfile [([0x61], [1]), ([0x62], [1])]) ≠ encode (.list [pairItem ([0x62], [1]), pairItem ([0x61], [1])]) := by
  refine ⟨by decide, by decide⟩

/-- [before 8a6b205, finding profile/empty-form] 0x80 and a single byte like 0x12 were accepted as the empty profile (written 0xC0) -/
theorem profile_refuted_empty_forms :
    decodeProfile false (.bytes []) = some [] ∧ decodeProfile false (.bytes [0x12]) = some [] ∧
    encode (encodeProfile []) = [0xC0] ∧ encode (.bytes []) = [0x80] ∧ encode (.bytes [0x12]) = [0x12] := by
  refine ⟨by decide, by decide, by decide, by decide, by decide⟩

/-- [before 8a6b205, finding profile/missing-field] an Asset list without its Profile element was accepted
    (`Profile.DecodeRLP` ignored the EOL of `Stream.Kind`) and re-encoded with the empty profile appended -/
theorem asset_refuted_missing_profile :
    ∃ v it', decodeAsset false (.list [.bytes [1], .bytes [], .bytes (List.replicate 32 0), .bytes [5], .bytes [], .bytes [],
        .bytes (List.replicate 20 0)]) = some v ∧ encodeAsset v = some it' ∧
      encode it' ≠ encode (.list [.bytes [1], .bytes [], .bytes (List.replicate 32 0), .bytes [5], .bytes [], .bytes [],
        .bytes (List.replicate 20 0)]) := by
  refine ⟨_, _, rfl, rfl, ?_⟩
  simp (disch := decide) only [toBE_fromBE]
  intro h
  exact absurd (encode_list_inj (by decide) (by decide) h) (by decide)

/-- the shape of the payload refutations: accepted, and the decoded log encodes to different bytes
    (hence `Hash()` of the decoded log ≠ Keccak of the received bytes) -/
def LogRefuted (w : Item) : Prop :=
  ∃ l it', decodeChangeLog false w = some l ∧ encodeChangeLog l = some it' ∧ encode it' ≠ encode w

/-- closes `encode it' ≠ encode w` for two concrete list items -/
macro "logNe" : tactic => `(tactic|
  (simp (disch := decide) only [toBE_fromBE, logItem]
   intro h
   exact absurd (encode_list_inj (by decide) (by decide) h) (by decide)))

/-- [before 4ab6b74, finding changelog-payload/decodeHash] StorageRootLog whose NewVal is the one-byte string 0x01 -/
theorem payload_refuted_decodeHash : LogRefuted (logItem 3 (.bytes [1]) (.list [])) := by
  refine ⟨_, _, rfl, rfl, ?_⟩
  logNe

/-- [before 4ab6b74, finding changelog-payload/decodeAddress] VoteForLog with a 21-byte address -/
theorem payload_refuted_decodeAddress : LogRefuted (logItem 17 (.bytes (List.replicate 21 9)) (.list [])) := by
  refine ⟨_, _, rfl, rfl, ?_⟩
  logNe

/-- [before a0389ea, finding changelog-payload/decodeEmptyInterface] BalanceLog whose Extra is 0x80 (and 0x05) instead of 0xC0 -/
theorem payload_refuted_decodeEmptyInterface :
    LogRefuted (logItem 1 (.bytes [9]) (.bytes [])) ∧ LogRefuted (logItem 1 (.bytes [9]) (.bytes [5])) := by
  refine ⟨⟨_, _, rfl, rfl, ?_⟩, ⟨_, _, rfl, rfl, ?_⟩⟩ <;> logNe

/-- [before a0389ea, finding changelog-payload/decodeSigners] SignerLog whose NewVal is 0x80 -/
theorem payload_refuted_decodeSigners : LogRefuted (logItem 19 (.bytes []) (.list [])) := by
  refine ⟨_, _, rfl, rfl, ?_⟩
  logNe

/-- [before a0389ea, finding changelog-payload/decodeAsset] AssetCodeLog whose NewVal is 0x80 -/
theorem payload_refuted_decodeAsset :
    LogRefuted (logItem 4 (.bytes []) (.bytes (List.replicate 32 1))) := by
  refine ⟨_, _, rfl, rfl, ?_⟩
  logNe

/-- [before a0389ea, finding changelog-payload/decodeEquity] EquityLog whose NewVal is the single byte 0x05 -/
theorem payload_refuted_decodeEquity :
    LogRefuted (logItem 10 (.bytes [5]) (.bytes (List.replicate 32 1))) := by
  refine ⟨_, _, rfl, rfl, ?_⟩
  logNe

/-- [before a0389ea, finding changelog-payload/decodeProfileChangeLogExtra] AssetCodeStateLog whose Extra is 0x80 -/
theorem payload_refuted_decodeProfileChangeLogExtra :
    LogRefuted (logItem 5 (.bytes [0x61]) (.bytes [])) := by
  refine ⟨_, _, rfl, rfl, ?_⟩
  logNe

/-- [before 8a6b205, finding profile inside a log] CandidateLog whose profile has a duplicate key -/
theorem changelog_refuted_profile_in_candidate :
    LogRefuted (logItem 12 (.list [pairItem ([0x6b], [1]), pairItem ([0x6b], [2])]) (.list [])) := by
  refine ⟨_, _, rfl, rfl, ?_⟩
  logNe

/-- [before f02560a, finding changelog-redo-after-decode/SignerLog] a typed empty signer list was written as 0xC0 and read
    back as the untyped nil -/
theorem signers_empty_reads_back_nil :
    runEnc .signers (.v (.list [])) = some (.list []) ∧
    runDec false .signers (.list []) = some (.v .nil) := ⟨rfl, rfl⟩

/-- [before 29ca096, finding changelog-redo-after-decode/CandidateLog] an empty profile was read back as a `*interface{}`
    holding the raw item -/
theorem candidate_empty_reads_back_raw :
    runEnc .candidate (.prof []) = some (.list []) ∧
    runDec false .candidate (.list []) = some (.raw (.list [])) := ⟨rfl, rfl⟩

/-- [before 7e982c7, finding changelog-eol] 0xC1 0xC0 (a list holding one EMPTY change log) was accepted as the empty list of
    change logs, which is written 0xC0; a log cut after its NewVal did the same -/
theorem changelog_eol_refuted :
    decodeLogSlice false (.list [.list []]) = some [] ∧ encodeLogSlice [] = some (.list []) ∧
    encode (.list [.list []]) = [0xC1, 0xC0] ∧ encode (.list []) = [0xC0] ∧
    decodeLogSlice false (.list [.list [.bytes [1], .bytes (List.replicate 20 7), .bytes [1], .bytes [9]]]) = some [] := by
  refine ⟨rfl, rfl, by decide, by decide, rfl⟩

end
end Legacy

/-! ### address text form: "Lemo" + base26(address ++ xor check byte) -/

section AddressText
open LemoModel.Base26 LemoProofs.Base26Lemmas

/-- **address_text_roundtrip**: every 20-byte account address decodes back from its own text form
    (zero address and addresses with leading zero bytes included; decode target is a fresh address). -/
theorem address_text_roundtrip (a : List UInt8) (ha : a.length = 20) :
    addressDecodeChars (addressChars a) = .ok a := by
  unfold addressDecodeChars addressChars
  simp only [List.map_append, encode_upper]
  have hl : List.map Char.toUpper logo = logoUpper := by decide
  rw [hl, List.take_left' (by decide), List.drop_left' (by decide)]
  rw [if_neg (by simp), Base26Lemmas.decode_encode, stripZ_concat]
  by_cases hz : stripZ a = []
  · have hz' := stripZ_nil_imp a hz
    rw [hz, hz'.2]
    have : stripZ [0] = [] := by decide
    simp only [List.isEmpty_nil, if_true, this, List.getLast?_nil]
    rw [ha] at hz'
    rw [← hz'.1]
  · have hne : (stripZ a).isEmpty = false := by
      cases hs : stripZ a with
      | nil => exact absurd hs hz
      | cons x t => rfl
    rw [hne]
    simp only [Bool.false_eq_true, if_false, List.getLast?_concat, List.dropLast_concat]
    rw [checkSum_stripZ, if_neg (by simp)]
    unfold setBytes
    have hle := stripZ_length_le a
    simp only
    rw [if_neg (by omega)]
    have := replicate_stripZ a
    rw [ha] at this
    rw [this]

/-- decoding is case-insensitive: only the upper-cased text matters -/
theorem address_decode_case_insensitive (s₁ s₂ : List Char)
    (h : s₁.map Char.toUpper = s₂.map Char.toUpper) : addressDecodeChars s₁ = addressDecodeChars s₂ := by
  unfold addressDecodeChars
  simp only [h]

theorem digitsLE_length_le (k n : Nat) (h : n < 26 ^ k) : (digitsLE n).length ≤ k := by
  induction k generalizing n with
  | zero =>
    have : n = 0 := by simpa using h
    subst this; rw [digitsLE_zero]; simp
  | succ k ih =>
    by_cases h0 : n = 0
    · subst h0; rw [digitsLE_zero]; simp
    · rw [digitsLE_pos h0]
      have : n / 26 < 26 ^ k := by
        rw [Nat.pow_succ] at h
        exact Nat.div_lt_of_lt_mul (by rw [Nat.mul_comm]; exact h)
      have := ih (n / 26) this
      simp; omega

/-- the text form of an address always has 4 + 36 characters (256^21 < 26^36) -/
theorem address_text_length (a : List UInt8) (ha : a.length = 20) : (addressChars a).length = 40 := by
  unfold addressChars
  rw [List.length_append, encode_eq, List.length_append, List.length_replicate, List.length_reverse]
  have h1 := fromBE_lt (a ++ [checkSum a])
  rw [List.length_append, ha] at h1
  simp only [List.length_cons, List.length_nil] at h1
  have hpow : (256 : Nat) ^ (20 + (0 + 1)) < 26 ^ 36 := by decide
  have h2 : fromBE (a ++ [checkSum a]) < 26 ^ 36 := Nat.lt_trans h1 hpow
  have := digitsLE_length_le 36 _ h2
  have hl : logo.length = 4 := rfl
  omega

end AddressText

/-! ### the decoder really rejects the non-canonical forms (concrete witnesses, tests not theorems) -/

example : decode [0x81, 0x05] = .error .canonSize := by rfl            -- single byte < 0x80 wrapped in a string header
example : decode [0xb8, 0x01, 0x80] = .error .canonSize := by rfl      -- long form used for a size < 56
example : decode [0xb9, 0x00, 0x38] = .error .canonSize := by rfl      -- leading zero in the size
example : decode [0x05, 0x06] = .error .moreThanOne := by rfl          -- trailing bytes
example : decode [0x83, 0x01] = .error .valueTooLarge := by rfl        -- declared size exceeds the input
example : decode [] = .error .eof := by rfl
example : decodeUintTop 64 [0x82, 0x00, 0x05] = .error .canonInt := by rfl   -- integer with a leading zero
example : decodeUintTop 64 [0x00] = .error .canonInt := by rfl              -- zero is the empty string, not 0x00
example : decodeUintTop 8 [0x82, 0x01, 0x00] = .error .uintOverflow := by rfl
example : decodeBigTop [0x82, 0x00, 0x05] = .error .canonInt := by rfl

/-! ### a computable size bound (so that `length < 2^64` can be discharged by `decide` on concrete items) -/

mutual
  def weight : Item → Nat
    | .bytes b => b.length + 9
    | .list xs => weightList xs + 9
  def weightList : List Item → Nat
    | [] => 0
    | x :: xs => weight x + weightList xs
end

theorem encLen_length_le (off n : Nat) (h : n < 2 ^ 64) : (encLen off n).length ≤ 9 := by
  unfold encLen
  split
  · simp
  · have := toBE_len_8 h
    simp; omega

mutual
  theorem encode_length_le_weight : ∀ x : Item, weight x < 2 ^ 64 → (encode x).length ≤ weight x
    | .bytes b, h => by
      rw [weight] at h ⊢
      rw [encode]
      unfold encodeBytes
      split
      · split <;> simp [encLen]
      · have := encLen_length_le 128 b.length (by omega)
        simp; omega
    | .list xs, h => by
      rw [weight] at h ⊢
      rw [encode]
      have ih := encodeList_length_le_weight xs (by omega)
      have := encLen_length_le 192 (encodeList xs).length (by omega)
      simp; omega
  theorem encodeList_length_le_weight : ∀ xs : List Item, weightList xs < 2 ^ 64 → (encodeList xs).length ≤ weightList xs
    | [], _ => by simp [encodeList, weightList]
    | x :: xs, h => by
      rw [weightList] at h ⊢
      rw [encodeList]
      have h1 := encode_length_le_weight x (by omega)
      have h2 := encodeList_length_le_weight xs (by omega)
      simp; omega
end

theorem encode_small (x : Item) (h : weight x < 2 ^ 64) : (encode x).length < 2 ^ 64 :=
  Nat.lt_of_le_of_lt (encode_length_le_weight x h) h

/-! ### non-vacuity -/

-- the hypotheses of the typed `_reencode` instances are satisfiable (values built by the encoder)
example : ∃ b v, decodeTyped true deputyNodeSchema b = some v := by
  refine ⟨_, .list [.bytes (List.replicate 20 1), .bytes [1, 2], .nat 0, .nat 0],
    schema_roundtrip (s := deputyNodeSchema) rfl ?_⟩
  exact encode_small _ (by simp only [toBE_zero]; decide)
example : ∃ b v, decodeTyped true blockConfirmSchema b = some v := by
  refine ⟨_, .list [.bytes (List.replicate 32 1), .nat 0, .bytes (List.replicate 65 2)],
    schema_roundtrip (s := blockConfirmSchema) rfl ?_⟩
  exact encode_small _ (by simp only [toBE_zero]; decide)
example : ∃ b v, decodeTyped true blockConfirmsSchema b = some v := by
  refine ⟨_, .list [.nat 0, .bytes (List.replicate 32 1), .list [.bytes (List.replicate 65 2)]],
    schema_roundtrip (s := blockConfirmsSchema) rfl ?_⟩
  exact encode_small _ (by simp only [toBE_zero]; decide)
example : ∃ b v, decodeTyped true handshakeSchema b = some v := by
  refine ⟨_, .list [.nat 0, .bytes (List.replicate 32 1), .nat 0,
      .list [.nat 0, .bytes (List.replicate 32 1), .nat 0, .bytes (List.replicate 32 3)]],
    schema_roundtrip (s := handshakeSchema) rfl ?_⟩
  exact encode_small _ (by simp only [toBE_zero]; decide)
example : ∃ b v, decodeTyped true headerSchema b = some v := by
  refine ⟨_, .list [.bytes (List.replicate 32 1), .bytes (List.replicate 20 1), .bytes (List.replicate 32 1), .bytes [], .bytes [],
      .nat 0, .nat 0, .nat 0, .nat 0, .bytes [], .bytes [], .bytes []],
    schema_roundtrip (s := headerSchema) rfl ?_⟩
  exact encode_small _ (by simp only [toBE_zero]; decide)
-- a transaction with a nil `gasPayer` and a 20-byte `to`: the hypothesis of `tx_reencode` is satisfiable
example : ∃ b v, decodeTyped true txSchema b = some v := by
  refine ⟨_, .list [.nat 0, .nat 0, .nat 0, .bytes (List.replicate 20 1), .nil, .bytes (List.replicate 20 2), .bytes [],
      .nat 0, .nat 0, .nat 0, .nat 0, .bytes [], .nat 0, .bytes [], .list [], .list []],
    schema_roundtrip (s := txSchema) rfl ?_⟩
  exact encode_small _ (by simp only [toBE_zero]; decide)
-- the hypotheses of the custom-layer theorems are satisfiable
example : LemoProofs.RlpCustomLemmas.Sorted [([0x61], [1]), ([0x62], [2])] := by
  unfold LemoProofs.RlpCustomLemmas.Sorted; simp [LemoModel.RlpCustom.ltBytes]
example : ∃ it ps, LemoModel.RlpCustom.decodeProfile true it = some ps ∧ ps ≠ [] :=
  ⟨.list [LemoModel.RlpCustom.pairItem ([0x61], [1]), LemoModel.RlpCustom.pairItem ([0x62], [2])],
    [([0x61], [1]), ([0x62], [2])], by decide, by simp⟩
example : ∃ it l, LemoModel.RlpCustom.decodeChangeLog true it = some l :=
  ⟨logItem 3 (.bytes (List.replicate 32 1)) (.list []), _, rfl⟩
example : ∃ it l, LemoModel.RlpCustom.decodeChangeLog true it = some l :=          -- a CandidateLog with a two-key profile
  ⟨logItem 12 (.list [LemoModel.RlpCustom.pairItem ([0x61], [1]), LemoModel.RlpCustom.pairItem ([0x62], [2])]) (.list []), _, rfl⟩
example : ∃ it ls, LemoModel.RlpCustom.decodeLogSlice true it = some ls ∧ ls ≠ [] :=
  ⟨.list [logItem 3 (.bytes (List.replicate 32 1)) (.list [])], _, rfl, by simp⟩
example : ∃ it v, LemoModel.RlpCustom.decodeHeader true LemoModel.RlpCustom.emptyTrieHash it = some v :=
  ⟨.list [.bytes (List.replicate 32 0), .bytes (List.replicate 20 0), .bytes (List.replicate 32 0), .bytes (List.replicate 32 9), .bytes [],
         .bytes [], .bytes [], .bytes [], .bytes [], .bytes [], .bytes [], .bytes []], _, rfl⟩
example : ∃ l, WfLog l := by
  refine ⟨⟨3, List.replicate 20 7, 1, .v (.bytes (List.replicate 32 1)), .v .nil⟩, ?_⟩
  intro p q h
  cases h
  exact ⟨trivial, trivial⟩

example : ∃ b x, decode b = .ok x :=
  ⟨_, .list [.bytes [1], .list [], .bytes [0x80, 0x81]], decode_encode _ (by decide)⟩
example : encode (.list [.bytes [1], .list [], .bytes [0x80]]) = [0xc4, 0x01, 0xc0, 0x81, 0x80] := by decide
example : ∃ inp v r, decodeUint 32 inp = .ok (v, r) := ⟨_, 1024, [], decodeUint_encodeUint 32 1024 [] (by omega) (by omega) (by decide)⟩

end LemoProofs.C14

/-
  C14 (encodings round-trip and are canonical) — the account record `types.AccountData` and the blocks message.

  Model: LemoModel/RlpAccount.lean (on top of LemoModel/RlpSchema.lean / RlpCustom.lean), tied to the real code by the ops
  `typed accountdata <hex>`, `acctval <hex>`, `acctenc <fields>`, `typed blocksmsg <hex>`, `typed getblocks <hex>` and
  `schema rlpAccountData|GetBlocksData` of `hx c14` (harness/hx/c14_account.go).

  AccountData — what is proved, for the code as it is:
    accountData_roundtrip            decode (encode v) = some (norm v): the value comes back up to Go nil-ness (`norm`: nil
                                     pointer / map / slice → zero / empty), for every sort and every iteration order
    norm_idem, decoded_normal        `norm` is idempotent; decoded values are normal and their maps are maps
    accountData_encode_deterministic the encoding is a function of the VALUE: the same for every enumeration of the
                                     NewestRecords map and every correct sort (what /repo 07cd1f5 established)
    accountData_reencode_norm        encode (decode it) = some (wireNorm it) for EVERY accepted item: the decoder forgets
                                     TxHashList, TxCount, the order and the repetitions of the version records, nothing else
    accountData_reencode_partial     encode (decode it) = some it under the guard `acctStrict it`
    accountData_reencode_iff         … and the guard is exact
    accountData_refuted_*   kernel-checked witnesses, one per laxness (duplicate record, unsorted records, non-empty
                                     TxHashList, non-zero TxCount).  AccountData is stored, neither hashed nor sent: these
                                     are OBSERVATIONS (`info:accountdata-noncanonical-accept`), not findings.
    accountData_never_panics         the partial Go operations of DecodeRLP (two map assignments, one pointer dereference)
                                     are always inside their domain: the receiver is prepared
  Blocks message:
    blocksMsg_roundtrip / blocksMsg_reencode / blocksMsg_unique_encoding   list of blocks, no guard on the wire form
    getBlocks_reencode                                                       the request
  JSON (box payloads, the gencodec marshalers) is outside an RLP model: oracle only.
-/
import LemoProofs.C14
import LemoModel.RlpAccount
import LemoProofs.Lemmas.RlpAccountLemmas
namespace LemoProofs.C14Account
open LemoModel.Rlp LemoModel.RlpSchema LemoModel.RlpCustom LemoModel.RlpAccount
open LemoProofs.RlpBytes LemoProofs.RlpSchemaLemmas LemoProofs.RlpCustomLemmas LemoProofs.RlpAccountLemmas LemoProofs.C14

/-! ### the value side: round trip, normal form, determinism of the encoder -/

/-- representation invariants of an account VALUE (no guard on the code): its two Go maps are maps -/
def WfAcct (v : AccountV) : Prop := Sorted (v.profile.getD []) ∧ StrictRecs (v.records.getD [])

/-- `norm` is idempotent -/
theorem norm_idem (v : AccountV) : norm (norm v) = norm v := rfl

theorem norm_wf {v : AccountV} (h : WfAcct v) : WfAcct (norm v) := h

/-- the round trip for EVERY sort that meets `SortSpec` and EVERY iteration order `ord` of the map -/
theorem accountData_roundtrip_with {srt : List Rec → List Rec} {ord : List Rec} {v : AccountV} {it : Item}
    (hs : SortSpec srt) (hp : ord.Perm (v.records.getD [])) (hw : WfAcct v)
    (h : encodeAccountWith srt ord v = some it) : decodeAccount it = some (norm v) := by
  unfold encodeAccountWith at h
  rw [sort_enum_eq hs hp hw.2] at h
  split at h
  · rename_i a0 a2 a3 a4 a5 a6 a8 a11 a12 h0 h2 h3 h4 h5 h6 h8 h11 h12
    cases h
    have e7 : decListOf (decFixed 32) (.list []) = some [] := rfl
    have e10 : decUint 32 (.bytes []) = some 0 := decUint_enc (encUint_zero 32)
    have e11 : decListOf decRec a11 = some (v.records.getD []) :=
      decListOf_encListOf (fun a _ x hx => decRec_enc hx) h11
    have e12 : decListOf decSigner a12 = some (v.signers.getD []) :=
      decListOf_encListOf (fun a _ x hx => decSigner_enc hx) h12
    simp only [decodeAccount, decFixed_enc h0, decBigN_enc, decFixed_enc h2, decFixed_enc h3, decFixed_enc h4,
      decFixed_enc h5, decFixed_enc h6, e7, decFixed_enc h8, decCandidate_enc _ _ hw.1, e10, e11, e12,
      recsToMap_strict hw.2]
    rfl
  · cases h

/-- **accountData_roundtrip**: `decode (encode v) = some (norm v)` — every field of the account comes back; the only thing
    lost is Go nil-ness (a nil Balance / Votes reads back as 0, a nil map or slice as the empty one: `norm`).  `WfAcct` is a
    representation invariant of the value (its maps are maps), not a guard on the code. -/
theorem accountData_roundtrip {v : AccountV} {it : Item} (hw : WfAcct v) (h : encodeAccount v = some it) :
    decodeAccount it = some (norm v) :=
  accountData_roundtrip_with sortRecs_spec (List.Perm.refl _) hw h

/-- **accountData_encode_deterministic**: the encoding is a function of the account VALUE.  Whatever order the Go runtime
    picks for `range a.NewestRecords` (`ord₁`, `ord₂`: two enumerations of the same map) and whatever algorithm sorts the
    records (`srt₁`, `srt₂`: any two functions returning a sorted permutation), the encoder writes the same item.
    (Before /repo 07cd1f5 there was no sort: `Legacy.accountData_encode_order_dependent`.) -/
theorem accountData_encode_deterministic {srt₁ srt₂ : List Rec → List Rec} {ord₁ ord₂ : List Rec} (v : AccountV)
    (h₁ : SortSpec srt₁) (h₂ : SortSpec srt₂) (hm : StrictRecs (v.records.getD []))
    (hp₁ : ord₁.Perm (v.records.getD [])) (hp₂ : ord₂.Perm (v.records.getD [])) :
    encodeAccountWith srt₁ ord₁ v = encodeAccountWith srt₂ ord₂ v := by
  unfold encodeAccountWith
  rw [sort_enum_eq h₁ hp₁ hm, sort_enum_eq h₂ hp₂ hm]

/-- … in particular it is what the reference encoder `encodeAccount` (the one the driver runs) computes -/
theorem accountData_encode_eq_reference {srt : List Rec → List Rec} {ord : List Rec} (v : AccountV)
    (hs : SortSpec srt) (hm : StrictRecs (v.records.getD [])) (hp : ord.Perm (v.records.getD [])) :
    encodeAccountWith srt ord v = encodeAccount v :=
  accountData_encode_deterministic v hs sortRecs_spec hm hp (List.Perm.refl _)

/-- nil-ness is invisible on the wire: `v` and `norm v` have the same encoding -/
theorem accountData_encode_norm (v : AccountV) : encodeAccount (norm v) = encodeAccount v := rfl

/-! ### the wire side: what the decoder forgets -/

theorem mem_foldl_insertRec : ∀ (rs acc : List Rec) (a : Rec),
    a ∈ rs.foldl (fun m r => insertRec r m) acc → a ∈ acc ∨ a ∈ rs
  | [], _, _, h => Or.inl h
  | r :: rs, acc, a, h => by
    simp only [List.foldl_cons] at h
    rcases mem_foldl_insertRec rs _ a h with h1 | h1
    · rcases mem_insertRec h1 with h2 | h2
      · exact Or.inr (h2 ▸ List.mem_cons_self ..)
      · exact Or.inl h2
    · exact Or.inr (List.mem_cons_of_mem _ h1)

theorem mem_recsToMap {rs : List Rec} {a : Rec} (h : a ∈ recsToMap rs) : a ∈ rs := by
  rcases mem_foldl_insertRec rs [] a h with h1 | h1
  · cases h1
  · exact h1

theorem mem_decList {α : Type} {g : Item → Option α} : ∀ (xs : List Item) (l : List α), decList g xs = some l →
    ∀ a ∈ l, ∃ x, g x = some a
  | [], l, h, a, ha => by simp [decList] at h; subst h; cases ha
  | x :: xs, l, h, a, ha => by
    rw [decList] at h
    split at h
    · rename_i b bs h1 h2
      cases h
      rcases List.mem_cons.mp ha with h3 | h3
      · exact ⟨x, h3 ▸ h1⟩
      · exact mem_decList xs bs h2 a h3
    · cases h

theorem encList_total {α : Type} {f : α → Option Item} : ∀ (l : List α), (∀ a ∈ l, ∃ x, f a = some x) →
    ∃ xs, encList f l = some xs
  | [], _ => ⟨[], rfl⟩
  | a :: as, h => by
    obtain ⟨x, hx⟩ := h a (List.mem_cons_self ..)
    obtain ⟨xs, hxs⟩ := encList_total as (fun b hb => h b (List.mem_cons_of_mem _ hb))
    exact ⟨x :: xs, by simp [encList, hx, hxs]⟩

/-- the map built from decoded records can be written again -/
theorem encRecs_map_total {recs : Item} {rs : List Rec} (h : decListOf decRec recs = some rs) :
    ∃ x, encListOf encRec (recsToMap rs) = some x := by
  cases recs with
  | bytes b => simp [decListOf] at h
  | list xs =>
    simp only [decListOf] at h
    have hall : ∀ a ∈ recsToMap rs, ∃ x, encRec a = some x := by
      intro a ha
      obtain ⟨x, hx⟩ := mem_decList xs rs h a (mem_recsToMap ha)
      exact ⟨x, enc_decRec hx⟩
    obtain ⟨ys, hys⟩ := encList_total _ hall
    exact ⟨.list ys, by simp [encListOf, hys]⟩

/-- **accountData_reencode_norm**: for EVERY item the decoder accepts, re-encoding the decoded value yields `wireNorm it`:
    the item with TxHashList emptied, TxCount zeroed and the version records replaced by the sorted, duplicate-free list
    of the map they were folded into.  Every other element is reproduced exactly (the address, the five hashes, Balance,
    VoteFor, the candidate with its Profile and the signers are canonical on their own). -/
theorem accountData_reencode_norm {it : Item} {v : AccountV} (h : decodeAccount it = some v) :
    encodeAccount v = some (wireNorm it) := by
  unfold decodeAccount at h
  split at h
  · rename_i a0 a1 a2 a3 a4 a5 a6 a7 a8 a9 a10 a11 a12
    split at h
    · rename_i addr bal ch sr acr air er txl vf cand txc recs sgs h0 h1 h2 h3 h4 h5 h6 h7 h8 h9 h10 h11 h12
      cases h
      obtain ⟨x11, hx11⟩ := encRecs_map_total h11
      have hsort : sortRecs (recsToMap recs) = recsToMap recs :=
        sort_enum_eq sortRecs_spec (List.Perm.refl _) (recsToMap_isMap recs)
      have e12 : encListOf encSigner sgs = some a12 := encListOf_decListOf (fun x a hx => enc_decSigner hx) h12
      have e9 := (enc_decCandidate h9).1
      have hn : normRecs a11 = x11 := by simp [normRecs, h11, hx11]
      simp only [encodeAccount, encodeAccountWith, Option.getD_some, hsort, enc_decFixed h0, enc_decFixed h2,
        enc_decFixed h3, enc_decFixed h4, enc_decFixed h5, enc_decFixed h6, enc_decFixed h8, hx11, e12, enc_decBigN h1, e9,
        wireNorm, hn]
    · cases h
  · cases h

/-- decoded values are normal (no nil anywhere) and their maps are maps -/
theorem decoded_normal {it : Item} {v : AccountV} (h : decodeAccount it = some v) : norm v = v ∧ WfAcct v := by
  unfold decodeAccount at h
  split at h
  · split at h
    · rename_i addr bal ch sr acr air er txl vf cand txc recs sgs h0 h1 h2 h3 h4 h5 h6 h7 h8 h9 h10 h11 h12
      cases h
      exact ⟨rfl, (enc_decCandidate h9).2, recsToMap_isMap recs⟩
    · cases h
  · cases h

/-- under the guard the wire normal form is the item itself -/
theorem wireNorm_of_strict {it : Item} (hs : acctStrict it = true) : wireNorm it = it := by
  unfold acctStrict at hs
  split at hs
  · rename_i a0 a1 a2 a3 a4 a5 a6 a8 a9 recs a12
    split at hs
    · rename_i rs hrs
      have hst := strict_of_ascRecs rs hs
      have he : encListOf encRec rs = some recs := encListOf_decListOf (fun x a hx => enc_decRec hx) hrs
      simp [wireNorm, normRecs, hrs, recsToMap_strict hst, he]
    · cases hs
  · cases hs

/-- **accountData_reencode_partial**: `decode it = some v → encode v = some it` under the exact guard `acctStrict it`
    (TxHashList empty, TxCount zero, version records in strictly ascending log type order).
    The FULL statement (no guard) is false for the code as it is: `accountData_refuted_*`. -/
theorem accountData_reencode_partial {it : Item} {v : AccountV} (h : decodeAccount it = some v)
    (hs : acctStrict it = true) : encodeAccount v = some it := by
  rw [accountData_reencode_norm h, wireNorm_of_strict hs]

/-- the guard is exact: an accepted item that re-encodes to itself satisfies it -/
theorem accountData_reencode_guard_exact {it : Item} {v : AccountV} (h : decodeAccount it = some v)
    (he : encodeAccount v = some it) : acctStrict it = true := by
  have hn := accountData_reencode_norm h
  rw [he] at hn
  have hw : wireNorm it = it := (Option.some.inj hn).symm
  unfold decodeAccount at h
  split at h
  · rename_i a0 a1 a2 a3 a4 a5 a6 a7 a8 a9 a10 a11 a12
    split at h
    · rename_i addr bal ch sr acr air er txl vf cand txc recs sgs h0 h1 h2 h3 h4 h5 h6 h7 h8 h9 h10 h11 h12
      simp only [wireNorm, Item.list.injEq, List.cons.injEq, true_and, and_true] at hw
      obtain ⟨h7', h10', h11'⟩ := hw
      obtain ⟨x11, hx11⟩ := encRecs_map_total h11
      have hn11 : normRecs a11 = x11 := by simp [normRecs, h11, hx11]
      rw [hn11] at h11'
      subst h11'
      have hback : decListOf decRec x11 = some (recsToMap recs) :=
        decListOf_encListOf (fun a _ x hx => decRec_enc hx) hx11
      rw [h11] at hback
      have hrr : recs = recsToMap recs := Option.some.inj hback
      have hstrict : StrictRecs recs := hrr ▸ recsToMap_isMap recs
      simp [acctStrict, ← h7', ← h10', h11, ascRecs_of_strict recs hstrict]
    · cases h
  · cases h

/-- **accountData_reencode_iff**: for an accepted item, "re-encoding the decoded value yields the original item" holds
    exactly under `acctStrict` -/
theorem accountData_reencode_iff {it : Item} {v : AccountV} (h : decodeAccount it = some v) :
    encodeAccount v = some it ↔ acctStrict it = true :=
  ⟨accountData_reencode_guard_exact h, accountData_reencode_partial h⟩

/-- the wire normal form is accepted and decodes to the same value -/
theorem decode_wireNorm {it : Item} {v : AccountV} (h : decodeAccount it = some v) : decodeAccount (wireNorm it) = some v := by
  have hd := decoded_normal h
  have := accountData_roundtrip hd.2 (accountData_reencode_norm h)
  rw [hd.1] at this
  exact this

/-- `wireNorm` is idempotent on everything the decoder accepts, and its image satisfies the guard -/
theorem wireNorm_idem {it : Item} {v : AccountV} (h : decodeAccount it = some v) :
    wireNorm (wireNorm it) = wireNorm it ∧ acctStrict (wireNorm it) = true := by
  have h1 := accountData_reencode_norm h
  have h2 := accountData_reencode_norm (decode_wireNorm h)
  rw [h1] at h2
  exact ⟨(Option.some.inj h2).symm, accountData_reencode_guard_exact (decode_wireNorm h) h1⟩

/-- two accepted items denote the same account exactly when their wire normal forms coincide: the decoder's laxness is
    completely described by `wireNorm` -/
theorem accountData_same_value_iff {it₁ it₂ : Item} {v₁ v₂ : AccountV} (h₁ : decodeAccount it₁ = some v₁)
    (h₂ : decodeAccount it₂ = some v₂) : v₁ = v₂ ↔ wireNorm it₁ = wireNorm it₂ := by
  constructor
  · intro hv
    subst hv
    have e₁ := accountData_reencode_norm h₁
    have e₂ := accountData_reencode_norm h₂
    rw [e₁] at e₂
    exact Option.some.inj e₂
  · intro hw
    have d₁ := decode_wireNorm h₁
    have d₂ := decode_wireNorm h₂
    rw [hw, d₂] at d₁
    exact (Option.some.inj d₁).symm

/-! #### byte level (`rlp.DecodeBytes(val, &account)` / `rlp.EncodeToBytes(account)`: the store) -/

theorem accountData_bytes_roundtrip {v : AccountV} {b : List UInt8} (hw : WfAcct v) (h : encodeAccountBytes v = some b)
    (hb : b.length < 2 ^ 64) : decodeAccountBytes b = some (norm v) := by
  unfold encodeAccountBytes at h
  cases he : encodeAccount v with
  | none => simp [he] at h
  | some it =>
    simp only [he, Option.map_some, Option.some.injEq] at h
    subst h
    unfold decodeAccountBytes
    rw [decode_encode it hb]
    exact accountData_roundtrip hw he

/-- the stored bytes are reproduced exactly when their item satisfies the guard -/
theorem accountData_bytes_reencode_partial {v : AccountV} {b : List UInt8} {it : Item} (hd : decode b = .ok it)
    (h : decodeAccount it = some v) (hs : acctStrict it = true) : encodeAccountBytes v = some b := by
  unfold encodeAccountBytes
  rw [accountData_reencode_partial h hs]
  simp [canonical hd]

/-! #### the refutation witnesses of the full re-encoding statement (observations, see the header) -/

/-- a complete account item: address 01…, balance 5, five hashes 02…, VoteFor 03…, candidate (0 votes, empty profile),
    no signers; TxHashList, TxCount and the version records are the parameters -/
def acctItem (txs cnt recs : Item) : Item :=
  .list [.bytes (List.replicate 20 1), .bytes [5], .bytes (List.replicate 32 2), .bytes (List.replicate 32 2),
         .bytes (List.replicate 32 2), .bytes (List.replicate 32 2), .bytes (List.replicate 32 2), txs,
         .bytes (List.replicate 20 3), .list [.bytes [], .list []], cnt, recs, .list []]

def recItem (t v h : UInt8) : Item := .list [.bytes [t], .bytes [v], .bytes [h]]

/-- the shape of the refutations: accepted, and the decoded value encodes to a DIFFERENT item -/
def AcctRefuted (w : Item) : Prop :=
  ∃ v it', decodeAccount w = some v ∧ encodeAccount v = some it' ∧ it' ≠ w

theorem acctRefuted_of_not_strict {w : Item} (hd : (decodeAccount w).isSome = true) (hs : acctStrict w = false) :
    AcctRefuted w := by
  obtain ⟨v, hv⟩ := Option.isSome_iff_exists.mp hd
  refine ⟨v, wireNorm w, hv, accountData_reencode_norm hv, ?_⟩
  intro he
  have := accountData_reencode_guard_exact hv (he ▸ accountData_reencode_norm hv)
  rw [hs] at this
  cases this

/-- the canonical item of the witnesses below: one record (BalanceLog, version 2, height 3) -/
def acctCanon : Item := acctItem (.list []) (.bytes []) (.list [recItem 1 2 3])

example : acctStrict acctCanon = true := by decide
example : (decodeAccount acctCanon).isSome = true := by decide

/-- DUPLICATE version record: [(1,9,9), (1,2,3)] is accepted, the later record wins — the same account as `acctCanon` -/
theorem accountData_refuted_duplicate :
    AcctRefuted (acctItem (.list []) (.bytes []) (.list [recItem 1 9 9, recItem 1 2 3])) ∧
    decodeAccount (acctItem (.list []) (.bytes []) (.list [recItem 1 9 9, recItem 1 2 3])) = decodeAccount acctCanon :=
  ⟨acctRefuted_of_not_strict (by decide) (by decide), by decide⟩

/-- UNSORTED version records: [(2,1,1), (1,2,3)] is accepted and denotes the account written [(1,2,3), (2,1,1)] -/
theorem accountData_refuted_unsorted :
    AcctRefuted (acctItem (.list []) (.bytes []) (.list [recItem 2 1 1, recItem 1 2 3])) ∧
    decodeAccount (acctItem (.list []) (.bytes []) (.list [recItem 2 1 1, recItem 1 2 3])) =
      decodeAccount (acctItem (.list []) (.bytes []) (.list [recItem 1 2 3, recItem 2 1 1])) :=
  ⟨acctRefuted_of_not_strict (by decide) (by decide), by decide⟩

/-- non-empty TxHashList (an ignored field): accepted, same account as `acctCanon` -/
theorem accountData_refuted_txHashList :
    AcctRefuted (acctItem (.list [.bytes (List.replicate 32 7)]) (.bytes []) (.list [recItem 1 2 3])) ∧
    decodeAccount (acctItem (.list [.bytes (List.replicate 32 7)]) (.bytes []) (.list [recItem 1 2 3])) =
      decodeAccount acctCanon :=
  ⟨acctRefuted_of_not_strict (by decide) (by decide), by decide⟩

/-- non-zero TxCount (an ignored field): accepted, same account as `acctCanon` -/
theorem accountData_refuted_txCount :
    AcctRefuted (acctItem (.list []) (.bytes [7]) (.list [recItem 1 2 3])) ∧
    decodeAccount (acctItem (.list []) (.bytes [7]) (.list [recItem 1 2 3])) = decodeAccount acctCanon :=
  ⟨acctRefuted_of_not_strict (by decide) (by decide), by decide⟩

/-- the ignored fields are still DECODED: a TxHashList entry that is not a 32-byte string, or a TxCount with a leading
    zero, is an error -/
example : decodeAccount (acctItem (.list [.bytes [7]]) (.bytes []) (.list [])) = none := by decide
example : decodeAccount (acctItem (.list []) (.bytes [0, 7]) (.list [])) = none := by decide

/-! ### never a panic -/

theorem decodeAccount_length {xs : List Item} (h : xs.length ≠ 13) : decodeAccount (.list xs) = none := by
  unfold decodeAccount
  split
  · rename_i heq
    cases heq
    simp at h
  · rfl

theorem decodeAccount_cand_none {a0 a1 a2 a3 a4 a5 a6 a7 a8 a9 a10 a11 a12 : Item} (h : decCandidate a9 = none) :
    decodeAccount (.list [a0, a1, a2, a3, a4, a5, a6, a7, a8, a9, a10, a11, a12]) = none := by
  simp only [decodeAccount]
  split
  · rename_i h9 _ _ _
    rw [h] at h9
    cases h9
  · rfl

theorem decodeAccountChk_eq (it : Item) :
    decodeAccountChk (some []) true (some []) it = Out.ofOption (decodeAccount it) := by
  unfold decodeAccountChk
  split
  · rename_i a0 a1 a2 a3 a4 a5 a6 a7 a8 cv cp crest rest
    split
    · rename_i addr bal ch sr acr air er txl vf votes h0 h1 h2 h3 h4 h5 h6 h7 h8 hcv
      simp only [if_true, profileDecodeChk_some]
      cases hp : decodeProfile true cp with
      | none =>
        simp only [Option.map_none, Out.ofOption]
        cases crest with
        | nil =>
          by_cases hl : rest.length = 3
          · match rest, hl with
            | [a10, a11, a12], _ =>
              rw [decodeAccount_cand_none (by simp [decCandidate, hcv, hp])]
          · rw [decodeAccount_length (by simp; omega)]
        | cons c crest =>
          by_cases hl : rest.length = 3
          · match rest, hl with
            | [a10, a11, a12], _ =>
              rw [decodeAccount_cand_none (by simp [decCandidate])]
          · rw [decodeAccount_length (by simp; omega)]
      | some ps =>
        simp only [Option.map_some, Out.ofOption]
        cases crest with
        | cons c crest =>
          simp only
          by_cases hl : rest.length = 3
          · match rest, hl with
            | [a10, a11, a12], _ =>
              rw [decodeAccount_cand_none (by simp [decCandidate])]
          · rw [decodeAccount_length (by simp; omega)]
        | nil =>
          by_cases hl : rest.length = 3
          · match rest, hl with
            | [a10, a11, a12], _ =>
              have h9 : decCandidate (.list [cv, cp]) = some (votes, ps) := by simp [decCandidate, hcv, hp]
              simp only [decodeAccount, h0, h1, h2, h3, h4, h5, h6, h7, h8, h9]
              cases h10 : decUint 32 a10 <;> cases h11 : decListOf decRec a11 <;>
                cases h12 : decListOf decSigner a12 <;> simp only [recsLoopChk_some] <;> rfl
          · rw [decodeAccount_length (by simp; omega)]
            match rest, hl with
            | [], _ => rfl
            | [_], _ => rfl
            | [_, _], _ => rfl
            | _ :: _ :: _ :: _ :: _, _ => rfl
    · rename_i hno
      by_cases hl : rest.length = 3 ∧ crest = []
      · obtain ⟨hl, hc⟩ := hl
        subst hc
        match rest, hl with
        | [a10, a11, a12], _ =>
          simp only [decodeAccount]
          split
          · rename_i addr bal ch sr acr air er txl vf cand txc recs sgs h0 h1 h2 h3 h4 h5 h6 h7 h8 h9 h10 h11 h12
            exfalso
            cases hv : decBigN cv with
            | none => simp [decCandidate, hv] at h9
            | some votes => exact hno _ _ _ _ _ _ _ _ _ _ h0 h1 h2 h3 h4 h5 h6 h7 h8 hv
          · rfl
      · by_cases hl3 : rest.length = 3
        · have hc : crest ≠ [] := fun hc => hl ⟨hl3, hc⟩
          match rest, hl3 with
          | [a10, a11, a12], _ =>
            cases crest with
            | nil => exact absurd rfl hc
            | cons c crest => rw [decodeAccount_cand_none (by simp [decCandidate])]; rfl
        · rw [decodeAccount_length (by simp; omega)]; rfl
  · rename_i hno
    cases hd : decodeAccount it with
    | none => rfl
    | some v =>
      exfalso
      unfold decodeAccount at hd
      split at hd
      · rename_i a0 a1 a2 a3 a4 a5 a6 a7 a8 a9 a10 a11 a12
        split at hd
        · rename_i addr bal ch sr acr air er txl vf cand txc recs sgs h0 h1 h2 h3 h4 h5 h6 h7 h8 h9 h10 h11 h12
          unfold decCandidate at h9
          split at h9
          · exact hno _ _ _ _ _ _ _ _ _ _ _ _ _ rfl
          · cases h9
        · cases hd
      · cases hd

/-- **accountData_never_panics**: with the receiver as `AccountData.DecodeRLP` prepares it (a fresh profile map behind a
    non-nil pointer, a fresh NewestRecords map) the decoder with PARTIAL map assignments and pointer dereference never
    reaches the panic value, on any item — and it is the total decoder `decodeAccount` of the other theorems. -/
theorem accountData_never_panics (it : Item) :
    decodeAccountChk (some []) true (some []) it ≠ .panic ∧
    decodeAccountChk (some []) true (some []) it = Out.ofOption (decodeAccount it) := by
  refine ⟨?_, decodeAccountChk_eq it⟩
  rw [decodeAccountChk_eq]
  cases decodeAccount it <;> simp [Out.ofOption]

/-- the panic value is not decoration: WITHOUT the preparation the same decoder panics (a nil profile map and a profile
    with one pair; a nil NewestRecords map and one record) -/
example : decodeAccountChk none true (some []) (.list [.bytes (List.replicate 20 1), .bytes [5], .bytes (List.replicate 32 2),
    .bytes (List.replicate 32 2), .bytes (List.replicate 32 2), .bytes (List.replicate 32 2), .bytes (List.replicate 32 2),
    .list [], .bytes (List.replicate 20 3), .list [.bytes [], .list [pairItem ([0x6b], [0x76])]], .bytes [], .list [], .list []])
    = .panic := by decide
example : decodeAccountChk (some []) true none acctCanon = .panic := by decide

/-! ### the blocks message -/

/-- **blocksMsg_roundtrip** (item level): a list of blocks decodes from its own encoding to itself -/
theorem blocks_roundtrip (E : List UInt8) (bs : List BlockV) (it : Item) (h : encodeBlocks E bs = some it)
    (hw : ∀ b ∈ bs, WfBlock b) : decodeBlocks E it = some bs :=
  decListOf_encListOf (fun b hb x hx => block_roundtrip E b x hx (hw b hb)) h

/-- **blocksMsg_reencode** (item level, full): whatever the blocks decoder accepts re-encodes to exactly the accepted item -/
theorem blocks_reencode (E : List UInt8) (it : Item) (bs : List BlockV) (h : decodeBlocks E it = some bs) :
    encodeBlocks E bs = some it :=
  encListOf_decListOf (fun x b hx => block_reencode E x b hx) h

/-- **blocksMsg_roundtrip**: what `peer.SendBlocks` writes, `handleBlocksMsg` (`p2p.Msg.Decode`) reads back as the same
    blocks.  `WfBlock` holds representation invariants of the block values only (32-byte roots, profiles are maps). -/
theorem blocksMsg_roundtrip (E : List UInt8) (bs : List BlockV) (b : List UInt8) (h : encodeBlocksMsg E bs = some b)
    (hb : b.length < 2 ^ 64) (hw : ∀ x ∈ bs, WfBlock x) : decodeBlocksMsg E b = some bs := by
  unfold encodeBlocksMsg at h
  cases he : encodeBlocks E bs with
  | none => simp [he] at h
  | some it =>
    simp only [he, Option.map_some, Option.some.injEq] at h
    subst h
    unfold decodeBlocksMsg
    rw [decode_encode it hb]
    exact blocks_roundtrip E bs it he hw

/-- **blocksMsg_reencode** (the FULL statement, no guard): the blocks message that was received is, byte for byte, the
    encoding of the decoded blocks — so every block hash, transaction hash and change-log hash computed from the decoded
    blocks is the hash of received bytes. -/
theorem blocksMsg_reencode (E : List UInt8) (bs : List BlockV) (b : List UInt8) (h : decodeBlocksMsg E b = some bs) :
    encodeBlocksMsg E bs = some b := by
  unfold decodeBlocksMsg at h
  split at h
  · rename_i it hd
    unfold encodeBlocksMsg
    rw [blocks_reencode E it bs h]
    simp [canonical hd]
  · cases h

/-- one wire form per list of blocks -/
theorem blocksMsg_unique_encoding (E : List UInt8) (bs : List BlockV) (b₁ b₂ : List UInt8)
    (h₁ : decodeBlocksMsg E b₁ = some bs) (h₂ : decodeBlocksMsg E b₂ = some bs) : b₁ = b₂ := by
  have e₁ := blocksMsg_reencode E bs b₁ h₁
  have e₂ := blocksMsg_reencode E bs b₂ h₂
  rw [e₁] at e₂
  exact Option.some.inj e₂

/-- a blocks message holds as many blocks as its list has elements: no element is skipped or merged -/
theorem blocksMsg_length (E : List UInt8) (xs : List Item) (bs : List BlockV) (h : decodeBlocks E (.list xs) = some bs) :
    bs.length = xs.length := by
  have := blocks_reencode E _ bs h
  unfold encodeBlocks encListOf at this
  cases he : encList (encodeBlock E) bs with
  | none => simp [he] at this
  | some ys =>
    simp only [he, Option.map_some, Option.some.injEq, Item.list.injEq] at this
    subst this
    clear h
    induction bs generalizing ys with
    | nil => simp [encList] at he; subst he; rfl
    | cons b bs ih =>
      rw [encList] at he
      split at he
      · rename_i y ys' _ h2
        cases he
        simp [ih ys' h2]
      · cases he

/-- the request (`GetBlocksData{From, To}`): one wire form per request -/
theorem getBlocks_reencode {v : Val} {b : List UInt8} (h : decodeTyped true getBlocksSchema b = some v) :
    encodeTyped getBlocksSchema v = some b := schema_reencode h

/-! ### the code BEFORE 07cd1f5 (labelled witness, not registered) -/

namespace Legacy

/-- [before 07cd1f5, finding accountdata-encode-nondeterministic] without the sort the encoding followed the map iteration
    order: two enumerations of the same two-entry map gave two different items -/
theorem accountData_encode_order_dependent :
    ∃ (v : AccountV) (o₁ o₂ : List Rec) (i₁ i₂ : Item), o₁.Perm o₂ ∧ encodeAccountLegacy o₁ v = some i₁ ∧
      encodeAccountLegacy o₂ v = some i₂ ∧ i₁ ≠ i₂ := by
  refine ⟨{ address := List.replicate 20 1, balance := none, codeHash := List.replicate 32 2,
            storageRoot := List.replicate 32 2, assetCodeRoot := List.replicate 32 2, assetIdRoot := List.replicate 32 2,
            equityRoot := List.replicate 32 2, voteFor := List.replicate 20 3, votes := none, profile := none,
            records := some [(1, 0, 0), (2, 0, 0)], signers := none },
          [(1, 0, 0), (2, 0, 0)], [(2, 0, 0), (1, 0, 0)], _, _, List.Perm.swap _ _ _, rfl, rfl, ?_⟩
  intro h
  simp only [Item.list.injEq, List.cons.injEq, Item.bytes.injEq, and_true, true_and] at h
  have h1 := congrArg fromBE h.1
  rw [fromBE_toBE, fromBE_toBE] at h1
  cases h1

end Legacy

/-! ### non-vacuity -/

/-- a well-formed account with nil Balance, two version records, a profile and a signer: it can be encoded, and the round
    trip returns its normal form (Balance 0 instead of nil) -/
def sampleAcct : AccountV :=
  { address := List.replicate 20 1, balance := none, codeHash := List.replicate 32 2, storageRoot := List.replicate 32 2,
    assetCodeRoot := List.replicate 32 2, assetIdRoot := List.replicate 32 2, equityRoot := List.replicate 32 2,
    voteFor := List.replicate 20 3, votes := some 7, profile := some [([0x61], [0x62])],
    records := some [(1, 2, 3), (4, 5, 6)], signers := some [(List.replicate 20 9, 100)] }

example : WfAcct sampleAcct := by
  refine ⟨?_, ?_⟩
  · simp [sampleAcct, Sorted]
  · simp [sampleAcct, StrictRecs]

example : (encodeAccount sampleAcct).isSome = true := by
  simp [encodeAccount, encodeAccountWith, sampleAcct, encFixed, encUint, encodeS, encListOf, encList, encRec, encSigner,
    sortRecs, insertSorted]

example : norm sampleAcct ≠ sampleAcct := by decide
example : SortSpec sortRecs := sortRecs_spec
example : (decodeBlocks emptyTrieHash (.list [])) = some [] := rfl

end LemoProofs.C14Account

/-
  C15 — no bytes from the network crash the node or make it allocate without bound.

  Model: `LemoModel.Frame` (Peer.readConn / handle / unpackFrame / AesDecrypt / PKCS5UnPadding /
  CheckCode, readHandshakeBuf + ecies Decrypt length arithmetic), tied to /repo by `hx c15`.
  `dec` (AES-CBC decryption), `pointOk`, `macOk` (ECIES validity) are universally quantified
  parameters; `R` ranges over connections (`flat`, `chunked`, anything `Lawful`).

  The `…Fixed` definitions are THE CODE AS IT IS NOW (they are what the driver runs and what the
  correspondence sweep compares with /repo).  The un-suffixed `run`, `unpackFrame`, `hsStep`,
  `eciesOpen` are the code BEFORE the repair commits
      ba190d7 (aes.go: AesDecrypt length check)      1eafa5e (peer.go: unpackFrame ≥ 4 bytes)
      529e8a0 (handshake.go: MaxPackageLength bound)  fdba898 (ecies.go: whole IV block)

  HEADLINE — the FULL statements of the property, proved for the code as it is now:
  * parse_total        `parseFixed_total`, `parseFixed_total_chunked`: ∀ cipher, constants, byte
                       stream, segmentation: no event of the read loop is a panic.
  * hs_total           `hsFixed_total`: the pre-handshake reader never panics.
  * parse_alloc_bound  `parse_alloc_bound` (one read-loop step requests ≤ 6 + 2·MaxPackageLength;
                       `parse_alloc_complete`: a completely received frame of n bytes costs 6 + 2n)
                       and `hsFixed_alloc_bound` (same constant for the pre-handshake reader).
  * split_invariant    `split_invariant_fixed`, `hsFixed_split_invariant` (and the pre-repair forms).
  * code_range         `code_range_fixed`, `code_range_fixed_chunked`: only codes ≤ 0x1F, never the
                       heartbeat, reach the dispatcher.
  * `parseFixed_agrees`: the repairs change nothing on streams that did not crash the old code.
  * "at worst it drops the connection" — dropping must itself be safe when several goroutines do
    it at once (readLoop on garbage, handlePeer on the rejected message before it, heartbeatLoop,
    runPeer, UnRegister): `close_mutex_safe`, `close_exactly_once` (any number of closers, every
    schedule: no panic, stopCh closed exactly once), `close_race_free` (the same for the code as
    described by the regenerated fact table `Close.closeSites`), refutation without the mutex:
    `close_race_refuted` (two closers, check-check-close-close).

  DOCUMENTATION of what the repairs close (about the code before the commits above):
  * `parse_total_refuted_cryptBlocks` (7 bytes, any key), `parse_total_refuted_shortPlain`
    (22 bytes), `parse_total_false`; exact guard `parse_total_partial` / `parse_panic_of_unguarded`
    / `unpackFrame_panic_iff` (panic ⇔ some frame cut by the reader violates `FrameGuard`).
  * `hs_total_refuted` (104 bytes from an unauthenticated remote), exact guard
    `eciesOpen_panic_iff`, `hs_total_partial`.
  * `hs_alloc_bound_refuted` (6 bytes ⇒ 1 GiB), `hs_alloc_partial`.
  The same witnesses evaluated on the current model: `witness_*_now`.
-/
import LemoModel.Frame
import LemoProofs.Lemmas.FrameLemmas
import LemoProofs.Lemmas.CloseLemmas
namespace LemoProofs.C15
open LemoModel.Frame LemoProofs.FrameLemmas

/-! ### the guard under which the frame parser is total -/

/-- what a frame's content must satisfy for `unpackFrame` not to panic -/
def FrameGuard (dec : Bytes → Bytes) (c : Bytes) : Prop :=
  c.length % blockSize = 0 ∧ ∀ o, unpad (dec c) = some o → 4 ≤ o.length

theorem unpackFrame_panic_iff (dec : Bytes → Bytes) (c : Bytes) :
    (∃ s, unpackFrame dec c = .panic s) ↔ ¬ FrameGuard dec c := by
  unfold unpackFrame FrameGuard
  constructor
  · rintro ⟨s, hs⟩ ⟨h16, hg⟩
    simp only [h16, ne_eq, not_true_eq_false, if_false] at hs
    cases hu : unpad (dec c) with
    | none => rw [hu] at hs; cases hs
    | some o =>
      rw [hu] at hs
      have h4 := hg o hu
      have hlt := unpad_length_lt hu
      simp only at hs
      split at hs
      · omega
      · split at hs
        · cases hs
        · split at hs
          · omega
          · cases hs
  · intro hng
    by_cases h16 : c.length % blockSize = 0
    · simp only [h16, ne_eq, not_true_eq_false, if_false]
      have : ∃ o, unpad (dec c) = some o ∧ o.length < 4 := by
        apply Classical.byContradiction
        intro hne
        apply hng
        refine ⟨h16, ?_⟩
        intro o ho
        apply Classical.byContradiction
        intro h
        exact hne ⟨o, ho, by omega⟩
      obtain ⟨o, ho, hlt⟩ := this
      rw [ho]
      simp only
      by_cases hd : (dec c).length < 4
      · exact ⟨.sliceCode, by simp [hd]⟩
      · refine ⟨.slicePayload, ?_⟩
        have h1 : ¬ o.length = 4 := by omega
        simp [hd, h1, hlt]
    · exact ⟨.cryptBlocks, by simp [h16]⟩

/-- with a length-preserving cipher the `originData[:4]` site is dead code: the capacity of the
    unpadded slice is the (non-zero, multiple of 16) content length -/
theorem sliceCode_unreachable (dec : Bytes → Bytes) (hdec : ∀ c, (dec c).length = c.length) (c : Bytes) :
    unpackFrame dec c ≠ .panic .sliceCode := by
  unfold unpackFrame
  intro h
  split at h
  · cases h
  · rename_i h16
    simp only at h
    split at h
    · cases h
    · rename_i o hu
      split at h
      · rename_i hd
        have hlt := unpad_length_lt hu
        rw [hdec c] at hd hlt
        simp only [ne_eq, Decidable.not_not] at h16
        unfold blockSize at h16
        omega
      · split at h
        · cases h
        · split at h <;> cases h

theorem handle_panic_iff (dec : Bytes → Bytes) (c : Bytes) :
    (∃ s, handle dec c = .panic s) ↔ ¬ FrameGuard dec c := by
  rw [← unpackFrame_panic_iff]
  unfold handle handleWith
  constructor
  · rintro ⟨s, hs⟩
    cases hu : unpackFrame dec c with
    | panic s' => exact ⟨s', rfl⟩
    | err e => rw [hu] at hs; cases hs
    | ok code p =>
      rw [hu] at hs
      simp only at hs
      split at hs
      · cases hs
      · split at hs <;> cases hs
  · rintro ⟨s, hs⟩
    exact ⟨s, by rw [hs]⟩

/-- the contents the read loop hands to `handle` (it stops where `runWith` stops) -/
def contentsWith {σ : Type} (h : Bytes → Handled) (R : Reader σ) (cfg : Cfg) : Nat → σ → List Bytes
  | 0, _ => []
  | fuel + 1, st =>
    match readConn R cfg st with
    | .content c st' _ =>
      c :: (match h c with
            | .heartbeat => contentsWith h R cfg fuel st'
            | .deliver _ _ => contentsWith h R cfg fuel st'
            | _ => [])
    | _ => []

def contents (dec : Bytes → Bytes) (cfg : Cfg) (s : Bytes) : List Bytes :=
  contentsWith (handle dec) flat cfg (s.length + 1) s

theorem runWith_no_panic_of_guard {σ : Type} (dec : Bytes → Bytes) (R : Reader σ) (cfg : Cfg) :
    ∀ (fuel : Nat) (st : σ), (∀ c ∈ contentsWith (handle dec) R cfg fuel st, FrameGuard dec c) →
      ∀ ev ∈ runWith (handle dec) R cfg fuel st, ev.isPanic = false := by
  intro fuel
  induction fuel with
  | zero => intro st _ ev hev; simp [runWith] at hev; subst hev; rfl
  | succ k ih =>
    intro st hg ev hev
    unfold runWith frameStepWith at hev
    unfold contentsWith at hg
    cases hr : readConn R cfg st with
    | needMore a => rw [hr] at hev; simp at hev; subst hev; rfl
    | err e a => rw [hr] at hev; simp at hev; subst hev; rfl
    | content c st' a =>
      rw [hr] at hev hg
      simp only at hev hg
      have hgc : FrameGuard dec c := hg c (by simp)
      cases hh : handle dec c with
      | panic s => exact absurd ((handle_panic_iff dec c).mp ⟨s, hh⟩) (by simpa using hgc)
      | err e => rw [hh] at hev; simp at hev; subst hev; rfl
      | heartbeat =>
        rw [hh] at hev hg
        simp only [List.mem_cons] at hev
        rcases hev with rfl | hev
        · rfl
        · exact ih st' (fun c' hc' => hg c' (by simp [hc'])) ev hev
      | deliver code p =>
        rw [hh] at hev hg
        simp only [List.mem_cons] at hev
        rcases hev with rfl | hev
        · rfl
        · exact ih st' (fun c' hc' => hg c' (by simp [hc'])) ev hev

theorem runWith_panic_of_unguarded {σ : Type} (dec : Bytes → Bytes) (R : Reader σ) (cfg : Cfg) :
    ∀ (fuel : Nat) (st : σ), (∃ c ∈ contentsWith (handle dec) R cfg fuel st, ¬ FrameGuard dec c) →
      ∃ s, Ev.panic s ∈ runWith (handle dec) R cfg fuel st := by
  intro fuel
  induction fuel with
  | zero => intro st ⟨c, hc, _⟩; simp [contentsWith] at hc
  | succ k ih =>
    intro st ⟨c0, hc0, hng⟩
    unfold contentsWith at hc0
    unfold runWith frameStepWith
    cases hr : readConn R cfg st with
    | needMore a => rw [hr] at hc0; simp at hc0
    | err e a => rw [hr] at hc0; simp at hc0
    | content c st' a =>
      rw [hr] at hc0
      simp only at hc0 ⊢
      cases hh : handle dec c with
      | panic s => exact ⟨s, by simp⟩
      | err e =>
        rw [hh] at hc0
        simp only [List.mem_cons, List.not_mem_nil, or_false] at hc0
        subst hc0
        obtain ⟨s, hs⟩ := (handle_panic_iff dec c0).mpr hng
        rw [hs] at hh; cases hh
      | heartbeat =>
        rw [hh] at hc0
        simp only [List.mem_cons] at hc0
        rcases hc0 with rfl | hc0
        · obtain ⟨s, hs⟩ := (handle_panic_iff dec c0).mpr hng
          rw [hs] at hh; cases hh
        · obtain ⟨s, hs⟩ := ih st' ⟨c0, hc0, hng⟩
          exact ⟨s, by simp [hs]⟩
      | deliver code p =>
        rw [hh] at hc0
        simp only [List.mem_cons] at hc0
        rcases hc0 with rfl | hc0
        · obtain ⟨s, hs⟩ := (handle_panic_iff dec c0).mpr hng
          rw [hs] at hh; cases hh
        · obtain ⟨s, hs⟩ := ih st' ⟨c0, hc0, hng⟩
          exact ⟨s, by simp [hs]⟩

/-- (code before commits ba190d7 / 1eafa5e) PARTIAL form of `parse_total`: if every frame the reader cuts out of the stream has a content
    length that is a multiple of 16 and (when the padding is valid) at least 4 bytes of plaintext,
    the read loop does not panic. -/
theorem parse_total_partial (dec : Bytes → Bytes) (cfg : Cfg) (s : Bytes)
    (hg : ∀ c ∈ contents dec cfg s, FrameGuard dec c) :
    ∀ ev ∈ run dec cfg s, ev.isPanic = false :=
  runWith_no_panic_of_guard dec flat cfg (s.length + 1) s hg

/-- (code before commits ba190d7 / 1eafa5e) the guard is exact: one unguarded frame and the
    process dies -/
theorem parse_panic_of_unguarded (dec : Bytes → Bytes) (cfg : Cfg) (s : Bytes)
    (hg : ∃ c ∈ contents dec cfg s, ¬ FrameGuard dec c) :
    ∃ site, Ev.panic site ∈ run dec cfg s :=
  runWith_panic_of_unguarded dec flat cfg (s.length + 1) s hg

/-! ### refutations of `parse_total` on the code before commits ba190d7 / 1eafa5e -/

/-- the code before commit ba190d7: `5a 48 | 00 00 00 01 | ff` — whatever the session key:
    CryptBlocks on 1 byte -/
theorem parse_total_refuted_cryptBlocks (dec : Bytes → Bytes) :
    run dec realCfg [0x5a, 0x48, 0, 0, 0, 1, 0xff] = [.panic .cryptBlocks] := by
  rfl

/-- the code before commit 1eafa5e: a correctly encrypted frame whose plaintext is empty (one block
    of padding 0x10): `originData[:4]` succeeds (capacity 16) and `originData[4:]` panics -/
theorem parse_total_refuted_shortPlain :
    run id realCfg ([0x5a, 0x48, 0, 0, 0, 16] ++ List.replicate 16 0x10) = [.panic .slicePayload] := by
  decide

/-- the full statement is false for the code before commits ba190d7 / 1eafa5e -/
theorem parse_total_false :
    ¬ (∀ (dec : Bytes → Bytes) (cfg : Cfg) (s : Bytes), ∀ ev ∈ run dec cfg s, ev.isPanic = false) := by
  intro h
  have := h id realCfg [0x5a, 0x48, 0, 0, 0, 1, 0xff] (.panic .cryptBlocks)
    (by rw [parse_total_refuted_cryptBlocks]; simp)
  cases this

/-- hypotheses of `parse_total_partial` are satisfiable by a non-trivial stream:
    code 5 with a 3-byte payload, then a heartbeat -/
example :
    run id realCfg ([0x5a, 0x48, 0, 0, 0, 16, 0, 0, 0, 5, 1, 2, 3, 9, 9, 9, 9, 9, 9, 9, 9, 9]
      ++ [0x5a, 0x48, 0, 0, 0, 16, 0, 0, 0, 1, 12, 12, 12, 12, 12, 12, 12, 12, 12, 12, 12, 12])
      = [.msg 5 3, .hb, .needMore] := by decide

/-! ### the parser as coded now is total, and agrees with the old code on guarded streams -/

theorem unpackFrameFixed_no_panic (dec : Bytes → Bytes) (c : Bytes) (s : Site) :
    unpackFrameFixed dec c ≠ .panic s := by
  unfold unpackFrameFixed
  intro h
  split at h
  · cases h
  · simp only at h
    split at h
    · cases h
    · split at h
      · cases h
      · split at h <;> cases h

theorem handleWith_no_panic (u : Bytes → Unpacked) (hu : ∀ c s, u c ≠ .panic s) (c : Bytes) (s : Site) :
    handleWith u c ≠ .panic s := by
  unfold handleWith
  intro h
  cases hc : u c with
  | panic s' => exact hu c s' hc
  | err e => rw [hc] at h; cases h
  | ok code p =>
    rw [hc] at h
    simp only at h
    split at h
    · cases h
    · split at h <;> cases h

theorem runWith_no_panic {σ : Type} (h : Bytes → Handled) (hh : ∀ c s, h c ≠ .panic s) (R : Reader σ) (cfg : Cfg) :
    ∀ (fuel : Nat) (st : σ), ∀ ev ∈ runWith h R cfg fuel st, ev.isPanic = false := by
  intro fuel
  induction fuel with
  | zero => intro st ev hev; simp [runWith] at hev; subst hev; rfl
  | succ k ih =>
    intro st ev hev
    unfold runWith frameStepWith at hev
    cases hr : readConn R cfg st with
    | needMore a => rw [hr] at hev; simp at hev; subst hev; rfl
    | err e a => rw [hr] at hev; simp at hev; subst hev; rfl
    | content c st' a =>
      rw [hr] at hev
      simp only at hev
      cases hc : h c with
      | panic s => exact absurd hc (hh c s)
      | err e => rw [hc] at hev; simp at hev; subst hev; rfl
      | heartbeat =>
        rw [hc] at hev
        simp only [List.mem_cons] at hev
        rcases hev with rfl | hev
        · rfl
        · exact ih st' ev hev
      | deliver code p =>
        rw [hc] at hev
        simp only [List.mem_cons] at hev
        rcases hev with rfl | hev
        · rfl
        · exact ih st' ev hev

/-- HEADLINE. FULL `parse_total` for the parser as coded now: every cipher, every constant, every
    byte stream, flat or segmented -/
theorem parseFixed_total (dec : Bytes → Bytes) (cfg : Cfg) (s : Bytes) :
    ∀ ev ∈ runFixed dec cfg s, ev.isPanic = false :=
  runWith_no_panic (handleFixed dec)
    (handleWith_no_panic _ (unpackFrameFixed_no_panic dec)) flat cfg (s.length + 1) s

theorem parseFixed_total_chunked (dec : Bytes → Bytes) (cfg : Cfg) (cs : List Bytes) :
    ∀ ev ∈ runFixedC dec cfg cs, ev.isPanic = false :=
  runWith_no_panic (handleFixed dec)
    (handleWith_no_panic _ (unpackFrameFixed_no_panic dec)) chunked cfg (cs.flatten.length + 1) cs

theorem unpackFrameFixed_eq_of_guard (dec : Bytes → Bytes) (c : Bytes) (hg : FrameGuard dec c) :
    unpackFrameFixed dec c = unpackFrame dec c := by
  obtain ⟨h16, h4⟩ := hg
  unfold unpackFrameFixed unpackFrame
  simp only [h16, ne_eq, not_true_eq_false, if_false]
  cases hu : unpad (dec c) with
  | none => rfl
  | some o =>
    have ho := h4 o hu
    have hlt := unpad_length_lt hu
    have hc := codeOf_unpad hu ho
    simp only
    have h1 : ¬ o.length < 4 := by omega
    have h2 : ¬ (dec c).length < 4 := by omega
    simp only [h1, h2, if_false, hc]

theorem runWith_fixed_agrees {σ : Type} (dec : Bytes → Bytes) (R : Reader σ) (cfg : Cfg) :
    ∀ (fuel : Nat) (st : σ), (∀ c ∈ contentsWith (handle dec) R cfg fuel st, FrameGuard dec c) →
      runWith (handleFixed dec) R cfg fuel st = runWith (handle dec) R cfg fuel st := by
  intro fuel
  induction fuel with
  | zero => intro st _; rfl
  | succ k ih =>
    intro st hg
    unfold contentsWith at hg
    unfold runWith frameStepWith
    cases hr : readConn R cfg st with
    | needMore a => rfl
    | err e a => rfl
    | content c st' a =>
      rw [hr] at hg
      simp only at hg ⊢
      have hgc : FrameGuard dec c := hg c (by simp)
      have heq : handleFixed dec c = handle dec c := by
        unfold handleFixed handle handleWith
        rw [unpackFrameFixed_eq_of_guard dec c hgc]
      rw [heq]
      cases hh : handle dec c with
      | panic s => rfl
      | err e => rfl
      | heartbeat =>
        rw [hh] at hg
        simp only
        rw [ih st' (fun c' hc' => hg c' (by simp [hc']))]
      | deliver code p =>
        rw [hh] at hg
        simp only
        rw [ih st' (fun c' hc' => hg c' (by simp [hc']))]

/-- the repairs change nothing on streams that did not crash the code before them -/
theorem parseFixed_agrees (dec : Bytes → Bytes) (cfg : Cfg) (s : Bytes)
    (hg : ∀ c ∈ contents dec cfg s, FrameGuard dec c) :
    runFixed dec cfg s = run dec cfg s :=
  runWith_fixed_agrees dec flat cfg (s.length + 1) s hg

/-! ### code_range -/

theorem handleWith_deliver (u : Bytes → Unpacked) (c : Bytes) (code : Nat) (p : Bytes)
    (h : handleWith u c = .deliver code p) : code ≤ maxCode ∧ code ≠ heartbeatCode := by
  unfold handleWith at h
  cases hc : u c with
  | panic s => rw [hc] at h; cases h
  | err e => rw [hc] at h; cases h
  | ok code' p' =>
    rw [hc] at h
    simp only at h
    split at h
    · cases h
    · rename_i hle
      split at h
      · cases h
      · rename_i hne
        cases h
        exact ⟨by omega, hne⟩

theorem runWith_code_range {σ : Type} (u : Bytes → Unpacked) (R : Reader σ) (cfg : Cfg) :
    ∀ (fuel : Nat) (st : σ) (code n : Nat), Ev.msg code n ∈ runWith (handleWith u) R cfg fuel st →
      code ≤ 0x1F ∧ code ≠ 1 := by
  intro fuel
  induction fuel with
  | zero => intro st code n hev; simp [runWith] at hev
  | succ k ih =>
    intro st code n hev
    unfold runWith frameStepWith at hev
    cases hr : readConn R cfg st with
    | needMore a => rw [hr] at hev; simp at hev
    | err e a => rw [hr] at hev; simp at hev
    | content c st' a =>
      rw [hr] at hev
      simp only at hev
      cases hc : handleWith u c with
      | panic s => rw [hc] at hev; simp at hev
      | err e => rw [hc] at hev; simp at hev
      | heartbeat =>
        rw [hc] at hev
        simp only [List.mem_cons] at hev
        rcases hev with hev | hev
        · cases hev
        · exact ih st' code n hev
      | deliver code' p =>
        rw [hc] at hev
        simp only [List.mem_cons] at hev
        rcases hev with hev | hev
        · cases hev
          exact handleWith_deliver u c _ _ hc
        · exact ih st' code n hev

/-- FULL: only codes ≤ 0x1F (and never the heartbeat code) reach the dispatcher — before and after
    the repairs, on flat and segmented connections. -/
theorem code_range (dec : Bytes → Bytes) (cfg : Cfg) (s : Bytes) (code n : Nat)
    (h : Ev.msg code n ∈ run dec cfg s) : code ≤ 0x1F ∧ code ≠ 1 :=
  runWith_code_range (unpackFrame dec) flat cfg (s.length + 1) s code n h

theorem code_range_chunked (dec : Bytes → Bytes) (cfg : Cfg) (cs : List Bytes) (code n : Nat)
    (h : Ev.msg code n ∈ runC dec cfg cs) : code ≤ 0x1F ∧ code ≠ 1 :=
  runWith_code_range (unpackFrame dec) chunked cfg (cs.flatten.length + 1) cs code n h

theorem code_range_fixed (dec : Bytes → Bytes) (cfg : Cfg) (s : Bytes) (code n : Nat)
    (h : Ev.msg code n ∈ runFixed dec cfg s) : code ≤ 0x1F ∧ code ≠ 1 :=
  runWith_code_range (unpackFrameFixed dec) flat cfg (s.length + 1) s code n h

theorem code_range_fixed_chunked (dec : Bytes → Bytes) (cfg : Cfg) (cs : List Bytes) (code n : Nat)
    (h : Ev.msg code n ∈ runFixedC dec cfg cs) : code ≤ 0x1F ∧ code ≠ 1 :=
  runWith_code_range (unpackFrameFixed dec) chunked cfg (cs.flatten.length + 1) cs code n h

/-! ### split_invariant -/

theorem runC_eq_run (dec : Bytes → Bytes) (cfg : Cfg) (cs : List Bytes) :
    runC dec cfg cs = run dec cfg cs.flatten :=
  runWith_sim chunked_sim (handle dec) cfg (cs.flatten.length + 1) cs

/-- FULL: the outcome depends only on the bytes, not on how TCP cut them into reads -/
theorem split_invariant (dec : Bytes → Bytes) (cfg : Cfg) (cs cs' : List Bytes)
    (h : cs.flatten = cs'.flatten) : runC dec cfg cs = runC dec cfg cs' := by
  rw [runC_eq_run, runC_eq_run, h]

theorem split_invariant_fixed (dec : Bytes → Bytes) (cfg : Cfg) (cs cs' : List Bytes)
    (h : cs.flatten = cs'.flatten) : runFixedC dec cfg cs = runFixedC dec cfg cs' := by
  unfold runFixedC
  rw [runWith_sim chunked_sim (handleFixed dec) cfg (cs.flatten.length + 1) cs,
    runWith_sim chunked_sim (handleFixed dec) cfg (cs'.flatten.length + 1) cs', h]

theorem hs_split_invariant (pointOk macOk : Bytes → Bool) (cfg : Cfg) (cs cs' : List Bytes)
    (h : cs.flatten = cs'.flatten) :
    hsStep pointOk macOk cfg chunked cs = hsStep pointOk macOk cfg chunked cs' := by
  unfold hsStep
  rw [hsStepWith_sim chunked_sim _ _ cs, hsStepWith_sim chunked_sim _ _ cs', h]

theorem hsFixed_split_invariant (pointOk macOk : Bytes → Bool) (cfg : Cfg) (cs cs' : List Bytes)
    (h : cs.flatten = cs'.flatten) :
    hsStepFixed pointOk macOk cfg chunked cs = hsStepFixed pointOk macOk cfg chunked cs' := by
  unfold hsStepFixed
  rw [hsStepWith_sim chunked_sim _ _ cs, hsStepWith_sim chunked_sim _ _ cs', h]

/-! ### parse_alloc_bound (frame reader) -/

theorem readConn_content {σ : Type} (R : Reader σ) (hR : Lawful R) (cfg : Cfg) (st st' : σ) (c : Bytes) (a : Nat)
    (h : readConn R cfg st = .content c st' a) : a = 6 + c.length ∧ c.length ≤ cfg.maxLen ∧ 0 < c.length := by
  unfold readConn at h
  split at h
  · cases h
  · rename_i hd st1 h6
    simp only at h
    split at h
    · cases h
    · split at h
      · cases h
      · rename_i hz
        split at h
        · cases h
        · rename_i hmax
          split at h
          · cases h
          · rename_i c' st2 hl
            cases h
            have := hR _ _ _ _ hl
            omega

theorem readConn_shape {σ : Type} (R : Reader σ) (cfg : Cfg) (st : σ) :
    (∃ a, readConn R cfg st = .needMore a ∧ a ≤ 6 + cfg.maxLen) ∨
    (∃ e, readConn R cfg st = .err e 6) ∨
    (∃ c st' a, readConn R cfg st = .content c st' a ∧ a ≤ 6 + cfg.maxLen) := by
  unfold readConn
  cases h6 : R.readFull 6 st with
  | none => exact Or.inl ⟨6, rfl, Nat.le_add_right 6 _⟩
  | some q =>
    obtain ⟨hd, st1⟩ := q
    simp only
    by_cases hm : hd.getD 0 0 ≠ magic0 ∨ hd.getD 1 0 ≠ magic1
    · rw [if_pos hm]; exact Or.inr (Or.inl ⟨_, rfl⟩)
    · rw [if_neg hm]
      generalize be32 (hd.getD 2 0) (hd.getD 3 0) (hd.getD 4 0) (hd.getD 5 0) = len
      by_cases hz : len = 0
      · rw [if_pos hz]; exact Or.inr (Or.inl ⟨_, rfl⟩)
      · rw [if_neg hz]
        by_cases hmax : len > cfg.maxLen
        · rw [if_pos hmax]; exact Or.inr (Or.inl ⟨_, rfl⟩)
        · rw [if_neg hmax]
          have hle : 6 + len ≤ 6 + cfg.maxLen := Nat.add_le_add_left (Nat.le_of_not_gt hmax) 6
          cases R.readFull len st1 with
          | none => exact Or.inl ⟨_, rfl, hle⟩
          | some r => exact Or.inr (Or.inr ⟨_, _, _, rfl, hle⟩)

theorem readConn_alloc_le {σ : Type} (R : Reader σ) (cfg : Cfg) (st : σ) :
    (readConn R cfg st).alloc ≤ 6 + cfg.maxLen := by
  rcases readConn_shape R cfg st with ⟨a, h, ha⟩ | ⟨e, h⟩ | ⟨c, st', a, h, ha⟩
  · rw [h]; exact ha
  · rw [h]; exact Nat.le_add_right 6 _
  · rw [h]; exact ha

/-- FULL for the frame reader: whatever arrives, one iteration of the read loop requests at most
    6 + 2·MaxPackageLength bytes (header, content buffer, decryption buffer) -/
theorem parse_alloc_bound {σ : Type} (h : Bytes → Handled) (R : Reader σ) (hR : Lawful R) (cfg : Cfg) (st : σ) :
    (frameStepWith h R cfg st).alloc ≤ 6 + 2 * cfg.maxLen := by
  unfold frameStepWith
  have hle := readConn_alloc_le R cfg st
  cases hr : readConn R cfg st with
  | needMore a => rw [hr] at hle; simp only [ReadRes.alloc] at hle ⊢; omega
  | err e a => rw [hr] at hle; simp only [ReadRes.alloc] at hle ⊢; omega
  | content c st' a =>
    obtain ⟨ha, hc, _⟩ := readConn_content R hR cfg st st' c a hr
    simp only
    cases h c <;> simp only <;> omega

/-- a frame that was received completely costs exactly twice its content plus the header -/
theorem parse_alloc_complete {σ : Type} (h : Bytes → Handled) (R : Reader σ) (hR : Lawful R) (cfg : Cfg)
    (st st' : σ) (c : Bytes) (a : Nat) (hr : readConn R cfg st = .content c st' a) :
    (frameStepWith h R cfg st).alloc = 6 + 2 * c.length := by
  unfold frameStepWith
  obtain ⟨ha, _, _⟩ := readConn_content R hR cfg st st' c a hr
  rw [hr]
  simp only
  cases h c <;> simp only <;> omega

/-! ### the pre-handshake reader -/

theorem eciesOpen_alloc_le (p m : Bytes → Bool) (c : Bytes) : (eciesOpen p m c).2 ≤ c.length := by
  unfold eciesOpen
  split
  · simp
  · simp only
    split
    · simp
    · split
      · simp
      · split
        · simp
        · split
          · simp
          · split
            · simp
            · simp only; omega

theorem eciesOpenFixed_alloc_le (p m : Bytes → Bool) (c : Bytes) : (eciesOpenFixed p m c).2 ≤ c.length := by
  unfold eciesOpenFixed
  split
  · simp
  · simp only
    split
    · simp
    · split
      · simp
      · split
        · simp
        · split
          · simp
          · simp only; omega

theorem hsStepWith_alloc_le {σ : Type} (o : Bytes → HsOut × Nat) (ho : ∀ c, (o c).2 ≤ c.length)
    (lim : Nat) (R : Reader σ) (hR : Lawful R) (st : σ) :
    (hsStepWith o lim R st).alloc ≤ 6 + 2 * lim := by
  unfold hsStepWith
  split
  · simp only; omega
  · simp only
    split
    · simp only; omega
    · split
      · simp only; omega
      · split
        · simp only; omega
        · rename_i hlim
          split
          · simp only; omega
          · rename_i c st3 hl
            have h1 := hR _ _ _ _ hl
            have h2 := ho c
            simp only
            omega

/-- the code before commit 529e8a0: the FULL bound demanded of the pre-handshake reader (same
    constant as for frames) is FALSE: six bytes from an unauthenticated remote make the node
    request 1 GiB -/
theorem hs_alloc_bound_refuted (p m : Bytes → Bool) :
    (hsStep p m realCfg flat [0x5a, 0x48, 0x40, 0, 0, 0]).alloc = 6 + 1073741824 ∧
    (hsStep p m realCfg flat [0x5a, 0x48, 0x40, 0, 0, 0]).out = .needMore ∧
    ¬ (hsStep p m realCfg flat [0x5a, 0x48, 0x40, 0, 0, 0]).alloc ≤ 6 + 2 * realCfg.maxLen := by
  refine ⟨by rfl, by rfl, ?_⟩
  have : (hsStep p m realCfg flat [0x5a, 0x48, 0x40, 0, 0, 0]).alloc = 6 + 1073741824 := by rfl
  rw [this]
  decide

/-- (code before commit 529e8a0) PARTIAL: the bound holds with the handshake reader's former
    constant (PackageMaxLen, 1 GiB) -/
theorem hs_alloc_partial {σ : Type} (p m : Bytes → Bool) (cfg : Cfg) (R : Reader σ) (hR : Lawful R) (st : σ) :
    (hsStep p m cfg R st).alloc ≤ 6 + 2 * cfg.hsMaxLen :=
  hsStepWith_alloc_le _ (eciesOpen_alloc_le p m) cfg.hsMaxLen R hR st

/-- HEADLINE. FULL bound for the pre-handshake reader as coded now (length limited by
    MaxPackageLength) -/
theorem hsFixed_alloc_bound {σ : Type} (p m : Bytes → Bool) (cfg : Cfg) (R : Reader σ) (hR : Lawful R) (st : σ) :
    (hsStepFixed p m cfg R st).alloc ≤ 6 + 2 * cfg.maxLen :=
  hsStepWith_alloc_le _ (eciesOpenFixed_alloc_le p m) cfg.maxLen R hR st

/-- (code before commit fdba898) exact condition for the ECIES opener to panic: a message with a valid point and a valid MAC
    whose symmetric part is shorter than one AES block (98 ≤ len < 113) -/
theorem eciesOpen_panic_iff (p m : Bytes → Bool) (c : Bytes) :
    (∃ s a, eciesOpen p m c = (.panic s, a)) ↔
      (∃ b t, c = b :: t ∧ (b = 2 ∨ b = 3 ∨ b = 4)) ∧ 98 ≤ c.length ∧ c.length < 113 ∧ p c = true ∧ m c = true := by
  unfold eciesOpen eciesRLen eciesHLen blockSize
  constructor
  · rintro ⟨s, a, h⟩
    split at h
    · cases h
    · rename_i b t
      simp only at h
      split at h
      · cases h
      · rename_i hb
        split at h
        · cases h
        · rename_i hlen
          split at h
          · cases h
          · rename_i hp
            split at h
            · cases h
            · rename_i hm
              split at h
              · rename_i hct
                refine ⟨⟨b, t, rfl, ?_⟩, by omega, by omega, by simpa using hp, by simpa using hm⟩
                by_cases h2 : b = 2
                · exact Or.inl h2
                · by_cases h3 : b = 3
                  · exact Or.inr (Or.inl h3)
                  · by_cases h4 : b = 4
                    · exact Or.inr (Or.inr h4)
                    · exact absurd ⟨h2, h3, h4⟩ hb
              · cases h
  · rintro ⟨⟨b, t, rfl, hb⟩, h98, h113, hp, hm⟩
    refine ⟨.makeslice, 0, ?_⟩
    have hb' : ¬ (b ≠ 2 ∧ b ≠ 3 ∧ b ≠ 4) := by
      rintro ⟨h2, h3, h4⟩
      rcases hb with h | h | h
      · exact h2 h
      · exact h3 h
      · exact h4 h
    have h1 : ¬ (b :: t).length < 65 + 32 + 1 := by omega
    have h2 : (b :: t).length - 65 - 32 < 16 := by omega
    simp only [hb', if_false, h1, hp, hm, Bool.not_true, Bool.false_eq_true, h2, if_true]

/-- the code before commit fdba898: `hs_total` is FALSE, 104 bytes before any authentication -/
theorem hs_total_refuted :
    (hsStep (fun _ => true) (fun _ => true) realCfg flat
      ([0x5a, 0x48, 0, 0, 0, 98] ++ (4 :: List.replicate 97 0))).out = .panic .makeslice := by
  decide

theorem eciesOpenFixed_no_panic (p m : Bytes → Bool) (c : Bytes) (s : Site) (a : Nat) :
    eciesOpenFixed p m c ≠ (.panic s, a) := by
  unfold eciesOpenFixed
  intro h
  split at h
  · cases h
  · simp only at h
    split at h
    · cases h
    · split at h
      · cases h
      · split at h
        · cases h
        · split at h <;> cases h

theorem hsStepWith_no_panic {σ : Type} (o : Bytes → HsOut × Nat) (ho : ∀ c s a, o c ≠ (.panic s, a))
    (lim : Nat) (R : Reader σ) (st : σ) (s : Site) : (hsStepWith o lim R st).out ≠ .panic s := by
  unfold hsStepWith
  intro h
  split at h
  · cases h
  · simp only at h
    split at h
    · cases h
    · split at h
      · cases h
      · split at h
        · cases h
        · split at h
          · cases h
          · rename_i c st3 hl
            simp only at h
            exact ho c s (o c).2 (by rw [← h])

/-- HEADLINE. FULL `hs_total` for the pre-handshake reader as coded now -/
theorem hsFixed_total {σ : Type} (p m : Bytes → Bool) (cfg : Cfg) (R : Reader σ) (st : σ) (s : Site) :
    (hsStepFixed p m cfg R st).out ≠ .panic s :=
  hsStepWith_no_panic _ (eciesOpenFixed_no_panic p m) cfg.maxLen R st s

/-- (code before commit fdba898) PARTIAL `hs_total`: the old code does not panic on a message whose ECIES envelope is at
    least 113 bytes (65 point + 16 IV + 32 tag) or shorter than 98 -/
theorem hs_total_partial {σ : Type} (p m : Bytes → Bool) (cfg : Cfg) (R : Reader σ) (st : σ) (s : Site)
    (hlen : ∀ n st' c st'', R.readFull n st' = some (c, st'') → c.length < 98 ∨ 113 ≤ c.length) :
    (hsStep p m cfg R st).out ≠ .panic s := by
  unfold hsStep hsStepWith
  intro h
  split at h
  · cases h
  · simp only at h
    split at h
    · cases h
    · split at h
      · cases h
      · split at h
        · cases h
        · split at h
          · cases h
          · rename_i c st3 hl
            simp only at h
            have hp : ∃ s a, eciesOpen p m c = (.panic s, a) := ⟨s, (eciesOpen p m c).2, by rw [← h]⟩
            have := (eciesOpen_panic_iff p m c).mp hp
            have := hlen _ _ _ _ hl
            omega

/-! ### the former crash / allocation witnesses, on the code as it is now -/

theorem witness_cryptBlocks_now (dec : Bytes → Bytes) :
    runFixed dec realCfg [0x5a, 0x48, 0, 0, 0, 1, 0xff] = [.err .badLength] := by
  rfl

theorem witness_shortPlain_now :
    runFixed id realCfg ([0x5a, 0x48, 0, 0, 0, 16] ++ List.replicate 16 0x10) = [.err .shortPlain] := by
  decide

theorem witness_hs_alloc_now (p m : Bytes → Bool) :
    (hsStepFixed p m realCfg flat [0x5a, 0x48, 0x40, 0, 0, 0]).out = .err .unavailable ∧
    (hsStepFixed p m realCfg flat [0x5a, 0x48, 0x40, 0, 0, 0]).alloc = 6 :=
  ⟨by rfl, by rfl⟩

theorem witness_hs_ecies_now :
    (hsStepFixed (fun _ => true) (fun _ => true) realCfg flat
      ([0x5a, 0x48, 0, 0, 0, 98] ++ (4 :: List.replicate 97 0))).out = .err .ecies := by
  decide

/-! ### dropping the connection from several goroutines at once (`Peer.Close`) -/

section close
open LemoModel.Frame.Close LemoProofs.CloseLemmas

/-- FULL: with `p.wmu` around check+close, for ANY number of closers and EVERY schedule, nobody
    panics and `close(p.stopCh)` is executed at most once -/
theorem close_mutex_safe (sched : List Nat) :
    (run true init sched).panicked = false ∧ (run true init sched).closes ≤ 1 := by
  have h := run_inv sched init init_inv
  refine ⟨h.noPanic, ?_⟩
  rw [h.cnt]
  split <;> omega

/-- … and exactly once as soon as one closer has returned from `Close` -/
theorem close_exactly_once (sched : List Nat) (i : Nat) (hd : (run true init sched).pc i = .done) :
    (run true init sched).closed = true ∧ (run true init sched).closes = 1 := by
  have h := run_inv sched init init_inv
  have hc := h.fin i (Or.inl hd)
  refine ⟨hc, ?_⟩
  rw [h.cnt, hc]
  rfl

/-- every closer that is scheduled often enough does return (no deadlock on `wmu` in the
    round-robin schedule); non-vacuity of `close_exactly_once` for 3 closers -/
example : (run true init (roundRobin 3)).pc 0 = .done ∧ (run true init (roundRobin 3)).pc 1 = .done ∧
    (run true init (roundRobin 3)).pc 2 = .done ∧ (run true init (roundRobin 3)).closes = 1 := by
  decide

/-- REFUTATION without the mutex (`Close` = bare `safeClose`): two closers, both run the check
    before either closes — the second `close(p.stopCh)` panics -/
theorem close_race_refuted : (run false init [0, 1, 0, 1, 0, 1]).panicked = true := by
  decide

/-- the fact table regenerated from network/p2p says check+close run under the mutex … -/
theorem close_sites_guarded : mutexOfTable = true := by
  decide

/-- … hence, for the code as it is: any number of simultaneous closers, every schedule -/
theorem close_race_free (sched : List Nat) :
    (run mutexOfTable init sched).panicked = false ∧ (run mutexOfTable init sched).closes ≤ 1 := by
  rw [close_sites_guarded]
  exact close_mutex_safe sched

end close

end LemoProofs.C15

/-
  C15 — no bytes from the network crash the node or make it allocate without bound.

  Model: `LemoModel.Frame` (Peer.readConn / handle / unpackFrame / AesDecrypt / PKCS5UnPadding /
  CheckCode, readHandshakeBuf + ecies Decrypt length arithmetic, Peer.Close), tied to /repo by
  `hx c15`.  `dec` (AES-CBC decryption), `pointOk`, `macOk` (ECIES validity) are universally
  quantified parameters; `R` ranges over connections (`flat`, `chunked`, anything `Lawful`).

  THE LIVE MODEL KEEPS THE PANICS.  `unpackG g` / `eciesOpenG g` are written with the partial Go
  primitives `cryptBlocks`, `sliceTo4`, `sliceFrom4`, `makeBytes` (`none` = panic) and take the
  repair guards as a parameter: `liveGuards` (all on) is the code as it is now and what the driver
  runs; `noGuards` is provably the pre-repair model (`unpackG_noGuards`, `eciesOpenG_false`).
      ba190d7 aes.go  len % blockSize        1eafa5e peer.go  len(originData) < 4
      fdba898 ecies.go whole IV block        529e8a0 handshake.go  length ≤ MaxPackageLength

  HEADLINE (code as it is now)
  * no panic      `parseFixed_total`, `parseFixed_total_chunked`, `hsFixed_total` — by
                  `unpackG_live_no_panic` / `eciesOpenG_guarded_no_panic`, which USE the guards to
                  show the `none` branches unreachable; each guard is necessary:
                  `guard_aesLen_needed`, `guard_codeLen_needed`, `guard_eciesBlock_needed`.
  * allocation    per step `parse_alloc_bound`, `parse_alloc_complete`, `hsFixed_alloc_bound`;
                  per connection `run_alloc_cumulative(_chunked)`, `hsFixed_alloc_cumulative`:
                  Σ ≤ 2·|received| + 6 + MaxPackageLength.  The additive constant is attained with
                  6 bytes (`alloc_not_proportional`): the clause "in proportion to the bytes
                  received" is NOT met — open finding, see props `partial`.
  * segmentation  `split_invariant_fixed`, `hsFixed_split_invariant` (from `chunkRead_spec`).
  * code range    `code_range_fixed`.          * fuel  `runWith_fuel_irrelevant`.
  * `parseFixed_agrees`: the repairs change nothing on streams that did not crash the old code.
  * Close         `close_mutex_safe`, `close_exactly_once` (any number of closers, every finite
                  schedule: no panic, stopCh closed exactly once — safety, not liveness),
                  `close_race_refuted` (no mutex: check-check-close-close panics).

  DOCUMENTATION of what the repairs closed (code before the commits above):
  `parse_total_refuted_cryptBlocks`, `parse_total_refuted_shortPlain`, `parse_total_false`,
  `unpackFrame_panic_iff`, `parse_total_partial`, `parse_panic_of_unguarded`, `hs_total_refuted`,
  `eciesOpen_panic_iff`, `hs_panic_only_short_envelope`, `hs_alloc_bound_refuted`.
  Not registered (helpers / samples, kept for reading): `witness_*_now`, `close_race_free`,
  `close_sites_guarded`, `code_range`(legacy), `sliceCode_unreachable`, `hs_alloc_partial`, …
-/
import LemoModel.Frame
import LemoProofs.Lemmas.FrameLemmas
import LemoProofs.Lemmas.CloseLemmas
namespace LemoProofs.C15
open LemoModel.Frame LemoProofs.FrameLemmas

/-! ### the guard under which the frame parser is total -/

/-- what a frame's content must satisfy for `unpackFrame` not to panic -/
def FrameGuard (dec : Bytes → Bytes) (c : Bytes) : Prop :=
  c.length % blockSize = 0 ∧ ∀ o, unpad (dec c) = some o → 4 ≤ o.length

theorem unpackFrame_panic_iff (dec : Bytes → Bytes) (c : Bytes) :
    (∃ s, unpackFrame dec c = .panic s) ↔ ¬ FrameGuard dec c := by
  unfold unpackFrame FrameGuard
  constructor
  · rintro ⟨s, hs⟩ ⟨h16, hg⟩
    simp only [h16, ne_eq, not_true_eq_false, if_false] at hs
    cases hu : unpad (dec c) with
    | none => rw [hu] at hs; cases hs
    | some o =>
      rw [hu] at hs
      have h4 := hg o hu
      have hlt := unpad_length_lt hu
      simp only at hs
      split at hs
      · omega
      · split at hs
        · cases hs
        · split at hs
          · omega
          · cases hs
  · intro hng
    by_cases h16 : c.length % blockSize = 0
    · simp only [h16, ne_eq, not_true_eq_false, if_false]
      have : ∃ o, unpad (dec c) = some o ∧ o.length < 4 := by
        apply Classical.byContradiction
        intro hne
        apply hng
        refine ⟨h16, ?_⟩
        intro o ho
        apply Classical.byContradiction
        intro h
        exact hne ⟨o, ho, by omega⟩
      obtain ⟨o, ho, hlt⟩ := this
      rw [ho]
      simp only
      by_cases hd : (dec c).length < 4
      · exact ⟨.sliceCode, by simp [hd]⟩
      · refine ⟨.slicePayload, ?_⟩
        have h1 : ¬ o.length = 4 := by omega
        simp [hd, h1, hlt]
    · exact ⟨.cryptBlocks, by simp [h16]⟩

/-- with a length-preserving cipher the `originData[:4]` site is dead code: the capacity of the
    unpadded slice is the (non-zero, multiple of 16) content length -/
theorem sliceCode_unreachable (dec : Bytes → Bytes) (hdec : ∀ c, (dec c).length = c.length) (c : Bytes) :
    unpackFrame dec c ≠ .panic .sliceCode := by
  unfold unpackFrame
  intro h
  split at h
  · cases h
  · rename_i h16
    simp only at h
    split at h
    · cases h
    · rename_i o hu
      split at h
      · rename_i hd
        have hlt := unpad_length_lt hu
        rw [hdec c] at hd hlt
        simp only [ne_eq, Decidable.not_not] at h16
        unfold blockSize at h16
        omega
      · split at h
        · cases h
        · split at h <;> cases h

theorem handle_panic_iff (dec : Bytes → Bytes) (c : Bytes) :
    (∃ s, handle dec c = .panic s) ↔ ¬ FrameGuard dec c := by
  rw [← unpackFrame_panic_iff]
  unfold handle handleWith
  constructor
  · rintro ⟨s, hs⟩
    cases hu : unpackFrame dec c with
    | panic s' => exact ⟨s', rfl⟩
    | err e => rw [hu] at hs; cases hs
    | ok code p =>
      rw [hu] at hs
      simp only at hs
      split at hs
      · cases hs
      · split at hs <;> cases hs
  · rintro ⟨s, hs⟩
    exact ⟨s, by rw [hs]⟩

/-- the contents the read loop hands to `handle` (it stops where `runWith` stops) -/
def contentsWith {σ : Type} (h : Bytes → Handled) (R : Reader σ) (cfg : Cfg) : Nat → σ → List Bytes
  | 0, _ => []
  | fuel + 1, st =>
    match readConn R cfg st with
    | .content c st' _ =>
      c :: (match h c with
            | .heartbeat => contentsWith h R cfg fuel st'
            | .deliver _ _ => contentsWith h R cfg fuel st'
            | _ => [])
    | _ => []

def contents (dec : Bytes → Bytes) (cfg : Cfg) (s : Bytes) : List Bytes :=
  contentsWith (handle dec) flat cfg (s.length + 1) s

theorem runWith_no_panic_of_guard {σ : Type} (dec : Bytes → Bytes) (R : Reader σ) (cfg : Cfg) :
    ∀ (fuel : Nat) (st : σ), (∀ c ∈ contentsWith (handle dec) R cfg fuel st, FrameGuard dec c) →
      ∀ ev ∈ runWith (handle dec) R cfg fuel st, ev.isPanic = false := by
  intro fuel
  induction fuel with
  | zero => intro st _ ev hev; simp [runWith] at hev; subst hev; rfl
  | succ k ih =>
    intro st hg ev hev
    unfold runWith frameStepWith at hev
    unfold contentsWith at hg
    cases hr : readConn R cfg st with
    | needMore a => rw [hr] at hev; simp at hev; subst hev; rfl
    | err e a => rw [hr] at hev; simp at hev; subst hev; rfl
    | content c st' a =>
      rw [hr] at hev hg
      simp only at hev hg
      have hgc : FrameGuard dec c := hg c (by simp)
      cases hh : handle dec c with
      | panic s => exact absurd ((handle_panic_iff dec c).mp ⟨s, hh⟩) (by simpa using hgc)
      | err e => rw [hh] at hev; simp at hev; subst hev; rfl
      | heartbeat =>
        rw [hh] at hev hg
        simp only [List.mem_cons] at hev
        rcases hev with rfl | hev
        · rfl
        · exact ih st' (fun c' hc' => hg c' (by simp [hc'])) ev hev
      | deliver code p =>
        rw [hh] at hev hg
        simp only [List.mem_cons] at hev
        rcases hev with rfl | hev
        · rfl
        · exact ih st' (fun c' hc' => hg c' (by simp [hc'])) ev hev

theorem runWith_panic_of_unguarded {σ : Type} (dec : Bytes → Bytes) (R : Reader σ) (cfg : Cfg) :
    ∀ (fuel : Nat) (st : σ), (∃ c ∈ contentsWith (handle dec) R cfg fuel st, ¬ FrameGuard dec c) →
      ∃ s, Ev.panic s ∈ runWith (handle dec) R cfg fuel st := by
  intro fuel
  induction fuel with
  | zero => intro st ⟨c, hc, _⟩; simp [contentsWith] at hc
  | succ k ih =>
    intro st ⟨c0, hc0, hng⟩
    unfold contentsWith at hc0
    unfold runWith frameStepWith
    cases hr : readConn R cfg st with
    | needMore a => rw [hr] at hc0; simp at hc0
    | err e a => rw [hr] at hc0; simp at hc0
    | content c st' a =>
      rw [hr] at hc0
      simp only at hc0 ⊢
      cases hh : handle dec c with
      | panic s => exact ⟨s, by simp⟩
      | err e =>
        rw [hh] at hc0
        simp only [List.mem_cons, List.not_mem_nil, or_false] at hc0
        subst hc0
        obtain ⟨s, hs⟩ := (handle_panic_iff dec c0).mpr hng
        rw [hs] at hh; cases hh
      | heartbeat =>
        rw [hh] at hc0
        simp only [List.mem_cons] at hc0
        rcases hc0 with rfl | hc0
        · obtain ⟨s, hs⟩ := (handle_panic_iff dec c0).mpr hng
          rw [hs] at hh; cases hh
        · obtain ⟨s, hs⟩ := ih st' ⟨c0, hc0, hng⟩
          exact ⟨s, by simp [hs]⟩
      | deliver code p =>
        rw [hh] at hc0
        simp only [List.mem_cons] at hc0
        rcases hc0 with rfl | hc0
        · obtain ⟨s, hs⟩ := (handle_panic_iff dec c0).mpr hng
          rw [hs] at hh; cases hh
        · obtain ⟨s, hs⟩ := ih st' ⟨c0, hc0, hng⟩
          exact ⟨s, by simp [hs]⟩

/-- (code before commits ba190d7 / 1eafa5e) PARTIAL form of `parse_total`: if every frame the reader cuts out of the stream has a content
    length that is a multiple of 16 and (when the padding is valid) at least 4 bytes of plaintext,
    the read loop does not panic. -/
theorem parse_total_partial (dec : Bytes → Bytes) (cfg : Cfg) (s : Bytes)
    (hg : ∀ c ∈ contents dec cfg s, FrameGuard dec c) :
    ∀ ev ∈ run dec cfg s, ev.isPanic = false :=
  runWith_no_panic_of_guard dec flat cfg (s.length + 1) s hg

/-- (code before commits ba190d7 / 1eafa5e) the guard is exact: one unguarded frame and the
    process dies -/
theorem parse_panic_of_unguarded (dec : Bytes → Bytes) (cfg : Cfg) (s : Bytes)
    (hg : ∃ c ∈ contents dec cfg s, ¬ FrameGuard dec c) :
    ∃ site, Ev.panic site ∈ run dec cfg s :=
  runWith_panic_of_unguarded dec flat cfg (s.length + 1) s hg

/-! ### refutations of `parse_total` on the code before commits ba190d7 / 1eafa5e -/

/-- the code before commit ba190d7: `5a 48 | 00 00 00 01 | ff` — whatever the session key:
    CryptBlocks on 1 byte -/
theorem parse_total_refuted_cryptBlocks (dec : Bytes → Bytes) :
    run dec realCfg [0x5a, 0x48, 0, 0, 0, 1, 0xff] = [.panic .cryptBlocks] := by
  rfl

/-- the code before commit 1eafa5e: a correctly encrypted frame whose plaintext is empty (one block
    of padding 0x10): `originData[:4]` succeeds (capacity 16) and `originData[4:]` panics -/
theorem parse_total_refuted_shortPlain :
    run id realCfg ([0x5a, 0x48, 0, 0, 0, 16] ++ List.replicate 16 0x10) = [.panic .slicePayload] := by
  decide

/-- the full statement is false for the code before commits ba190d7 / 1eafa5e -/
theorem parse_total_false :
    ¬ (∀ (dec : Bytes → Bytes) (cfg : Cfg) (s : Bytes), ∀ ev ∈ run dec cfg s, ev.isPanic = false) := by
  intro h
  have := h id realCfg [0x5a, 0x48, 0, 0, 0, 1, 0xff] (.panic .cryptBlocks)
    (by rw [parse_total_refuted_cryptBlocks]; simp)
  cases this

/-- hypotheses of `parse_total_partial` are satisfiable by a non-trivial stream:
    code 5 with a 3-byte payload, then a heartbeat -/
example :
    run id realCfg ([0x5a, 0x48, 0, 0, 0, 16, 0, 0, 0, 5, 1, 2, 3, 9, 9, 9, 9, 9, 9, 9, 9, 9]
      ++ [0x5a, 0x48, 0, 0, 0, 16, 0, 0, 0, 1, 12, 12, 12, 12, 12, 12, 12, 12, 12, 12, 12, 12])
      = [.msg 5 3 (chk [1, 2, 3]), .hb, .needMore] := by decide

/-! ### the parser as coded now is total, and agrees with the old code on guarded streams -/

/-- HEADLINE lemma. The live model keeps every panicking primitive (`cryptBlocks`, `sliceTo4`,
    `sliceFrom4`); none of their `none` branches is reachable BECAUSE of the guards ba190d7 / 1eafa5e
    (and, for `originData[:4]`, because unpadding strips at least one byte from a slice whose
    capacity it keeps).  Switch a guard off and this proof fails: `guard_aesLen_needed`,
    `guard_codeLen_needed`. -/
theorem unpackG_live_no_panic (g : Guards) (ha : g.aesLen = true) (hc : g.codeLen = true)
    (dec : Bytes → Bytes) (c : Bytes) (s : Site) : unpackG g dec c ≠ .panic s := by
  unfold unpackG
  rw [ha, hc]
  by_cases h16 : c.length % blockSize ≠ 0
  · simp [h16]
  · have hcb : cryptBlocks dec c = some (dec c) := by simp [cryptBlocks, h16]
    simp only [h16, and_false, if_false, hcb]
    cases hu : unpad (dec c) with
    | none => simp
    | some o =>
      simp only
      by_cases h4 : o.length < 4
      · simp [h4]
      · have hlt := unpad_length_lt hu
        have hs1 : sliceTo4 (dec c).length (dec c) = some ((dec c).take 4) := by
          have : ¬ (dec c).length < 4 := by omega
          simp [sliceTo4, this]
        have hs2 : sliceFrom4 o = some (o.drop 4) := by simp [sliceFrom4, h4]
        simp only [h4, and_false, if_false, hs1, hs2]
        split <;> simp

theorem unpackFrameFixed_no_panic (dec : Bytes → Bytes) (c : Bytes) (s : Site) :
    unpackFrameFixed dec c ≠ .panic s :=
  unpackG_live_no_panic liveGuards rfl rfl dec c s

/-- without guard ba190d7 (everything else as coded now) the same model panics, for every cipher -/
theorem guard_aesLen_needed (dec : Bytes → Bytes) :
    unpackG { liveGuards with aesLen := false } dec [0xff] = .panic .cryptBlocks := by
  rfl

/-- without guard 1eafa5e (everything else as coded now) the same model panics -/
theorem guard_codeLen_needed :
    unpackG { liveGuards with codeLen := false } id (List.replicate 16 0x10) = .panic .slicePayload := by
  decide

/-- with all guards off the parametrised model IS the pre-repair model -/
theorem unpackG_noGuards (dec : Bytes → Bytes) (c : Bytes) : unpackG noGuards dec c = unpackFrame dec c := by
  unfold unpackG unpackFrame noGuards cryptBlocks
  simp only [Bool.false_eq_true, false_and, if_false]
  by_cases h16 : c.length % blockSize ≠ 0
  · simp [h16]
  · simp only [h16, if_false]
    cases hu : unpad (dec c) with
    | none => rfl
    | some o =>
      simp only [sliceTo4, sliceFrom4]
      by_cases hd : (dec c).length < 4
      · simp [hd]
      · simp only [hd, if_false, codeOf_take4]
        by_cases h4 : o.length = 4
        · simp [h4]
        · simp only [h4, if_false]
          by_cases hl : o.length < 4
          · simp [hl]
          · simp [hl]

theorem handleWith_no_panic (u : Bytes → Unpacked) (hu : ∀ c s, u c ≠ .panic s) (c : Bytes) (s : Site) :
    handleWith u c ≠ .panic s := by
  unfold handleWith
  intro h
  cases hc : u c with
  | panic s' => exact hu c s' hc
  | err e => rw [hc] at h; cases h
  | ok code p =>
    rw [hc] at h
    simp only at h
    split at h
    · cases h
    · split at h <;> cases h

theorem runWith_no_panic {σ : Type} (h : Bytes → Handled) (hh : ∀ c s, h c ≠ .panic s) (R : Reader σ) (cfg : Cfg) :
    ∀ (fuel : Nat) (st : σ), ∀ ev ∈ runWith h R cfg fuel st, ev.isPanic = false := by
  intro fuel
  induction fuel with
  | zero => intro st ev hev; simp [runWith] at hev; subst hev; rfl
  | succ k ih =>
    intro st ev hev
    unfold runWith frameStepWith at hev
    cases hr : readConn R cfg st with
    | needMore a => rw [hr] at hev; simp at hev; subst hev; rfl
    | err e a => rw [hr] at hev; simp at hev; subst hev; rfl
    | content c st' a =>
      rw [hr] at hev
      simp only at hev
      cases hc : h c with
      | panic s => exact absurd hc (hh c s)
      | err e => rw [hc] at hev; simp at hev; subst hev; rfl
      | heartbeat =>
        rw [hc] at hev
        simp only [List.mem_cons] at hev
        rcases hev with rfl | hev
        · rfl
        · exact ih st' ev hev
      | deliver code p =>
        rw [hc] at hev
        simp only [List.mem_cons] at hev
        rcases hev with rfl | hev
        · rfl
        · exact ih st' ev hev

/-- HEADLINE. FULL `parse_total` for the parser as coded now: every cipher, every constant, every
    byte stream, flat or segmented -/
theorem parseFixed_total (dec : Bytes → Bytes) (cfg : Cfg) (s : Bytes) :
    ∀ ev ∈ runFixed dec cfg s, ev.isPanic = false :=
  runWith_no_panic (handleFixed dec)
    (handleWith_no_panic _ (unpackFrameFixed_no_panic dec)) flat cfg (s.length + 1) s

theorem parseFixed_total_chunked (dec : Bytes → Bytes) (cfg : Cfg) (cs : List Bytes) :
    ∀ ev ∈ runFixedC dec cfg cs, ev.isPanic = false :=
  runWith_no_panic (handleFixed dec)
    (handleWith_no_panic _ (unpackFrameFixed_no_panic dec)) chunked cfg (cs.flatten.length + 1) cs

theorem unpackFrameFixed_eq_of_guard (dec : Bytes → Bytes) (c : Bytes) (hg : FrameGuard dec c) :
    unpackFrameFixed dec c = unpackFrame dec c := by
  obtain ⟨h16, h4⟩ := hg
  unfold unpackFrameFixed unpackG unpackFrame liveGuards cryptBlocks
  simp only [h16, ne_eq, not_true_eq_false, and_false, if_false]
  cases hu : unpad (dec c) with
  | none => rfl
  | some o =>
    have ho := h4 o hu
    have hlt := unpad_length_lt hu
    have h1 : ¬ o.length < 4 := by omega
    have h2 : ¬ (dec c).length < 4 := by omega
    simp only [sliceTo4, sliceFrom4, h1, h2, and_false, if_false, codeOf_take4]

theorem runWith_fixed_agrees {σ : Type} (dec : Bytes → Bytes) (R : Reader σ) (cfg : Cfg) :
    ∀ (fuel : Nat) (st : σ), (∀ c ∈ contentsWith (handle dec) R cfg fuel st, FrameGuard dec c) →
      runWith (handleFixed dec) R cfg fuel st = runWith (handle dec) R cfg fuel st := by
  intro fuel
  induction fuel with
  | zero => intro st _; rfl
  | succ k ih =>
    intro st hg
    unfold contentsWith at hg
    unfold runWith frameStepWith
    cases hr : readConn R cfg st with
    | needMore a => rfl
    | err e a => rfl
    | content c st' a =>
      rw [hr] at hg
      simp only at hg ⊢
      have hgc : FrameGuard dec c := hg c (by simp)
      have heq : handleFixed dec c = handle dec c := by
        unfold handleFixed handle handleWith
        rw [unpackFrameFixed_eq_of_guard dec c hgc]
      rw [heq]
      cases hh : handle dec c with
      | panic s => rfl
      | err e => rfl
      | heartbeat =>
        rw [hh] at hg
        simp only
        rw [ih st' (fun c' hc' => hg c' (by simp [hc']))]
      | deliver code p =>
        rw [hh] at hg
        simp only
        rw [ih st' (fun c' hc' => hg c' (by simp [hc']))]

/-- the repairs change nothing on streams that did not crash the code before them -/
theorem parseFixed_agrees (dec : Bytes → Bytes) (cfg : Cfg) (s : Bytes)
    (hg : ∀ c ∈ contents dec cfg s, FrameGuard dec c) :
    runFixed dec cfg s = run dec cfg s :=
  runWith_fixed_agrees dec flat cfg (s.length + 1) s hg

/-! ### code_range -/

theorem handleWith_deliver (u : Bytes → Unpacked) (c : Bytes) (code : Nat) (p : Bytes)
    (h : handleWith u c = .deliver code p) : code ≤ maxCode ∧ code ≠ heartbeatCode := by
  unfold handleWith at h
  cases hc : u c with
  | panic s => rw [hc] at h; cases h
  | err e => rw [hc] at h; cases h
  | ok code' p' =>
    rw [hc] at h
    simp only at h
    split at h
    · cases h
    · rename_i hle
      split at h
      · cases h
      · rename_i hne
        cases h
        exact ⟨by omega, hne⟩

theorem runWith_code_range {σ : Type} (u : Bytes → Unpacked) (R : Reader σ) (cfg : Cfg) :
    ∀ (fuel : Nat) (st : σ) (code n k : Nat), Ev.msg code n k ∈ runWith (handleWith u) R cfg fuel st →
      code ≤ 0x1F ∧ code ≠ 1 := by
  intro fuel
  induction fuel with
  | zero => intro st code n k hev; simp [runWith] at hev
  | succ fuel ih =>
    intro st code n k hev
    unfold runWith frameStepWith at hev
    cases hr : readConn R cfg st with
    | needMore a => rw [hr] at hev; simp at hev
    | err e a => rw [hr] at hev; simp at hev
    | content c st' a =>
      rw [hr] at hev
      simp only at hev
      cases hc : handleWith u c with
      | panic s => rw [hc] at hev; simp at hev
      | err e => rw [hc] at hev; simp at hev
      | heartbeat =>
        rw [hc] at hev
        simp only [List.mem_cons] at hev
        rcases hev with hev | hev
        · cases hev
        · exact ih st' code n k hev
      | deliver code' p =>
        rw [hc] at hev
        simp only [List.mem_cons] at hev
        rcases hev with hev | hev
        · cases hev
          exact handleWith_deliver u c _ _ hc
        · exact ih st' code n k hev

/-- FULL: only codes ≤ 0x1F (and never the heartbeat code) reach the dispatcher — before and after
    the repairs, on flat and segmented connections. -/
theorem code_range (dec : Bytes → Bytes) (cfg : Cfg) (s : Bytes) (code n k : Nat)
    (h : Ev.msg code n k ∈ run dec cfg s) : code ≤ 0x1F ∧ code ≠ 1 :=
  runWith_code_range (unpackFrame dec) flat cfg (s.length + 1) s code n k h

theorem code_range_chunked (dec : Bytes → Bytes) (cfg : Cfg) (cs : List Bytes) (code n k : Nat)
    (h : Ev.msg code n k ∈ runC dec cfg cs) : code ≤ 0x1F ∧ code ≠ 1 :=
  runWith_code_range (unpackFrame dec) chunked cfg (cs.flatten.length + 1) cs code n k h

theorem code_range_fixed (dec : Bytes → Bytes) (cfg : Cfg) (s : Bytes) (code n k : Nat)
    (h : Ev.msg code n k ∈ runFixed dec cfg s) : code ≤ 0x1F ∧ code ≠ 1 :=
  runWith_code_range (unpackFrameFixed dec) flat cfg (s.length + 1) s code n k h

theorem code_range_fixed_chunked (dec : Bytes → Bytes) (cfg : Cfg) (cs : List Bytes) (code n k : Nat)
    (h : Ev.msg code n k ∈ runFixedC dec cfg cs) : code ≤ 0x1F ∧ code ≠ 1 :=
  runWith_code_range (unpackFrameFixed dec) chunked cfg (cs.flatten.length + 1) cs code n k h

/-! ### split_invariant -/

theorem runC_eq_run (dec : Bytes → Bytes) (cfg : Cfg) (cs : List Bytes) :
    runC dec cfg cs = run dec cfg cs.flatten :=
  runWith_sim chunked_sim (handle dec) cfg (cs.flatten.length + 1) cs

/-- FULL: the outcome depends only on the bytes, not on how TCP cut them into reads -/
theorem split_invariant (dec : Bytes → Bytes) (cfg : Cfg) (cs cs' : List Bytes)
    (h : cs.flatten = cs'.flatten) : runC dec cfg cs = runC dec cfg cs' := by
  rw [runC_eq_run, runC_eq_run, h]

theorem split_invariant_fixed (dec : Bytes → Bytes) (cfg : Cfg) (cs cs' : List Bytes)
    (h : cs.flatten = cs'.flatten) : runFixedC dec cfg cs = runFixedC dec cfg cs' := by
  unfold runFixedC
  rw [runWith_sim chunked_sim (handleFixed dec) cfg (cs.flatten.length + 1) cs,
    runWith_sim chunked_sim (handleFixed dec) cfg (cs'.flatten.length + 1) cs', h]

theorem hs_split_invariant (pointOk macOk : Bytes → Bool) (cfg : Cfg) (cs cs' : List Bytes)
    (h : cs.flatten = cs'.flatten) :
    hsStep pointOk macOk cfg chunked cs = hsStep pointOk macOk cfg chunked cs' := by
  unfold hsStep
  rw [hsStepWith_sim chunked_sim _ _ cs, hsStepWith_sim chunked_sim _ _ cs', h]

theorem hsFixed_split_invariant (pointOk macOk : Bytes → Bool) (cfg : Cfg) (cs cs' : List Bytes)
    (h : cs.flatten = cs'.flatten) :
    hsStepFixed pointOk macOk cfg chunked cs = hsStepFixed pointOk macOk cfg chunked cs' := by
  unfold hsStepFixed
  rw [hsStepWith_sim chunked_sim _ _ cs, hsStepWith_sim chunked_sim _ _ cs', h]

/-! ### parse_alloc_bound (frame reader) -/

theorem readConn_content {σ : Type} (R : Reader σ) (hR : Lawful R) (cfg : Cfg) (st st' : σ) (c : Bytes) (a : Nat)
    (h : readConn R cfg st = .content c st' a) : a = 6 + c.length ∧ c.length ≤ cfg.maxLen ∧ 0 < c.length := by
  unfold readConn at h
  split at h
  · cases h
  · rename_i hd st1 h6
    simp only at h
    split at h
    · cases h
    · split at h
      · cases h
      · rename_i hz
        split at h
        · cases h
        · rename_i hmax
          split at h
          · cases h
          · rename_i c' st2 hl
            cases h
            have := hR _ _ _ _ hl
            omega

theorem readConn_shape {σ : Type} (R : Reader σ) (cfg : Cfg) (st : σ) :
    (∃ a, readConn R cfg st = .needMore a ∧ a ≤ 6 + cfg.maxLen) ∨
    (∃ e, readConn R cfg st = .err e 6) ∨
    (∃ c st' a, readConn R cfg st = .content c st' a ∧ a ≤ 6 + cfg.maxLen) := by
  unfold readConn
  cases h6 : R.readFull 6 st with
  | none => exact Or.inl ⟨6, rfl, Nat.le_add_right 6 _⟩
  | some q =>
    obtain ⟨hd, st1⟩ := q
    simp only
    by_cases hm : hd.getD 0 0 ≠ magic0 ∨ hd.getD 1 0 ≠ magic1
    · rw [if_pos hm]; exact Or.inr (Or.inl ⟨_, rfl⟩)
    · rw [if_neg hm]
      generalize be32 (hd.getD 2 0) (hd.getD 3 0) (hd.getD 4 0) (hd.getD 5 0) = len
      by_cases hz : len = 0
      · rw [if_pos hz]; exact Or.inr (Or.inl ⟨_, rfl⟩)
      · rw [if_neg hz]
        by_cases hmax : len > cfg.maxLen
        · rw [if_pos hmax]; exact Or.inr (Or.inl ⟨_, rfl⟩)
        · rw [if_neg hmax]
          have hle : 6 + len ≤ 6 + cfg.maxLen := Nat.add_le_add_left (Nat.le_of_not_gt hmax) 6
          cases R.readFull len st1 with
          | none => exact Or.inl ⟨_, rfl, hle⟩
          | some r => exact Or.inr (Or.inr ⟨_, _, _, rfl, hle⟩)

theorem readConn_alloc_le {σ : Type} (R : Reader σ) (cfg : Cfg) (st : σ) :
    (readConn R cfg st).alloc ≤ 6 + cfg.maxLen := by
  rcases readConn_shape R cfg st with ⟨a, h, ha⟩ | ⟨e, h⟩ | ⟨c, st', a, h, ha⟩
  · rw [h]; exact ha
  · rw [h]; exact Nat.le_add_right 6 _
  · rw [h]; exact ha

/-- per step: whatever arrives, one iteration of the read loop requests at most
    6 + 2·MaxPackageLength bytes (header, content buffer, decryption buffer).  This is a constant
    per call, NOT a bound in proportion to the bytes received: see `run_alloc_cumulative`. -/
theorem parse_alloc_bound {σ : Type} (h : Bytes → Handled) (da : Bytes → Nat) (hda : ∀ c, da c ≤ c.length)
    (R : Reader σ) (hR : Lawful R) (cfg : Cfg) (st : σ) :
    (frameStepWith h da R cfg st).alloc ≤ 6 + 2 * cfg.maxLen := by
  unfold frameStepWith
  have hle := readConn_alloc_le R cfg st
  cases hr : readConn R cfg st with
  | needMore a => rw [hr] at hle; simp only [ReadRes.alloc] at hle ⊢; omega
  | err e a => rw [hr] at hle; simp only [ReadRes.alloc] at hle ⊢; omega
  | content c st' a =>
    obtain ⟨ha, hc, _⟩ := readConn_content R hR cfg st st' c a hr
    have := hda c
    simp only
    cases h c <;> simp only <;> omega

/-- a frame that was received completely costs the header, its content, and the decryption buffer
    (`da c`: the whole content again, or nothing when AesDecrypt refuses the length first) -/
theorem parse_alloc_complete {σ : Type} (h : Bytes → Handled) (da : Bytes → Nat) (R : Reader σ) (hR : Lawful R)
    (cfg : Cfg) (st st' : σ) (c : Bytes) (a : Nat) (hr : readConn R cfg st = .content c st' a) :
    (frameStepWith h da R cfg st).alloc = 6 + c.length + da c := by
  unfold frameStepWith
  obtain ⟨ha, _, _⟩ := readConn_content R hR cfg st st' c a hr
  rw [hr]
  simp only
  cases h c <;> simp only <;> omega

theorem decAllocG_le (g : Guards) (c : Bytes) : decAllocG g c ≤ c.length := by
  unfold decAllocG; split <;> omega

/-- CUMULATIVE: over the whole life of a connection the read loop requests at most twice the bytes
    it received plus ONE outstanding buffer (6 + MaxPackageLength: the frame whose header has
    arrived and whose content has not).  Everything that was received completely is paid for in
    proportion; what is not in proportion is exactly that one additive constant — 25 MiB for 6
    bytes, see the open finding c15/alloc-not-proportional. -/
theorem runAlloc_flat_le (h : Bytes → Handled) (da : Bytes → Nat) (hda : ∀ c, da c ≤ c.length) (cfg : Cfg) :
    ∀ (fuel : Nat) (s : Bytes), runAllocWith h da flat cfg fuel s ≤ 2 * s.length + 6 + cfg.maxLen := by
  intro fuel
  induction fuel with
  | zero => intro s; simp [runAllocWith]
  | succ k ih =>
    intro s
    unfold runAllocWith frameStepWith
    have hle := readConn_alloc_le flat cfg s
    cases hr : readConn flat cfg s with
    | needMore a => rw [hr] at hle; simp only [ReadRes.alloc] at hle ⊢; omega
    | err e a => rw [hr] at hle; simp only [ReadRes.alloc] at hle ⊢; omega
    | content c rest a =>
      obtain ⟨hlen, ha, _⟩ := readConn_flat_content hr
      have := hda c
      have := ih rest
      simp only
      cases h c <;> simp only <;> omega

theorem run_alloc_cumulative (dec : Bytes → Bytes) (cfg : Cfg) (s : Bytes) :
    runAllocWith (handleFixed dec) (decAllocG liveGuards) flat cfg (s.length + 1) s
      ≤ 2 * s.length + 6 + cfg.maxLen :=
  runAlloc_flat_le _ _ (decAllocG_le liveGuards) cfg (s.length + 1) s

theorem run_alloc_cumulative_chunked (dec : Bytes → Bytes) (cfg : Cfg) (cs : List Bytes) :
    runAllocWith (handleFixed dec) (decAllocG liveGuards) chunked cfg (cs.flatten.length + 1) cs
      ≤ 2 * cs.flatten.length + 6 + cfg.maxLen := by
  rw [runAllocWith_sim chunked_sim]
  exact runAlloc_flat_le _ _ (decAllocG_le liveGuards) cfg _ _

/-- the additive constant is attained: 6 bytes, 6 + MaxPackageLength requested -/
theorem alloc_not_proportional :
    runAllocWith (handleFixed id) (decAllocG liveGuards) flat realCfg 7 [0x5a, 0x48, 0x01, 0x90, 0, 0]
      = 6 + realCfg.maxLen := by
  rfl

/-! ### the pre-handshake reader -/

theorem eciesOpen_alloc_le (p m : Bytes → Bool) (c : Bytes) : (eciesOpen p m c).2 ≤ c.length := by
  unfold eciesOpen
  split
  · simp
  · simp only
    split
    · simp
    · split
      · simp
      · split
        · simp
        · split
          · simp
          · split
            · simp
            · simp only; omega

theorem makeBytes_nonneg {n : Int} (h : 0 ≤ n) : makeBytes n = some n.toNat := by
  unfold makeBytes; have : ¬ n < 0 := by omega
  simp [this]
theorem makeBytes_neg {n : Int} (h : n < 0) : makeBytes n = none := by
  unfold makeBytes; simp [h]

/-- shape of the opener once the four checks have passed -/
theorem eciesOpenG_cons (g : Bool) (p m : Bytes → Bool) (b : UInt8) (t : Bytes) :
    eciesOpenG g p m (b :: t) =
      if b ≠ 2 ∧ b ≠ 3 ∧ b ≠ 4 then (.err .eciesKey, 0)
      else if (b :: t).length < eciesRLen + eciesHLen + (if g then blockSize else 1) then (.err .eciesMsg, 0)
      else if !p (b :: t) then (.err .eciesKey, 0)
      else if !m (b :: t) then (.err .eciesMsg, 0)
      else match makeBytes (((b :: t).length : Int) - (eciesRLen : Int) - (eciesHLen : Int) - (blockSize : Int)) with
        | none => (.panic .makeslice, 0)
        | some n => (.ok n, n) := by
  rfl

theorem eciesOpenG_alloc_le (g : Bool) (p m : Bytes → Bool) (c : Bytes) : (eciesOpenG g p m c).2 ≤ c.length := by
  cases c with
  | nil => simp [eciesOpenG]
  | cons b t =>
    rw [eciesOpenG_cons]
    by_cases h1 : b ≠ 2 ∧ b ≠ 3 ∧ b ≠ 4
    · rw [if_pos h1]; exact Nat.zero_le _
    · rw [if_neg h1]
      by_cases h2 : (b :: t).length < eciesRLen + eciesHLen + (if g then blockSize else 1)
      · rw [if_pos h2]; exact Nat.zero_le _
      · rw [if_neg h2]
        by_cases h3 : (!p (b :: t)) = true
        · rw [if_pos h3]; exact Nat.zero_le _
        · rw [if_neg h3]
          by_cases h4 : (!m (b :: t)) = true
          · rw [if_pos h4]; exact Nat.zero_le _
          · rw [if_neg h4]
            by_cases hn : ((b :: t).length : Int) - (eciesRLen : Int) - (eciesHLen : Int) - (blockSize : Int) < 0
            · rw [makeBytes_neg hn]; exact Nat.zero_le _
            · rw [makeBytes_nonneg (by omega)]
              simp only [eciesRLen, eciesHLen, blockSize] at hn ⊢
              omega

theorem eciesOpenFixed_alloc_le (p m : Bytes → Bool) (c : Bytes) : (eciesOpenFixed p m c).2 ≤ c.length :=
  eciesOpenG_alloc_le _ p m c

theorem hsStepWith_alloc_le {σ : Type} (o : Bytes → HsOut × Nat) (ho : ∀ c, (o c).2 ≤ c.length)
    (lim : Nat) (R : Reader σ) (hR : Lawful R) (st : σ) :
    (hsStepWith o lim R st).alloc ≤ 6 + 2 * lim := by
  unfold hsStepWith
  split
  · simp only; omega
  · simp only
    split
    · simp only; omega
    · split
      · simp only; omega
      · split
        · simp only; omega
        · rename_i hlim
          split
          · simp only; omega
          · rename_i c st3 hl
            have h1 := hR _ _ _ _ hl
            have h2 := ho c
            simp only
            omega

/-- the code before commit 529e8a0: the FULL bound demanded of the pre-handshake reader (same
    constant as for frames) is FALSE: six bytes from an unauthenticated remote make the node
    request 1 GiB -/
theorem hs_alloc_bound_refuted (p m : Bytes → Bool) :
    (hsStep p m realCfg flat [0x5a, 0x48, 0x40, 0, 0, 0]).alloc = 6 + 1073741824 ∧
    (hsStep p m realCfg flat [0x5a, 0x48, 0x40, 0, 0, 0]).out = .needMore ∧
    ¬ (hsStep p m realCfg flat [0x5a, 0x48, 0x40, 0, 0, 0]).alloc ≤ 6 + 2 * realCfg.maxLen := by
  refine ⟨by rfl, by rfl, ?_⟩
  have : (hsStep p m realCfg flat [0x5a, 0x48, 0x40, 0, 0, 0]).alloc = 6 + 1073741824 := by rfl
  rw [this]
  decide

/-- (code before commit 529e8a0) PARTIAL: the bound holds with the handshake reader's former
    constant (PackageMaxLen, 1 GiB) -/
theorem hs_alloc_partial {σ : Type} (p m : Bytes → Bool) (cfg : Cfg) (R : Reader σ) (hR : Lawful R) (st : σ) :
    (hsStep p m cfg R st).alloc ≤ 6 + 2 * cfg.hsMaxLen :=
  hsStepWith_alloc_le _ (eciesOpen_alloc_le p m) cfg.hsMaxLen R hR st

/-- HEADLINE. FULL bound for the pre-handshake reader as coded now (length limited by
    MaxPackageLength) -/
theorem hsFixed_alloc_bound {σ : Type} (p m : Bytes → Bool) (cfg : Cfg) (R : Reader σ) (hR : Lawful R) (st : σ) :
    (hsStepFixed p m cfg R st).alloc ≤ 6 + 2 * cfg.maxLen :=
  hsStepWith_alloc_le _ (eciesOpenFixed_alloc_le p m) cfg.maxLen R hR st

/-- (code before commit fdba898) exact condition for the ECIES opener to panic: a message with a valid point and a valid MAC
    whose symmetric part is shorter than one AES block (98 ≤ len < 113) -/
theorem eciesOpen_panic_iff (p m : Bytes → Bool) (c : Bytes) :
    (∃ s a, eciesOpen p m c = (.panic s, a)) ↔
      (∃ b t, c = b :: t ∧ (b = 2 ∨ b = 3 ∨ b = 4)) ∧ 98 ≤ c.length ∧ c.length < 113 ∧ p c = true ∧ m c = true := by
  unfold eciesOpen eciesRLen eciesHLen blockSize
  constructor
  · rintro ⟨s, a, h⟩
    split at h
    · cases h
    · rename_i b t
      simp only at h
      split at h
      · cases h
      · rename_i hb
        split at h
        · cases h
        · rename_i hlen
          split at h
          · cases h
          · rename_i hp
            split at h
            · cases h
            · rename_i hm
              split at h
              · rename_i hct
                refine ⟨⟨b, t, rfl, ?_⟩, by omega, by omega, by simpa using hp, by simpa using hm⟩
                by_cases h2 : b = 2
                · exact Or.inl h2
                · by_cases h3 : b = 3
                  · exact Or.inr (Or.inl h3)
                  · by_cases h4 : b = 4
                    · exact Or.inr (Or.inr h4)
                    · exact absurd ⟨h2, h3, h4⟩ hb
              · cases h
  · rintro ⟨⟨b, t, rfl, hb⟩, h98, h113, hp, hm⟩
    refine ⟨.makeslice, 0, ?_⟩
    have hb' : ¬ (b ≠ 2 ∧ b ≠ 3 ∧ b ≠ 4) := by
      rintro ⟨h2, h3, h4⟩
      rcases hb with h | h | h
      · exact h2 h
      · exact h3 h
      · exact h4 h
    have h1 : ¬ (b :: t).length < 65 + 32 + 1 := by omega
    have h2 : (b :: t).length - 65 - 32 < 16 := by omega
    simp only [hb', if_false, h1, hp, hm, Bool.not_true, Bool.false_eq_true, h2, if_true]

/-- the code before commit fdba898: `hs_total` is FALSE, 104 bytes before any authentication -/
theorem hs_total_refuted :
    (hsStep (fun _ => true) (fun _ => true) realCfg flat
      ([0x5a, 0x48, 0, 0, 0, 98] ++ (4 :: List.replicate 97 0))).out = .panic .makeslice := by
  decide

/-- HEADLINE lemma. The live ECIES opener keeps the panicking `make([]byte, len(ct)-BlockSize)`;
    its `none` branch is unreachable BECAUSE of the length guard fdba898 (used at the marked line).
    Without the guard the same definition panics: `guard_eciesBlock_needed`. -/
theorem eciesOpenG_guarded_no_panic (p m : Bytes → Bool) (c : Bytes) (s : Site) (a : Nat) :
    eciesOpenG true p m c ≠ (.panic s, a) := by
  cases c with
  | nil => simp [eciesOpenG]
  | cons b t =>
    rw [eciesOpenG_cons]
    by_cases h1 : b ≠ 2 ∧ b ≠ 3 ∧ b ≠ 4
    · rw [if_pos h1]; intro h; cases h
    · rw [if_neg h1]
      by_cases h2 : (b :: t).length < eciesRLen + eciesHLen + (if true then blockSize else 1)
      · rw [if_pos h2]; intro h; cases h
      · rw [if_neg h2]
        by_cases h3 : (!p (b :: t)) = true
        · rw [if_pos h3]; intro h; cases h
        · rw [if_neg h3]
          by_cases h4 : (!m (b :: t)) = true
          · rw [if_pos h4]; intro h; cases h
          · rw [if_neg h4]
            -- here the guard is used: len ≥ 65 + 32 + 16, so the length handed to `make` is ≥ 0
            have hn : 0 ≤ ((b :: t).length : Int) - (eciesRLen : Int) - (eciesHLen : Int) - (blockSize : Int) := by
              simp only [eciesRLen, eciesHLen, blockSize, if_true] at h2 ⊢
              omega
            rw [makeBytes_nonneg hn]
            intro h; cases h

theorem eciesOpenFixed_no_panic (p m : Bytes → Bool) (c : Bytes) (s : Site) (a : Nat) :
    eciesOpenFixed p m c ≠ (.panic s, a) :=
  eciesOpenG_guarded_no_panic p m c s a

/-- without guard fdba898 the same model panics: 98-byte envelope, valid point and MAC -/
theorem guard_eciesBlock_needed :
    eciesOpenG false (fun _ => true) (fun _ => true) (4 :: List.replicate 97 0) = (.panic .makeslice, 0) := by
  decide

/-- with the guard off the parametrised opener IS the pre-repair model -/
theorem eciesOpen_cons (p m : Bytes → Bool) (b : UInt8) (t : Bytes) :
    eciesOpen p m (b :: t) =
      if b ≠ 2 ∧ b ≠ 3 ∧ b ≠ 4 then (.err .eciesKey, 0)
      else if (b :: t).length < eciesRLen + eciesHLen + 1 then (.err .eciesMsg, 0)
      else if !p (b :: t) then (.err .eciesKey, 0)
      else if !m (b :: t) then (.err .eciesMsg, 0)
      else if (b :: t).length - eciesRLen - eciesHLen < blockSize then (.panic .makeslice, 0)
      else (.ok ((b :: t).length - eciesRLen - eciesHLen - blockSize), (b :: t).length - eciesRLen - eciesHLen - blockSize) := by
  rfl

theorem eciesOpenG_false (p m : Bytes → Bool) (c : Bytes) : eciesOpenG false p m c = eciesOpen p m c := by
  cases c with
  | nil => rfl
  | cons b t =>
    rw [eciesOpenG_cons, eciesOpen_cons]
    by_cases h1 : b ≠ 2 ∧ b ≠ 3 ∧ b ≠ 4
    · rw [if_pos h1, if_pos h1]
    · rw [if_neg h1, if_neg h1]
      have e : (if false = true then blockSize else 1) = 1 := by simp
      rw [e]
      by_cases h2 : (b :: t).length < eciesRLen + eciesHLen + 1
      · rw [if_pos h2, if_pos h2]
      · rw [if_neg h2, if_neg h2]
        by_cases h3 : (!p (b :: t)) = true
        · rw [if_pos h3, if_pos h3]
        · rw [if_neg h3, if_neg h3]
          by_cases h4 : (!m (b :: t)) = true
          · rw [if_pos h4, if_pos h4]
          · rw [if_neg h4, if_neg h4]
            by_cases hct : (b :: t).length - eciesRLen - eciesHLen < blockSize
            · rw [if_pos hct]
              have : ((b :: t).length : Int) - (eciesRLen : Int) - (eciesHLen : Int) - (blockSize : Int) < 0 := by
                simp only [eciesRLen, eciesHLen, blockSize] at hct h2 ⊢; omega
              rw [makeBytes_neg this]
            · rw [if_neg hct]
              have h0 : 0 ≤ ((b :: t).length : Int) - (eciesRLen : Int) - (eciesHLen : Int) - (blockSize : Int) := by
                simp only [eciesRLen, eciesHLen, blockSize] at hct h2 ⊢; omega
              rw [makeBytes_nonneg h0]
              have : (((b :: t).length : Int) - (eciesRLen : Int) - (eciesHLen : Int) - (blockSize : Int)).toNat
                  = (b :: t).length - eciesRLen - eciesHLen - blockSize := by
                simp only [eciesRLen, eciesHLen, blockSize] at hct h2 ⊢; omega
              rw [this]

theorem hsStepWith_no_panic {σ : Type} (o : Bytes → HsOut × Nat) (ho : ∀ c s a, o c ≠ (.panic s, a))
    (lim : Nat) (R : Reader σ) (st : σ) (s : Site) : (hsStepWith o lim R st).out ≠ .panic s := by
  unfold hsStepWith
  intro h
  split at h
  · cases h
  · simp only at h
    split at h
    · cases h
    · split at h
      · cases h
      · split at h
        · cases h
        · split at h
          · cases h
          · rename_i c st3 hl
            simp only at h
            exact ho c s (o c).2 (by rw [← h])

/-- HEADLINE. FULL `hs_total` for the pre-handshake reader as coded now -/
theorem hsFixed_total {σ : Type} (p m : Bytes → Bool) (cfg : Cfg) (R : Reader σ) (st : σ) (s : Site) :
    (hsStepFixed p m cfg R st).out ≠ .panic s :=
  hsStepWith_no_panic _ (eciesOpenFixed_no_panic p m) cfg.maxLen R st s

/-- (code before commit fdba898) EXACT partial form of `hs_total`: the old pre-handshake reader
    panics only on an envelope — the `c` it actually read and passed to the ECIES opener — of
    98..112 bytes with a valid point and MAC.  (Replaces the former `hs_total_partial`, whose
    hypothesis quantified over every possible read and was unsatisfiable.)  Non-vacuous:
    `hs_total_refuted` is such a run. -/
theorem hs_panic_only_short_envelope {σ : Type} (p m : Bytes → Bool) (cfg : Cfg) (R : Reader σ) (st : σ) (s : Site)
    (h : (hsStep p m cfg R st).out = .panic s) :
    ∃ n st' c st'', R.readFull n st' = some (c, st'') ∧ 98 ≤ c.length ∧ c.length < 113 ∧
      p c = true ∧ m c = true ∧ s = .makeslice := by
  unfold hsStep hsStepWith at h
  split at h
  · cases h
  · simp only at h
    split at h
    · cases h
    · split at h
      · cases h
      · split at h
        · cases h
        · split at h
          · cases h
          · rename_i c st3 hl
            simp only at h
            have hp : ∃ s a, eciesOpen p m c = (.panic s, a) := ⟨s, (eciesOpen p m c).2, by rw [← h]⟩
            obtain ⟨_, h98, h113, hpc, hmc⟩ := (eciesOpen_panic_iff p m c).mp hp
            refine ⟨_, _, c, st3, hl, h98, h113, hpc, hmc, ?_⟩
            -- the only panic site of eciesOpen is makeslice
            unfold eciesOpen at h
            split at h
            · cases h
            · simp only at h
              split at h
              · cases h
              · split at h
                · cases h
                · split at h
                  · cases h
                  · split at h
                    · cases h
                    · split at h
                      · cases h; rfl
                      · cases h

/-! ### the fuel of `run` is sufficient: the `fuel = 0` arm of `runWith` is never reached -/

/-- any two fuels larger than the stream length give the same run (each frame consumes ≥ 6 bytes) -/
theorem runWith_fuel_irrelevant (h : Bytes → Handled) (cfg : Cfg) :
    ∀ (n : Nat) (s : Bytes), s.length < n → ∀ m, s.length < m →
      runWith h flat cfg n s = runWith h flat cfg m s := by
  intro n
  induction n with
  | zero => intro s hs; omega
  | succ k ih =>
    intro s hs m hm
    cases m with
    | zero => omega
    | succ m' =>
      unfold runWith frameStepWith
      cases hr : readConn flat cfg s with
      | needMore a => rfl
      | err e a => rfl
      | content c rest a =>
        obtain ⟨hlen, _, _⟩ := readConn_flat_content hr
        simp only
        cases h c with
        | panic s' => rfl
        | err e => rfl
        | heartbeat => simp only; rw [ih rest (by omega) m' (by omega)]
        | deliver code p => simp only; rw [ih rest (by omega) m' (by omega)]

theorem runFixed_fuel (dec : Bytes → Bytes) (cfg : Cfg) (s : Bytes) (extra : Nat) :
    runWith (handleFixed dec) flat cfg (s.length + 1 + extra) s = runFixed dec cfg s :=
  runWith_fuel_irrelevant _ cfg _ s (by omega) _ (by omega)

/-- either the step stopped before the content arrived (≤ 6 + lim requested), or the three reads
    succeeded and the step requested 6 + |c| + what the opener requested -/
theorem hsStepWith_shape {σ : Type} (o : Bytes → HsOut × Nat) (lim : Nat) (R : Reader σ) (hR : Lawful R) (st : σ) :
    (∃ out a, hsStepWith o lim R st = ⟨out, a⟩ ∧ a ≤ 6 + lim) ∨
    (∃ pp st1 l st2 c st3, R.readFull 2 st = some (pp, st1) ∧ R.readFull 4 st1 = some (l, st2) ∧
        (∃ n, R.readFull n st2 = some (c, st3)) ∧ c.length ≤ lim ∧
        hsStepWith o lim R st = ⟨(o c).1, 6 + c.length + (o c).2⟩) := by
  unfold hsStepWith
  cases h2 : R.readFull 2 st with
  | none => exact Or.inl ⟨.needMore, 2, rfl, by omega⟩
  | some q =>
    obtain ⟨pp, st1⟩ := q
    simp only
    by_cases hm : pp.getD 0 0 ≠ magic0 ∨ pp.getD 1 0 ≠ magic1
    · rw [if_pos hm]; exact Or.inl ⟨.err .unavailable, 2, rfl, by omega⟩
    · rw [if_neg hm]
      cases h4 : R.readFull 4 st1 with
      | none => exact Or.inl ⟨.needMore, 6, rfl, by omega⟩
      | some r =>
        obtain ⟨l, st2⟩ := r
        simp only
        generalize be32 (l.getD 0 0) (l.getD 1 0) (l.getD 2 0) (l.getD 3 0) = len
        by_cases hlim : len = 0 ∨ len > lim
        · rw [if_pos hlim]; exact Or.inl ⟨.err .unavailable, 6, rfl, by omega⟩
        · rw [if_neg hlim]
          have hb1 : 6 + len ≤ 6 + lim := by omega
          cases hl : R.readFull len st2 with
          | none => exact Or.inl ⟨.needMore, 6 + len, rfl, hb1⟩
          | some t =>
            obtain ⟨c, st3⟩ := t
            have hc : c.length = len := hR _ _ _ _ hl
            have hc2 : c.length ≤ lim := by omega
            refine Or.inr ⟨pp, st1, l, st2, c, st3, rfl, h4, ⟨len, hl⟩, hc2, ?_⟩
            simp only
            rw [hc]

theorem hsStepWith_flat_le (o : Bytes → HsOut × Nat) (ho : ∀ c, (o c).2 ≤ c.length) (lim : Nat) (s : Bytes) :
    (hsStepWith o lim flat s).alloc ≤ 2 * s.length + 6 + lim := by
  rcases hsStepWith_shape o lim flat flat_lawful s with ⟨out, a, h, ha⟩ | ⟨pp, s1, l, s2, c, s3, h2, h4, ⟨n, hl⟩, _, h⟩
  · rw [h]; exact Nat.le_trans ha (by omega)
  · rw [h]
    have a1 := flatRead_some (show flatRead 2 s = some (pp, s1) from h2)
    have a2 := flatRead_some (show flatRead 4 s1 = some (l, s2) from h4)
    have a3 := flatRead_some (show flatRead n s2 = some (c, s3) from hl)
    have a4 := ho c
    show 6 + c.length + (o c).2 ≤ 2 * s.length + 6 + lim
    omega

/-- cumulative form for the pre-handshake reader (it performs a single step per connection):
    twice the bytes received plus one outstanding buffer -/
theorem hsFixed_alloc_cumulative (p m : Bytes → Bool) (cfg : Cfg) (s : Bytes) :
    (hsStepFixed p m cfg flat s).alloc ≤ 2 * s.length + 6 + cfg.maxLen :=
  hsStepWith_flat_le (eciesOpenFixed p m) (eciesOpenFixed_alloc_le p m) cfg.maxLen s

/-! ### the former crash / allocation witnesses, on the code as it is now -/

theorem witness_cryptBlocks_now (dec : Bytes → Bytes) :
    runFixed dec realCfg [0x5a, 0x48, 0, 0, 0, 1, 0xff] = [.err .badLength] := by
  rfl

theorem witness_shortPlain_now :
    runFixed id realCfg ([0x5a, 0x48, 0, 0, 0, 16] ++ List.replicate 16 0x10) = [.err .shortPlain] := by
  decide

theorem witness_hs_alloc_now (p m : Bytes → Bool) :
    (hsStepFixed p m realCfg flat [0x5a, 0x48, 0x40, 0, 0, 0]).out = .err .unavailable ∧
    (hsStepFixed p m realCfg flat [0x5a, 0x48, 0x40, 0, 0, 0]).alloc = 6 :=
  ⟨by rfl, by rfl⟩

theorem witness_hs_ecies_now :
    (hsStepFixed (fun _ => true) (fun _ => true) realCfg flat
      ([0x5a, 0x48, 0, 0, 0, 98] ++ (4 :: List.replicate 97 0))).out = .err .eciesMsg := by
  decide

/-! ### dropping the connection from several goroutines at once (`Peer.Close`) -/

section close
open LemoModel.Frame.Close LemoProofs.CloseLemmas

/-- FULL: with `p.wmu` around check+close, for ANY number of closers and EVERY schedule, nobody
    panics and `close(p.stopCh)` is executed at most once -/
theorem close_mutex_safe (sched : List Nat) :
    (run true init sched).panicked = false ∧ (run true init sched).closes ≤ 1 := by
  have h := run_inv sched init init_inv
  refine ⟨h.noPanic, ?_⟩
  rw [h.cnt]
  split <;> omega

/-- … and exactly once as soon as one closer has returned from `Close` -/
theorem close_exactly_once (sched : List Nat) (i : Nat) (hd : (run true init sched).pc i = .done) :
    (run true init sched).closed = true ∧ (run true init sched).closes = 1 := by
  have h := run_inv sched init init_inv
  have hc := h.fin i (Or.inl hd)
  refine ⟨hc, ?_⟩
  rw [h.cnt, hc]
  rfl

/-- every closer that is scheduled often enough does return (no deadlock on `wmu` in the
    round-robin schedule); non-vacuity of `close_exactly_once` for 3 closers -/
example : (run true init (roundRobin 3)).pc 0 = .done ∧ (run true init (roundRobin 3)).pc 1 = .done ∧
    (run true init (roundRobin 3)).pc 2 = .done ∧ (run true init (roundRobin 3)).closes = 1 := by
  decide

/-- REFUTATION without the mutex (`Close` = bare `safeClose`): two closers, both run the check
    before either closes — the second `close(p.stopCh)` panics -/
theorem close_race_refuted : (run false init [0, 1, 0, 1, 0, 1]).panicked = true := by
  decide

/-- the fact table regenerated from network/p2p says check+close run under the mutex … -/
theorem close_sites_guarded : mutexOfTable = true := by
  decide

/-- … hence, for the code as it is: any number of simultaneous closers, every schedule -/
theorem close_race_free (sched : List Nat) :
    (run mutexOfTable init sched).panicked = false ∧ (run mutexOfTable init sched).closes ≤ 1 := by
  rw [close_sites_guarded]
  exact close_mutex_safe sched

end close

/-! ### types.recoverSigners: the length check precedes every slice of the signature -/

section sigguard
open LemoModel.Frame.SigGuard

/-- once Ecrecover has accepted the signature (length 65), no later slice or index can panic;
    if it refuses, the function has already returned -/
theorem recoverGuard_no_panic (n : Nat) (recoverable : Bool) : SigGuard.run n recoverable asCoded ≠ .panic := by
  show SigGuard.run n recoverable [.ecrecover, .sliceR, .sliceS, .indexV] ≠ .panic
  unfold SigGuard.run exec
  by_cases h : n ≠ 65
  · simp [h]
  · have h65 : n = 65 := by omega
    subst h65
    cases recoverable <;> simp [SigGuard.run, exec]

/-- what the guard buys: any statement order that starts with the recovery is total … -/
theorem recoverGuard_any_order_after_check (n : Nat) (recoverable : Bool) (rest : List Stmt) :
    SigGuard.run n recoverable (.ecrecover :: rest) ≠ .panic := by
  unfold SigGuard.run exec
  by_cases h : n ≠ 65
  · simp [h]
  · have h65 : n = 65 := by omega
    subst h65
    cases recoverable
    · simp
    · simp only [ne_eq, not_true_eq_false, if_false, if_true]
      induction rest with
      | nil => simp [SigGuard.run]
      | cons st tl ih =>
        unfold SigGuard.run
        cases st <;> simp [exec] <;> exact ih

/-- … and the reordered variant (value checks first) panics on EVERY signature shorter than 65
    bytes — exactly the lengths only the p2p path can deliver -/
theorem recoverGuard_reordered_panics (n : Nat) (recoverable : Bool) (h : n < 65) :
    SigGuard.run n recoverable reordered = .panic := by
  unfold reordered SigGuard.run exec
  by_cases h32 : n < 32
  · simp [h32]
  · by_cases h64 : n < 64
    · simp [h32, h64, SigGuard.run, exec]
    · simp [h32, h64, SigGuard.run, exec, h]

/-- concrete witness: a 3-byte signature -/
theorem recoverGuard_reordered_refuted : SigGuard.run 3 true reordered = .panic := by
  decide

/-- the reordering changes nothing on 65-byte signatures (why it looks like a harmless optimisation) -/
theorem recoverGuard_reordered_same_on_65 (recoverable : Bool) :
    SigGuard.run 65 recoverable reordered = SigGuard.run 65 recoverable asCoded := by
  cases recoverable <;> decide

end sigguard

end LemoProofs.C15

/-
  C16 — contract execution is sandboxed: bounded by gas, deterministic,
  all-or-nothing, depth ≤ 1024.

  The statements are about `LemoModel.Evm` (the interpreter's resource
  discipline over an abstract instruction semantics; every step reads a
  `Choice` = all the information the real interpreter takes from code, stack,
  memory and state).  They hold for every stream of choices `o : Nat → Choice`,
  i.e. for every bytecode, every call data, every state, every gas limit and
  every nesting.  The jump-table facts they need (`Table.WF`) are decided on
  `LemoModel.EvmTable.table`, the table regenerated from the real
  `vm.NewInstructionSet()` (hook chain/vm/verif_table.go) and compared line by
  line with the live table on every `./check C16` run.

  Determinism: `step`, `run` are functions of (table, machine, choices) only —
  there is nothing else they could read.  The content of "deterministic" for
  the implementation (same result from the same state) is checked by the
  direct oracle of `hx c16`.
-/
import LemoModel.Evm
import LemoModel.EvmTable
import LemoProofs.Lemmas.EvmShape
namespace LemoProofs.C16
open LemoModel LemoModel.Evm LemoProofs.EvmShape

/-! ### the regenerated jump table satisfies the premises -/

set_option maxRecDepth 100000 in
theorem table_length : EvmTable.table.rows.length = 256 := by decide

theorem table_info_ge (op : Nat) (h : 256 ≤ op) : EvmTable.table.info op = OpInfo.invalid := by
  unfold Table.info
  rw [List.getD_eq_getElem?_getD, List.getElem?_eq_none (by rw [table_length]; exact h)]
  rfl

set_option maxRecDepth 100000 in
theorem table_cost_pos_lt : ∀ op < 256, (EvmTable.table.info op).valid = true →
    (EvmTable.table.kindOf op ≠ none ∨ ((EvmTable.table.info op).halts = false ∧ (EvmTable.table.info op).reverts = false)) →
    1 ≤ (EvmTable.table.info op).minGas := by
  decide

/-- **table premise**: on the real jump table every valid instruction that does not end the frame
    (everything except STOP, RETURN, REVERT, SELFDESTRUCT) costs at least 1 gas (JUMPDEST = 1 is the
    minimum), and the call stipend (2300) is covered by the value-transfer surcharge (9000). -/
theorem table_wf : EvmTable.table.WF where
  cost_pos := by
    intro op hv h
    by_cases hlt : op < 256
    · exact table_cost_pos_lt op hlt hv h
    · rw [table_info_ge op (by omega)] at hv
      cases hv
  stipend := by decide

/-- the five call-type opcodes are valid, do not end the frame by themselves, and CREATE is a
    state-writing instruction (so it is refused under readOnly) -/
theorem table_call_ops :
    let T := EvmTable.table
    ∀ op ∈ [T.params.opCall, T.params.opCallCode, T.params.opDelegateCall, T.params.opStaticCall, T.params.opCreate],
      (T.info op).valid = true ∧ (T.info op).halts = false ∧ (T.info op).reverts = false ∧ (T.info op).jumps = false := by
  decide

theorem table_create_writes : (EvmTable.table.info EvmTable.table.params.opCreate).writes = true := by decide

theorem table_createBySuicide_pos : 0 < EvmTable.table.params.createBySuicide := by decide

/-! ### termination -/

theorem meas_of_shape {P : Params} {m m' : Machine} {f : Frame} {rest : List Frame}
    (hm : m.frames = f :: rest) (h : Shape P m f rest m') : m'.meas < m.meas := by
  unfold Machine.meas
  rw [hm]
  cases h with
  | pop g res hg hf hr =>
    rw [hf, length_addGas]
    have := sumGas_addGas_le rest g
    simp only [sumGas, List.length_cons]
    omega
  | cont g hg hf hr =>
    rw [hf]
    simp only [sumGas, List.length_cons]
    omega
  | push g cf hg hs hd hf hr =>
    rw [hf]
    simp only [sumGas, List.length_cons]
    omega

/-- every step of a live machine strictly decreases `2·(gas held by all frames) + depth` -/
theorem step_meas_lt (T : Table) (hT : T.WF) (m : Machine) (c : Choice) (h : m.frames ≠ []) :
    (step T m c).meas < m.meas := by
  cases hm : m.frames with
  | nil => exact absurd hm h
  | cons f rest => exact meas_of_shape hm (step_shape T hT m c f rest hm)

/-- The interpreter, run to completion on the choice stream `o` (the `i`-th step reads `o i`).
    There is no fuel parameter: the recursion is well-founded on `Machine.meas`. -/
def run (T : Table) (hT : T.WF) (o : Nat → Choice) (i : Nat) (m : Machine) : Machine :=
  if h : m.frames = [] then m
  else run T hT o (i + 1) (step T m (o i))
termination_by m.meas
decreasing_by exact step_meas_lt T hT m (o i) h

/-- **run_terminates**: for every table satisfying the premises, every stream of choices (every
    bytecode / state) and every start machine, execution ends: `run` is total and its result has
    no live frame. -/
theorem run_terminates (T : Table) (hT : T.WF) (o : Nat → Choice) (i : Nat) (m : Machine) :
    (run T hT o i m).frames = [] := by
  induction hn : m.meas using Nat.strongRecOn generalizing i m with
  | ind n ih =>
    unfold run
    split
    · assumption
    · rename_i h
      exact ih _ (by rw [← hn]; exact step_meas_lt T hT m (o i) h) _ _ rfl

/-- fuel-style reading of the same fact: `n` steps -/
def iter (T : Table) (o : Nat → Choice) : Nat → Nat → Machine → Machine
  | 0, _, m => m
  | n + 1, i, m => if m.frames = [] then m else iter T o n (i + 1) (step T m (o i))

/-- **steps_bounded**: `2·gas + depth` steps always suffice -/
theorem steps_bounded (T : Table) (hT : T.WF) (o : Nat → Choice) (n i : Nat) (m : Machine) (h : m.meas ≤ n) :
    (iter T o n i m).frames = [] := by
  induction n generalizing i m with
  | zero =>
    unfold Machine.meas at h
    have : m.frames.length = 0 := by omega
    simpa [iter] using this
  | succ n ih =>
    unfold iter
    split
    · assumption
    · rename_i hne
      exact ih _ _ (by have := step_meas_lt T hT m (o i) hne; omega)

end LemoProofs.C16

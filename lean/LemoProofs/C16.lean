/-
  C16 — contract execution is sandboxed: bounded by gas, deterministic,
  all-or-nothing, depth ≤ 1024.

  The statements are about `LemoModel.Evm` (the interpreter's resource
  discipline over an abstract instruction semantics; every step reads a
  `Choice` = all the information the real interpreter takes from code, stack,
  memory and state).  They hold for every stream of choices `o : Nat → Choice`,
  i.e. for every bytecode, every call data, every state, every gas limit and
  every nesting.  The jump-table facts they need (`Table.WF`) are decided on
  `LemoModel.EvmTable.table`, the table regenerated from the real
  `vm.NewInstructionSet()` (hook chain/vm/verif_table.go) and compared line by
  line with the live table on every `./check C16` run.

  NOT proved here (oracle only, see props `partial`): determinism of the
  implementation (same result from the same state) and absence of panics in
  the Go code — `step`/`run` are functions, which says nothing about Go maps,
  pools or precompile bodies; both are checked by the direct oracle of
  `hx c16` (three runs per case, `Safe`).  Exceptions with theorems over
  byte-faithful models: the jump-destination analysis, getData / getDataBig and
  Memory.Set / Get / Resize (LemoProofs/C16Jump.lean, imported below) and the
  length handling of MODEXP (Lemmas/EvmModExp).
  Depth: the interpreter runs at `evm.depth` 1 … CallCreateDepth+1 = 1025 (a call
  is refused when *made from* depth > 1024, exactly as in upstream geth); the
  literal "≤ 1024" holds for the depth at which calls are accepted
  (`call_depth_checked`), frames exist up to 1025 (`depth_bounded`).
-/
import LemoModel.Evm
import LemoModel.EvmTable
import LemoGen.Gas
import LemoProofs.Lemmas.EvmShape
import LemoProofs.Lemmas.EvmJournal
import LemoProofs.Lemmas.EvmStatic
import LemoProofs.Lemmas.EvmModExp
import LemoProofs.Lemmas.EvmGasLemmas
import LemoProofs.C16Jump
namespace LemoProofs.C16
open LemoModel LemoModel.Evm LemoProofs.EvmShape LemoProofs.EvmJournal LemoProofs.EvmStatic

/-! ### the regenerated jump table satisfies the premises -/

set_option maxRecDepth 100000 in
theorem table_length : EvmTable.table.rows.length = 256 := by decide

theorem table_info_ge (op : Nat) (h : 256 ≤ op) : EvmTable.table.info op = OpInfo.invalid := by
  unfold Table.info
  rw [List.getD_eq_getElem?_getD, List.getElem?_eq_none (by rw [table_length]; exact h)]
  rfl

set_option maxRecDepth 100000 in
theorem table_cost_pos_lt : ∀ op < 256, (EvmTable.table.info op).valid = true →
    (EvmTable.table.kindOf op ≠ none ∨ ((EvmTable.table.info op).halts = false ∧ (EvmTable.table.info op).reverts = false)) →
    1 ≤ (EvmTable.table.info op).minGas := by
  decide

/-- **table premise**: on the real jump table every valid instruction that does not end the frame
    (everything except STOP, RETURN, REVERT, SELFDESTRUCT) costs at least 1 gas (JUMPDEST = 1 is the
    minimum), and the call stipend (2300) is covered by the value-transfer surcharge (9000). -/
theorem table_wf : EvmTable.table.WF where
  cost_pos := by
    intro op hv h
    by_cases hlt : op < 256
    · exact table_cost_pos_lt op hlt hv h
    · rw [table_info_ge op (by omega)] at hv
      cases hv
  stipend := by decide

/-- the five call-type opcodes are valid, do not end the frame by themselves, and CREATE is a
    state-writing instruction (so it is refused under readOnly) -/
theorem table_call_ops :
    let T := EvmTable.table
    ∀ op ∈ [T.params.opCall, T.params.opCallCode, T.params.opDelegateCall, T.params.opStaticCall, T.params.opCreate],
      (T.info op).valid = true ∧ (T.info op).halts = false ∧ (T.info op).reverts = false ∧ (T.info op).jumps = false := by
  decide

theorem table_create_writes : (EvmTable.table.info EvmTable.table.params.opCreate).writes = true := by decide

theorem table_createBySuicide_pos : 0 < EvmTable.table.params.createBySuicide := by decide

/-- the baked constants agree with the ones tools/go2lean regenerates from the Go source on every run -/
theorem params_match_generated :
    EvmTable.table.params.callCreateDepth = LemoGen.Gas.CallCreateDepth ∧
    (EvmTable.table.params.maxCodeSize : Int) = LemoGen.Gas.MaxCodeSize := by decide

/-- `gasCall` charges CallNewAccountGas (25000) *instead of* CallValueTransferGas (9000) when the
    recipient is empty (upstream geth charges both); the model's lower bound `minGas + 9000 + extra`
    is sound because 9000 ≤ 25000 -/
theorem table_value_surcharge_le_new_account :
    EvmTable.table.params.callValueTransferGas ≤ EvmTable.table.params.callNewAccountGas := by decide

/-! ### termination -/

theorem meas_of_shape {P : Params} {m m' : Machine} {f : Frame} {rest : List Frame}
    (hm : m.frames = f :: rest) (h : Shape P m f rest m') : m'.meas < m.meas := by
  unfold Machine.meas
  rw [hm]
  cases h with
  | pop g res hg hf hr =>
    rw [hf, length_addGas]
    have := sumGas_addGas_le rest g
    simp only [sumGas, List.length_cons]
    omega
  | cont g hg hf hr =>
    rw [hf]
    simp only [sumGas, List.length_cons]
    omega
  | push g cf hg hs hd hf hr =>
    rw [hf]
    simp only [sumGas, List.length_cons]
    omega

/-- every step of a live machine strictly decreases `2·(gas held by all frames) + depth` -/
theorem step_meas_lt (T : Table) (hT : T.WF) (m : Machine) (c : Choice) (h : m.frames ≠ []) :
    (step T m c).meas < m.meas := by
  cases hm : m.frames with
  | nil => exact absurd hm h
  | cons f rest => exact meas_of_shape hm (step_shape T hT m c f rest hm)

/-- The interpreter, run to completion on the choice stream `o` (the `i`-th step reads `o i`).
    There is no fuel parameter: the recursion is well-founded on `Machine.meas`. -/
def run (T : Table) (hT : T.WF) (o : Nat → Choice) (i : Nat) (m : Machine) : Machine :=
  if h : m.frames = [] then m
  else run T hT o (i + 1) (step T m (o i))
termination_by m.meas
decreasing_by exact step_meas_lt T hT m (o i) h

/-- **run_terminates**: for every table satisfying the premises, every stream of choices (every
    bytecode / state) and every start machine, execution ends: `run` is total and its result has
    no live frame. -/
theorem run_terminates (T : Table) (hT : T.WF) (o : Nat → Choice) (i : Nat) (m : Machine) :
    (run T hT o i m).frames = [] := by
  induction hn : m.meas using Nat.strongRecOn generalizing i m with
  | ind n ih =>
    unfold run
    split
    · assumption
    · rename_i h
      exact ih _ (by rw [← hn]; exact step_meas_lt T hT m (o i) h) _ _ rfl

/-- fuel-style reading of the same fact: `n` steps -/
def iter (T : Table) (o : Nat → Choice) : Nat → Nat → Machine → Machine
  | 0, _, m => m
  | n + 1, i, m => if m.frames = [] then m else iter T o n (i + 1) (step T m (o i))

/-- **steps_bounded**: `2·gas + depth` steps always suffice -/
theorem steps_bounded (T : Table) (hT : T.WF) (o : Nat → Choice) (n i : Nat) (m : Machine) (h : m.meas ≤ n) :
    (iter T o n i m).frames = [] := by
  induction n generalizing i m with
  | zero =>
    unfold Machine.meas at h
    have : m.frames.length = 0 := by omega
    simpa [iter] using this
  | succ n ih =>
    unfold iter
    split
    · assumption
    · rename_i hne
      exact ih _ _ (by have := step_meas_lt T hT m (o i) hne; omega)

/-! ### gas -/

/-- every frame, together with all the gas held by the frames it (transitively) called, holds at
    most the gas it was supplied with (`acc` = gas held by the frames above) -/
def GasInv : Nat → List Frame → Prop
  | _, [] => True
  | acc, f :: r => acc + f.gas ≤ f.supplied ∧ GasInv (acc + f.gas) r

theorem gasInv_mono {a b : Nat} {fs : List Frame} (h : a ≤ b) : GasInv b fs → GasInv a fs := by
  induction fs generalizing a b with
  | nil => intro _; trivial
  | cons f r ih => intro ⟨h1, h2⟩; exact ⟨by omega, ih (by omega) h2⟩

theorem gasInv_addGas {acc g : Nat} {rest : List Frame} (h : GasInv (acc + g) rest) : GasInv acc (addGas rest g) := by
  cases rest with
  | nil => trivial
  | cons p r =>
    obtain ⟨h1, h2⟩ := h
    exact ⟨by simp only []; omega, gasInv_mono (by simp only []; omega) h2⟩

/-- **gas_bounded (invariant)**: the per-frame gas bound is preserved by every step -/
theorem gas_inv_step (T : Table) (hT : T.WF) (m : Machine) (c : Choice) (h : GasInv 0 m.frames) :
    GasInv 0 (step T m c).frames := by
  cases hm : m.frames with
  | nil => unfold step; rw [hm]; simp only []; rw [hm]; trivial
  | cons f rest =>
    rw [hm] at h
    obtain ⟨h1, h2⟩ := h
    cases step_shape T hT m c f rest hm with
    | pop g res hg hf hr => rw [hf]; exact gasInv_addGas (gasInv_mono (by omega) h2)
    | cont g hg hf hr => rw [hf]; exact ⟨by simp only []; omega, gasInv_mono (by simp only []; omega) h2⟩
    | push g cf hg hs hd hf hr =>
      rw [hf]
      exact ⟨by omega, by simp only []; omega, gasInv_mono (by simp only []; omega) h2⟩

/-- consequence of the invariant: gas left ≤ gas supplied, at every frame -/
theorem frame_gas_le_supplied {acc : Nat} {fs : List Frame} (h : GasInv acc fs) : ∀ f ∈ fs, f.gas ≤ f.supplied := by
  induction fs generalizing acc with
  | nil => intro f hf; cases hf
  | cons p r ih =>
    intro f hf
    obtain ⟨h1, h2⟩ := h
    cases hf with
    | head => omega
    | tail _ hf' => exact ih h2 f hf'

/-- gas never increases: the gas held by all frames plus the gas already returned to the outside
    never grows (a caller's gas grows only by what its callee hands back, which the callee loses) -/
theorem total_step_le (T : Table) (hT : T.WF) (m : Machine) (c : Choice) : (step T m c).total ≤ m.total := by
  cases hm : m.frames with
  | nil => unfold step; rw [hm]; exact Nat.le_refl _
  | cons f rest =>
    have hs := step_shape T hT m c f rest hm
    unfold Machine.total
    rw [hm]
    cases hs with
    | pop g res hg hf hr =>
      rw [hf, hr]
      have := sumGas_addGas_le rest g
      cases rest with
      | nil => simp [sumGas, addGas]; omega
      | cons p r => simp [sumGas] at *; omega
    | cont g hg hf hr =>
      rw [hf]
      rcases hr with hr | hr <;> rw [hr] <;> simp only [sumGas] <;> omega
    | push g cf hg hs hd hf hr =>
      rw [hf, hr]
      simp only [sumGas]
      omega

theorem run_total_le (T : Table) (hT : T.WF) (o : Nat → Choice) (i : Nat) (m : Machine) :
    (run T hT o i m).total ≤ m.total := by
  induction hn : m.meas using Nat.strongRecOn generalizing i m with
  | ind n ih =>
    unfold run
    split
    · exact Nat.le_refl _
    · rename_i h
      exact Nat.le_trans (ih _ (by rw [← hn]; exact step_meas_lt T hT m (o i) h) _ _ rfl) (total_step_le T hT m (o i))

theorem begin_total_le (T : Table) (k : Kind) (gas : Nat) (value canT : Bool) (callee : Callee) :
    (begin T k gas value canT callee).total ≤ gas := by
  unfold begin Machine.total
  rcases enter_shape T.params Machine.init k gas value canT callee with ⟨x, res, hx, hf, hr⟩ | ⟨cf, hg, _, _, hf, hr⟩
  · rw [hf, hr]; simp [Machine.init, addGas, sumGas]; exact hx
  · rw [hf, hr]; simp [Machine.init, sumGas]; omega

theorem begin_gasInv (T : Table) (k : Kind) (gas : Nat) (value canT : Bool) (callee : Callee) :
    GasInv 0 (begin T k gas value canT callee).frames := by
  unfold begin
  rcases enter_shape T.params Machine.init k gas value canT callee with ⟨x, res, hx, hf, hr⟩ | ⟨cf, hg, hs, _, hf, hr⟩
  · rw [hf]; trivial
  · rw [hf]; exact ⟨by omega, trivial⟩

/-- **gas_bounded**: whatever the code does, an external call / create started with `gas` returns
    `leftOverGas ≤ gas`. -/
theorem gas_bounded (T : Table) (hT : T.WF) (o : Nat → Choice) (k : Kind) (gas : Nat) (value canT : Bool)
    (callee : Callee) (r : Res) (g : Nat)
    (h : (run T hT o 0 (begin T k gas value canT callee)).result = some (r, g)) : g ≤ gas := by
  have h1 := run_total_le T hT o 0 (begin T k gas value canT callee)
  have h2 := begin_total_le T k gas value canT callee
  have h3 := run_terminates T hT o 0 (begin T k gas value canT callee)
  unfold Machine.total at h1 h2
  rw [h, h3] at h1
  simp only [sumGas] at h1
  omega

/-- the per-frame gas bound holds at every point of every execution started from outside -/
theorem gasInv_reachable (T : Table) (hT : T.WF) (o : Nat → Choice) (k : Kind) (gas : Nat) (value canT : Bool)
    (callee : Callee) (n : Nat) :
    GasInv 0 (iter T o n 0 (begin T k gas value canT callee)).frames := by
  have key : ∀ n i m, GasInv 0 m.frames → GasInv 0 (iter T o n i m).frames := by
    intro n
    induction n with
    | zero => intro i m h; exact h
    | succ n ih =>
      intro i m h
      unfold iter
      split
      · exact h
      · exact ih _ _ (gas_inv_step T hT m (o i) h)
  exact key n 0 _ (begin_gasInv T k gas value canT callee)

/-- the sixth entry point, `EVM.TransferAssetTx`: same gas bound -/
theorem asset_gas_bounded (T : Table) (hT : T.WF) (o : Nat → Choice) (gas : Nat) (early az : Bool) (wt : List Nat)
    (callee : Callee) (r : Res) (g : Nat)
    (h : (run T hT o 0 (beginAsset T gas early az wt callee)).result = some (r, g)) : g ≤ gas := by
  have h1 := run_total_le T hT o 0 (beginAsset T gas early az wt callee)
  have h3 := run_terminates T hT o 0 (beginAsset T gas early az wt callee)
  have h2 : (beginAsset T gas early az wt callee).total ≤ gas := by
    unfold beginAsset Machine.total
    split
    · simp [giveBack, Machine.init, addGas, sumGas]
    · split
      · simp [giveBack, Machine.init, addGas, sumGas]
      · split
        · simp [giveBack, Machine.init, addGas, sumGas]
        · rcases runCallee_shape T.params { Machine.init with journal := wt.map Entry.write } (newFrame Machine.init .asset gas) []
              gas callee .asset rfl rfl rfl with ⟨x, res, hx, hf, hr⟩ | ⟨cf, hg, _, _, hf, hr⟩
          · rw [hf, hr]; simp [addGas, sumGas]; exact hx
          · rw [hf, hr]; simp [Machine.init, sumGas]; omega
  unfold Machine.total at h1
  rw [h, h3] at h1
  simp only [sumGas] at h1
  unfold Machine.total at h2
  omega

/-! ### 63/64 rule -/

theorem callGas_le (P : Params) (hcs : 0 < P.createBySuicide) (avail base req t : Nat)
    (hb : base ≤ avail) (ha : avail < u64) (h : callGas P avail base req = some t) :
    t ≤ (avail - base) - (avail - base) / 64 := by
  unfold callGas at h
  rw [if_pos hcs] at h
  simp only [GoSem.usub_small hb ha] at h
  split at h
  · cases h; exact Nat.le_refl _
  · rename_i hn
    cases h
    omega

/-- **child_gas_63_64**: a callee never gets more than "all but one 64th" of what the caller has left
    after paying the call's own cost (plus the 2300 stipend when value is transferred);
    CREATE passes exactly that amount. -/
theorem child_gas_63_64 (T : Table) (hcs : 0 < T.params.createBySuicide) (ro : Bool) (gas : Nat) (c : Choice)
    (g child : Nat) (k : Kind) (hgas : gas < u64)
    (h : pre T ro gas c = .ok (g, child)) (hk : T.kindOf c.op = some k) :
    (k = .create → child = (gas - ((T.info c.op).minGas + c.extra)) - (gas - ((T.info c.op).minGas + c.extra)) / 64) ∧
    (k ≠ .create →
      (T.info c.op).minGas + (if withValue k c then T.params.callValueTransferGas else 0) + c.extra ≤ gas ∧
      child ≤ (gas - ((T.info c.op).minGas + (if withValue k c then T.params.callValueTransferGas else 0) + c.extra))
            - (gas - ((T.info c.op).minGas + (if withValue k c then T.params.callValueTransferGas else 0) + c.extra)) / 64
            + (if withValue k c then T.params.callStipend else 0)) := by
  unfold pre at h
  simp only [] at h
  split at h; · cases h
  split at h; · cases h
  split at h; · cases h
  split at h; · cases h
  split at h; · cases h
  split at h; · cases h
  rw [hk] at h
  cases k with
  | create =>
    simp only [] at h
    split at h; · cases h
    simp only [Except.ok.injEq, Prod.mk.injEq] at h
    exact ⟨fun _ => h.2.symm, fun hne => absurd rfl hne⟩
  | call | callCode | delegateCall | staticCall | asset =>
    simp only [] at h
    obtain ⟨temp, h1, h2, h3, h4⟩ := preCall_ok _ _ _ _ _ _ _ _ h
    refine ⟨fun hc => (by cases hc), fun _ => ⟨by omega, ?_⟩⟩
    have := callGas_le T.params hcs gas _ c.reqGas temp (by omega) hgas h1
    omega

/-! ### depth -/

/-- **depth_bounded (invariant)**: `evm.depth ≤ CallCreateDepth + 1` is preserved by every step
    (the interpreter runs at depths 1 … 1025; a call is refused when made from depth > 1024) -/
theorem depth_inv_step (T : Table) (hT : T.WF) (m : Machine) (c : Choice)
    (h : m.frames.length ≤ T.params.callCreateDepth + 1) :
    (step T m c).frames.length ≤ T.params.callCreateDepth + 1 := by
  cases hm : m.frames with
  | nil => unfold step; rw [hm]; simp only []; rw [hm]; simp
  | cons f rest =>
    rw [hm] at h
    cases step_shape T hT m c f rest hm with
    | pop g res hg hf hr => rw [hf, length_addGas]; simp at h; omega
    | cont g hg hf hr => rw [hf]; simpa using h
    | push g cf hg hs hd hf hr => rw [hf]; simp; omega

/-- **depth_bounded (call check)**: a step pushes a new frame only if it was made from depth
    `≤ CallCreateDepth` (= 1024) -/
theorem call_depth_checked (T : Table) (hT : T.WF) (m : Machine) (c : Choice)
    (h : (step T m c).frames.length = m.frames.length + 1) :
    m.frames.length ≤ T.params.callCreateDepth := by
  cases hm : m.frames with
  | nil => unfold step at h; rw [hm] at h; simp only [] at h; rw [hm] at h; simp at h
  | cons f rest =>
    rw [hm] at h
    cases step_shape T hT m c f rest hm with
    | pop g res hg hf hr => rw [hf, length_addGas] at h; simp at h; omega
    | cont g hg hf hr => rw [hf] at h; simp at h
    | push g cf hg hs hd hf hr => simp; omega

theorem begin_depth (T : Table) (k : Kind) (gas : Nat) (value canT : Bool) (callee : Callee) :
    (begin T k gas value canT callee).frames.length ≤ 1 := by
  unfold begin
  rcases enter_shape T.params Machine.init k gas value canT callee with ⟨x, res, hx, hf, hr⟩ | ⟨cf, hg, hs, _, hf, hr⟩
  · rw [hf]; simp [Machine.init, addGas]
  · rw [hf]; simp [Machine.init]

/-- **depth_bounded**: at every point of every execution started from outside, the call depth is
    at most `CallCreateDepth + 1`; `n` is the number of steps executed so far -/
theorem depth_bounded (T : Table) (hT : T.WF) (o : Nat → Choice) (k : Kind) (gas : Nat) (value canT : Bool)
    (callee : Callee) (n : Nat) :
    (iter T o n 0 (begin T k gas value canT callee)).frames.length ≤ T.params.callCreateDepth + 1 := by
  have key : ∀ n i m, m.frames.length ≤ T.params.callCreateDepth + 1 →
      (iter T o n i m).frames.length ≤ T.params.callCreateDepth + 1 := by
    intro n
    induction n with
    | zero => intro i m h; exact h
    | succ n ih =>
      intro i m h
      unfold iter
      split
      · exact h
      · exact ih _ _ (depth_inv_step T hT m (o i) h)
  exact key n 0 _ (by have := begin_depth T k gas value canT callee; omega)

/-! ### all-or-nothing -/

/-- the snapshot chain holds at every point of every execution started from outside -/
theorem chain_reachable (T : Table) (o : Nat → Choice) (k : Kind) (gas : Nat) (value canT : Bool)
    (callee : Callee) (n : Nat) :
    Chain (iter T o n 0 (begin T k gas value canT callee)).journal (iter T o n 0 (begin T k gas value canT callee)).frames := by
  have key : ∀ n i m, Chain m.journal m.frames → Chain (iter T o n i m).journal (iter T o n i m).frames := by
    intro n
    induction n with
    | zero => intro i m h; exact h
    | succ n ih =>
      intro i m h
      unfold iter
      split
      · exact h
      · exact ih _ _ (step_chain T m (o i) h)
  exact key n 0 _ (begin_chain T k gas value canT callee)

/-- **failed_call_reverts**: whenever a frame does not end with a successful outcome *after CREATE's
    code-deposit step* (`depositRes … ≠ ok`: an error, a REVERT, or a constructor that ran fine but
    whose code is too large / cannot be paid for), the journal afterwards is exactly the journal at
    the frame's `Snapshot()` (`f.entry`, ghost) plus the platform's failure event (Call and Create
    only); REVERT hands the remaining gas back, everything else hands back nothing. Holds for every
    frame at every nesting depth (`Chain` is an invariant: `chain_reachable`). -/
theorem failed_call_reverts (P : Params) (m : Machine) (f : Frame) (rest : List Frame) (res : Res) (g r : Nat)
    (hc : Chain m.journal (f :: rest)) (hres : depositRes P f.kind res g r ≠ .ok) :
    (finishFrame P m f rest res g r).journal = f.entry ++ failEvents f.kind (depositRes P f.kind res g r) ∧
    (finishFrame P m f rest res g r).frames =
      addGas rest (if depositRes P f.kind res g r = .failed then 0 else g) := by
  obtain ⟨h1, h2, _⟩ := hc
  exact ⟨by rw [finishFrame_journal_fail P m f rest res g r hres, take_snap h1 h2],
         finishFrame_frames_fail P m f rest res g r hres⟩

/-- the run outcome itself not being `ok` is a special case -/
theorem depositRes_ne_ok_of_res (P : Params) (k : Kind) (res : Res) (g r : Nat) (h : res ≠ .ok) :
    depositRes P k res g r = res ∧ depositRes P k res g r ≠ .ok := by
  rw [depositRes_of_ne_ok P k res g r h]; exact ⟨rfl, h⟩

/-- **CREATE code-deposit failure** (`errMaxCodeSizeExceeded` / `ErrCodeStoreOutOfGas`, evm.go:518-543):
    the constructor ran to a normal halt, but the returned code is longer than MaxCodeSize or the
    frame cannot pay 200 gas per byte — everything the constructor did is reverted, all gas is
    consumed, only the TopicRunFail event remains. -/
theorem create_deposit_failure_reverts (P : Params) (m : Machine) (f : Frame) (rest : List Frame) (g r : Nat)
    (hc : Chain m.journal (f :: rest)) (hk : f.kind = .create)
    (hfail : r > P.maxCodeSize ∨ g < r * P.createDataGas) :
    (finishFrame P m f rest .ok g r).journal = f.entry ++ [.event true] ∧
    (finishFrame P m f rest .ok g r).frames = addGas rest 0 := by
  have hd : depositRes P f.kind .ok g r = .failed := by
    unfold depositRes
    rw [if_pos ⟨hk, rfl⟩]
    rcases hfail with h | h
    · rw [if_pos h]
    · by_cases h' : r > P.maxCodeSize
      · rw [if_pos h']
      · rw [if_neg h', if_pos h]
  have := failed_call_reverts P m f rest .ok g r hc (by rw [hd]; decide)
  rw [hd, hk] at this
  simpa [failEvents] using this

/-- the same at the level of the interpreter step: a halting instruction (STOP / RETURN) in a CREATE
    frame whose code deposit fails -/
theorem create_deposit_failure_step (T : Table) (m : Machine) (c : Choice) (f : Frame) (rest : List Frame) (g child : Nat)
    (hm : m.frames = f :: rest) (hc : Chain m.journal m.frames) (hk : f.kind = .create)
    (hp : pre T m.readOnly f.gas c = .ok (g, child)) (hkk : T.kindOf c.op = none) (hx : c.execErr = false)
    (hr : (T.info c.op).reverts = false) (hh : (T.info c.op).halts = true)
    (hfail : c.retLen > T.params.maxCodeSize ∨ g < c.retLen * T.params.createDataGas) :
    (step T m c).journal = f.entry ++ [.event true] ∧ (step T m c).frames = addGas rest 0 := by
  rw [hm] at hc
  have hc1 : Chain (if (T.info c.op).writes then m.journal ++ c.wtags.map Entry.write else m.journal) (f :: rest) := by
    split
    · exact chain_mono (List.prefix_append _ _) hc
    · exact hc
  have := create_deposit_failure_reverts T.params
    { m with journal := if (T.info c.op).writes then m.journal ++ c.wtags.map Entry.write else m.journal }
    f rest g c.retLen hc1 hk hfail
  unfold step
  rw [hm]
  simp only [hp, hkk, hx, hr, hh, if_true, Bool.false_eq_true, if_false]
  exact this

/-- every check of `Interpreter.Run` that fails (invalid opcode, stack, write protection, gas
    overflow, out of gas) ends the frame with "revert to snapshot, consume all gas" -/
theorem error_step_reverts (T : Table) (m : Machine) (c : Choice) (f : Frame) (rest : List Frame) (e : Verdict)
    (hm : m.frames = f :: rest) (hc : Chain m.journal m.frames) (hp : pre T m.readOnly f.gas c = .error e) :
    (step T m c).journal = f.entry ++ failEvents f.kind .failed ∧ (step T m c).frames = addGas rest 0 := by
  rw [hm] at hc
  have := failed_call_reverts T.params m f rest .failed 0 0 hc (depositRes_ne_ok_of_res _ _ _ _ _ (by decide)).2
  rw [(depositRes_ne_ok_of_res T.params f.kind .failed 0 0 (by decide)).1] at this
  unfold step
  rw [hm]
  simp only [hp]
  exact this

/-- an error inside `execute` (bad jump destination, return data out of bounds, …) does the same -/
theorem exec_error_step_reverts (T : Table) (m : Machine) (c : Choice) (f : Frame) (rest : List Frame) (r : Nat × Nat)
    (hm : m.frames = f :: rest) (hc : Chain m.journal m.frames) (hp : pre T m.readOnly f.gas c = .ok r)
    (hk : T.kindOf c.op = none) (hx : c.execErr = true) :
    (step T m c).journal = f.entry ++ failEvents f.kind .failed ∧ (step T m c).frames = addGas rest 0 := by
  rw [hm] at hc
  have := failed_call_reverts T.params m f rest .failed 0 0 hc (depositRes_ne_ok_of_res _ _ _ _ _ (by decide)).2
  rw [(depositRes_ne_ok_of_res T.params f.kind .failed 0 0 (by decide)).1] at this
  unfold step
  rw [hm]
  simp only [hp, hk, hx, if_true]
  exact this

/-- REVERT: state back to the snapshot, remaining gas `g` returned to the caller -/
theorem revert_step_keeps_gas (T : Table) (m : Machine) (c : Choice) (f : Frame) (rest : List Frame) (g child : Nat)
    (hm : m.frames = f :: rest) (hc : Chain m.journal m.frames) (hp : pre T m.readOnly f.gas c = .ok (g, child))
    (hk : T.kindOf c.op = none) (hx : c.execErr = false) (hr : (T.info c.op).reverts = true) :
    (step T m c).journal = f.entry ++ failEvents f.kind .reverted ∧ (step T m c).frames = addGas rest g := by
  rw [hm] at hc
  have hc1 : Chain (if (T.info c.op).writes then m.journal ++ c.wtags.map Entry.write else m.journal) (f :: rest) := by
    split
    · exact chain_mono (List.prefix_append _ _) hc
    · exact hc
  have := failed_call_reverts T.params
    { m with journal := if (T.info c.op).writes then m.journal ++ c.wtags.map Entry.write else m.journal }
    f rest .reverted g 0 hc1 (depositRes_ne_ok_of_res _ _ _ _ _ (by decide)).2
  rw [(depositRes_ne_ok_of_res T.params f.kind .reverted g 0 (by decide)).1] at this
  unfold step
  rw [hm]
  simp only [hp, hk, hx, hr, if_true, Bool.false_eq_true, if_false]
  exact this

/-! ### read-only calls -/

theorem table_guardPre : EvmTable.table.params.guardPre = true := by decide

/-- the precompiles the code declares state-modifying are installed precompiles (today: 0x09 only) -/
theorem table_writingPre : ∀ a ∈ EvmTable.table.params.writingPre, a ∈ EvmTable.precompiles := by decide

/-- instruction level: under readOnly the interpreter lets no state-writing instruction (SSTORE,
    LOG*, CREATE, SELFDESTRUCT) and no CALL with value reach its gas stage, let alone `execute` -/
theorem static_blocks_writing_instructions (T : Table) (gas : Nat) (c : Choice) (r : Nat × Nat)
    (h : pre T true gas c = .ok r) :
    (T.info c.op).writes = false ∧ ¬ (c.op = T.params.opCall ∧ c.value = true) :=
  (pre_ok_valid T true gas c r h).2.2.2 rfl

/-- the three invariants (`Inv`: snapshot chain, readOnly discipline `ROInv`, and `SInv`: while
    readOnly is on, the journal is the live StaticCall frame's snapshot journal followed by benign
    entries only) hold at every point of every execution started from outside -/
theorem inv_reachable (T : Table) (hg : T.params.guardPre = true) (hcw : (T.info T.params.opCreate).writes = true)
    (o : Nat → Choice) (k : Kind) (gas : Nat) (value canT : Bool) (callee : Callee) (n : Nat) :
    EvmStatic.Inv (iter T o n 0 (begin T k gas value canT callee)) := by
  have key : ∀ n i m, EvmStatic.Inv m → EvmStatic.Inv (iter T o n i m) := by
    intro n
    induction n with
    | zero => intro i m h; exact h
    | succ n ih =>
      intro i m h
      unfold iter
      split
      · exact h
      · exact ih _ _ (step_inv T hg hcw m (o i) h)
  exact key n 0 _ (begin_inv T hg k gas value canT callee)

/-- per step, with the truncation point pinned: under readOnly the journal after a step is the old
    journal, or the old journal truncated to *exactly the innermost frame's own snapshot*, followed
    by benign entries (the two balance logs of a transfer of zero, the TopicRunFail event) -/
theorem static_step_journal (T : Table) (hg : T.params.guardPre = true) (hcw : (T.info T.params.opCreate).writes = true)
    (m : Machine) (c : Choice) (f : Frame) (rest : List Frame) (hm : m.frames = f :: rest)
    (hinv : EvmStatic.Inv m) (hro : m.readOnly = true) :
    BenStep f.snap m.journal (step T m c).journal := by
  have hr := hinv.ro
  rw [hm, hro] at hr
  exact step_benStep T hg hcw m c f rest hm hro (roInv_top hr)

/-- **static_no_write** (full statement, current code). Let `m` be any state with readOnly on and
    let `s` be the live StaticCall frame that switched it on (`SInv … m.frames` speaks about that
    frame). After *any* step — whatever the opcode, whatever the callee, precompiles included, and in
    particular the step with which `s` itself returns, normally or not — the journal is
    `s.entry ++ ben`: **the journal at the entry of the static call, untouched, followed only by
    benign entries** (no instruction write, no precompile write, no value transfer, no code deposit,
    no creation event; nothing recorded before the static call is lost).
    Premises: the guard of fix a881098 (`guardPre`) and CREATE flagged `writes`, both decided on the
    regenerated table (`static_no_write_live`). The benign entries that may remain are real:
    `static_zero_transfer_journaled`, `static_fail_event_survives`. -/
theorem static_no_write (T : Table) (hg : T.params.guardPre = true) (hcw : (T.info T.params.opCreate).writes = true)
    (m : Machine) (c : Choice) (hinv : EvmStatic.Inv m) (hro : m.readOnly = true) :
    SInv (step T m c).journal m.frames := by
  cases hm : m.frames with
  | nil => trivial
  | cons f rest =>
    have hs := hinv.stat hro
    have hc := hinv.chain
    rw [hm] at hs hc
    exact sinv_benStep f.snap hs (chain_entry_len hc) (static_step_journal T hg hcw m c f rest hm hinv hro)

/-- the return of the static call, spelled out: if the innermost frame is the StaticCall frame `s`
    that switched readOnly on, then after the step (which may or may not end `s`) the journal is
    `s.entry ++ benign` -/
theorem static_return_journal (T : Table) (hg : T.params.guardPre = true) (hcw : (T.info T.params.opCreate).writes = true)
    (m : Machine) (c : Choice) (s : Frame) (rest : List Frame) (hm : m.frames = s :: rest) (hset : s.setRO = true)
    (hinv : EvmStatic.Inv m) :
    ∃ ben, (step T m c).journal = s.entry ++ ben ∧ AllB ben := by
  have hro : m.readOnly = true := by
    have := hinv.ro
    rw [hm] at this
    unfold ROInv at this
    rw [if_pos hset] at this
    exact this.1
  have := static_no_write T hg hcw m c hinv hro
  rw [hm] at this
  unfold SInv at this
  rw [if_pos hset] at this
  exact this

/-- the same on the live table, at every reachable point of every execution: no guard left -/
theorem static_no_write_live (o : Nat → Choice) (k : Kind) (gas : Nat) (value canT : Bool) (callee : Callee)
    (n : Nat) (c : Choice)
    (hro : (iter EvmTable.table o n 0 (begin EvmTable.table k gas value canT callee)).readOnly = true) :
    SInv (step EvmTable.table (iter EvmTable.table o n 0 (begin EvmTable.table k gas value canT callee)) c).journal
      (iter EvmTable.table o n 0 (begin EvmTable.table k gas value canT callee)).frames :=
  static_no_write EvmTable.table table_guardPre table_create_writes _ c
    (inv_reachable EvmTable.table table_guardPre table_create_writes o k gas value canT callee n) hro

/-- a plain instruction executed under readOnly leaves the journal untouched unless it ends the frame -/
theorem static_plain_step_journal (T : Table) (m : Machine) (c : Choice) (f : Frame) (rest : List Frame) (g child : Nat)
    (hm : m.frames = f :: rest) (hro : m.readOnly = true) (hp : pre T m.readOnly f.gas c = .ok (g, child))
    (hk : T.kindOf c.op = none) (hx : c.execErr = false)
    (hr : (T.info c.op).reverts = false) (hh : (T.info c.op).halts = false) :
    (step T m c).journal = m.journal := by
  have hw : (T.info c.op).writes = false := by
    rw [hro] at hp
    exact (static_blocks_writing_instructions T f.gas c _ hp).1
  unfold step
  rw [hm]
  simp only [hp, hk, hx, hr, hh, hw, Bool.false_eq_true, if_false]

/-- readOnly is switched on by a StaticCall frame and stays on while that frame is live: entering
    any callee (code, precompile, empty, failing early) never clears it -/
theorem enter_keeps_readOnly (P : Params) (m : Machine) (k : Kind) (gas : Nat) (value canT : Bool) (callee : Callee)
    (hro : m.readOnly = true) :
    (enter P m k gas value canT callee).readOnly = true := by
  have hcal : ∀ (m' : Machine) (k' : Kind) (callee : Callee), m'.readOnly = true →
      (runCallee P m' (newFrame m k' gas) m.frames gas callee).readOnly = true := by
    intro m' k' callee h
    rcases runCallee_cases P m' (newFrame m k' gas) m.frames gas callee with ⟨h1, _, _⟩ | h1
    · rw [h1]; exact h
    · rw [h1]; simp [newFrame, hro, h]
  unfold enter
  split
  · exact hro
  · split
    · exact hro
    · split
      · unfold enterCreate
        split
        · exact hro
        · exact hcal _ _ _ hro
      · unfold enterCall
        split
        · exact hro
        · split
          · exact hro
          · exact hcal _ _ _ (by simp [hro])

/-- the model of the code before fix a881098: `RunPrecompiledContract` without the readOnly guard -/
def legacyTable : Table :=
  { EvmTable.table with params := { EvmTable.table.params with guardPre := false } }

set_option maxRecDepth 100000 in
/-- **refutation, code before fix a881098** ("a read-only call changes nothing" was false): the
    interpreter's readOnly flag did not protect against the state-writing reward precompile
    (address 0x09, `setRewardValue.Run` calls `SetStorageState`): a STATICCALL to it, made inside
    a static context, appended a write to the journal. -/
theorem static_write_refuted :
    ∃ (m : Machine) (c : Choice), m.readOnly = true ∧ Entry.write 2 ∉ m.journal ∧
      Entry.write 2 ∈ (step legacyTable m c).journal :=
  ⟨begin legacyTable .staticCall 100000 false true .code,
   { op := 250, stackLen := 6, reqGas := 50000, callee := .pre 9 0 true [2] }, by decide, by decide, by decide⟩

set_option maxRecDepth 100000 in
/-- the same step on the current code: the precompile is refused (write protection), nothing is
    journaled, the gas handed to it is consumed -/
theorem static_reward_precompile_refused :
    let m := begin EvmTable.table .staticCall 100000 false true .code
    let m' := step EvmTable.table m { op := 250, stackLen := 6, reqGas := 50000, callee := .pre 9 0 true [2] }
    m.readOnly = true ∧ m'.journal = [] ∧ (m'.frames.map (·.gas)) = [100000 - 700 - 50000] := by
  decide

set_option maxRecDepth 100000 in
/-- remaining deviation (benign, allowed by `static_no_write`): a CALL with **zero** value made
    inside a static context still executes `evm.Transfer`, which pushes two no-op balance logs -/
theorem static_zero_transfer_journaled :
    ∃ (m : Machine) (c : Choice), m.readOnly = true ∧ m.journal = [] ∧
      (step EvmTable.table m c).journal = [.transfer false, .transfer false] :=
  ⟨begin EvmTable.table .staticCall 100000 false true .code,
   { op := 241, stackLen := 7, reqGas := 50000, callee := .code }, by decide, by decide, by decide⟩

set_option maxRecDepth 100000 in
/-- **refutation of the literal "a read-only call changes nothing"** (current code, by design of the
    platform's failure event): inside a static call a zero-value CALL to a callee that fails (here the
    refused reward precompile) leaves the TopicRunFail event; the static call then returns
    *successfully* and the event is still in the journal. On the real code that surviving AddEventLog
    bumps the callee's version record (oracle `c16/static-changed-version-root/fail-event`). -/
theorem static_fail_event_survives :
    let T := EvmTable.table
    let m0 := begin T .staticCall 100000 false true .code
    let m1 := step T m0 { op := 241, stackLen := 7, reqGas := 50000, callee := .pre 9 0 true [2] }  -- CALL, value 0
    let m2 := step T m1 { op := 0, stackLen := 1 }                                                   -- STOP
    m0.journal = [] ∧ m1.readOnly = true ∧ m2.result = some (.ok, 49300) ∧ m2.frames = [] ∧
    m2.journal = [.event true] := by
  decide

/-! ### the memory part of the gas (`LemoModel.EvmGas`) -/

/-- the memory fee is monotone in the number of words -/
theorem memcost_monotone (P : Params) {a b : Nat} (h : a ≤ b) : EvmGas.memFee P a ≤ EvmGas.memFee P b :=
  EvmGasLemmas.memFee_mono P h

/-- **memcost_closed_form**: with the live parameters the total fee for `w` words is `3·w + w²/512`,
    and what a frame that starts with empty memory pays for any sequence of memory requests (in words)
    telescopes to exactly the fee of the largest request — independent of the order and of repeats. -/
theorem memcost_closed_form (w : Nat) (ns : List Nat) :
    EvmGas.memFee EvmTable.table.params w = 3 * w + w * w / 512 ∧
    EvmGas.memChargeAll EvmTable.table.params 0 ns =
      EvmGas.memFee EvmTable.table.params (ns.foldl (fun acc n => max n acc) 0) := by
  constructor
  · show w * 3 + w * w / 512 = 3 * w + w * w / 512
    omega
  · have := EvmGasLemmas.memChargeAll_add EvmTable.table.params 0 ns
    have h0 : EvmGas.memFee EvmTable.table.params 0 = 0 := by decide
    omega

/-- whenever the gas stage of `gasOf` succeeds, the dynamic part it returns contains the full memory
    expansion charge for the size the operands ask for, and the frame's memory is that size afterwards -/
theorem gasOf_charges_memory (P : Params) (info : OpInfo) (cv : Bool) (st : List Nat) (cur : Nat)
    (bits : EvmGas.GasBits) (e w : Nat) (h : EvmGas.gasOf P info cv st cur bits = .ok e w) :
    EvmGas.memCharge P cur (EvmGas.toWords (if info.hasMem then EvmGas.memSize st info.mem else 0)) ≤ e ∧
    w = max (EvmGas.toWords (if info.hasMem then EvmGas.memSize st info.mem else 0)) cur := by
  unfold EvmGas.gasOf at h
  simp only [] at h
  generalize (if info.hasMem = true then EvmGas.memSize st info.mem else 0) = ms at h ⊢
  split at h; · cases h
  split at h; · cases h
  split at h
  · cases h
  · simp only [EvmGas.GasRes.ok.injEq] at h
    obtain ⟨h1, h2⟩ := h
    unfold EvmGas.memCharge
    exact ⟨by omega, h2.symm⟩

set_option maxRecDepth 100000 in
/-- **table tie of the memory gas**: every instruction of the real jump table that has a memory-size
    function was probed with memorySize = 64 and 32768 bytes on empty memory, and its gas function
    charged exactly `memFee 2` and `memFee 1024` on top of its constant part; instructions without a
    memory-size function have no memory operands. (Dropping the memory term from any gas function
    changes the probe → `table-mismatch`, and every traced cost is compared with `gasOf`.) -/
theorem table_memgas_probe : ∀ op < 256,
    ((EvmTable.table.info op).hasMem = true →
      (EvmTable.table.info op).memGas2 = EvmGas.memFee EvmTable.table.params 2 ∧
      (EvmTable.table.info op).memGas1024 = EvmGas.memFee EvmTable.table.params 1024 ∧
      (EvmTable.table.info op).mem ≠ []) ∧
    ((EvmTable.table.info op).hasMem = false → (EvmTable.table.info op).mem = []) := by
  decide

/-! ### precompile lengths: the MODEXP header (`LemoModel.ModExp`) -/

/-- **modexp_alloc_gas_bounded** (current code: `Run` returns at once when both the base and the
    modulus length are zero). For every header (any three 256-bit length words, any amount of data,
    any exponent head): every slice size `Run` asks `make` for is at most `20·RequiredGas + 64` —
    or `Run` returned before allocating (`allocs = []`). So the gas charged bounds the memory. -/
theorem modexp_alloc_gas_bounded (baseLen expLen modLen dlen headBits a : Nat)
    (ha : a ∈ (ModExp.run true baseLen expLen modLen dlen).allocs) :
    a ≤ 20 * ModExp.requiredGas baseLen expLen modLen dlen headBits + 64 :=
  EvmModExp.alloc_le_gas baseLen expLen modLen dlen headBits a ha

/-- **modexp_no_panic_within_gas**: if the price is affordable (`RequiredGas ≤ G` with `G` below
    2^42, far above any block gas limit), `Run` neither panics in a slice expression nor asks `make`
    for more than the runtime's `maxAlloc`; it returns `modLen` bytes. -/
theorem modexp_no_panic_within_gas (baseLen expLen modLen dlen headBits G : Nat)
    (hG : ModExp.requiredGas baseLen expLen modLen dlen headBits ≤ G) (hsmall : G ≤ 4398046511104)
    (hd : dlen ≤ 4398046511104) :
    ModExp.outcome true baseLen expLen modLen dlen = some (modLen % ModExp.u64) := by
  have hw := EvmModExp.no_wrap_of_gas baseLen expLen modLen dlen headBits G hG (by unfold ModExp.u64; omega)
  have ha : ∀ a ∈ (ModExp.run true baseLen expLen modLen dlen).allocs, ¬ a > ModExp.maxAlloc := by
    intro a h
    have := EvmModExp.alloc_le_gas baseLen expLen modLen dlen headBits a h
    unfold ModExp.maxAlloc
    omega
  unfold ModExp.outcome
  simp only []
  rw [if_neg]
  · congr 1
    unfold ModExp.run
    simp only []
    split
    · rename_i h; exact h.2.2.symm
    · rfl
  · intro h
    rcases h with h | h
    · rw [hw] at h; cases h
    · rw [List.any_eq_true] at h
      obtain ⟨a, ha1, ha2⟩ := h
      exact ha a ha1 (by simpa using ha2)

/-- **refutation for the variant without the early return** (seeded change C16c): with
    `baseLen = modLen = 0` the price is 0 whatever the exponent length says, and the unguarded `Run`
    asks `make` for `expLen` bytes: 2^62 panics ("len out of range", no `recover` on that path), 2^33
    is an 8 GiB allocation for 0 gas. The guarded code returns the empty slice. -/
theorem modexp_unguarded_alloc_unbounded :
    ModExp.requiredGas 0 (2^62) 0 0 0 = 0 ∧ 2^62 ∈ (ModExp.run false 0 (2^62) 0 0).allocs ∧
    ModExp.outcome false 0 (2^62) 0 0 = none ∧ ModExp.outcome true 0 (2^62) 0 0 = some 0 ∧
    ModExp.requiredGas 0 (2^33) 0 0 0 = 0 ∧ 2^33 ∈ (ModExp.run false 0 (2^33) 0 0).allocs := by
  decide

/-- non-vacuity: an affordable, allocating call (base 32, exp 32, mod 32 bytes, all present) -/
example : ModExp.requiredGas 32 32 32 96 256 = 13056 ∧ (ModExp.run true 32 32 32 96).allocs = [0, 0, 0, 32] ∧
    ModExp.outcome true 32 32 32 96 = some 32 := by decide

/-! ### non-vacuity -/

set_option maxRecDepth 100000 in
/-- a run with a nested failing CALL: outer frame keeps its write, the inner frame's write is gone,
    the platform's failure event stays, the inner gas is consumed -/
example :
    let T := EvmTable.table
    let m0 := begin T .call 100000 false true .code                       -- journal: 2 transfer logs
    let m1 := step T m0 { op := 85, stackLen := 2, wtags := [2] }         -- SSTORE (5000 gas)
    let m2 := step T m1 { op := 241, stackLen := 7, reqGas := 30000, callee := .code }  -- CALL, 30000 gas
    let m3 := step T m2 { op := 85, stackLen := 2, wtags := [2] }         -- inner SSTORE
    let m4 := step T m3 { op := 254, stackLen := 0 }                      -- INVALID
    let m5 := step T m4 { op := 0, stackLen := 1 }                        -- outer STOP
    m2.frames.length = 2 ∧ (m2.frames.map (·.gas)) = [30000, 64300] ∧
    m4.journal = [.transfer false, .transfer false, .write 2, .event true] ∧
    m5.result = some (.ok, 64300) ∧ m5.frames = [] := by
  decide

set_option maxRecDepth 100000 in
/-- the hypotheses of `child_gas_63_64` / `run_terminates` are satisfiable on the real table, and
    REVERT keeps the gas -/
example :
    let T := EvmTable.table
    (pre T false 100000 { op := 241, stackLen := 7, reqGas := 1000000, value := true }).toOption = some (1410, 91190) ∧
    (step T (begin T .call 1000 false true .code) { op := 253, stackLen := 2 }).result = some (.reverted, 1000) := by
  decide

set_option maxRecDepth 100000 in
/-- CREATE whose constructor succeeds but returns 24577 bytes (> MaxCodeSize), and one whose deposit
    (200 gas/byte) cannot be paid: the constructor's write is gone, all gas is consumed, only the
    failure event remains — the hypotheses of `create_deposit_failure_step` are satisfiable -/
example :
    let T := EvmTable.table
    let m0 := begin T .create 10000000 false true .code
    let m1 := step T m0 { op := 85, stackLen := 2, wtags := [2] }              -- constructor SSTORE
    let big := step T m1 { op := 243, stackLen := 2, retLen := 24577 }          -- RETURN 24577 bytes
    let poor := step T m1 { op := 243, stackLen := 2, retLen := 24576, extra := 9990000 }  -- RETURN, little gas left
    let fine := step T m1 { op := 243, stackLen := 2, retLen := 24576 }
    m1.journal = [.transfer false, .transfer false, .write 2] ∧
    big.journal = [.event true] ∧ big.result = some (.failed, 0) ∧
    poor.journal = [.event true] ∧ poor.result = some (.failed, 0) ∧
    fine.journal = [.transfer false, .transfer false, .write 2, .code, .event false] ∧
    fine.result = some (.ok, 10000000 - 5000 - 24576 * 200) := by
  decide

end LemoProofs.C16

/-
  C16 — "running any byte string as contract code … without crashing the node":
  the jump-destination analysis (chain/vm/analysis.go) and the byte-slice helpers of the
  instruction bodies (chain/vm/common.go, chain/vm/memory.go) never index out of range.

  Model: LemoModel/JumpAnalysis.lean (byte-faithful; a Go index out of range is `none`).
  All statements are for EVERY byte string `code` (no length bound) and every destination word.
  Tie: `jd` / `jdc` / `gd` / `gdb` / `mset` / `mget` / `mres` op lines of `hx c16` (the real functions,
  reached through the hook chain/vm/verif_analysis.go) against driver c16.
-/
import LemoModel.JumpAnalysis
import LemoProofs.Lemmas.JumpAnalysis
namespace LemoProofs.C16
open LemoModel.JumpAnalysis LemoProofs.Lemmas.JumpAnalysis

/-! ### codeBitmap -/

/-- **no index out of range, for every allocation size with the slack**: if the vector has more than
    `len(code)/8 + 4` bytes, `codeBitmap` runs to the end on every byte string and returns a vector of
    exactly the allocated size. -/
theorem codeBitmapWith_no_panic (alloc : Code → Nat) (code : Code) (h : code.length / 8 + 4 < alloc code) :
    ∃ bits, codeBitmapWith alloc code = some bits ∧ bits.length = alloc code := by
  obtain ⟨b, h1, h2, _⟩ := scan_spec code code.length 0 (List.replicate (alloc code) 0) (by omega)
    (by rw [List.length_replicate]; omega)
  exact ⟨b, h1, by rw [h2, List.length_replicate]⟩

/-- **codeBitmap never panics** (the code as it is: `make(bitvec, len(code)/8+1+4)`), and
    `len(bits) = allocLen code` (the number the tie compares with the real `len(bits)`). -/
theorem codeBitmap_no_panic (code : Code) :
    ∃ bits, codeBitmap code = some bits ∧ bits.length = allocLen code :=
  codeBitmapWith_no_panic allocLen code (by unfold allocLen; omega)

/-- the witness of the seeded change: 8 bytes, the last one PUSH32 reached as an opcode -/
def tightWitness : Code := [0x60, 0x03, 0x56, 0x5b, 0x00, 0x00, 0x00, 0x7f]

/-- **the slack is needed** (refutation of the variant `make(bitvec, (len(code)+7)/8+4)`): on the
    8-byte witness `set8` writes one byte past the vector. -/
theorem codeBitmap_tight_alloc_panics : codeBitmapWith allocLenTight tightWitness = none := by decide

/-- **the slack is needed at every length that is a multiple of 8** (unbounded family): whatever the
    allocation function, if it gives the code `STOP^(8n+7) PUSH32` (length `8(n+1)`) at most
    `len/8 + 4 = n + 5` bytes, `codeBitmap` indexes past the vector. Hence `allocLen` (`len/8 + 5`) is the
    least safe size at those lengths. -/
theorem alloc_slack_needed (alloc : Code → Nat) (n : Nat)
    (h : alloc (stopsThenPush32 (8 * n + 7)) ≤ n + 5) :
    codeBitmapWith alloc (stopsThenPush32 (8 * n + 7)) = none := by
  unfold codeBitmapWith
  exact scan_stops_short n _ (by rw [List.length_replicate]; exact h)

/-- the seeded allocation panics at every such length -/
theorem allocLenTight_panics (n : Nat) : codeBitmapWith allocLenTight (stopsThenPush32 (8 * n + 7)) = none := by
  apply alloc_slack_needed
  have hl : (stopsThenPush32 (8 * n + 7)).length = 8 * n + 8 := by
    unfold stopsThenPush32; simp
  unfold allocLenTight
  rw [hl]; omega

/-- the same code is fine with the real allocation -/
theorem codeBitmap_witness_ok : codeBitmap tightWitness = some [0x40, 0xff, 0xff, 0xff, 0xff, 0x00] := by decide

/-- **codeBitmap_spec**: bit `j` (`j < len(code)`) of the result is set iff position `j` is PUSH data
    according to the structural walk over the code. -/
theorem codeBitmap_spec (code : Code) (bits : Bits) (h : codeBitmap code = some bits) :
    ∀ j, j < code.length → bit bits j = isData code j := by
  obtain ⟨b, h1, _, h3⟩ := scan_spec code code.length 0 (List.replicate (allocLen code) 0) (by omega)
    (by rw [List.length_replicate]; unfold allocLen; omega)
  have hb : bits = b := by
    unfold codeBitmap codeBitmapWith at h
    rw [h1] at h
    exact (Option.some.inj h).symm
  subst hb
  intro j hj
  rw [h3 j hj, bit_replicate_zero]
  simp [isData]

/-- `codeSegment` on the analysed vector: in range for every position of the code, and true exactly
    on opcode positions -/
theorem codeSegment_spec (code : Code) (bits : Bits) (h : codeBitmap code = some bits) (j : Nat)
    (hj : j < code.length) : codeSegment bits j = some (!isData code j) := by
  obtain ⟨b, h1, h2⟩ := codeBitmap_no_panic code
  have hb : bits = b := by rw [h1] at h; exact (Option.some.inj h).symm
  subst hb
  have hlt : j / 8 < bits.length := by rw [h2]; unfold allocLen; omega
  have hs := codeBitmap_spec code bits h j hj
  unfold bit at hs
  unfold codeSegment
  rw [List.getElem?_eq_getElem hlt] at hs ⊢
  simp only at hs ⊢
  rw [← hs]
  simp [bne]

/-! ### destinations.has -/

theorem bitLen_ge_63 (n : Nat) : bitLen n ≥ 63 ↔ n ≥ 2 ^ 62 := by
  unfold bitLen
  by_cases h : n = 0
  · subst h; simp
  · rw [if_neg h]
    have := Nat.log2_lt (n := n) (k := 62) h
    omega

/-- the cache is coherent with a hash function `codeOf⁻¹`: every stored vector is the analysis of the
    code that has that hash (the map is only ever filled by `has` itself) -/
def Coherent (codeOf : Nat → Code) (d : Cache) : Prop :=
  ∀ h m, d.lookup h = some m → codeBitmap (codeOf h) = some m

theorem coherent_nil (codeOf : Nat → Code) : Coherent codeOf [] := by
  intro h m hm; simp [List.lookup] at hm

/-- core of the `has` theorems: with a coherent cache `has` never panics, answers the specification
    (restricted to destinations below 2^62, the `BitLen() >= 63` guard) and keeps the cache coherent -/
theorem has_core (codeOf : Nat → Code) (d : Cache) (h : Nat) (dest : Nat) (hc : Coherent codeOf d) :
    ∃ d', has d h (codeOf h) dest = some (decide (dest < 2 ^ 62) && specValid (codeOf h) dest, d') ∧
      Coherent codeOf d' := by
  unfold has hasWith
  by_cases hg : bitLen dest ≥ 63 ∨ dest % u64 ≥ (codeOf h).length
  · refine ⟨d, ?_, hc⟩
    simp only [hg, if_true]
    rcases hg with hg | hg
    · have : ¬ dest < 2 ^ 62 := by have := (bitLen_ge_63 dest).mp hg; omega
      simp [this]
    · by_cases h62 : dest < 2 ^ 62
      · have hu : dest % u64 = dest := Nat.mod_eq_of_lt (by unfold u64; omega)
        rw [hu] at hg
        have : ¬ dest < (codeOf h).length := by omega
        simp [specValid, this]
      · simp [h62]
  · have hb : ¬ bitLen dest ≥ 63 := fun e => hg (Or.inl e)
    have h62 : dest < 2 ^ 62 := by
      by_cases h : dest ≥ 2 ^ 62
      · exact absurd ((bitLen_ge_63 dest).mpr h) hb
      · omega
    have hu : dest % u64 = dest := Nat.mod_eq_of_lt (by unfold u64; omega)
    have hlt : dest < (codeOf h).length := by
      have : ¬ dest % u64 ≥ (codeOf h).length := fun e => hg (Or.inr e)
      omega
    simp only [hg, if_false]
    rw [hu]
    obtain ⟨m, hm, hml⟩ := codeBitmap_no_panic (codeOf h)
    -- whichever way the vector is obtained, it is the analysis of this code
    have key : ∃ d', analysed allocLen d h (codeOf h) = some (m, d') ∧ Coherent codeOf d' := by
      unfold analysed
      cases hl : d.lookup h with
      | some m' =>
        have := hc h m' hl
        rw [hm] at this
        cases this
        exact ⟨d, rfl, hc⟩
      | none =>
        have hm' : codeBitmapWith allocLen (codeOf h) = some m := hm
        refine ⟨(h, m) :: d, by simp only [hm'], ?_⟩
        intro h' m' hl'
        rw [List.lookup_cons] at hl'
        by_cases he : h' = h
        · subst he
          simp at hl'
          subst hl'
          exact hm
        · have : (h' == h) = false := by simpa using he
          rw [this] at hl'
          exact hc h' m' hl'
    obtain ⟨d', hk, hcd⟩ := key
    refine ⟨d', ?_, hcd⟩
    rw [hk]
    simp only
    rw [List.getElem?_eq_getElem hlt]
    simp only
    have hgd : (codeOf h).getD dest 0 = (codeOf h)[dest] := by
      rw [List.getD_eq_getElem?_getD, List.getElem?_eq_getElem hlt]; rfl
    have hsv : specValid (codeOf h) dest = (((codeOf h)[dest] == JUMPDEST) && !isData (codeOf h) dest) := by
      unfold specValid
      rw [hgd]
      simp [hlt]
    have h62' : decide (dest < 2 ^ 62) = true := by rw [decide_eq_true_iff]; exact h62
    rw [hsv, h62', Bool.true_and]
    by_cases hj : ((codeOf h)[dest] == JUMPDEST) = true
    · rw [if_pos hj, codeSegment_spec (codeOf h) m hm dest hlt, hj, Bool.true_and]
    · rw [if_neg hj]
      have : ((codeOf h)[dest] == JUMPDEST) = false := by simpa using hj
      rw [this, Bool.false_and]

/-- **has never panics** when the cache is coherent (in particular on a fresh map) -/
theorem has_no_panic (codeOf : Nat → Code) (d : Cache) (h dest : Nat) (hc : Coherent codeOf d) :
    (has d h (codeOf h) dest).isSome = true := by
  obtain ⟨d', h1, _⟩ := has_core codeOf d h dest hc
  rw [h1]; rfl

/-- **has keeps the cache coherent** (so the premise of `has_no_panic` holds along every execution
    that starts with an empty map: `coherent_nil`) -/
theorem has_keeps_coherent (codeOf : Nat → Code) (d d' : Cache) (h dest : Nat) (r : Bool)
    (hc : Coherent codeOf d) (hr : has d h (codeOf h) dest = some (r, d')) : Coherent codeOf d' := by
  obtain ⟨d'', h1, h2⟩ := has_core codeOf d h dest hc
  rw [h1] at hr
  cases hr
  exact h2

/-- **has_spec**: for code of at most 2^62 bytes, with a coherent cache, `has` answers true iff
    `dest < len(code)`, `code[dest] = JUMPDEST` and `dest` is an opcode position. -/
theorem has_spec (codeOf : Nat → Code) (d : Cache) (h dest : Nat) (hc : Coherent codeOf d)
    (hl : (codeOf h).length ≤ 2 ^ 62) :
    (has d h (codeOf h) dest).map (·.1) = some (specValid (codeOf h) dest) := by
  obtain ⟨d', h1, _⟩ := has_core codeOf d h dest hc
  rw [h1]
  by_cases h62 : dest < 2 ^ 62
  · simp [h62]
  · have : ¬ dest < (codeOf h).length := by omega
    simp [h62, specValid, this]

/-- **validJumpdest never panics**: any byte string, any destination word -/
theorem validJumpdest_no_panic (code : Code) (dest : Nat) : (validJumpdest code dest).isSome = true := by
  have := has_no_panic (fun _ => code) [] 0 dest (coherent_nil _)
  unfold validJumpdest
  cases hh : has [] 0 code dest with
  | none => rw [hh] at this; cases this
  | some x => rfl

/-- **validJumpdest_spec**: true iff `dest < len(code)`, `code[dest] = JUMPDEST` and `dest` is an opcode
    position of the structural walk (code of at most 2^62 bytes; a Go slice is shorter than 2^63) -/
theorem validJumpdest_spec (code : Code) (dest : Nat) (hl : code.length ≤ 2 ^ 62) :
    validJumpdest code dest = some (specValid code dest) :=
  has_spec (fun _ => code) [] 0 dest (coherent_nil _) hl

theorem validJumpdest_true_iff (code : Code) (dest : Nat) (hl : code.length ≤ 2 ^ 62) :
    validJumpdest code dest = some true ↔
      ∃ h : dest < code.length, code[dest] = JUMPDEST ∧ isOpcodePos code dest = true := by
  rw [validJumpdest_spec code dest hl]
  unfold specValid isOpcodePos
  constructor
  · intro h
    have h := Option.some.inj h
    simp only [Bool.and_eq_true, decide_eq_true_eq, beq_iff_eq] at h
    obtain ⟨⟨h1, h2⟩, h3⟩ := h
    refine ⟨h1, ?_, by simp [h1, h3]⟩
    rw [List.getD_eq_getElem?_getD, List.getElem?_eq_getElem h1] at h2
    exact h2
  · rintro ⟨h1, h2, h3⟩
    simp only [Bool.and_eq_true, decide_eq_true_eq] at h3
    have hgd : code.getD dest 0 = code[dest] := by
      rw [List.getD_eq_getElem?_getD, List.getElem?_eq_getElem h1]; rfl
    rw [hgd, h2, h3.2]
    simp [h1]

/-- **a JUMPDEST byte inside PUSH data is not a jump destination** -/
theorem jumpdest_in_pushdata_rejected (code : Code) (dest : Nat) (hl : code.length ≤ 2 ^ 62)
    (hd : isData code dest = true) : validJumpdest code dest = some false := by
  rw [validJumpdest_spec code dest hl]
  simp [specValid, hd]

/-- **the coherence premise is needed** (refutation for an incoherent cache): if the map holds, under
    this code's hash, the vector of a shorter code, `codeSegment` indexes past it. Unreachable in the
    node as long as two different codes never share a Keccak-256 hash. -/
theorem has_stale_cache_panics :
    has [(7, [0x00, 0x00, 0x00, 0x00, 0x00])] 7 (List.replicate 48 JUMPDEST) 47 = none := by decide

/-- a stale vector that is long enough gives a wrong answer instead (position 1 is PUSH data of the
    presented code but the cached vector says code) -/
theorem has_stale_cache_wrong :
    has [(7, [0x00, 0x00, 0x00, 0x00, 0x00])] 7 [0x60, 0x5b] 1 = some (true, [(7, [0x00, 0x00, 0x00, 0x00, 0x00])])
    ∧ validJumpdest [0x60, 0x5b] 1 = some false := by decide

/-! ### getData / getDataBig -/

/-- **getDataBig never panics** (any start, any size, data a Go slice: shorter than 2^63) -/
theorem getDataBig_no_panic (data : List UInt8) (start size : Nat) (hd : data.length < i63) :
    (getDataBig data start size).isSome = true := by
  rw [getDataBig_total data start size hd]; rfl

/-- **right-padding specification**: for a size that fits an int, the result has exactly `size` bytes,
    byte `i` is `data[start+i]` inside the data and 0 beyond it -/
theorem getDataBig_spec (data : List UInt8) (start size : Nat) (hd : data.length < i63) (hs : size < i63) :
    ∃ r, getDataBig data start size = some r ∧ r.length = size ∧
      ∀ i, i < size → r.getD i 0 = data.getD (start + i) 0 := by
  refine ⟨_, getDataBig_total data start size hd, ?_, ?_⟩
  · have hsz : size % u64 = size := Nat.mod_eq_of_lt (by unfold i63 at hs; unfold u64; omega)
    rw [hsz]
    apply rightPad_length _ _ hs
    simp only [List.length_take, List.length_drop]
    omega
  · intro i hi
    rw [rightPad_getD]
    by_cases hin : i < min (min start data.length + size) data.length - min start data.length
    · rw [getD_slice _ _ _ _ hin]
      have : min start data.length = start := by omega
      rw [this]
    · rw [getD_slice_ge _ _ _ _ (by omega), getD_ge _ _ (by omega)]

/-- **getData (uint64 version) — partial**: when `start + size` does not wrap it is `getDataBig`, hence
    never panics and has the same padding specification -/
theorem getData_no_panic_partial (data : List UInt8) (start size : Nat) (hd : data.length < i63)
    (hw : min start data.length + size < u64) : getData data start size = getDataBig data start size := by
  rw [getDataBig_total data start size hd]
  unfold getData
  have e1 : (if start > data.length then data.length else start) = min start data.length := by
    by_cases h : start > data.length
    · rw [if_pos h]; omega
    · rw [if_neg h]; omega
  simp only [e1]
  rw [Nat.mod_eq_of_lt hw]
  have e2 : (if min start data.length + size > data.length then data.length else min start data.length + size)
      = min (min start data.length + size) data.length := by
    by_cases h : min start data.length + size > data.length
    · rw [if_pos h]; omega
    · rw [if_neg h]; omega
  rw [e2, slice_some (by omega) (by omega)]
  have hsz : size % u64 = size := Nat.mod_eq_of_lt (by omega)
  rw [hsz]

/-- **the no-wrap guard is needed** (refutation of the full statement "getData is overflow safe"):
    `end := start + size` wraps to 0 and `data[1:0]` panics. Only reachable from bigModExp.Run with an
    exponent length the gas can never pay (`modexp_no_panic_within_gas`). -/
theorem getData_wrap_panics : getData [0] 1 (u64 - 1) = none := by decide

/-! ### Memory -/

/-- **Memory.Set never panics on a resized store**: with `offset + size ≤ len` (what `Resize` to the
    `memorySize` of the operation guarantees) the slice expression is in range; the visible length is
    unchanged and the bytes are the copied ones -/
theorem memSet_no_panic (m : Mem) (offset size : Nat) (value : List UInt8)
    (hcap : m.len ≤ m.buf.length) (hr : offset + size ≤ m.len) (hl : m.len < u64) :
    ∃ m', memSet m offset size value = some m' ∧ m'.len = m.len ∧ m'.buf.length = m.buf.length ∧
      ∀ i, i < m.buf.length → m'.buf.getD i 0 =
        if offset ≤ i ∧ i < offset + min size value.length then value.getD (i - offset) 0 else m.buf.getD i 0 := by
  unfold memSet
  have h1 : ¬ size > m.len := by omega
  rw [if_neg h1]
  by_cases h0 : size = 0
  · rw [if_pos h0]
    refine ⟨m, rfl, rfl, rfl, ?_⟩
    intro i _
    have : ¬ (offset ≤ i ∧ i < offset + min size value.length) := by omega
    rw [if_neg this]
  · rw [if_neg h0]
    have hm : (offset + size) % u64 = offset + size := Nat.mod_eq_of_lt (by omega)
    simp only [hm]
    rw [if_pos ⟨by omega, by omega⟩]
    refine ⟨_, rfl, rfl, ?_, ?_⟩
    · exact overwrite_length _ _ _ (by omega)
    · intro i hi
      simp only
      rw [overwrite_getD _ _ _ _ (by omega) hi]
      have e : offset + size - offset = size := by omega
      simp only [e, List.length_take]
      by_cases c : offset ≤ i ∧ i < offset + min size value.length
      · rw [if_pos c, if_pos c]
        simp only [List.getD_eq_getElem?_getD, List.getElem?_take]
        rw [if_pos (by omega)]
      · rw [if_neg c, if_neg c]

/-- **the range premise is needed**: `Set` past the capacity panics (slice bounds), and a size larger
    than the store hits the explicit panic -/
theorem memSet_out_of_range_panics :
    memSet ⟨[0, 0, 0, 0], 4⟩ 3 2 [1, 2] = none ∧ memSet ⟨[0, 0], 2⟩ 0 3 [1, 2, 3] = none := by decide

/-- within the capacity but past the length nothing panics: the bytes land in the spare capacity -/
theorem memSet_spare_capacity : memSet ⟨[0, 0, 0, 0], 2⟩ 2 2 [1, 2] = some ⟨[0, 0, 1, 2], 2⟩ := by decide

/-- **Memory.Get / GetPtr never panic on a resized store** and return the visible bytes -/
theorem memGet_no_panic (m : Mem) (offset size : Nat) (hcap : m.len ≤ m.buf.length)
    (hr : offset + size ≤ m.len) :
    ∃ r, memGet m offset size = some r ∧ r.length = size ∧
      ∀ i, i < size → r.getD i 0 = m.buf.getD (offset + i) 0 := by
  unfold memGet
  by_cases h0 : size = 0
  · rw [if_pos h0]
    exact ⟨[], rfl, by simp [h0], by intro i hi; omega⟩
  · rw [if_neg h0]
    have : m.len > offset := by omega
    rw [if_pos this, slice_some (by omega) (by omega)]
    have e : offset + size - offset = size := by omega
    rw [e]
    refine ⟨_, rfl, ?_, ?_⟩
    · simp only [List.length_take, List.length_drop]; omega
    · intro i hi
      exact getD_slice _ _ _ _ hi

/-- **Memory.Resize**: the length becomes `max len size`, the capacity invariant is kept, old visible
    bytes are kept and the new ones are zero -/
theorem memResize_spec (m : Mem) (size : Nat) (hcap : m.len ≤ m.buf.length) :
    (memResize m size).len = max m.len size ∧ (memResize m size).len ≤ (memResize m size).buf.length ∧
      ∀ i, i < max m.len size →
        (memResize m size).buf.getD i 0 = if i < m.len then m.buf.getD i 0 else 0 := by
  unfold memResize
  by_cases h : m.len < size
  · rw [if_pos h]
    by_cases h2 : size ≤ m.buf.length
    · rw [if_pos h2]
      refine ⟨by simp only; omega, by simp only [List.length_append, List.length_take, List.length_replicate, List.length_drop]; omega, ?_⟩
      intro i hi
      simp only [List.getD_eq_getElem?_getD, List.getElem?_append, List.length_take, List.length_replicate]
      have e1 : min m.len m.buf.length = m.len := by omega
      rw [e1]
      by_cases hi2 : i < m.len
      · simp [hi2]
      · have : i - m.len < size - m.len := by omega
        simp [hi2, this]
    · rw [if_neg h2]
      refine ⟨by simp only; omega, by simp only [List.length_append, List.length_take, List.length_replicate]; omega, ?_⟩
      intro i hi
      simp only [List.getD_eq_getElem?_getD, List.getElem?_append, List.length_take]
      have e1 : min m.len m.buf.length = m.len := by omega
      rw [e1]
      by_cases hi2 : i < m.len
      · simp [hi2]
      · have : i - m.len < size - m.len := by omega
        simp [hi2, this]
  · rw [if_neg h]
    refine ⟨by omega, hcap, ?_⟩
    intro i hi
    have : i < m.len := by omega
    rw [if_pos this]

/-- **Resize then Set never panics**: the interpreter's discipline (`mem.Resize(memorySize)` before
    `operation.execute`) with `memorySize ≥ offset + size` -/
theorem resize_then_set_no_panic (m : Mem) (memorySize offset size : Nat) (value : List UInt8)
    (hcap : m.len ≤ m.buf.length) (hms : offset + size ≤ memorySize) (hl : max m.len memorySize < u64) :
    (memSet (memResize m memorySize) offset size value).isSome = true := by
  obtain ⟨h1, h2, _⟩ := memResize_spec m memorySize hcap
  obtain ⟨m', h3, _⟩ := memSet_no_panic (memResize m memorySize) offset size value h2 (by rw [h1]; omega) (by rw [h1]; exact hl)
  rw [h3]; rfl

/-! ### non-vacuity -/

example : validJumpdest tightWitness 3 = some true := by decide
example : validJumpdest [0x60, 0x5b, 0x5b] 1 = some false ∧ validJumpdest [0x60, 0x5b, 0x5b] 2 = some true := by decide
example : isData [0x7f, 0x5b] 1 = true := by decide
example : validJumpdest [0x5b] (2 ^ 64) = some false := by decide
example : Coherent (fun _ => tightWitness) [(1, [0x40, 0xff, 0xff, 0xff, 0xff, 0x00])] := by
  intro h m hm
  simp [List.lookup] at hm
  split at hm
  · cases hm; exact codeBitmap_witness_ok
  · cases hm

example : getDataBig [1, 2, 3] 1 5 = some [2, 3, 0, 0, 0] := by decide
example : getData [1, 2, 3] 7 2 = some [0, 0] := by decide
example : memSet (memResize ⟨[], 0⟩ 4) 1 2 [7, 8, 9] = some ⟨[0, 7, 8, 0], 4⟩ := by decide
example : memGet ⟨[1, 2, 3, 4], 3⟩ 1 2 = some [2, 3] := by decide

end LemoProofs.C16

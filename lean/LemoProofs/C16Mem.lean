/-
  C16 — "running any byte string as contract code … without crashing the node":
  every memory-touching instruction stays inside the memory the interpreter resized for it.

  Model: LemoModel/MemRange.lean (memory_table.go, the memory stage of Interpreter.Run, the memory
  accesses of the instruction bodies with Go's Int64 / Uint64 conversions; a Go panic is `none`).
  Statements are for EVERY opcode, EVERY stack of non-negative words (no 256-bit bound is needed),
  every memory and every environment. The only premise is that the interpreter reached the body:
  `stage op st = .ok ms` (no errGasUintOverflow, and the gas function's `memoryGasCost` did not
  refuse the size; being able to pay is irrelevant).
  Tie: `mrt` / `mra` (go/ast of the sources) and `mrg` / `mrs` / `mrx` (the real functions) op lines of `hx c16` (hook chain/vm/verif_memrange.go) against
  driver c16; `table_memranges_eq_body` ties the ranges PROBED from the real memorySize functions
  (regenerated LemoModel.EvmTable) to the ranges the modelled bodies touch.
-/
import LemoModel.MemRange
import LemoModel.EvmTable
import LemoModel.EvmGas
import LemoProofs.C16Jump
namespace LemoProofs.C16
open LemoModel LemoModel.JumpAnalysis LemoModel.MemRange LemoProofs.Lemmas.JumpAnalysis

/-! ### the memory stage of Run -/

theorem bigUint64_spec {v : Nat} (h : (bigUint64 v).2 = false) : v < u64 ∧ (bigUint64 v).1 = v := by
  unfold bigUint64 at *
  simp only [decide_eq_false_iff_not] at h
  have : v < u64 := by omega
  exact ⟨this, Nat.mod_eq_of_lt this⟩

theorem safeMul_words {s : Nat} (hs : s < u64) (h : (safeMul (toWordSize s) 32).2 = false) :
    s ≤ (safeMul (toWordSize s) 32).1 ∧ (safeMul (toWordSize s) 32).1 = (s + 31) / 32 * 32 := by
  unfold u64 at hs
  unfold safeMul toWordSize at *
  by_cases hbig : s > maxU64 - 31
  · rw [if_pos hbig] at h
    exfalso; revert h; decide
  · rw [if_neg hbig] at h ⊢
    unfold maxU64 at hbig
    by_cases hx : (s + 31) / 32 = 0
    · have : ((s + 31) / 32 = 0 ∨ 32 = 0) := Or.inl hx
      rw [if_pos this]
      constructor <;> simp only <;> omega
    · have hx2 : ¬ ((s + 31) / 32 = 0 ∨ 32 = 0) := by omega
      rw [if_neg hx2]
      simp only
      have hm : (s + 31) / 32 * 32 % u64 = (s + 31) / 32 * 32 := Nat.mod_eq_of_lt (by unfold u64; omega)
      rw [hm]
      constructor <;> omega

/-- **stage_ok_spec**: when Run reaches the gas function without errGasUintOverflow and
    `memoryGasCost` accepts the size, the size priced and resized to is the requested size rounded up
    to a multiple of 32: it covers the request and is at most 0xffffffffe0. -/
theorem stageWith_ok {F : Nat → Option MemFn} {op : Nat} {st : Stack} {ms : Nat} {f : MemFn}
    (hF : F op = some f) (h : stageWith F op st = .ok ms) :
    f.fn st ≤ ms ∧ ms ≤ memLimit ∧ ms = (f.fn st + 31) / 32 * 32 := by
  unfold stageWith at h
  rw [hF] at h
  simp only at h
  by_cases h1 : (bigUint64 (f.fn st)).2 = true
  · rw [if_pos h1] at h; cases h
  · rw [if_neg h1] at h
    obtain ⟨hv, he⟩ := bigUint64_spec (Bool.eq_false_iff.mpr h1)
    rw [he] at h
    by_cases h2 : (safeMul (toWordSize (f.fn st)) 32).2 = true
    · rw [if_pos h2] at h; cases h
    · rw [if_neg h2] at h
      obtain ⟨h3, h4⟩ := safeMul_words hv (Bool.eq_false_iff.mpr h2)
      split at h
      · cases h
      · cases h
        exact ⟨h3, by omega, h4⟩

theorem stageWith_none {F : Nat → Option MemFn} {op : Nat} {st : Stack} {ms : Nat}
    (hF : F op = none) (h : stageWith F op st = .ok ms) : ms = 0 := by
  unfold stageWith at h
  rw [hF] at h
  cases h; rfl

theorem stage_ok_spec (op : Nat) (st : Stack) (ms : Nat) (f : MemFn) (hF : memFn op = some f)
    (h : stage op st = .ok ms) : f.fn st ≤ ms ∧ ms ≤ memLimit ∧ ms = (f.fn st + 31) / 32 * 32 :=
  stageWith_ok hF h

/-- `if memorySize > 0 { mem.Resize(memorySize) }` leaves a store of `max len memorySize` visible bytes
    inside its capacity -/
theorem resized_spec (m : Mem) (ms : Nat) (hcap : m.len ≤ m.buf.length) :
    (resized m ms).len = max m.len ms ∧ (resized m ms).len ≤ (resized m ms).buf.length := by
  unfold resized
  by_cases h : ms > 0
  · rw [if_pos h]
    obtain ⟨h1, h2, _⟩ := memResize_spec m ms hcap
    exact ⟨h1, h2⟩
  · rw [if_neg h]
    exact ⟨by omega, hcap⟩

/-! ### the accesses of the bodies -/

/-- the memory size an access needs (`calcMemSize` of its operands) -/
def need (st : Stack) : Access → Nat
  | .get off size | .getPtr off size | .set off size => calcMemSize (back st off) (size.val st)
  | .store8 off => calcMemSize (back st off) 1
  | .len => 0

theorem int64_small {w : Nat} (h : w < i63) : int64 w = (w : Int) := by
  unfold int64
  have : w % u64 = w := Nat.mod_eq_of_lt (by unfold i63 at h; unfold u64; omega)
  rw [this, if_pos h]

theorem uint64_small {w : Nat} (h : w < u64) : uint64 w = w := Nat.mod_eq_of_lt h

theorem calc_cases {off size ms : Nat} (h : calcMemSize off size ≤ ms) (hms : ms ≤ memLimit) :
    size = 0 ∨ (0 < size ∧ off + size ≤ ms ∧ off < i63 ∧ size < i63 ∧ off + size < i63) := by
  unfold calcMemSize at h
  unfold memLimit at hms
  by_cases h0 : size = 0
  · exact Or.inl h0
  · rw [if_neg h0] at h
    unfold i63
    exact Or.inr ⟨by omega, h, by omega, by omega, by omega⟩

theorem int64_zero : int64 0 = 0 := by decide

theorem doGet_ok (m : Mem) (offW sizeW ms : Nat) (hcap : m.len ≤ m.buf.length)
    (hneed : calcMemSize offW sizeW ≤ ms) (hms : ms ≤ memLimit) (hlen : ms ≤ m.len) :
    ∃ r, doGet m (int64 offW) (int64 sizeW) = some r ∧ r.length = sizeW ∧
      ∀ i, i < sizeW → r.getD i 0 = m.buf.getD (offW + i) 0 := by
  rcases calc_cases hneed hms with h0 | ⟨hpos, hle, ho, hs, hos⟩
  · subst h0
    refine ⟨[], ?_, rfl, by intro i hi; omega⟩
    unfold doGet; rw [int64_zero, if_pos rfl]
  · rw [int64_small ho, int64_small hs]
    unfold doGet
    have h1 : ¬ ((sizeW : Int) = 0) := by omega
    have h2 : ¬ ((offW : Int) < 0 ∨ (sizeW : Int) < 0 ∨ (offW : Int) + (sizeW : Int) ≥ (i63 : Int)) := by omega
    rw [if_neg h1, if_neg h2, Int.toNat_natCast, Int.toNat_natCast]
    exact memGet_no_panic m offW sizeW hcap (by omega)

theorem memSet_ok (m : Mem) (offW sizeW ms : Nat) (v : List UInt8) (hcap : m.len ≤ m.buf.length)
    (hneed : calcMemSize offW sizeW ≤ ms) (hms : ms ≤ memLimit) (hlen : ms ≤ m.len) (hl : m.len < u64) :
    ∃ m', memSet m (uint64 offW) (uint64 sizeW) v = some m' ∧ m'.len = m.len ∧ m'.buf.length = m.buf.length := by
  rcases calc_cases hneed hms with h0 | ⟨hpos, hle, ho, hs, hos⟩
  · subst h0
    refine ⟨m, ?_, rfl, rfl⟩
    have : uint64 0 = 0 := by decide
    unfold memSet
    rw [this, if_neg (by omega), if_pos rfl]
  · have e1 : uint64 offW = offW := uint64_small (by unfold i63 at ho; unfold u64; omega)
    have e2 : uint64 sizeW = sizeW := uint64_small (by unfold i63 at hs; unfold u64; omega)
    rw [e1, e2]
    obtain ⟨m', h1, h2, h3, _⟩ := memSet_no_panic m offW sizeW v hcap (by omega) hl
    exact ⟨m', h1, h2, h3⟩

theorem doStore8_ok (m : Mem) (offW ms : Nat) (b : UInt8)
    (hneed : calcMemSize offW 1 ≤ ms) (hms : ms ≤ memLimit) (hlen : ms ≤ m.len) :
    ∃ m', doStore8 m (int64 offW) b = some m' ∧ m'.len = m.len ∧ m'.buf.length = m.buf.length := by
  rcases calc_cases hneed hms with h0 | ⟨hpos, hle, ho, hs, hos⟩
  · omega
  · rw [int64_small ho]
    unfold doStore8
    have : (0 : Int) ≤ (offW : Int) ∧ (offW : Int) < (m.len : Int) := by omega
    rw [if_pos this]
    exact ⟨_, rfl, rfl, by simp only [List.length_set]⟩

/-- the environment of a frame: the byte strings are Go slices (shorter than 2^63) -/
def EnvOK (env : Env) : Prop :=
  env.input.length < i63 ∧ env.code.length < i63 ∧ (∀ c, env.extCode = some c → c.length < i63)

theorem ofOpt_some {o : Option (List UInt8)} (h : o.isSome = true) : ∃ v, ofOpt o = .val v := by
  cases o with
  | none => cases h
  | some v => exact ⟨v, rfl⟩

/-- the operand of `memory.Set` is never a panicking slice expression (getDataBig is total; the
    RETURNDATACOPY slice is taken only after the bounds check of the body) -/
theorem setValue_no_panic (op : Nat) (st : Stack) (env : Env) (read : List UInt8) (henv : EnvOK env) :
    setValue op st env read = .skip ∨ ∃ v, setValue op st env read = .val v := by
  obtain ⟨hi, hc, he⟩ := henv
  unfold setValue
  split
  · exact Or.inr (ofOpt_some (getDataBig_no_panic _ _ _ hi))
  · exact Or.inr (ofOpt_some (getDataBig_no_panic _ _ _ hc))
  · split
    · exact Or.inl rfl
    · rename_i c hc'
      exact Or.inr (ofOpt_some (getDataBig_no_panic _ _ _ (he c hc')))
  · simp only
    split
    · exact Or.inl rfl
    · rename_i hcond
      have h1 : back st 1 + back st 2 < u64 := by omega
      have h2 : (back st 1 + back st 2) % u64 = back st 1 + back st 2 := Nat.mod_eq_of_lt h1
      have h3 : uint64 (back st 1) = back st 1 := uint64_small (by omega)
      have h4 : back st 1 + back st 2 ≤ env.retData.length := by rw [h2] at hcond; omega
      rw [h2, h3, slice_some (by omega) h4]
      exact Or.inr ⟨_, rfl⟩
  · exact Or.inr ⟨_, rfl⟩
  all_goals first
    | exact Or.inl rfl
    | (split
       · exact Or.inr ⟨_, rfl⟩
       · exact Or.inl rfl)

/-- one access that fits the resized size runs without a panic and keeps length and capacity -/
theorem runAccess_ok (op : Nat) (st : Stack) (env : Env) (s : Mem × List UInt8) (a : Access) (ms : Nat)
    (henv : EnvOK env) (hcap : s.1.len ≤ s.1.buf.length) (hl : s.1.len < u64)
    (hneed : need st a ≤ ms) (hms : ms ≤ memLimit) (hlen : ms ≤ s.1.len) :
    ∃ s', runAccess op st env s a = some s' ∧ s'.1.len = s.1.len ∧ s'.1.buf.length = s.1.buf.length := by
  cases a with
  | get off size =>
    obtain ⟨r, h1, _⟩ := doGet_ok s.1 (back st off) (size.val st) ms hcap hneed hms hlen
    exact ⟨(s.1, r), by simp only [runAccess, h1], rfl, rfl⟩
  | getPtr off size =>
    obtain ⟨r, h1, _⟩ := doGet_ok s.1 (back st off) (size.val st) ms hcap hneed hms hlen
    exact ⟨(s.1, r), by simp only [runAccess, h1], rfl, rfl⟩
  | set off size =>
    rcases setValue_no_panic op st env s.2 henv with h | ⟨v, h⟩
    · exact ⟨s, by simp only [runAccess, h], rfl, rfl⟩
    · obtain ⟨m', h1, h2, h3⟩ := memSet_ok s.1 (back st off) (size.val st) ms v hcap hneed hms hlen hl
      exact ⟨(m', s.2), by simp only [runAccess, h, h1], h2, h3⟩
  | store8 off =>
    obtain ⟨m', h1, h2, h3⟩ := doStore8_ok s.1 (back st off) ms (UInt8.ofNat (uint64 (back st 1) % 256)) hneed hms hlen
    exact ⟨(m', s.2), by simp only [runAccess, h1], h2, h3⟩
  | len => exact ⟨s, rfl, rfl, rfl⟩

theorem runAll_ok (op : Nat) (st : Stack) (env : Env) (ms : Nat) (henv : EnvOK env) (hms : ms ≤ memLimit) :
    ∀ (as : List Access) (s : Mem × List UInt8), (∀ a ∈ as, need st a ≤ ms) →
      s.1.len ≤ s.1.buf.length → s.1.len < u64 → ms ≤ s.1.len →
      ∃ s', runAll op st env s as = some s' ∧ s'.1.len = s.1.len ∧ s'.1.buf.length = s.1.buf.length := by
  intro as
  induction as with
  | nil => intro s _ _ _ _; exact ⟨s, rfl, rfl, rfl⟩
  | cons a as ih =>
    intro s hall hcap hl hlen
    obtain ⟨s1, h1, h2, h3⟩ := runAccess_ok op st env s a ms henv hcap hl (hall a (List.mem_cons_self ..)) hms hlen
    obtain ⟨s2, h4, h5, h6⟩ := ih s1 (fun b hb => hall b (List.mem_cons_of_mem _ hb)) (by omega) (by omega) (by omega)
    exact ⟨s2, by simp only [runAll, h1, h4], by omega, by omega⟩

/-! ### memory_table.go covers instructions.go -/

theorem le_bigMax_left (x y : Nat) : x ≤ bigMax x y := by unfold bigMax; split <;> omega
theorem le_bigMax_right (x y : Nat) : y ≤ bigMax x y := by unfold bigMax; split <;> omega

/-- **need_le_memorySize**: for every opcode with a memorySize function, every access of its body
    needs at most what that function asks for — for all stacks. -/
theorem need_le_memorySize (op : Nat) (f : MemFn) (st : Stack) (h : memFn op = some f) :
    ∀ a ∈ bodyAccesses op, need st a ≤ f.fn st := by
  unfold memFn at h
  split at h
  all_goals first | (cases h; done) | skip
  all_goals (cases h; intro a ha
             simp only [bodyAccesses, List.mem_cons, List.not_mem_nil, or_false] at ha)
  all_goals first
    | (subst ha
       simp only [need, Arg.val, memorySha3, memoryCallDataCopy, memoryReturnDataCopy, memoryCodeCopy,
         memoryExtCodeCopy, memoryMLoad, memoryMStore8, memoryMStore, memoryCreate, memoryReturn, memoryRevert,
         memoryEvent]
       exact Nat.le_refl _)
    | (rcases ha with rfl | rfl <;>
       simp only [need, Arg.val, memoryCall, memoryDelegateCall, memoryStaticCall] <;>
       first | exact le_bigMax_left _ _ | exact le_bigMax_right _ _)

/-- **memFn_eq_source**: the meaning the model gives to the memorySize function of every row is the
    evaluation of that function's SOURCE term (`memSpec`, compared with go/ast of memory_table.go by
    the `mrt` rows), for all stacks. -/
theorem memFn_eq_source (op : Nat) (f : MemFn) (h : memFn op = some f) :
    ∃ e, memSpec f.name = some e ∧ ∀ st, f.fn st = e.eval st := by
  unfold memFn at h
  split at h
  all_goals first | (cases h; done) | skip
  all_goals (cases h; exact ⟨_, rfl, fun _ => rfl⟩)

/-- an opcode without a memorySize function has a body that touches no memory byte -/
theorem no_memFn_no_touch (op : Nat) (h : memFn op = none) : ∀ a ∈ bodyAccesses op, a.touches = false := by
  unfold bodyAccesses
  split
  all_goals first
    | (exfalso; simp [memFn] at h; done)
    | (intro a ha; cases ha; done)
    | (intro a ha; simp only [List.mem_singleton] at ha; subst ha; rfl)

theorem need_covered (op : Nat) (st : Stack) (ms : Nat) (h : stage op st = .ok ms) :
    ms ≤ memLimit ∧ ∀ a ∈ bodyAccesses op, need st a ≤ ms := by
  cases hF : memFn op with
  | none =>
    refine ⟨by rw [stageWith_none hF h]; decide, ?_⟩
    intro a ha
    have := no_memFn_no_touch op hF a ha
    cases a <;> first | exact Nat.zero_le _ | cases this
  | some f =>
    obtain ⟨h1, h2, _⟩ := stageWith_ok hF h
    exact ⟨h2, fun a ha => Nat.le_trans (need_le_memorySize op f st hF a ha) h1⟩

/-- an access that fits `ms ≤ 0xffffffffe0` indexes a non-empty range inside `[0, ms)`: the Int64 /
    Uint64 conversions of its operands are exact -/
theorem range_in (st : Stack) (a : Access) (ms : Nat) (hneed : need st a ≤ ms) (hms : ms ≤ memLimit)
    (lo hi : Int) (hr : a.range st = some (lo, hi)) : 0 ≤ lo ∧ lo < hi ∧ hi ≤ (ms : Int) := by
  cases a with
  | get off size =>
    simp only [Access.range] at hr
    rcases calc_cases hneed hms with h0 | ⟨hpos, hle, ho, hs, hos⟩
    · rw [h0, int64_zero] at hr; simp at hr
    · rw [int64_small ho, int64_small hs] at hr
      split at hr
      · cases hr
      · cases hr; omega
  | getPtr off size =>
    simp only [Access.range] at hr
    rcases calc_cases hneed hms with h0 | ⟨hpos, hle, ho, hs, hos⟩
    · rw [h0, int64_zero] at hr; simp at hr
    · rw [int64_small ho, int64_small hs] at hr
      split at hr
      · cases hr
      · cases hr; omega
  | set off size =>
    simp only [Access.range] at hr
    rcases calc_cases hneed hms with h0 | ⟨hpos, hle, ho, hs, hos⟩
    · have : uint64 0 = 0 := by decide
      rw [h0, this] at hr; simp at hr
    · have e1 : uint64 (back st off) = back st off := uint64_small (by unfold i63 at ho; unfold u64; omega)
      have e2 : uint64 (size.val st) = size.val st := uint64_small (by unfold i63 at hs; unfold u64; omega)
      rw [e1, e2] at hr
      split at hr
      · cases hr
      · cases hr; omega
  | store8 off =>
    simp only [Access.range] at hr
    rcases calc_cases hneed hms with h0 | ⟨hpos, hle, ho, hs, hos⟩
    · omega
    · rw [int64_small ho] at hr
      cases hr; omega
  | len => simp [Access.range] at hr

/-- **memrange_covered**: for EVERY opcode and ALL stack operands for which the interpreter reaches
    the instruction body (no errGasUintOverflow, size not refused by memoryGasCost), every byte range
    the body indexes — through Memory.Get / GetPtr / Set or `memory.store[off]`, after the Int64 /
    Uint64 conversions of the 256-bit operands — is a non-negative, non-empty range that ends inside
    the visible length of the memory after `Resize`. -/
theorem memrange_covered (op : Nat) (st : Stack) (m : Mem) (ms : Nat) (hcap : m.len ≤ m.buf.length)
    (h : stage op st = .ok ms) :
    ∀ a ∈ bodyAccesses op, ∀ lo hi, a.range st = some (lo, hi) →
      0 ≤ lo ∧ lo < hi ∧ hi ≤ ((resized m ms).len : Int) := by
  intro a ha lo hi hr
  obtain ⟨hms, hall⟩ := need_covered op st ms h
  obtain ⟨h1, h2, h3⟩ := range_in st a ms (hall a ha) hms lo hi hr
  obtain ⟨h4, _⟩ := resized_spec m ms hcap
  exact ⟨h1, h2, by rw [h4]; omega⟩

/-- **body_memory_no_panic**: under the same premise the memory part of the instruction body runs to
    the end without a Go panic (composition with memSet_no_panic / memGet_no_panic), on every
    memory, for every environment (call data, code, foreign code, return data, callee output), and
    leaves the length `max len memorySize`. -/
theorem body_memory_no_panic (op : Nat) (st : Stack) (env : Env) (m : Mem) (ms : Nat)
    (hcap : m.len ≤ m.buf.length) (hl : m.len < u64) (henv : EnvOK env) (h : stage op st = .ok ms) :
    ∃ m' r, exec op st env (resized m ms) = some (m', r) ∧ m'.len = max m.len ms ∧
      m'.len ≤ m'.buf.length := by
  obtain ⟨hms, hall⟩ := need_covered op st ms h
  obtain ⟨h4, h5⟩ := resized_spec m ms hcap
  have hl2 : (resized m ms).len < u64 := by
    rw [h4]; unfold memLimit at hms; unfold u64 at hl ⊢; omega
  obtain ⟨s', h1, h2, h3⟩ := runAll_ok op st env ms henv hms (bodyAccesses op) (resized m ms, []) hall h5 hl2
    (by rw [h4]; omega)
  refine ⟨s'.1, s'.2, h1, by rw [h2, h4], by rw [h2, h3]; exact h5⟩

/-- the interpreter step of the model never ends in `panic` -/
theorem step_never_panics (op : Nat) (st : Stack) (env : Env) (m : Mem)
    (hcap : m.len ≤ m.buf.length) (hl : m.len < u64) (henv : EnvOK env) :
    step op st env m ≠ .panic := by
  unfold step stepWith
  cases hs : stageWith memFn op st with
  | overflow => simp
  | refused => simp
  | ok ms =>
    obtain ⟨m', r, h1, _⟩ := body_memory_no_panic op st env m ms hcap hl henv hs
    simp [h1]

/-! ### the tables -/

/-- the range an access needs, in the format of the probed column `OpInfo.mem` -/
def probeRow : Access → Option Evm.MemRange
  | .get off (.slot s) | .getPtr off (.slot s) | .set off (.slot s) => some ⟨off, some s, 0⟩
  | .get off (.const n) | .getPtr off (.const n) | .set off (.const n) => some ⟨off, none, n⟩
  | .store8 off => some ⟨off, none, 1⟩
  | .len => none

set_option maxRecDepth 100000 in
/-- **memsize_table_complete** (decided over the regenerated rows of the REAL jump table): an opcode
    has a memorySize function in the model exactly when the real row has one; every opcode whose body
    touches memory has one; and no memorySize function is idle. -/
theorem memsize_table_complete : ∀ op < 256,
    (memFn op).isSome = (EvmTable.table.info op).hasMem ∧
    ((bodyAccesses op).any Access.touches = (memFn op).isSome) := by
  decide

set_option maxRecDepth 100000 in
/-- **table_memranges_eq_body**: for every opcode the memory ranges recovered by PROBING the real
    memorySize function (hook chain/vm/verif_table.go, column `mem` of the regenerated table) are
    exactly the ranges the modelled body accesses, in order. -/
theorem table_memranges_eq_body : ∀ op < 256,
    (EvmTable.table.info op).mem = (bodyAccesses op).filterMap probeRow := by
  decide

/-- the refusal bound of the model is the table's -/
theorem memLimit_eq_table : memLimit = EvmTable.table.params.memLimit := by decide

/-! ### the uint64 arithmetic of memoryGasCost (what `mrg` compares) -/

theorem toWordSize_small {ms : Nat} (h : ms ≤ memLimit) : toWordSize ms = (ms + 31) / 32 := by
  unfold toWordSize
  have : ¬ ms > maxU64 - 31 := by unfold memLimit at h; unfold maxU64; omega
  rw [if_neg this]

/-- **memfee64_exact_partial**: below 2^37 bytes (fewer than 2^32 words) the uint64 arithmetic of
    `memoryGasCost` is exact: on empty memory it charges the unbounded fee `3·w + w²/512` that
    `LemoModel.EvmGas.memFee` (memcost_closed_form, gas_bounded) works with. -/
theorem memfee64_exact_partial (ms : Nat) (h0 : 0 < ms) (h : ms ≤ 137438953440) :
    memoryGasCost64 3 512 ms = some (EvmGas.memFee EvmTable.table.params ((ms + 31) / 32)) := by
  have hl : ms ≤ memLimit := by unfold memLimit; omega
  unfold memoryGasCost64
  rw [if_neg (by omega), if_neg (by omega), toWordSize_small hl]
  simp only
  generalize hw : (ms + 31) / 32 = w
  have hw32 : w < 4294967296 := by omega
  have hsq : w * w < 4294967296 * 4294967296 := Nat.mul_lt_mul'' hw32 hw32
  have e1 : w * w % u64 = w * w := Nat.mod_eq_of_lt (by unfold u64; omega)
  have e2 : w * 3 % u64 = w * 3 := Nat.mod_eq_of_lt (by unfold u64; omega)
  rw [e1, e2]
  have e3 : (w * 3 + w * w / 512) % u64 = w * 3 + w * w / 512 := Nat.mod_eq_of_lt (by unfold u64; omega)
  rw [e3]
  rfl

/-- **memfee64_wraps** (refutation of "the price of memory is 3·w + w²/512", current code): the bound
    of `memoryGasCost` is 0xffffffffe0 (upstream: 0x1FFFFFFFE0), so from 2^37 bytes = 2^32 words on
    `words * words` wraps in uint64: 2^37 bytes cost 12 884 901 888 gas, 32 bytes LESS cost
    36 028 809 887 088 637 gas (the true fee of 2^32 words is 36 028 809 903 865 856). -/
theorem memfee64_wraps :
    memoryGasCost64 3 512 137438953472 = some 12884901888 ∧
    memoryGasCost64 3 512 137438953440 = some 36028809887088637 ∧
    EvmGas.memFee EvmTable.table.params 4294967296 = 36028809903865856 := by decide

/-- **memfee64_wrap_unaffordable**: the wrapped prices are still out of reach: every size from 2^37
    bytes up to the bound costs at least 3·2^32 = 12 884 901 888 gas (the linear term never wraps),
    more than a hundred block gas limits. -/
theorem memfee64_wrap_unaffordable (ms : Nat) (h1 : 137438953472 ≤ ms) (h2 : ms ≤ memLimit) :
    ∃ fee, memoryGasCost64 3 512 ms = some fee ∧ 12884901888 ≤ fee := by
  unfold memoryGasCost64
  rw [if_neg (by omega), if_neg (by omega), toWordSize_small h2]
  simp only
  unfold memLimit at h2
  generalize hw : (ms + 31) / 32 = w
  have hwlo : 4294967296 ≤ w := by omega
  have hwhi : w < 34359738368 := by omega
  have hq : w * w % u64 < u64 := Nat.mod_lt _ (by decide)
  generalize w * w % u64 = q at hq
  unfold u64 at hq
  have e2 : w * 3 % u64 = w * 3 := Nat.mod_eq_of_lt (by unfold u64; omega)
  rw [e2]
  have e3 : (w * 3 + q / 512) % u64 = w * 3 + q / 512 := Nat.mod_eq_of_lt (by unfold u64; omega)
  rw [e3]
  exact ⟨_, rfl, by omega⟩

/-! ### refutations: three hypothetical slips of memory_table.go would break the theorem -/

def idCallee : Env := { callRet := fun args => some args }

/-- `memoryCall` taking only the argument range: CALL with empty arguments and a 32-byte return
    range on empty memory passes the stage with size 0 and `Memory.Set` panics ("store empty") -/
theorem slip_call_args_only_panics :
    stepWith memFnCallArgsOnly 0xf1 [0, 4, 0, 0, 0, 0, 32] idCallee ⟨[], 0⟩ = .panic ∧
    step 0xf1 [0, 4, 0, 0, 0, 0, 32] idCallee ⟨[], 0⟩ = .done ⟨List.replicate 32 0, 32⟩ [] := by decide

/-- `memoryMStore8` sized as zero bytes: `memory.store[0]` on empty memory is out of range -/
theorem slip_mstore8_zero_panics :
    stepWith memFnMstore8Zero 0x53 [0, 0xab] {} ⟨[], 0⟩ = .panic ∧
    step 0x53 [0, 0xab] {} ⟨[], 0⟩ = .done ⟨0xab :: List.replicate 31 0, 32⟩ [] := by decide

/-- `memoryReturnDataCopy` sized from the data offset: copying 32 bytes of return data to memory
    offset 64 resizes to 32 bytes only and the slice expression of `Set` is out of range -/
theorem slip_rdc_data_offset_panics :
    stepWith memFnRdcDataOffset 0x3e [64, 0, 32] { retData := List.replicate 32 7 } ⟨[], 0⟩ = .panic ∧
    step 0x3e [64, 0, 32] { retData := List.replicate 32 7 } ⟨[], 0⟩ =
      .done ⟨List.replicate 64 0 ++ List.replicate 32 7, 96⟩ [] := by decide

/-- the gas refusal is needed: without `memoryGasCost`'s bound an offset of 2^63 passes Run's own
    overflow checks, `Int64()` turns it negative and `Memory.Get` indexes below zero -/
theorem int64_wraps_without_gas_bound :
    (memorySha3 [2 ^ 63, 1] + 31 < u64) ∧ stage 0x20 [2 ^ 63, 1] = .refused ∧
    doGet ⟨[0], 1⟩ (int64 (2 ^ 63)) (int64 1) = none := by decide

/-! ### non-vacuity -/

example : stage 0x52 [33, 0xff] = .ok 96 := by decide
example : stage 0xf1 [0, 4, 0, 2 ^ 256 - 1, 0, 40, 2] = .ok 64 := by decide   -- size 0 at a huge offset
example : stage 0x37 [2 ^ 64 - 32, 0, 1] = .overflow := by decide
example : stage 0x37 [2 ^ 40, 0, 1] = .refused := by decide
example : EnvOK idCallee := ⟨by decide, by decide, by intro c h; cases h; decide⟩

end LemoProofs.C16

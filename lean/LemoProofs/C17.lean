/-
  C17 — State commitments bind content: trie / Merkle roots depend only on what is stored.

  Part A (this section): the Merkle tree of /repo/common/merkle/merkle_tree.go, model
  `LemoModel.Merkle` (flat array built by a queue, `FindSiblingNodes`, `Verify`), for an ABSTRACT
  hash combiner `H` — no property of Keccak is used except where stated as a hypothesis.

  Quantifiers: all leaf lists of every length, every position, every hash type, every `H`.
-/
import LemoModel.Merkle
import LemoModel.Mpt
import LemoProofs.Lemmas.Merkle
import LemoProofs.Lemmas.Mpt
import LemoProofs.C17Store
import LemoProofs.C17Decode
import LemoProofs.C17Storage
namespace LemoProofs.C17
open LemoModel.Merkle LemoProofs.MerkleLemmas

section merkle
variable {α : Type}

/-- last entry of the node array of a non-empty leaf list is the root -/
theorem root_eq_last (H : α → α → α) (e : α) (leaves : List α) (hne : 0 < leaves.length) :
    (calcNodes H leaves)[(calcNodes H leaves).length - 1]? = some (root H e leaves) := by
  have B := calcNodes_built H leaves hne
  have hlen := B.len
  unfold root
  rw [List.getLast?_eq_getElem?]
  cases h : (calcNodes H leaves)[(calcNodes H leaves).length - 1]? with
  | some r => rfl
  | none =>
    have := (List.getElem?_eq_none_iff.mp h)
    omega

/-- congruence of equality only (NOT registered as a property theorem): `Root()` reads nothing but the
    ordered leaf list and `H` because the model has no other input; what the root IS is `nodes_shape`,
    that it binds the leaves is `root_binds_leaves`. -/
theorem root_is_function_of_leaves (H : α → α → α) (e : α) (l l' : List α) (h : l = l') :
    root H e l = root H e l' := by rw [h]

theorem root_empty (H : α → α → α) (e : α) : root H e [] = e := by
  simp [root, calcNodes_nil]

/-- shape of the flat array: `n` leaves, then `n-1` interior nodes, node `n+k` = `H(node 2k, node 2k+1)` -/
theorem nodes_shape (H : α → α → α) (leaves : List α) (hne : 0 < leaves.length) :
    (calcNodes H leaves).length = 2 * leaves.length - 1 ∧
    (∀ i, i < leaves.length → (calcNodes H leaves)[i]? = leaves[i]?) ∧
    (∀ k, k + 1 < leaves.length → ∃ a b, (calcNodes H leaves)[2 * k]? = some a ∧
        (calcNodes H leaves)[2 * k + 1]? = some b ∧
        (calcNodes H leaves)[leaves.length + k]? = some (H a b)) := by
  have B := calcNodes_built H leaves hne
  exact ⟨by have := B.len; omega, B.leaf, fun k hk => B.inner k (by omega)⟩

/-- every entry `j` of the array (leaf or interior) has a sibling path and `Verify` accepts it.
    For `j ≥ n` this is the "interior node passes as a leaf with a shorter path" remark of the
    design: `Verify` has no domain separation between leaves and interior nodes. -/
theorem every_entry_verifies [DecidableEq α] (H : α → α → α) (e : α) (leaves : List α) (j : Nat) (x : α)
    (hx : (calcNodes H leaves)[j]? = some x) :
    ∃ p, pathFrom (calcNodes H leaves) j = some p ∧ verify H x (root H e leaves) p = true := by
  have hjl : j < (calcNodes H leaves).length := by
    rcases Nat.lt_or_ge j (calcNodes H leaves).length with h | h
    · exact h
    · rw [List.getElem?_eq_none h] at hx; cases hx
  have hne : 0 < leaves.length := by
    rcases Nat.eq_zero_or_pos leaves.length with h | h
    · have : leaves = [] := List.eq_nil_of_length_eq_zero h
      subst this; rw [calcNodes_nil] at hjl; simp at hjl
    · exact h
  have B := calcNodes_built H leaves hne
  have hlen := B.len
  obtain ⟨p, hp, hc⟩ := findPath_computes B (root H e leaves) (root_eq_last H e leaves hne)
    (calcNodes H leaves).length j x hx (by omega)
  refine ⟨p, ?_, ?_⟩
  · unfold pathFrom
    have : ((calcNodes H leaves).length + 1) / 2 = leaves.length := by omega
    rw [this]; exact hp
  · simp [verify, hc]

/-- **inclusion_verifies**: for every leaf list, of every length, and every position `i`,
    `FindSiblingNodes(leaf_i, HashNodes())` succeeds (no error, no panic) and
    `Verify(leaf_i, Root(), path)` is true.  No hypothesis on `H`. -/
theorem inclusion_verifies [DecidableEq α] (H : α → α → α) (e : α) (leaves : List α) (i : Nat)
    (hi : i < leaves.length) :
    ∃ p, findSiblings leaves[i] (calcNodes H leaves) = .ok p ∧
      verify H leaves[i] (root H e leaves) p = true := by
  have hne : 0 < leaves.length := by omega
  have B := calcNodes_built H leaves hne
  have hmem : leaves[i] ∈ calcNodes H leaves := by
    have := B.leaf i hi
    rw [List.getElem?_eq_getElem hi] at this
    exact List.mem_of_getElem? this
  have hidx := indexOf_mem _ _ hmem
  have hget := indexOf_get _ _ hidx
  obtain ⟨p, hp, hv⟩ := every_entry_verifies H e leaves _ _ hget
  refine ⟨p, ?_, hv⟩
  unfold findSiblings
  simp only [hidx, if_false, hp]

/-- **inclusion_binds** (position given by the shape of the path).  HYPOTHESIS: `H` is injective as a
    function of the pair.  If `Verify(t, Root(), sib)` holds for a `sib` with the same sequence of
    sides (Left/Right/Root markers) as the genuine path of array entry `j`, then `t` IS entry `j`.
    No domain-separation hypothesis is needed here, because the shape fixes the depth. -/
theorem inclusion_binds_entry [DecidableEq α] (H : α → α → α) (e : α)
    (hinj : ∀ a b c d, H a b = H c d → a = c ∧ b = d)
    (leaves : List α) (j : Nat) (p sib : List (MNode α)) (t : α)
    (hj : j < (calcNodes H leaves).length)
    (hp : pathFrom (calcNodes H leaves) j = some p)
    (hshape : sib.map (·.side) = p.map (·.side))
    (hv : verify H t (root H e leaves) sib = true) :
    (calcNodes H leaves)[j]? = some t := by
  have hne : 0 < leaves.length := by
    rcases Nat.eq_zero_or_pos leaves.length with h | h
    · have : leaves = [] := List.eq_nil_of_length_eq_zero h
      subst this; rw [calcNodes_nil] at hj; simp at hj
    · exact h
  have B := calcNodes_built H leaves hne
  have hlen := B.len
  unfold pathFrom at hp
  have : ((calcNodes H leaves).length + 1) / 2 = leaves.length := by omega
  rw [this] at hp
  have hc : computedRoot H t sib = root H e leaves := by simpa [verify] using hv
  exact findPath_binds B _ (root_eq_last H e leaves hne) hinj _ j p hj hp sib t hshape hc

/-- **inclusion_binds**: under injectivity of `H`, a proof accepted for position `i` (i.e. shaped like
    the path `FindSiblingNodes` returns for `leaf_i`) with value `t` implies `t = leaf_i`. -/
theorem inclusion_binds [DecidableEq α] (H : α → α → α) (e : α)
    (hinj : ∀ a b c d, H a b = H c d → a = c ∧ b = d)
    (leaves : List α) (i : Nat) (hi : i < leaves.length) (p sib : List (MNode α)) (t : α)
    (hp : findSiblings leaves[i] (calcNodes H leaves) = .ok p)
    (hshape : sib.map (·.side) = p.map (·.side))
    (hv : verify H t (root H e leaves) sib = true) :
    t = leaves[i] := by
  unfold findSiblings at hp
  by_cases hidx : indexOf leaves[i] (calcNodes H leaves) = (calcNodes H leaves).length
  · simp [hidx] at hp
  · simp only [hidx, if_false] at hp
    cases hpf : pathFrom (calcNodes H leaves) (indexOf leaves[i] (calcNodes H leaves)) with
    | none => rw [hpf] at hp; cases hp
    | some p' =>
      rw [hpf] at hp
      have : p' = p := by injection hp
      subst this
      have hlt : indexOf leaves[i] (calcNodes H leaves) < (calcNodes H leaves).length := by
        have := indexOf_le leaves[i] (calcNodes H leaves); omega
      have h1 := inclusion_binds_entry H e hinj leaves _ p' sib t hlt hpf hshape hv
      have h2 := indexOf_get _ _ hidx
      rw [h1] at h2
      exact Option.some.inj h2

/-- **inclusion_binds_no_position**: `Verify` takes no position and accepts paths of any length, so
    without the shape one needs DOMAIN SEPARATION as a second hypothesis: no leaf value is of the form
    `H a b` (`hsep`), and neither is the claimed value `t` (`ht`).  Then whatever `Verify` accepts
    against the root is one of the leaves.  (Dropping `ht` only gives "`t` is an entry of the array",
    lemma `accepted_is_entry`; dropping `hsep` allows walking below a leaf.) -/
theorem inclusion_binds_no_position [DecidableEq α] (H : α → α → α) (e : α)
    (hinj : ∀ a b c d, H a b = H c d → a = c ∧ b = d)
    (leaves : List α) (hne : 0 < leaves.length)
    (hsep : ∀ l, l ∈ leaves → ∀ a b, H a b ≠ l)
    (sib : List (MNode α)) (t : α) (ht : ∀ a b, H a b ≠ t)
    (hv : verify H t (root H e leaves) sib = true) :
    t ∈ leaves := by
  have B := calcNodes_built H leaves hne
  have hc : computedRoot H t sib = root H e leaves := by simpa [verify] using hv
  obtain ⟨j, hj⟩ := accepted_is_entry B hinj hsep sib t ⟨_, by rw [hc]; exact root_eq_last H e leaves hne⟩
  have hlen := B.len
  have hjl : j < (calcNodes H leaves).length := by
    rcases Nat.lt_or_ge j (calcNodes H leaves).length with h | h
    · exact h
    · rw [List.getElem?_eq_none h] at hj; cases hj
  by_cases hleaf : j < leaves.length
  · have := B.leaf j hleaf
    rw [hj] at this
    exact List.mem_of_getElem? this.symm
  · exfalso
    obtain ⟨a, b, _, _, hab⟩ := B.inner (j - leaves.length) (by omega)
    have e' : leaves.length + (j - leaves.length) = j := by omega
    rw [e', hj] at hab
    exact ht a b (Option.some.inj hab).symm

/-- **root_binds_leaves**: under injectivity of `H`, two leaf lists of the same length with the same
    root are equal — changing any leaf, or the order of two different leaves, changes the root. -/
theorem root_binds_leaves (H : α → α → α) (e : α)
    (hinj : ∀ a b c d, H a b = H c d → a = c ∧ b = d)
    (l l' : List α) (hn : l.length = l'.length) (hr : root H e l = root H e l') : l = l' := by
  rcases Nat.eq_zero_or_pos l.length with h0 | hne
  · have h1 : l = [] := List.eq_nil_of_length_eq_zero h0
    have h2 : l' = [] := List.eq_nil_of_length_eq_zero (by omega)
    rw [h1, h2]
  · have hne' : 0 < l'.length := by omega
    have B := calcNodes_built H l hne
    have B' := calcNodes_built H l' hne'
    have hlen := B.len
    have hlen' := B'.len
    have hroot : (calcNodes H l)[(calcNodes H l).length - 1]? = (calcNodes H l')[(calcNodes H l).length - 1]? := by
      rw [root_eq_last H e l hne]
      have : (calcNodes H l).length = (calcNodes H l').length := by omega
      rw [this, root_eq_last H e l' hne', hr]
    apply List.ext_getElem?
    intro i
    by_cases hi : i < l.length
    · rw [← B.leaf i hi, ← B'.leaf i (by omega)]
      exact built_ext B B' hn hinj hroot _ i (Nat.le_refl _)
    · rw [List.getElem?_eq_none (by omega), List.getElem?_eq_none (by omega)]

/-! #### the model's queue construction is NOT the textbook level-by-level tree (refutation by witness) -/

/-- three leaves: the odd tail `c` is paired with the first node of the next level, root = `H c (H a b)` -/
example : root HTerm.node (.leaf 99) [.leaf 0, .leaf 1, .leaf 2]
    = .node (.leaf 2) (.node (.leaf 0) (.leaf 1)) := by decide

/-- an interior node is accepted by `Verify` with a (shorter) path: no leaf/interior domain separation. -/
example : verify HTerm.node (.node (.leaf 0) (.leaf 1)) (root HTerm.node (.leaf 99) [.leaf 0, .leaf 1, .leaf 2])
    [⟨.leaf 2, .left⟩] = true := by decide

/-! #### non-vacuity: the hypotheses of `inclusion_binds*` are satisfiable (free term algebra) -/

example : ∀ a b c d : HTerm, HTerm.node a b = HTerm.node c d → a = c ∧ b = d := by
  intro a b c d h; injection h with h1 h2; exact ⟨h1, h2⟩
example : ∀ l, l ∈ [HTerm.leaf 0, .leaf 1, .leaf 2] → ∀ a b, HTerm.node a b ≠ l := by
  intro l hl a b h; subst h; simp at hl
example : findSiblings (HTerm.leaf 2) (calcNodes HTerm.node [.leaf 0, .leaf 1, .leaf 2, .leaf 3, .leaf 4])
    = .ok [⟨.leaf 3, .right⟩, ⟨.node (.leaf 4) (.node (.leaf 0) (.leaf 1)), .right⟩,
           ⟨.node (.node (.leaf 2) (.leaf 3)) (.node (.leaf 4) (.node (.leaf 0) (.leaf 1))), .root⟩] := by decide

/-- remark (outside the property as worded — it needs a leaf that is itself a hash of two nodes): with
    the length not committed, `[a,b,c]` and `[c, H a b]` have the same root. `root_binds_leaves` fixes
    the length; `hsep` of `inclusion_binds_no_position` is the domain separation that excludes this. -/
example : root HTerm.node (.leaf 99) [.leaf 0, .leaf 1, .leaf 2]
    = root HTerm.node (.leaf 99) [.leaf 2, .node (.leaf 0) (.leaf 1)] := by decide

end merkle

/-!
  ## Part B — the Merkle-Patricia trie of /repo/store/trie/trie.go

  Model `LemoModel.Mpt`: `insert` / `delete` / `tryGet` case by case on the resolved node structure,
  hex keys as produced by `keybytesToHex` (`TermKey`: nibbles then the terminator 16 — any length,
  in particular the 64+1 nibbles of `SecureTrie`).  Hash nodes, cache generations, `Commit` and the
  hasher are NOT in the model: in the model they are the identity on the structure, and that claim
  is what the correspondence run (`tcommit`, `treopen`, small cache limits, real BeansDB) checks.

  Quantifiers: all finite sequences of `TryUpdate` / `TryDelete` (empty value = delete), all
  terminated keys (shared prefixes, one key a byte-prefix of another), all values.
-/
section mpt
open LemoModel LemoModel.Mpt LemoProofs.MptLemmas

/-- **get_refines_map**: starting from the empty trie, any sequence of updates/deletes on terminated
    keys runs without panic, and afterwards `TryGet` returns, for every key, the last value written
    (`absent` if never written, deleted, or last written with an empty value): the trie refines the
    finite map `spec`. -/
theorem get_refines_map (ops : List Op) (hk : ∀ op, op ∈ ops → TermKey op.key) :
    ∃ t, run .empty ops = some t ∧
      ∀ k, TermKey k → Mpt.get t k = toRes (spec (fun _ => none) ops k) := by
  obtain ⟨t, h1, _, h3⟩ := run_spec ops .empty (fun _ => none) .empty
    (fun k _ => by simp [Mpt.get, toRes]) hk
  exact ⟨t, h1, h3⟩

/-- single steps, from any canonical trie: `Get` after `Update` / `Delete` -/
theorem get_after_insert (t : Node) (k k' : List Nib) (v : Val) (hC : Canon t) (hk : TermKey k)
    (hk' : TermKey k') (hv : v ≠ []) :
    ∃ t', Mpt.update t k v = some t' ∧ Canon t' ∧
      Mpt.get t' k' = if k' = k then .found v else Mpt.get t k' := by
  obtain ⟨d, n', hd, hCn, _, _, _, hget⟩ := insert_spec t k v hC hk hv
  cases v with
  | nil => exact absurd rfl hv
  | cons y ys => exact ⟨n', by simp [Mpt.update, hd], hCn, hget k' hk'⟩

theorem get_after_delete (t : Node) (k k' : List Nib) (hC : Canon t) (hk : TermKey k) (hk' : TermKey k') :
    ∃ t', Mpt.remove t k = some t' ∧ Canon t' ∧
      Mpt.get t' k' = if k' = k then .absent else Mpt.get t k' := by
  obtain ⟨d, n', hd, hCn, _, _, hget⟩ := delete_spec t k hC hk
  exact ⟨n', by simp [Mpt.remove, hd], hCn, hget k' hk'⟩

/-- **canonical_invariant**: every reachable trie has the canonical shape `Canon` (leaf / extension
    before a branch / branch with ≥ 2 children; no short-short chains, no empty values). -/
theorem canonical_invariant (ops : List Op) (hk : ∀ op, op ∈ ops → TermKey op.key) :
    ∃ t, run .empty ops = some t ∧ Canon t := by
  obtain ⟨t, h1, h2, _⟩ := run_spec ops .empty (fun _ => none) .empty
    (fun k _ => by simp [Mpt.get, toRes]) hk
  exact ⟨t, h1, h2⟩

/-- **canonical_unique**: a canonical trie is determined by its content. -/
theorem canonical_unique (a b : Node) (ha : Canon a) (hb : Canon b)
    (h : ∀ k, TermKey k → Mpt.get a k = Mpt.get b k) : a = b :=
  canon_ext a b ha hb h

/-- **canonical_shape** (full statement, not the `_partial` fallback): the trie after ANY history of
    inserts and deletes is a function of the resulting key/value content alone — two histories with
    the same final content end in the very same tree, whatever the order, the overwritten values and
    the keys inserted and deleted again on the way. -/
theorem canonical_shape (ops1 ops2 : List Op)
    (hk1 : ∀ op, op ∈ ops1 → TermKey op.key) (hk2 : ∀ op, op ∈ ops2 → TermKey op.key)
    (hsame : ∀ k, TermKey k → spec (fun _ => none) ops1 k = spec (fun _ => none) ops2 k) :
    ∃ t, run .empty ops1 = some t ∧ run .empty ops2 = some t := by
  obtain ⟨t1, h1, hC1, hg1⟩ := run_spec ops1 .empty (fun _ => none) .empty
    (fun k _ => by simp [Mpt.get, toRes]) hk1
  obtain ⟨t2, h2, hC2, hg2⟩ := run_spec ops2 .empty (fun _ => none) .empty
    (fun k _ => by simp [Mpt.get, toRes]) hk2
  have : t1 = t2 := canon_ext t1 t2 hC1 hC2 (fun k hk => by rw [hg1 k hk, hg2 k hk, hsame k hk])
  subst this
  exact ⟨t1, h1, h2⟩

/-- **root_order_independent**: whatever function of the resolved structure the hasher computes
    (`rootHash`; in Go: RLP + Keccak with nodes < 32 bytes embedded), equal content gives equal roots. -/
theorem root_order_independent {β : Type} (rootHash : Node → β) (ops1 ops2 : List Op)
    (hk1 : ∀ op, op ∈ ops1 → TermKey op.key) (hk2 : ∀ op, op ∈ ops2 → TermKey op.key)
    (hsame : ∀ k, TermKey k → spec (fun _ => none) ops1 k = spec (fun _ => none) ops2 k) :
    (run .empty ops1).map rootHash = (run .empty ops2).map rootHash := by
  obtain ⟨t, h1, h2⟩ := canonical_shape ops1 ops2 hk1 hk2 hsame
  rw [h1, h2]

/-- the keys the API can produce are terminated, and distinct byte keys stay distinct -/
theorem hexKey_terminated (bs : List Nat) : TermKey (hexKey bs) := hexKey_term bs

theorem hexKey_injective (a b : List Nat) (ha : ∀ x, x ∈ a → x < 256) (hb : ∀ x, x ∈ b → x < 256)
    (h : hexKey a = hexKey b) : a = b := hexKey_inj a b ha hb h

/-! #### non-vacuity and the panic branches (unreachable through `keybytesToHex`) -/

/-- two orders, one with an overwritten value and a key inserted and removed again: same walk -/
example :
    (run .empty [.put (hexKey [0x12]) [1], .put (hexKey [0x13]) [2], .put (hexKey [0x12, 0x34]) [3]]).map (walk · []) =
    (run .empty [.put (hexKey [0x12, 0x34]) [9], .put (hexKey [0x77]) [7], .put (hexKey [0x13]) [2],
                 .put (hexKey [0x12, 0x34]) [3], .del (hexKey [0x77]), .put (hexKey [0x12]) [1]]).map (walk · []) := by
  decide

example : TermKey (hexKey [0x12, 0x34]) := hexKey_term _

/-- model panics exist only for keys `keybytesToHex` cannot produce: a key that ends inside a full
    node (`key[pos]` out of range) and a key that is a proper prefix of a short node's key. -/
example : Mpt.get (.full fun _ => .empty) [] = .panic := rfl
example : Mpt.insert (.short [1, 2, 16] (.value [1])) [1] [2] = none := by decide
example : Mpt.delete (.full fun _ => .empty) [] = none := rfl

end mpt

end LemoProofs.C17

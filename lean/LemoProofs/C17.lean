/-
  C17 — State commitments bind content: trie / Merkle roots depend only on what is stored.

  Part A (this section): the Merkle tree of /repo/common/merkle/merkle_tree.go, model
  `LemoModel.Merkle` (flat array built by a queue, `FindSiblingNodes`, `Verify`), for an ABSTRACT
  hash combiner `H` — no property of Keccak is used except where stated as a hypothesis.

  Quantifiers: all leaf lists of every length, every position, every hash type, every `H`.
-/
import LemoModel.Merkle
import LemoProofs.Lemmas.Merkle
namespace LemoProofs.C17
open LemoModel.Merkle LemoProofs.MerkleLemmas

section merkle
variable {α : Type}

/-- last entry of the node array of a non-empty leaf list is the root -/
theorem root_eq_last (H : α → α → α) (e : α) (leaves : List α) (hne : 0 < leaves.length) :
    (calcNodes H leaves)[(calcNodes H leaves).length - 1]? = some (root H e leaves) := by
  have B := calcNodes_built H leaves hne
  have hlen := B.len
  unfold root
  rw [List.getLast?_eq_getElem?]
  cases h : (calcNodes H leaves)[(calcNodes H leaves).length - 1]? with
  | some r => rfl
  | none =>
    have := (List.getElem?_eq_none_iff.mp h)
    omega

/-- **root_is_function_of_leaves**: the root is a function of the ordered leaf list (and `H`) alone:
    `Root()` reads nothing else (the model has no other input).  Empty list ↦ `EmptyTrieHash`. -/
theorem root_is_function_of_leaves (H : α → α → α) (e : α) (l l' : List α) (h : l = l') :
    root H e l = root H e l' := by rw [h]

theorem root_empty (H : α → α → α) (e : α) : root H e [] = e := by
  simp [root, calcNodes_nil]

/-- shape of the flat array: `n` leaves, then `n-1` interior nodes, node `n+k` = `H(node 2k, node 2k+1)` -/
theorem nodes_shape (H : α → α → α) (leaves : List α) (hne : 0 < leaves.length) :
    (calcNodes H leaves).length = 2 * leaves.length - 1 ∧
    (∀ i, i < leaves.length → (calcNodes H leaves)[i]? = leaves[i]?) ∧
    (∀ k, k + 1 < leaves.length → ∃ a b, (calcNodes H leaves)[2 * k]? = some a ∧
        (calcNodes H leaves)[2 * k + 1]? = some b ∧
        (calcNodes H leaves)[leaves.length + k]? = some (H a b)) := by
  have B := calcNodes_built H leaves hne
  exact ⟨by have := B.len; omega, B.leaf, fun k hk => B.inner k (by omega)⟩

/-- every entry `j` of the array (leaf or interior) has a sibling path and `Verify` accepts it.
    For `j ≥ n` this is the "interior node passes as a leaf with a shorter path" remark of the
    design: `Verify` has no domain separation between leaves and interior nodes. -/
theorem every_entry_verifies [DecidableEq α] (H : α → α → α) (e : α) (leaves : List α) (j : Nat) (x : α)
    (hx : (calcNodes H leaves)[j]? = some x) :
    ∃ p, pathFrom (calcNodes H leaves) j = some p ∧ verify H x (root H e leaves) p = true := by
  have hjl : j < (calcNodes H leaves).length := by
    rcases Nat.lt_or_ge j (calcNodes H leaves).length with h | h
    · exact h
    · rw [List.getElem?_eq_none h] at hx; cases hx
  have hne : 0 < leaves.length := by
    rcases Nat.eq_zero_or_pos leaves.length with h | h
    · have : leaves = [] := List.eq_nil_of_length_eq_zero h
      subst this; rw [calcNodes_nil] at hjl; simp at hjl
    · exact h
  have B := calcNodes_built H leaves hne
  have hlen := B.len
  obtain ⟨p, hp, hc⟩ := findPath_computes B (root H e leaves) (root_eq_last H e leaves hne)
    (calcNodes H leaves).length j x hx (by omega)
  refine ⟨p, ?_, ?_⟩
  · unfold pathFrom
    have : ((calcNodes H leaves).length + 1) / 2 = leaves.length := by omega
    rw [this]; exact hp
  · simp [verify, hc]

/-- **inclusion_verifies**: for every leaf list, of every length, and every position `i`,
    `FindSiblingNodes(leaf_i, HashNodes())` succeeds (no error, no panic) and
    `Verify(leaf_i, Root(), path)` is true.  No hypothesis on `H`. -/
theorem inclusion_verifies [DecidableEq α] (H : α → α → α) (e : α) (leaves : List α) (i : Nat)
    (hi : i < leaves.length) :
    ∃ p, findSiblings leaves[i] (calcNodes H leaves) = .ok p ∧
      verify H leaves[i] (root H e leaves) p = true := by
  have hne : 0 < leaves.length := by omega
  have B := calcNodes_built H leaves hne
  have hmem : leaves[i] ∈ calcNodes H leaves := by
    have := B.leaf i hi
    rw [List.getElem?_eq_getElem hi] at this
    exact List.mem_of_getElem? this
  have hidx := indexOf_mem _ _ hmem
  have hget := indexOf_get _ _ hidx
  obtain ⟨p, hp, hv⟩ := every_entry_verifies H e leaves _ _ hget
  refine ⟨p, ?_, hv⟩
  unfold findSiblings
  simp only [hidx, if_false, hp]

/-- **inclusion_binds** (position given by the shape of the path).  HYPOTHESIS: `H` is injective as a
    function of the pair.  If `Verify(t, Root(), sib)` holds for a `sib` with the same sequence of
    sides (Left/Right/Root markers) as the genuine path of array entry `j`, then `t` IS entry `j`.
    No domain-separation hypothesis is needed here, because the shape fixes the depth. -/
theorem inclusion_binds_entry [DecidableEq α] (H : α → α → α) (e : α)
    (hinj : ∀ a b c d, H a b = H c d → a = c ∧ b = d)
    (leaves : List α) (j : Nat) (p sib : List (MNode α)) (t : α)
    (hj : j < (calcNodes H leaves).length)
    (hp : pathFrom (calcNodes H leaves) j = some p)
    (hshape : sib.map (·.side) = p.map (·.side))
    (hv : verify H t (root H e leaves) sib = true) :
    (calcNodes H leaves)[j]? = some t := by
  have hne : 0 < leaves.length := by
    rcases Nat.eq_zero_or_pos leaves.length with h | h
    · have : leaves = [] := List.eq_nil_of_length_eq_zero h
      subst this; rw [calcNodes_nil] at hj; simp at hj
    · exact h
  have B := calcNodes_built H leaves hne
  have hlen := B.len
  unfold pathFrom at hp
  have : ((calcNodes H leaves).length + 1) / 2 = leaves.length := by omega
  rw [this] at hp
  have hc : computedRoot H t sib = root H e leaves := by simpa [verify] using hv
  exact findPath_binds B _ (root_eq_last H e leaves hne) hinj _ j p hj hp sib t hshape hc

/-- **inclusion_binds**: under injectivity of `H`, a proof accepted for position `i` (i.e. shaped like
    the path `FindSiblingNodes` returns for `leaf_i`) with value `t` implies `t = leaf_i`. -/
theorem inclusion_binds [DecidableEq α] (H : α → α → α) (e : α)
    (hinj : ∀ a b c d, H a b = H c d → a = c ∧ b = d)
    (leaves : List α) (i : Nat) (hi : i < leaves.length) (p sib : List (MNode α)) (t : α)
    (hp : findSiblings leaves[i] (calcNodes H leaves) = .ok p)
    (hshape : sib.map (·.side) = p.map (·.side))
    (hv : verify H t (root H e leaves) sib = true) :
    t = leaves[i] := by
  unfold findSiblings at hp
  by_cases hidx : indexOf leaves[i] (calcNodes H leaves) = (calcNodes H leaves).length
  · simp [hidx] at hp
  · simp only [hidx, if_false] at hp
    cases hpf : pathFrom (calcNodes H leaves) (indexOf leaves[i] (calcNodes H leaves)) with
    | none => rw [hpf] at hp; cases hp
    | some p' =>
      rw [hpf] at hp
      have : p' = p := by injection hp
      subst this
      have hlt : indexOf leaves[i] (calcNodes H leaves) < (calcNodes H leaves).length := by
        have := indexOf_le leaves[i] (calcNodes H leaves); omega
      have h1 := inclusion_binds_entry H e hinj leaves _ p' sib t hlt hpf hshape hv
      have h2 := indexOf_get _ _ hidx
      rw [h1] at h2
      exact Option.some.inj h2

/-- **inclusion_binds_no_position**: `Verify` takes no position and accepts paths of any length, so
    without the shape one needs DOMAIN SEPARATION as a second hypothesis: no leaf value is of the form
    `H a b` (`hsep`), and neither is the claimed value `t` (`ht`).  Then whatever `Verify` accepts
    against the root is one of the leaves.  (Dropping `ht` only gives "`t` is an entry of the array",
    lemma `accepted_is_entry`; dropping `hsep` allows walking below a leaf.) -/
theorem inclusion_binds_no_position [DecidableEq α] (H : α → α → α) (e : α)
    (hinj : ∀ a b c d, H a b = H c d → a = c ∧ b = d)
    (leaves : List α) (hne : 0 < leaves.length)
    (hsep : ∀ l, l ∈ leaves → ∀ a b, H a b ≠ l)
    (sib : List (MNode α)) (t : α) (ht : ∀ a b, H a b ≠ t)
    (hv : verify H t (root H e leaves) sib = true) :
    t ∈ leaves := by
  have B := calcNodes_built H leaves hne
  have hc : computedRoot H t sib = root H e leaves := by simpa [verify] using hv
  obtain ⟨j, hj⟩ := accepted_is_entry B hinj hsep sib t ⟨_, by rw [hc]; exact root_eq_last H e leaves hne⟩
  have hlen := B.len
  have hjl : j < (calcNodes H leaves).length := by
    rcases Nat.lt_or_ge j (calcNodes H leaves).length with h | h
    · exact h
    · rw [List.getElem?_eq_none h] at hj; cases hj
  by_cases hleaf : j < leaves.length
  · have := B.leaf j hleaf
    rw [hj] at this
    exact List.mem_of_getElem? this.symm
  · exfalso
    obtain ⟨a, b, _, _, hab⟩ := B.inner (j - leaves.length) (by omega)
    have e' : leaves.length + (j - leaves.length) = j := by omega
    rw [e', hj] at hab
    exact ht a b (Option.some.inj hab).symm

/-- **root_binds_leaves**: under injectivity of `H`, two leaf lists of the same length with the same
    root are equal — changing any leaf, or the order of two different leaves, changes the root. -/
theorem root_binds_leaves (H : α → α → α) (e : α)
    (hinj : ∀ a b c d, H a b = H c d → a = c ∧ b = d)
    (l l' : List α) (hn : l.length = l'.length) (hr : root H e l = root H e l') : l = l' := by
  rcases Nat.eq_zero_or_pos l.length with h0 | hne
  · have h1 : l = [] := List.eq_nil_of_length_eq_zero h0
    have h2 : l' = [] := List.eq_nil_of_length_eq_zero (by omega)
    rw [h1, h2]
  · have hne' : 0 < l'.length := by omega
    have B := calcNodes_built H l hne
    have B' := calcNodes_built H l' hne'
    have hlen := B.len
    have hlen' := B'.len
    have hroot : (calcNodes H l)[(calcNodes H l).length - 1]? = (calcNodes H l')[(calcNodes H l).length - 1]? := by
      rw [root_eq_last H e l hne]
      have : (calcNodes H l).length = (calcNodes H l').length := by omega
      rw [this, root_eq_last H e l' hne', hr]
    apply List.ext_getElem?
    intro i
    by_cases hi : i < l.length
    · rw [← B.leaf i hi, ← B'.leaf i (by omega)]
      exact built_ext B B' hn hinj hroot _ i (Nat.le_refl _)
    · rw [List.getElem?_eq_none (by omega), List.getElem?_eq_none (by omega)]

/-! #### the model's queue construction is NOT the textbook level-by-level tree (refutation by witness) -/

/-- three leaves: the odd tail `c` is paired with the first node of the next level, root = `H c (H a b)` -/
example : root HTerm.node (.leaf 99) [.leaf 0, .leaf 1, .leaf 2]
    = .node (.leaf 2) (.node (.leaf 0) (.leaf 1)) := by decide

/-- an interior node is accepted by `Verify` with a (shorter) path: no leaf/interior domain separation. -/
example : verify HTerm.node (.node (.leaf 0) (.leaf 1)) (root HTerm.node (.leaf 99) [.leaf 0, .leaf 1, .leaf 2])
    [⟨.leaf 2, .left⟩] = true := by decide

/-! #### non-vacuity: the hypotheses of `inclusion_binds*` are satisfiable (free term algebra) -/

example : ∀ a b c d : HTerm, HTerm.node a b = HTerm.node c d → a = c ∧ b = d := by
  intro a b c d h; injection h with h1 h2; exact ⟨h1, h2⟩
example : ∀ l, l ∈ [HTerm.leaf 0, .leaf 1, .leaf 2] → ∀ a b, HTerm.node a b ≠ l := by
  intro l hl a b h; subst h; simp at hl
example : findSiblings (HTerm.leaf 2) (calcNodes HTerm.node [.leaf 0, .leaf 1, .leaf 2, .leaf 3, .leaf 4])
    = .ok [⟨.leaf 3, .right⟩, ⟨.node (.leaf 4) (.node (.leaf 0) (.leaf 1)), .right⟩,
           ⟨.node (.node (.leaf 2) (.leaf 3)) (.node (.leaf 4) (.node (.leaf 0) (.leaf 1))), .root⟩] := by decide

end merkle

end LemoProofs.C17

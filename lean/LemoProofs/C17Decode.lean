/-
  C17 (part D) — the node codec at the BYTE level: `decodeNode` / `decodeShort` / `decodeFull` / `decodeRef` /
  `mustDecodeNode` of /repo/store/trie/node.go as total functions of the blob's bytes
  (`LemoModel.MptDecode`, on C14's model of raw.go), tied to the real decoder by the `d…` stream of `hx c17`.

  * `decodeNode_encodeNode`        decodeNode(rlp(c)) = c for every node the hasher can store (`Storable`),
                                   all shapes and sizes, embedded children included; `hasher_blob_storable`:
                                   the blobs of canonical tries ARE storable (real embedding test, 32-byte hashes).
  * `decodeNode_never_panics`, `decodeNode_total`, `decodeNode_depth_unreachable`, `mustDecodeNode_outcomes`,
    `mustDecodeNode_panics_iff_err`  CURRENT code (since /repo 93439c0): for ALL byte strings the outcome is a node
                                   or an error with its decode path; mustDecodeNode panics iff decodeNode errs.
    LEGACY code (`decodeNodeLegacy`, before 93439c0; labelled facts): the run-time panic of `compactToHex` on an
                                   EMPTY key string — `decodeNode_panic_witness` (`c2 80 80`),
                                   `decodeNode_panics_on_empty_key`, `decodeNode_panic_origin`.
  * `decodeNode_returns_normal`    whatever is returned is a normal node (`NormM false`), keys hex keys, hash
                                   references 32 bytes: the `NormReader` hypothesis of `proof_binds_value` is a
                                   theorem about the real decoder.
  * refutations                    the decoder is NOT injective on arbitrary bytes: `decodeNode_not_injective`,
                                   `decodeNode_lax_trailing_bytes`, `decodeNode_lax_compact_flag`,
                                   `decodeNode_lax_compact_padding`; `decodeNode_lax_embedded_32`.
  * `reopen_by_root_bytes`, `flush_reopen_fresh_bytes`, `resolveHashB_eq_view`, `view_encStore`
                                   re-opening over the bytes the hasher wrote, no decoder assumption left.
  * `proof_binds_value_bytes`      VerifyProof with the real decoder, ANY reader of bytes, Keccak collision-free
                                   on byte strings: nothing but the genuine value / genuine absence.
-/
import LemoModel.MptDecode
import LemoProofs.Lemmas.MptDecode
import LemoProofs.C17Store
namespace LemoProofs.C17
open LemoModel LemoModel.Mpt LemoModel.MptStore LemoModel.MptDecode
open LemoProofs.MptLemmas LemoProofs.MptStoreLemmas LemoProofs.MptDbLemmas LemoProofs.MptCodecLemmas
open LemoProofs.MptDecodeLemmas

/-! ### decode ∘ encode, totality, what the decoder returns -/

/-- **decodeNode_encodeNode**: for every node `c` the hasher can store (`Storable`: normal node body, hex
    keys, bytes, 32-byte hash references, embedded children of at most 32 bytes, blob < 2^64 bytes), the REAL
    decoder applied to the bytes `hasher.store` writes gives back exactly `c` — all shapes and sizes, by
    induction over the node, embedded children (and embedded children of embedded children) included. -/
theorem decodeNode_encodeNode (c : CNode) (h : Storable c) : decodeNode (nodeRlp c) = .ok c :=
  decodeNode_enc c h

/-- the depth counter of the model is never exhausted: `.depth` is not an outcome -/
theorem decodeNode_depth_unreachable (buf : List UInt8) : decodeNode buf ≠ .depth :=
  (decodeNodeF_good false (buf.length + 1) buf (by omega)).1

/-- **decodeNode_returns_normal**: whatever blob comes in, a node that comes out is a normal node body
    (`NormM false`: references are nil / hash / embedded normal node, a value sits exactly below a terminated
    key or in slot 16 and is non-empty there), its keys are hex keys, its hash references 32 bytes -/
theorem decodeNode_returns_normal (buf : List UInt8) (c : CNode) (h : decodeNode buf = .ok c) :
    NormM false c ∧ BytesOk c ∧ Hash32 c :=
  (decodeNodeF_good false (buf.length + 1) buf (by omega)).2 c h

/-- **decodeNode_never_panics** (current code, since /repo 93439c0): for ALL byte strings — malformed,
    adversarial, any nesting — `decodeNode` returns; there is no run-time panic path.  (The code before the fix
    had one: `decodeNode_panic_witness` below.) -/
theorem decodeNode_never_panics (buf : List UInt8) : decodeNode buf ≠ .panic :=
  decodeNodeF_no_panic _ buf

/-- **decodeNode_total**: every input ends in a (normal) node or an error — nothing else -/
theorem decodeNode_total (buf : List UInt8) :
    (∃ c, decodeNode buf = .ok c ∧ NormM false c) ∨ (∃ e, decodeNode buf = .err e) := by
  cases h : decodeNode buf with
  | ok c => exact Or.inl ⟨c, rfl, (decodeNode_returns_normal buf c h).1⟩
  | err e => exact Or.inr ⟨e, rfl⟩
  | panic => exact absurd h (decodeNode_never_panics buf)
  | depth => exact absurd h (decodeNode_depth_unreachable buf)

/-- **mustDecodeNode_outcomes**: `mustDecodeNode` returns the node decodeNode returns, or panics with
    decodeNode's error (`panic(fmt.Sprintf("node %x: %v", …))`) — nothing else; in particular no index panic -/
theorem mustDecodeNode_outcomes (buf : List UInt8) :
    (∃ c, decodeNode buf = .ok c ∧ mustDecodeNode buf = .ok c) ∨
    (∃ e, decodeNode buf = .err e ∧ mustDecodeNode buf = .panicErr e) := by
  unfold mustDecodeNode
  cases h : decodeNode buf with
  | ok c => exact Or.inl ⟨c, rfl, rfl⟩
  | err e => exact Or.inr ⟨e, rfl, rfl⟩
  | panic => exact absurd h (decodeNode_never_panics buf)
  | depth => exact absurd h (decodeNode_depth_unreachable buf)

/-- **mustDecodeNode_panics_iff_err**: `mustDecodeNode` panics if and only if `decodeNode` returns an error
    (and then with exactly that error) -/
theorem mustDecodeNode_panics_iff_err (buf : List UInt8) (e : DecErr) :
    mustDecodeNode buf = .panicErr e ↔ decodeNode buf = .err e := by
  unfold mustDecodeNode
  cases h : decodeNode buf with
  | ok c => simp [mustOf]
  | err e' => simp [mustOf]
  | panic => exact absurd h (decodeNode_never_panics buf)
  | depth => exact absurd h (decodeNode_depth_unreachable buf)

/-- no panic path of `mustDecodeNode` is reachable from a blob the hasher wrote -/
theorem mustDecodeNode_stored (c : CNode) (h : Storable c) : mustDecodeNode (nodeRlp c) = .ok c := by
  unfold mustDecodeNode; rw [decodeNode_encodeNode c h]; rfl

theorem compactToHex_none_iff (c : List UInt8) : compactToHex c = none ↔ c = [] := by
  cases c with
  | nil => simp [compactToHex, unpackNibbles]
  | cons b r => simp [compactToHex, unpackNibbles]

/-- what a 2-element list with an empty first element does, for both variants of the code -/
theorem decodeShort_empty_key (pk : Bool) (x : Rlp.Item) (tail : List UInt8)
    (h : (Rlp.encode (.list [.bytes [], x])).length < 2 ^ 64) :
    decodeNodeF pk ((Rlp.encode (.list [.bytes [], x]) ++ tail).length + 1) (Rlp.encode (.list [.bytes [], x]) ++ tail) =
      if pk then .panic else .err ⟨.emptyKey, ["short"]⟩ := by
  have hpl : (Rlp.encodeList [.bytes [], x]).length < 2 ^ 64 := Nat.lt_of_le_of_lt (encode_list_ge _) h
  have hcnt : countOf (Rlp.encodeList [.bytes [], x]) = 2 := by
    unfold countOf; rw [rawCount_encodeList _ hpl]; rfl
  have hne : (Rlp.encode (.list [.bytes [], x]) ++ tail).isEmpty = false := by
    simp [encode_ne_nil]
  rw [decodeNodeF_succ]
  unfold decodeNodeW
  rw [hne]
  simp only [Bool.false_eq_true, if_false]
  rw [splitList_encode_list _ _ h]
  simp only [hcnt, if_true]
  unfold decodeShortW
  simp only [Rlp.encodeList]
  rw [splitString_encodeBytes [] _ (by
    have : (Rlp.encode (.bytes [])).length = 1 := by decide
    omega)]
  cases pk <;> simp [compactToHex, unpackNibbles]

/-- **decodeNode_rejects_empty_key** (current code): every list of two elements whose first element is the
    empty string is answered with the ERROR "empty compact key" at path `short`, whatever follows -/
theorem decodeNode_rejects_empty_key (x : Rlp.Item) (tail : List UInt8)
    (h : (Rlp.encode (.list [.bytes [], x])).length < 2 ^ 64) :
    decodeNode (Rlp.encode (.list [.bytes [], x]) ++ tail) = .err ⟨.emptyKey, ["short"]⟩ := by
  unfold decodeNode
  rw [decodeShort_empty_key false x tail h]; rfl

/-! #### the code BEFORE /repo 93439c0 (`decodeNodeLegacy`): labelled facts, not current-code theorems -/

/-- **decodeNode_panics_on_empty_key** (LEGACY code, the panic family): EVERY list of two elements whose first
    element is the empty string made decodeNode panic, whatever the second element and whatever followed -/
theorem decodeNode_panics_on_empty_key (x : Rlp.Item) (tail : List UInt8)
    (h : (Rlp.encode (.list [.bytes [], x])).length < 2 ^ 64) :
    decodeNodeLegacy (Rlp.encode (.list [.bytes [], x]) ++ tail) = .panic := by
  unfold decodeNodeLegacy
  rw [decodeShort_empty_key true x tail h]; rfl

/-- **decodeNode_panic_origin** (LEGACY code, which inputs reached the panic): if the old `decodeNode`
    panicked, then some buffer the decoder reached — the blob itself or a nested embedded node, never longer
    than the blob — was a list of two elements whose FIRST ELEMENT IS THE EMPTY STRING (`compactToHex` of an
    empty key).  With `decodeNode_panics_on_empty_key` this pins the old panic to that one shape, which is
    exactly what the guard of 93439c0 turns into an error (`decodeNode_rejects_empty_key`). -/
theorem decodeNode_panic_origin (buf : List UInt8) (h : decodeNodeLegacy buf = .panic) :
    ∃ b, b.length ≤ buf.length ∧ EmptyKeyAt b :=
  decodeNodeF_panic _ buf h

/-! ### the decoder is LAX: refutations of injectivity on arbitrary bytes (concrete witnesses, all
    reproduced on the real decoder by the `d…` stream of `hx c17`) -/

/-- comparable image of a decoder result (`serH` is injective: `serH_injective`) -/
def outSer : DRes CNode → Option (List Nat)
  | .ok c => some (serH c)
  | _ => none

def isPanic {α : Type} : DRes α → Bool
  | .panic => true
  | _ => false

/-- the leaf `key = [terminator]`, value `"a"`; its one stored encoding is `c2 20 61` -/
def laxLeaf : CNode := .short [16] (.value [0x61])

example : nodeRlp laxLeaf = [0xc2, 0x20, 0x61] := by decide +kernel

/-- **decodeNode_lax_trailing_bytes** (refutation): bytes after the list are ignored -/
theorem decodeNode_lax_trailing_bytes :
    outSer (decodeNode [0xc2, 0x20, 0x61]) = some (serH laxLeaf) ∧
    outSer (decodeNode [0xc2, 0x20, 0x61, 0x00, 0xff]) = some (serH laxLeaf) := by decide +kernel

/-- **decodeNode_lax_compact_flag** (refutation): flag nibbles 4…15 are read as 0…3 (`>= 2`, `& 1`) -/
theorem decodeNode_lax_compact_flag :
    outSer (decodeNode [0xc2, 0x40, 0x61]) = some (serH laxLeaf) ∧
    outSer (decodeNode [0xc3, 0x81, 0xe0, 0x61]) = some (serH laxLeaf) := by decide +kernel

/-- **decodeNode_lax_compact_padding** (refutation): the padding nibble of an even key is ignored -/
theorem decodeNode_lax_compact_padding :
    outSer (decodeNode [0xc2, 0x2f, 0x61]) = some (serH laxLeaf) := by decide +kernel

/-- **decodeNode_not_injective**: two different blobs, one node (general form of the three above) -/
theorem decodeNode_not_injective :
    ∃ b1 b2 c, b1 ≠ b2 ∧ decodeNode b1 = .ok c ∧ decodeNode b2 = .ok c := by
  refine ⟨[0xc2, 0x20, 0x61], [0xc2, 0x2f, 0x61], laxLeaf, by decide, ?_, ?_⟩
  · have h := decodeNode_lax_trailing_bytes.1
    cases hd : decodeNode [0xc2, 0x20, 0x61] with
    | ok c => rw [hd] at h; simp only [outSer, Option.some.injEq] at h; rw [serH_injective _ _ h]
    | err e => rw [hd] at h; cases h
    | panic => rw [hd] at h; cases h
    | depth => rw [hd] at h; cases h
  · have h := decodeNode_lax_compact_padding
    cases hd : decodeNode [0xc2, 0x2f, 0x61] with
    | ok c => rw [hd] at h; simp only [outSer, Option.some.injEq] at h; rw [serH_injective _ _ h]
    | err e => rw [hd] at h; cases h
    | panic => rw [hd] at h; cases h
    | depth => rw [hd] at h; cases h

/-- an embedded leaf whose encoding is EXACTLY 32 bytes, below an extension key -/
def emb32Child : CNode := .short [1, 10, 16] (.value (List.replicate 27 0x99))
def emb32Blob : List UInt8 := Rlp.encode (.list [.bytes [0x00, 0x7d], toItem emb32Child])

/-- **decodeNode_lax_embedded_32** (refutation of "what decodes is what the hasher writes"): a child of
    exactly 32 bytes is accepted as embedded (`size > hashLen`), although the hasher embeds only what is
    SHORTER than 32 bytes — the real embedding test says no — and the decoder's own message wants `< 32` -/
theorem decodeNode_lax_embedded_32 :
    (nodeRlp emb32Child).length = 32 ∧ rlpSmall emb32Child = false ∧
    outSer (decodeNode emb32Blob) = some (serH (.short [7, 13] emb32Child)) := by decide +kernel

/-- **decodeNode_panic_witness** (LEGACY code, refutation of "decoding returns a node or an error" before
    /repo 93439c0): `c2 80 80` — and the same list embedded in a full node's slot 15 — panicked -/
theorem decodeNode_panic_witness :
    isPanic (decodeNodeLegacy [0xc2, 0x80, 0x80]) = true ∧
    isPanic (decodeNodeLegacy ([0xd3] ++ List.replicate 15 0x80 ++ [0xc2, 0x80, 0x80] ++ [0x80])) = true := by
  decide +kernel

def errOf {α : Type} : DRes α → Option DecErr
  | .err e => some e
  | _ => none

/-- the current code on the same two blobs: an error with its decode path -/
example :
    errOf (decodeNode [0xc2, 0x80, 0x80]) = some ⟨.emptyKey, ["short"]⟩ ∧
    errOf (decodeNode ([0xd3] ++ List.replicate 15 0x80 ++ [0xc2, 0x80, 0x80] ++ [0x80])) =
      some ⟨.emptyKey, ["short", "[15]", "full"]⟩ := by
  decide +kernel

/-! ### the database as bytes: re-opening by root WITHOUT the `decodeNode(rlp(c)) = c` caveat -/

/-- `Trie.resolveHash` with the real `mustDecodeNode` over a byte database is `MptStore.resolveHash` over
    the view of that database — the ONLY place where any trie operation reads the database -/
theorem resolveHashB_eq_view (bs : BStore) (gen : Nat) (h : Hash) :
    resolveHashB bs gen h = resolveHash (viewOf bs) gen h := by
  unfold resolveHashB resolveHash viewOf
  cases bs h with
  | none => rfl
  | some blob =>
    simp only
    cases decodeNode blob with
    | ok c => cases c <;> rfl
    | err e => rfl
    | panic => rfl
    | depth => rfl

/-- **view_encStore**: the byte database the hasher writes (`blob = rlp(collapsed node)`) is seen, through
    the real decoder, as exactly the node-level store of part C -/
theorem view_encStore (s : Store) (hs : ∀ h c, s h = some c → Storable c) : viewOf (encStore s) = s := by
  funext h
  unfold viewOf encStore
  cases hc : s h with
  | none => rfl
  | some c => simp only [Option.map_some]; rw [decodeNode_encodeNode c (hs h c hc)]

theorem newB_eq_new (hashOf : CNode → Hash) (bs : BStore) (root : Hash) :
    newB hashOf bs root = Trie.new hashOf (viewOf bs) root := by
  unfold newB Trie.new
  rw [resolveHashB_eq_view]
  by_cases hr : root = zeroHash ∨ root = hashOf .empty
  · rw [if_pos hr, if_pos hr]
  · rw [if_neg hr, if_neg hr]
    cases resolveHash (viewOf bs) 0 root <;> rfl

/-- the hasher's database write commutes with the encoding (`TrieDatabase.insert` keeps an existing entry) -/
theorem encStore_put (s : Store) (h : Hash) (c : CNode) :
    encStore (s.put h c) = (encStore s).put h (nodeRlp c) := by
  funext x
  unfold encStore Store.put BStore.put
  by_cases hx : x = h
  · subst hx
    simp only [if_true]
    cases s x <;> rfl
  · simp only [hx, if_false]

section bytes
variable (small : CNode → Bool) (hashOf : CNode → Hash)

/-- **reopen_by_root_bytes**: `reopen_by_root` over the BYTES the hasher wrote.  `trie.New(root(n))` with the
    real `mustDecodeNode` succeeds on the byte database `encStore s` and the re-opened trie abstracts to
    `n` over what the decoder makes of that database — no assumption on the decoder is left. -/
theorem reopen_by_root_bytes (hH : HashOk hashOf) (hz : ∀ c, hashOf c ≠ zeroHash)
    (s : Store) (hs : ∀ h c, s h = some c → Storable c) (n : Node) (hC : Canon n)
    (hSt : Stored (baseH small hashOf) s true n) (hCl : Closed (baseH small hashOf) s n) :
    ∃ t', newB hashOf (encStore s) (refRoot (baseH small hashOf) n) = .ok t' ∧
      Abs small hashOf (viewOf (encStore s)) t'.root n := by
  rw [newB_eq_new, view_encStore s hs]
  exact reopen_by_root small hashOf hH hz s n hC hSt hCl

/-- **flush_reopen_fresh_bytes**: `flush_reopen_fresh` over bytes: after `TrieDatabase.Commit(root(n))` a
    NEW `TrieDatabase` over the same key-value store, holding the blobs as BYTES and decoding them with
    the real decoder, serves the whole trie. -/
theorem flush_reopen_fresh_bytes (hH : HashOk hashOf) (hz : ∀ c, hashOf c ≠ zeroHash)
    (hsmall : ∀ m : Node, small (refKids (baseH small hashOf) m) = true → noHashC (refKids (baseH small hashOf) m))
    (db db' : Db) (hOk : DbOk hashOf db) (hS : Sound hashOf db.node) (n : Node) (hC : Canon n)
    (hSt : Stored (baseH small hashOf) db.node true n) (hCl : Closed (baseH small hashOf) db.node n)
    (h : db.commit (refRoot (baseH small hashOf) n) = .ok db')
    (hs : ∀ x c, db'.fresh.node x = some c → Storable c) :
    ∃ t', newB hashOf (encStore db'.fresh.node) (refRoot (baseH small hashOf) n) = .ok t' ∧
      Abs small hashOf (viewOf (encStore db'.fresh.node)) t'.root n := by
  rw [newB_eq_new, view_encStore _ hs]
  exact flush_reopen_fresh small hashOf hH hz hsmall db db' hOk hS n hC hSt hCl h

end bytes

/-! ### `VerifyProof` over a reader of BYTES -/

theorem verifyProofB_succ (K : List UInt8 → Hash) (r : BStore) (fuel : Nat) (want : Hash) (key : List Nib) (i : Nat) :
    verifyProofB K r (fuel + 1) want key i =
      match r want with
      | none => .missing i
      | some buf =>
        if K buf ≠ want then .mismatch i
        else
          match decodeNode buf with
          | .err _ => .bad i
          | .panic => .panic
          | .depth => .panic
          | .ok c =>
            match proofGet c key with
            | .nil => .absent i
            | .hash h rest => verifyProofB K r fuel h rest (i + 1)
            | .value v => .value v (i + 1)
            | .panic => .panic := rfl

/-- soundness of the byte-level `VerifyProof` along the genuine path -/
theorem verify_sound_bytes (K : List UInt8 → Hash) (hK : ∀ x y, K x = K y → x = y) (small : CNode → Bool)
    (s : Store) (hs : ∀ h c, s h = some c → Storable c) (r : BStore) :
    ∀ (fuel : Nat) (m : Node) (top : Bool) (want : Hash) (key : List Nib) (i : Nat), Canon m →
    Node.isBranch m = true → refC (baseH small (fun c => K (nodeRlp c))) m top = .hash want →
    Stored (baseH small (fun c => K (nodeRlp c))) s top m → Closed (baseH small (fun c => K (nodeRlp c))) s m →
    (∀ v k, verifyProofB K r fuel want key i = .value v k → Mpt.get m key = .found v) ∧
    (∀ k, verifyProofB K r fuel want key i = .absent k → Mpt.get m key = .absent) := by
  intro fuel
  induction fuel with
  | zero => intro m top want key i _ _ _ _ _; exact ⟨fun v k h => (by cases h), fun k h => (by cases h)⟩
  | succ fuel ih =>
    intro m top want key i hC hb hrf hSt hCl
    have hh : want = K (nodeRlp (refKids _ m)) := (refC_hash_inv hb hrf).2
    have hst := hSt want hrf
    have hstor := hs _ _ hst
    rw [verifyProofB_succ]
    cases hrw : r want with
    | none => exact ⟨fun v k h => (by cases h), fun k h => (by cases h)⟩
    | some buf =>
      simp only
      by_cases hne : K buf = want
      · -- the blob is THE blob of `m`: Keccak is collision-free on byte strings
        have hbuf : buf = nodeRlp (refKids (baseH small (fun c => K (nodeRlp c))) m) := hK _ _ (hne.trans hh)
        rw [if_neg (by simp [hne]), hbuf, decodeNode_encodeNode _ hstor]
        simp only
        have hpg := proofGet_ref (baseH small (fun c => K (nodeRlp c))) s hC key hb
        cases hp : proofGet (refKids (baseH small (fun c => K (nodeRlp c))) m) key with
        | value v =>
          rw [hp] at hpg
          refine ⟨fun v' k h => ?_, fun k h => (by cases h)⟩
          simp only [ProofRes.value.injEq] at h
          rw [← h.1]; exact hpg
        | nil =>
          rw [hp] at hpg
          exact ⟨fun v' k h => (by cases h), fun k _ => hpg⟩
        | panic => exact ⟨fun v' k h => (by cases h), fun k h => (by cases h)⟩
        | hash x rest =>
          rw [hp] at hpg
          obtain ⟨m', a1, a2, a3, a4, _, a6⟩ := hpg
          obtain ⟨b1, b2⟩ := a6 hCl
          rw [a4]
          exact ih m' false x rest (i + 1) a1 a2 a3 b1 b2
      · rw [if_pos (by simp [hne])]
        exact ⟨fun v k h => (by cases h), fun k h => (by cases h)⟩

/-- **proof_binds_value_bytes**: `VerifyProof` (code since 18a0e58) with the real `decodeNode`, against the
    root of the canonical trie `n`, for ANY reader of bytes — adversarial, not content-addressed, blobs
    malformed or non-canonical at will: whatever is returned is what `n` holds.  The only hypothesis on
    hashing is that Keccak (`K`) is collision-free on BYTE STRINGS (`hashOf = K ∘ rlp`); the laxness of
    the decoder is harmless because a blob that hashes to a genuine hash IS the genuine blob, and that one
    decodes to the genuine node (`decodeNode_encodeNode`).  `s` is the trie's own database (exists by
    `commit_keeps_invariant`); its nodes are what the hasher stores. -/
theorem proof_binds_value_bytes (K : List UInt8 → Hash) (hK : ∀ x y, K x = K y → x = y) (small : CNode → Bool)
    (s : Store) (hs : ∀ h c, s h = some c → Storable c) (n : Node) (hC : Canon n)
    (hSt : Stored (baseH small (fun c => K (nodeRlp c))) s true n)
    (hCl : Closed (baseH small (fun c => K (nodeRlp c))) s n)
    (r : BStore) (key : List Nib) (fuel : Nat) (hb : Node.isBranch n = true) :
    (∀ v k, verifyProofB K r fuel (refRoot (baseH small (fun c => K (nodeRlp c))) n) key 0 = .value v k →
      Mpt.get n key = .found v) ∧
    (∀ k, verifyProofB K r fuel (refRoot (baseH small (fun c => K (nodeRlp c))) n) key 0 = .absent k →
      Mpt.get n key = .absent) := by
  obtain ⟨h, hh⟩ := refC_force_hash (baseH small (fun c => K (nodeRlp c))) n hb
  have hroot : refRoot (baseH small (fun c => K (nodeRlp c))) n = h := by simp [refRoot, hh]
  rw [hroot]
  exact verify_sound_bytes K hK small s hs r fuel n true h key 0 hC hb hh hSt hCl


/-! ### the blobs the real hasher writes for canonical tries are `Storable` -/

/-- the values of a resolved trie are byte strings -/
def ValsOk : Node → Prop
  | .empty => True
  | .value v => ∀ x, x ∈ v → x < 256
  | .short _ c => ValsOk c
  | .full ch => ∀ i, ValsOk (ch i)

theorem termKey_keyOk {K : List Nib} (h : TermKey K) : KeyOk K := by
  induction h with
  | last => exact ⟨[], noTerm_nil, Or.inr rfl⟩
  | cons n k hn _ ih =>
    obtain ⟨body, hb, he⟩ := ih
    rcases he with e | e
    · exact ⟨n :: body, noTerm_cons.mpr ⟨hn, hb⟩, Or.inl (by rw [e])⟩
    · exact ⟨n :: body, noTerm_cons.mpr ⟨hn, hb⟩, Or.inr (by rw [e]; rfl)⟩

/-- what is needed of a reference and of a blob, besides `NormM` and `Hash32` -/
def RefFine (c : CNode) : Prop :=
  BytesOk c ∧ EmbOk c ∧ (c.isBranch = true → (nodeRlp c).length ≤ 32)

theorem canon_fine (hs : Hasher) (hsm : hs.small = rlpSmall) (hbytes : ∀ c x, x ∈ hs.hashOf c → x < 256)
    {n : Node} (hC : Canon n) (hV : ValsOk n) :
    RefFine (refC hs n false) ∧ (Node.isBranch n = true → BytesOk (refKids hs n) ∧ EmbOk (refKids hs n)) := by
  have step : ∀ m : Node, Node.isBranch m = true → BytesOk (refKids hs m) ∧ EmbOk (refKids hs m) →
      RefFine (refC hs m false) := by
    intro m hb hk
    rw [refC_branch hs m hb, storeRef_branch hs _ (refKids_isBranch hs m hb)]
    by_cases hc : (hs.small (refKids hs m) && !false) = true
    · rw [if_pos hc]
      refine ⟨hk.1, hk.2, fun _ => ?_⟩
      have : rlpSmall (refKids hs m) = true := by rw [← hsm]; simpa using hc
      have : (nodeRlp (refKids hs m)).length < 32 := by simpa [rlpSmall] using this
      omega
    · rw [if_neg hc]
      exact ⟨hbytes _, trivial, fun h => by simp [CNode.isBranch] at h⟩
  induction hC with
  | empty => exact ⟨⟨trivial, trivial, fun h => by simp [refC, CNode.isBranch] at h⟩, fun h => by simp [Node.isBranch] at h⟩
  | leaf K v hK hv =>
    have hk : BytesOk (refKids hs (.short K (.value v))) ∧ EmbOk (refKids hs (.short K (.value v))) := by
      refine ⟨⟨termKey_keyOk hK, hV⟩, ⟨fun h => ?_, trivial⟩⟩
      simp [CNode.isBranch] at h
    exact ⟨step _ rfl hk, fun _ => hk⟩
  | ext K ch hK hNT hCf ih =>
    have ih' := ih hV
    have hk : BytesOk (refKids hs (.short K (.full ch))) ∧ EmbOk (refKids hs (.short K (.full ch))) := by
      show BytesOk (.short K (refC hs (.full ch) false)) ∧ EmbOk (.short K (refC hs (.full ch) false))
      exact ⟨⟨⟨K, hNT, Or.inl rfl⟩, ih'.1.1⟩, ⟨ih'.1.2.2, ih'.1.2.1⟩⟩
    exact ⟨step _ rfl hk, fun _ => hk⟩
  | full ch h1 h16 h2 ih =>
    have hk : BytesOk (refKids hs (.full ch)) ∧ EmbOk (refKids hs (.full ch)) := by
      rw [refKids_full]
      have h16' : BytesOk (rawN (ch 16)) ∧ EmbOk (rawN (ch 16)) := by
        have hv16 := hV 16
        rcases h16 with h | ⟨v, _, h⟩
        · rw [h]; exact ⟨trivial, trivial⟩
        · rw [h] at hv16 ⊢; exact ⟨hv16, trivial⟩
      refine ⟨fun i => ?_, fun i => ?_⟩
      · by_cases hi : i = 16
        · simp only [hi, if_true]; exact h16'.1
        · simp only [hi, if_false]; exact (ih i hi (hV i)).1.1
      · by_cases hi : i = 16
        · simp only [hi, if_true]; exact ⟨fun h => absurd rfl h, h16'.2⟩
        · simp only [hi, if_false]
          exact ⟨fun _ => (ih i hi (hV i)).1.2.2, (ih i hi (hV i)).1.2.1⟩
    exact ⟨step _ rfl hk, fun _ => hk⟩

/-- **every blob the real hasher writes for a canonical trie is `Storable`** (the embedding test is the
    real one, `len(rlp) < 32`; hashes are 32 bytes; values are bytes; the blob is shorter than 2^64) -/
theorem hasher_blob_storable (hs : Hasher) (hsm : hs.small = rlpSmall) (hlen : ∀ c, (hs.hashOf c).length = 32)
    (hbytes : ∀ c x, x ∈ hs.hashOf c → x < 256) {n : Node} (hC : Canon n) (hV : ValsOk n)
    (hb : Node.isBranch n = true) (hsz : (nodeRlp (refKids hs n)).length < 2 ^ 64) :
    Storable (refKids hs n) := by
  have hne : ∀ c, hs.hashOf c ≠ [] := by
    intro c e
    have := hlen c
    rw [e] at this; simp at this
  obtain ⟨_, hk⟩ := canon_fine hs hsm hbytes hC hV
  exact ⟨(canon_norm hs hne hC).2 hb, (hk hb).1, (hash32_ref hs hlen n).2, (hk hb).2, hsz⟩


/-! ### non-vacuity -/

/-- a storable node with an embedded child exists (extension over an embedded leaf) -/
example : Storable (.short [1, 2] (.short [3, 16] (.value [5]))) :=
  ⟨by simp [NormM, hasTerm],
    ⟨⟨[1, 2], by intro n hn; simp at hn; rcases hn with h | h <;> rw [h] <;> decide, Or.inl rfl⟩,
      ⟨[3], by intro n hn; simp at hn; rw [hn]; decide, Or.inr rfl⟩,
      by intro x hx; simp at hx; omega⟩,
    trivial, ⟨fun _ => by decide +kernel, ⟨fun h => by simp [CNode.isBranch] at h, trivial⟩⟩, by decide +kernel⟩

/-- … and it does round-trip through the byte-level decoder -/
example : outSer (decodeNode (nodeRlp (.short [1, 2] (.short [3, 16] (.value [5]))))) =
    some (serH (.short [1, 2] (.short [3, 16] (.value [5])))) := by decide +kernel

/-- `K` collision-free on byte strings is satisfiable (the bytes themselves) -/
example : ∀ x y : List UInt8, bytesToVal x = bytesToVal y → x = y := by
  intro x
  induction x with
  | nil => intro y h; cases y <;> simp [bytesToVal] at h ⊢
  | cons a x ih =>
    intro y h
    cases y with
    | nil => simp [bytesToVal] at h
    | cons b y =>
      simp only [bytesToVal, List.map_cons, List.cons.injEq] at h
      rw [UInt8.toNat_inj.mp h.1, ih y h.2]

end LemoProofs.C17

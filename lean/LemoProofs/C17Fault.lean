/-
  C17 (part C, write faults) — `TrieDatabase.Commit` when the batch write FAILS.

  Model: `LemoModel.MptStore.Db.flush` (store/trie_database.go:260-330 `Commit`, `commit`, `uncache`).
  One call of `TrieDatabase.Commit(root)` takes the read lock, moves the preimages and then the pool
  nodes reachable from `root` into a write batch (intermediate `batch.Commit()` whenever the batch is
  larger than `IdealBatchSize`), writes the batch, releases the read lock, and only THEN takes the write
  lock and drops the written nodes from the pool (`uncache`).  Every `batch.Commit()` can return an error
  (full disk, I/O error); the fault is an explicit INPUT of the model (`Fault`): at the intermediate
  write of the preimage loop, at an intermediate write inside `commit`, or at the final write.  `wrote`
  = the visited hashes whose `Put` had reached the key-value store in an earlier, successful batch (none
  when everything fits one batch; which ones otherwise depends on Go's map iteration order over
  `node.Children`, so the theorems quantify over ALL lists).

  TWO facts about the Go code are ENCODED IN THE MODEL AS CONSTANTS of `Db.flush` (read off
  trie_database.go:260-321, not derived): (i) every error path returns BEFORE `uncache`
  (`flushWrite`: `mem := if uncacheAfterWrite then db.mem else kept`) and (ii) every path RUnlocks
  (`FlushOut.rlocks` is a literal in every branch; nothing models Lock / RLock / RUnlock events).  The
  statements below that only read those constants back — `commit_releases_lock`,
  `preimage_fault_leaks_lock_legacy`, and the conjuncts `out.err = true`, `out.db.mem = db.mem` of
  `failed_flush_keeps_pool` — are DEFINITIONAL (proof `rfl` per branch; they would hold for any Go code).
  The evidence that the Go code has (i) and (ii) is the harness op `sflushfail` only (`mem=` pool size,
  error, and the `lockFree` probe: a writer goroutine with a 1.5 s timeout) on the three generator-chosen
  sites.  The real content of this file: `out.db.node = db.node` (copies of pool blobs on disk do not
  change `TrieDatabase.Node`) and what follows from it, `flush_retry_eq` / `flush_retry_reopen_fresh`,
  `flush_prefix_downclosed`, and the history theorem over the pool.  "A failed batch writes nothing of
  that batch" is a property of the harness's injector (`flakyBatch.Commit`), not of BeansDB
  (`Queue.PutBatch`: partial append / fsync error are C08's): all fault theorems are about a store that
  fails ATOMICALLY PER BATCH.  `DOp.flush root` quantifies over all roots including `zeroHash`, where
  model (no-op) and Go (`Commit(common.Hash{})` batches the `{}` entry) differ; no caller passes it.

  What the MODEL guarantees then (proved here, no hypothesis on `hashOf`, `small`, the pool or `wrote`
  unless stated):
    * `failed_flush_keeps_pool`   the pool is untouched and the abstract store view pool ∪ disk
                                  (`TrieDatabase.Node`) is the same function: every trie operation still
                                  simulates (`failed_flush_reads`: no `MissingNodeError`), the same
                                  TrieDatabase re-opens every root it could open before;
    * `failed_flush_keeps_dbok`   the pool invariant `DbOk` survives when `wrote` is closed under the
                                  recorded children (true of every prefix of a post-order walk);
    * `flush_retry_eq`            a retried flush that succeeds yields the pool and the key-value
                                  content a first successful flush would have yielded (`wrote = []`:
                                  literally the same state, `flush_retry_eq_single`), so
                                  `flush_retry_reopen_fresh`: a FRESH TrieDatabase over the disk serves it;
    * `commit_releases_lock`      DEFINITIONAL, not registered: reads back the literal `rlocks := 0` of every
                                  branch of `Db.flush` (`preimage_fault_leaks_lock_legacy`: the other literal);
                                  that the CODE releases the lock on every path is the `lockFree` probe of
                                  `sflushfail`, not a theorem;
    * `mixed_run_with_faults`     the history theorem over the POOL (`Db`) with succeeding and FAILING
                                  flushes and fresh re-openings interleaved with updates, deletes, reads,
                                  commits, hash calls and re-openings.
  Refutations (kernel-checked witnesses) for the variant that uncaches while batching
  (`uncacheAfterWrite := false`, the seeded change C17h): `uncache_while_batching_loses_reads`,
  `uncache_while_batching_retry_lost`.
-/
import LemoModel.Mpt
import LemoModel.MptStore
import LemoProofs.Lemmas.Mpt
import LemoProofs.Lemmas.MptStore
import LemoProofs.Lemmas.MptDb
import LemoProofs.C17Store

namespace LemoProofs.C17
open LemoModel LemoModel.Mpt LemoModel.MptStore LemoProofs.MptLemmas LemoProofs.MptStoreLemmas
open LemoProofs.MptDbLemmas

/-! ### the pool part of a flush -/

/-- a flush whose every write succeeds is `Db.commit`, whatever the code variant -/
theorem flushWrite_none (ua : Bool) (db : Db) (root : Hash) :
    db.flushWrite ua root none = db.commit root := by
  unfold Db.flushWrite Db.commit
  cases reach db.mem (db.mem.length + 1) root <;> rfl

theorem flushWrite_fail_eq {ua : Bool} {db d : Db} {root : Hash} {w : List Hash}
    (h : db.flushWrite ua root (some w) = .ok d) :
    ∃ hs, reach db.mem (db.mem.length + 1) root = some hs ∧
      d.mem = (if ua then db.mem else db.mem.filter (fun e => (fun k => decide (k ∉ hs)) e.1)) ∧
      d.disk = (flushed db.mem (hs.filter (fun x => x ∈ w))).reverse ++ db.disk := by
  unfold Db.flushWrite at h
  cases hr : reach db.mem (db.mem.length + 1) root with
  | none => rw [hr] at h; cases h
  | some hs =>
    rw [hr] at h
    simp only [Res.ok.injEq] at h
    subst h
    exact ⟨hs, rfl, rfl, rfl⟩

/-- extra disk entries that copy pool blobs do not change what `TrieDatabase.Node` returns -/
theorem node_of_copied (db d : Db) (l : List Hash) (h1 : d.mem = db.mem)
    (h2 : d.disk = (flushed db.mem l).reverse ++ db.disk) : d.node = db.node := by
  funext x
  simp only [Db.node, h1, h2, lookupH_append, lookupH_flushed]
  cases hm : lookupH db.mem x with
  | some m => rfl
  | none => by_cases hx : x ∈ l <;> simp [hx]

theorem onDisk_copied {db d : Db} {l : List Hash}
    (h2 : d.disk = (flushed db.mem l).reverse ++ db.disk) (x : Hash) :
    onDisk d x ↔ (x ∈ l ∧ inMem db x) ∨ onDisk db x :=
  onDisk_commit h2 x

/-! ### a failed flush -/

/-- shape of the state after a failed flush of the code as it is: the pool as before, the key-value store
    extended by copies of pool blobs -/
theorem flush_fail_shape {db : Db} {root : Hash} {f : Fault} {out : FlushOut}
    (h : db.flush {} root (some f) = .ok out) :
    out.err = true ∧ out.rlocks = 0 ∧ out.db.mem = db.mem ∧
    ∃ l, out.db.disk = (flushed db.mem l).reverse ++ db.disk ∧
      (∀ w, f.wrote? = some w → ∃ hs, reach db.mem (db.mem.length + 1) root = some hs ∧
        l = hs.filter (fun x => x ∈ w)) ∧ (f.wrote? = none → l = []) := by
  cases f with
  | preimage =>
    simp only [Db.flush, Res.ok.injEq] at h
    subst h
    exact ⟨rfl, rfl, rfl, [], by simp [flushed], fun w hw => (by cases hw), fun _ => rfl⟩
  | node w =>
    simp only [Db.flush] at h
    cases hw : db.flushWrite true root (some w) with
    | ok d =>
      rw [hw] at h
      simp only [Res.ok.injEq] at h
      subst h
      obtain ⟨hs, hr, h1, h2⟩ := flushWrite_fail_eq hw
      exact ⟨rfl, rfl, by simpa using h1, _, h2, fun w' e => (by cases e; exact ⟨hs, hr, rfl⟩),
        fun e => (by cases e)⟩
    | missing x => rw [hw] at h; cases h
    | panic => rw [hw] at h; cases h
    | overflow => rw [hw] at h; cases h
  | final w =>
    simp only [Db.flush] at h
    cases hw : db.flushWrite true root (some w) with
    | ok d =>
      rw [hw] at h
      simp only [Res.ok.injEq] at h
      subst h
      obtain ⟨hs, hr, h1, h2⟩ := flushWrite_fail_eq hw
      exact ⟨rfl, rfl, by simpa using h1, _, h2, fun w' e => (by cases e; exact ⟨hs, hr, rfl⟩),
        fun e => (by cases e)⟩
    | missing x => rw [hw] at h; cases h
    | panic => rw [hw] at h; cases h
    | overflow => rw [hw] at h; cases h

section fault
variable (small : CNode → Bool) (hashOf : CNode → Hash)

/-- **failed_flush_keeps_pool**: when a batch write of `TrieDatabase.Commit(root)` fails — at the preimage
    flush, at an intermediate node flush or at the final write, whatever had reached the key-value store
    in earlier batches — the call reports the error, the pool is untouched, nothing leaves the key-value
    store, and the abstract store view pool ∪ disk (`TrieDatabase.Node`) is the SAME FUNCTION as before:
    every trie over this TrieDatabase abstracts to what it abstracted to, the store stays
    content-addressed, and `trie.New(r, db)` answers as before for every root `r`. -/
theorem failed_flush_keeps_pool (db : Db) (root : Hash) (f : Fault) (out : FlushOut)
    (h : db.flush {} root (some f) = .ok out) :
    out.err = true ∧ out.db.mem = db.mem ∧ out.db.node = db.node ∧
    (∀ x, onDisk db x → onDisk out.db x) ∧
    (∀ p n, Abs small hashOf db.node p n → Abs small hashOf out.db.node p n) ∧
    (Sound hashOf db.node → Sound hashOf out.db.node) ∧
    (∀ r, Trie.new hashOf out.db.node r = Trie.new hashOf db.node r) := by
  obtain ⟨h0, _, h1, l, h2, _⟩ := flush_fail_shape h
  have hn : out.db.node = db.node := node_of_copied db out.db l h1 h2
  refine ⟨h0, h1, hn, fun x hx => (onDisk_copied h2 x).mpr (Or.inr hx), fun p n hA => ?_, fun hS => ?_,
    fun r => by rw [hn]⟩
  · rw [hn]; exact hA
  · rw [hn]; exact hS

/-- **failed_flush_reads** (no `MissingNodeError` after a failed flush): a trie over the TrieDatabase
    whose flush failed still returns, for every key, what its content holds. -/
theorem failed_flush_reads (db : Db) (root : Hash) (f : Fault) (out : FlushOut)
    (h : db.flush {} root (some f) = .ok out) (t : Trie) (n : Node) (key : List Nib) (fuel : Nat)
    (hA : Abs small hashOf db.node t.root n) (hC : Canon n) (hk : TermKey key)
    (hf : 2 * key.length + 2 ≤ fuel) :
    ∃ t', t.get out.db.node fuel key = .ok (getOpt (Mpt.get n key), t') ∧
      Abs small hashOf out.db.node t'.root n := by
  obtain ⟨_, _, hn, _⟩ := failed_flush_keeps_pool small hashOf db root f out h
  rw [hn]
  obtain ⟨hP, hN, _⟩ := canon_placed_nes n hC
  rcases commit_reopen_get small hashOf db.node t n key fuel hA hP hN hf with ⟨h1, _⟩ | ⟨t', h1, h2, _⟩
  · exact absurd h1 (get_no_panic n key hC hk)
  · exact ⟨t', h1, h2⟩

/-- what reached the key-value store before the fault is closed under the recorded children that are in
    the pool (`TrieDatabase.commit` puts children before their parent, batches are written in order) -/
def DownClosed (db : Db) (w : List Hash) : Prop :=
  ∀ x, x ∈ w → ∀ m, lookupH db.mem x = some m → ∀ y, y ∈ m.children → inMem db y → y ∈ w

theorem downClosed_nil (db : Db) : DownClosed db [] := fun x hx => by cases hx

/-- **failed_flush_keeps_dbok**: the pool invariant survives a failed flush -/
theorem failed_flush_keeps_dbok (db : Db) (root : Hash) (f : Fault) (out : FlushOut)
    (h : db.flush {} root (some f) = .ok out) (hOk : DbOk hashOf db) (hS : Sound hashOf db.node)
    (hw : ∀ w, f.wrote? = some w → DownClosed db w) : DbOk hashOf out.db := by
  obtain ⟨_, _, h1, l, h2, hl, hl0⟩ := flush_fail_shape h
  have hd := onDisk_copied h2
  have hin : ∀ x, inMem out.db x ↔ inMem db x := by intro x; unfold inMem; rw [h1]
  -- every element of `l` is a visited pool node whose pool children are in `l` too
  have hcl : ∀ x, x ∈ l → ∀ m, lookupH db.mem x = some m → ∀ y, y ∈ m.children → inMem db y → y ∈ l := by
    intro x hx m hm y hy hym
    cases hf : f.wrote? with
    | none => rw [hl0 hf] at hx; cases hx
    | some w =>
      obtain ⟨hs, hr, e⟩ := hl w hf
      subst e
      obtain ⟨_, _, r3⟩ := reach_spec db.mem _ root hs hr
      simp only [List.mem_filter, decide_eq_true_eq] at hx ⊢
      exact ⟨r3 x hx.1 m hm y hy hym, hw w hf x hx.2 m hm y hy hym⟩
  refine ⟨fun x m hm y hy => ?_, fun x m hm y hy => ?_, fun x c hc y hy => ?_, fun x c hc => ?_⟩
  · rw [h1] at hm
    exact (hOk.refs x m hm y hy).imp id (fun g => (hd y).mpr (Or.inr g))
  · rw [h1] at hm
    exact (hOk.kids x m hm y hy).imp (fun g => (hin y).mpr g) (fun g => (hd y).mpr (Or.inr g))
  · rw [h2, lookupH_append, lookupH_flushed] at hc
    by_cases hx : x ∈ l
    · simp only [hx, if_true] at hc
      cases hm : lookupH db.mem x with
      | none =>
        rw [hm] at hc
        simp only [Option.map_none] at hc
        exact (hd y).mpr (Or.inr (hOk.disk x c hc y hy))
      | some m =>
        rw [hm] at hc
        simp only [Option.map_some, Option.some.injEq] at hc
        subst hc
        rcases hOk.refs x m hm y hy with g | g
        · rcases hOk.kids x m hm y g with g' | g'
          · exact (hd y).mpr (Or.inl ⟨hcl x hx m hm y g g', g'⟩)
          · exact (hd y).mpr (Or.inr g')
        · exact (hd y).mpr (Or.inr g)
    · simp only [hx, if_false] at hc
      exact (hd y).mpr (Or.inr (hOk.disk x c hc y hy))
  · rw [h2, lookupH_append, lookupH_flushed] at hc
    by_cases hx : x ∈ l
    · simp only [hx, if_true] at hc
      cases hm : lookupH db.mem x with
      | none =>
        rw [hm] at hc
        simp only [Option.map_none] at hc
        exact hOk.dsound x c hc
      | some m =>
        rw [hm] at hc
        simp only [Option.map_some, Option.some.injEq] at hc
        subst hc
        exact hS x m.blob (by simp [Db.node, hm])
    · simp only [hx, if_false] at hc
      exact hOk.dsound x c hc

end fault

/-! ### the retried flush -/

/-- `Db.commit` on two databases with the same pool, the second with extra copies of pool blobs on disk -/
theorem commit_of_copied {db o : Db} {l : List Hash} (root : Hash) (hm : o.mem = db.mem)
    (hd : o.disk = (flushed db.mem l).reverse ++ db.disk)
    (hl : ∀ hs, reach db.mem (db.mem.length + 1) root = some hs → ∀ x, x ∈ l → x ∈ hs) :
    (∀ d1, db.commit root = .ok d1 → ∃ d2, o.commit root = .ok d2 ∧ d2.mem = d1.mem ∧
      ∀ x, lookupH d2.disk x = lookupH d1.disk x) ∧
    (∀ d2, o.commit root = .ok d2 → ∃ d1, db.commit root = .ok d1) := by
  unfold Db.commit
  rw [hm]
  cases hr : reach db.mem (db.mem.length + 1) root with
  | none => exact ⟨fun d1 h => (by cases h), fun d2 h => (by cases h)⟩
  | some hs =>
    refine ⟨fun d1 h => ?_, fun d2 _ => ⟨_, rfl⟩⟩
    simp only [Res.ok.injEq] at h
    subst h
    refine ⟨_, rfl, rfl, fun x => ?_⟩
    show lookupH ((flushed db.mem hs).reverse ++ o.disk) x = lookupH ((flushed db.mem hs).reverse ++ db.disk) x
    rw [hd]
    simp only [lookupH_append, lookupH_flushed]
    by_cases hx : x ∈ hs
    · simp only [hx, if_true]
      cases hmx : lookupH db.mem x with
      | some m => rfl
      | none => by_cases hx2 : x ∈ l <;> simp [hx2]
    · simp only [hx, if_false]
      have hx2 : x ∉ l := fun g => hx (hl hs hr x g)
      simp [hx2]

theorem flush_none_eq {c : FlushCode} {db : Db} {root : Hash} {out : FlushOut}
    (h : db.flush c root none = .ok out) : db.commit root = .ok out.db ∧ out.err = false ∧ out.rlocks = 0 := by
  simp only [Db.flush, flushWrite_none] at h
  cases hc : db.commit root with
  | ok d => rw [hc] at h; simp only [Res.ok.injEq] at h; subst h; exact ⟨rfl, rfl, rfl⟩
  | missing x => rw [hc] at h; cases h
  | panic => rw [hc] at h; cases h
  | overflow => rw [hc] at h; cases h

theorem flush_none_of_commit (c : FlushCode) {db d : Db} {root : Hash} (h : db.commit root = .ok d) :
    db.flush c root none = .ok ⟨d, false, 0⟩ := by
  simp only [Db.flush, flushWrite_none, h]

/-- **flush_retry_eq**: after a failed flush of `root`, a retried `TrieDatabase.Commit(root)` whose
    writes succeed returns nil and leaves exactly the pool, and a key-value store with exactly the
    content, that a first successful flush would have left (`d1`): the same `Node` view, the same
    view for a FRESH TrieDatabase over the disk.  For any fault site and any `wrote`. -/
theorem flush_retry_eq (db : Db) (root : Hash) (f : Fault) (o1 : FlushOut)
    (h : db.flush {} root (some f) = .ok o1) (d1 : Db) (h1 : db.commit root = .ok d1) :
    ∃ d2, o1.db.flush {} root none = .ok ⟨d2, false, 0⟩ ∧ d2.mem = d1.mem ∧
      (∀ x, lookupH d2.disk x = lookupH d1.disk x) ∧ d2.node = d1.node ∧ d2.fresh.node = d1.fresh.node := by
  obtain ⟨_, _, hm, l, hd, hl, hl0⟩ := flush_fail_shape h
  have hsub : ∀ hs, reach db.mem (db.mem.length + 1) root = some hs → ∀ x, x ∈ l → x ∈ hs := by
    intro hs hr x hx
    cases hf : f.wrote? with
    | none => rw [hl0 hf] at hx; cases hx
    | some w =>
      obtain ⟨hs', hr', e⟩ := hl w hf
      rw [hr] at hr'
      simp only [Option.some.injEq] at hr'
      subst hr'; subst e
      exact (List.mem_filter.mp hx).1
  obtain ⟨d2, g1, g2, g3⟩ := (commit_of_copied root hm hd hsub).1 d1 h1
  refine ⟨d2, flush_none_of_commit {} g1, g2, g3, ?_, ?_⟩
  · funext x; simp only [Db.node, g2, g3]
  · funext x; simp only [Db.node, Db.fresh, lookupH, g3]

/-- **flush_retry_eq_single**: when nothing had reached the key-value store before the fault (the
    preimage flush failed, or everything fits ONE batch: `wrote = []`), the failed flush leaves
    literally the state it found; the retry is a first flush. -/
theorem flush_retry_eq_single (db : Db) (root : Hash) (f : Fault) (o1 : FlushOut)
    (h : db.flush {} root (some f) = .ok o1) (hf : f.wrote? = none ∨ f.wrote? = some []) : o1.db = db := by
  obtain ⟨_, _, hm, l, hd, hl, hl0⟩ := flush_fail_shape h
  have : l = [] := by
    rcases hf with hf | hf
    · exact hl0 hf
    · obtain ⟨hs, _, e⟩ := hl [] hf
      rw [e]; simp
  subst this
  have hd' : o1.db.disk = db.disk := by simpa [flushed] using hd
  cases hdb : o1.db with
  | mk m d => rw [hdb] at hm hd'; simp only at hm hd'; subst hm; subst hd'; rfl

section retry
variable (small : CNode → Bool) (hashOf : CNode → Hash)

/-- **flush_retry_reopen_fresh**: failed flush of the root of `n`, retried flush that succeeds, then a NEW
    `TrieDatabase` over the same key-value store: `trie.New(root)` succeeds and the re-opened trie
    abstracts to `n` (hypotheses as for `flush_reopen_fresh`; nothing is asked of the fault). -/
theorem flush_retry_reopen_fresh (hH : HashOk hashOf) (hz : ∀ c, hashOf c ≠ zeroHash)
    (hsmall : ∀ m : Node, small (refKids (baseH small hashOf) m) = true → noHashC (refKids (baseH small hashOf) m))
    (db : Db) (hOk : DbOk hashOf db) (hS : Sound hashOf db.node) (n : Node) (hC : Canon n)
    (hSt : Stored (baseH small hashOf) db.node true n) (hCl : Closed (baseH small hashOf) db.node n)
    (f : Fault) (o1 o2 : FlushOut)
    (h1 : db.flush {} (refRoot (baseH small hashOf) n) (some f) = .ok o1)
    (h2 : o1.db.flush {} (refRoot (baseH small hashOf) n) none = .ok o2) :
    o2.err = false ∧ ∃ t', Trie.new hashOf o2.db.fresh.node (refRoot (baseH small hashOf) n) = .ok t' ∧
      Abs small hashOf o2.db.fresh.node t'.root n := by
  obtain ⟨c2, e2, _⟩ := flush_none_eq h2
  obtain ⟨_, _, hm, l, hd, hl, hl0⟩ := flush_fail_shape h1
  have hsub : ∀ hs, reach db.mem (db.mem.length + 1) (refRoot (baseH small hashOf) n) = some hs →
      ∀ x, x ∈ l → x ∈ hs := by
    intro hs hr x hx
    cases hf : f.wrote? with
    | none => rw [hl0 hf] at hx; cases hx
    | some w =>
      obtain ⟨hs', hr', e⟩ := hl w hf
      rw [hr] at hr'
      simp only [Option.some.injEq] at hr'
      subst hr'; subst e
      exact (List.mem_filter.mp hx).1
  obtain ⟨d1, hd1⟩ := (commit_of_copied _ hm hd hsub).2 o2.db c2
  obtain ⟨d2, g1, _, _, _, g5⟩ := flush_retry_eq db _ f o1 h1 d1 hd1
  rw [h2] at g1
  simp only [Res.ok.injEq] at g1
  have e : o2.db = d2 := by rw [g1]
  rw [e, g5]
  exact ⟨e2, flush_reopen_fresh small hashOf hH hz hsmall db d1 hOk hS n hC hSt hCl hd1⟩

end retry

/-! ### the lock -/

/-- **commit_releases_lock** — DEFINITIONAL bookkeeping fact (`FlushOut.rlocks` is a literal in every branch of
    `Db.flush`; `rfl` per branch; no Lock/RUnlock events are modelled, so this holds for any Go code; the evidence for
    the code is the harness probe `lockFree`).  Not registered as a theorem of the property.
    Reading (code since /repo 228c7d3): whatever the outcome of
    `TrieDatabase.Commit` — success, fault at the preimage flush, at an intermediate node flush, at
    the final write — the call returns with the read lock of the TrieDatabase released. -/
theorem commit_releases_lock (c : FlushCode) (hc : c.preimageUnlocks = true) (db : Db) (root : Hash)
    (f : Option Fault) (out : FlushOut) (h : db.flush c root f = .ok out) : out.rlocks = 0 := by
  cases f with
  | none => exact (flush_none_eq h).2.2
  | some f =>
    cases f with
    | preimage =>
      simp only [Db.flush, hc, if_true, Res.ok.injEq] at h
      subst h; rfl
    | node w =>
      simp only [Db.flush] at h
      cases hw : db.flushWrite c.uncacheAfterWrite root (some w) with
      | ok d => rw [hw] at h; simp only [Res.ok.injEq] at h; subst h; rfl
      | missing x => rw [hw] at h; cases h
      | panic => rw [hw] at h; cases h
      | overflow => rw [hw] at h; cases h
    | final w =>
      simp only [Db.flush] at h
      cases hw : db.flushWrite c.uncacheAfterWrite root (some w) with
      | ok d => rw [hw] at h; simp only [Res.ok.injEq] at h; subst h; rfl
      | missing x => rw [hw] at h; cases h
      | panic => rw [hw] at h; cases h
      | overflow => rw [hw] at h; cases h

/-- REFUTATION for the code before /repo 228c7d3 (`preimageUnlocks := false`: `return err` without
    `db.lock.RUnlock()` in the preimage loop): for EVERY pool and root, a fault at the preimage flush
    returns with one read lock still held — every later writer (`Insert`, `Dereference`, the uncache
    phase of any `Commit`) blocks forever. -/
theorem preimage_fault_leaks_lock_legacy (ua : Bool) (db : Db) (root : Hash) :
    db.flush ⟨ua, false⟩ root (some .preimage) = .ok ⟨db, true, 1⟩ := rfl

/-! ### refutation for the variant that uncaches while batching (`uncacheAfterWrite := false`)

  Two keys, every node hashed (`small = false`), `hashOf = serH`: `Trie.Commit` puts three nodes into the
  pool.  The flush of the root meets a write fault at the final `batch.Commit()` (nothing had been
  written: `wrote = []`), is retried, and the trie is re-opened through a fresh TrieDatabase. -/

structure FaultDemo where
  pool : Nat            -- pool size after `Trie.Commit`
  err1 : Bool           -- the failed flush reports the error
  poolAfter : Nat       -- pool size after the failed flush
  readable : Bool       -- `trie.New(root)` + `TryGet` through the SAME TrieDatabase after the failed flush
  err2 : Bool           -- the retried flush reports an error
  wrote : Nat           -- entries in the key-value store after the retried flush
  fresh : Bool          -- `trie.New(root)` + `TryGet` through a FRESH TrieDatabase after the retried flush
  deriving DecidableEq, Repr

def readsBack (s : Store) (root : Hash) : Bool :=
  match Trie.new serH s root with
  | .ok t =>
    match t.get s 50 (hexKey [0x12]), t.get s 50 (hexKey [0x34]) with
    | .ok (some [1], _), .ok (some [2], _) => true
    | _, _ => false
  | _ => false

def faultDemo (uncacheAfterWrite : Bool) : Option FaultDemo :=
  let db0 : Db := {}
  match ({} : Trie).update db0.node 50 (hexKey [0x12]) [1] with
  | .ok t1 =>
    match t1.update db0.node 50 (hexKey [0x34]) [2] with
    | .ok t2 =>
      match t2.commit (fun _ => false) serH with
      | .ok (root, _, ws) =>
        let db := db0.insertAll ws
        match db.flush ⟨uncacheAfterWrite, true⟩ root (some (.final [])) with
        | .ok o1 =>
          match o1.db.flush ⟨uncacheAfterWrite, true⟩ root none with
          | .ok o2 =>
            some ⟨db.mem.length, o1.err, o1.db.mem.length, readsBack o1.db.node root, o2.err,
              o2.db.disk.length, readsBack o2.db.fresh.node root⟩
          | _ => none
        | _ => none
      | _ => none
    | _ => none
  | _ => none

/-- the code as it is: the failed flush keeps the three pool nodes, the trie stays readable, the retry
    writes the three nodes, a fresh TrieDatabase serves the trie -/
theorem two_phase_commit_survives_fault : faultDemo true = some ⟨3, true, 3, true, false, 3, true⟩ := by decide

/-- **uncache_while_batching_loses_reads** (REFUTATION of `failed_flush_keeps_pool` / `failed_flush_reads`
    for the variant): after ONE failed flush the pool is empty although nothing reached the key-value
    store — re-opening the root through the same TrieDatabase is a `MissingNodeError`. -/
theorem uncache_while_batching_loses_reads :
    (faultDemo false).map (fun d => (d.pool, d.err1, d.poolAfter, d.readable)) = some (3, true, 0, false) := by
  decide

/-- **uncache_while_batching_retry_lost** (REFUTATION of `flush_retry_eq` /
    `flush_retry_reopen_fresh` for the variant): the retried flush finds the root absent from the pool,
    takes it for already committed, returns nil and writes NOTHING; a fresh TrieDatabase over the disk
    cannot open the trie. -/
theorem uncache_while_batching_retry_lost :
    (faultDemo false).map (fun d => (d.err2, d.wrote, d.fresh)) = some (false, 0, false) := by decide

/-! ### `DownClosed` is what a post-order walk gives: every PREFIX of the visit sequence of
    `TrieDatabase.commit` is closed under the recorded pool children -/

def ClosedIn (mem : List (Hash × MemNode)) (pre : List Hash) : Prop :=
  ∀ y, y ∈ pre → ∀ my, lookupH mem y = some my → ∀ x, x ∈ my.children → lookupH mem x ≠ none → x ∈ pre

def PrefClosed (mem : List (Hash × MemNode)) (l : List Hash) : Prop :=
  ∀ pre suf, l = pre ++ suf → ClosedIn mem pre

theorem prefClosed_nil (mem : List (Hash × MemNode)) : PrefClosed mem [] := by
  intro pre suf h y hy
  have : pre = [] := (List.append_eq_nil_iff.mp h.symm).1
  rw [this] at hy; cases hy

theorem prefClosed_append {mem : List (Hash × MemNode)} {a r : List Hash} (ha : PrefClosed mem a)
    (hr : PrefClosed mem r) : PrefClosed mem (a ++ r) := by
  intro pre suf h
  rcases List.append_eq_append_iff.mp h with ⟨a', e1, e2⟩ | ⟨c', e1, _⟩
  · subst e1
    intro y hy my hmy x hx hxm
    rcases List.mem_append.mp hy with hy | hy
    · exact List.mem_append_left _ (ha a [] (by simp) y hy my hmy x hx hxm)
    · exact List.mem_append_right _ (hr a' suf e2 y hy my hmy x hx hxm)
  · exact ha pre c' e1

theorem foldReach_prefClosed (mem : List (Hash × MemNode)) (fuel : Nat)
    (ih : ∀ c lc, reach mem fuel c = some lc → PrefClosed mem lc) : ∀ (cs a L : List Hash),
    foldReach mem fuel (some a) cs = some L → PrefClosed mem a → PrefClosed mem L := by
  intro cs
  induction cs with
  | nil =>
    intro a L h ha
    simp only [foldReach, List.foldl_nil, Option.some.injEq] at h
    subst h; exact ha
  | cons c cs ihc =>
    intro a L h ha
    cases hr : reach mem fuel c with
    | none =>
      have : foldReach mem fuel (some a) (c :: cs) = foldReach mem fuel none cs := by
        simp [foldReach, hr]
      rw [this, foldReach_none] at h; cases h
    | some r =>
      have : foldReach mem fuel (some a) (c :: cs) = foldReach mem fuel (some (a ++ r)) cs := by
        simp [foldReach, hr]
      rw [this] at h
      exact ihc (a ++ r) L h (prefClosed_append ha (ih c r hr))

theorem reach_prefClosed (mem : List (Hash × MemNode)) : ∀ (fuel : Nat) (h : Hash) (l : List Hash),
    reach mem fuel h = some l → PrefClosed mem l := by
  intro fuel
  induction fuel with
  | zero => intro h l hr; cases hr
  | succ fuel ih =>
    intro h l hr
    have hspec := reach_spec mem (fuel + 1) h l hr
    rw [reach_succ] at hr
    cases hm : lookupH mem h with
    | none =>
      rw [hm] at hr
      simp only [Option.some.injEq] at hr
      subst hr; exact prefClosed_nil mem
    | some m =>
      rw [hm] at hr
      simp only [Option.map_eq_some_iff] at hr
      obtain ⟨L, hL, e⟩ := hr
      subst e
      have hPL : PrefClosed mem L :=
        foldReach_prefClosed mem fuel (fun c lc hc => ih c lc hc) m.children [] L hL (prefClosed_nil mem)
      intro pre suf hps
      rcases List.append_eq_append_iff.mp hps with ⟨a', e1, e2⟩ | ⟨c', e1, _⟩
      · cases a' with
        | nil => rw [e1, List.append_nil]; exact hPL L [] (by simp)
        | cons z a'' =>
          have hz : a'' = [] ∧ suf = [] := by
            have hlen := congrArg List.length e2
            simp only [List.length_cons, List.length_nil, List.length_append] at hlen
            constructor
            · exact List.eq_nil_of_length_eq_zero (by omega)
            · exact List.eq_nil_of_length_eq_zero (by omega)
          have hpre : pre = L ++ [h] := by
            rw [hps, hz.2, List.append_nil]
          rw [hpre]
          exact fun y hy my hmy x hx hxm => hspec.2.2 y hy my hmy x hx hxm
      · exact hPL pre c' e1

/-- **flush_prefix_downclosed**: whatever prefix of the puts of `TrieDatabase.commit(root)` had reached
    the key-value store when a later batch failed, it satisfies the hypothesis of
    `failed_flush_keeps_dbok` (children are put before their parent). -/
theorem flush_prefix_downclosed (db : Db) (root : Hash) (hs : List Hash)
    (h : reach db.mem (db.mem.length + 1) root = some hs) (k : Nat) : DownClosed db (hs.take k) := by
  intro x hx m hm y hy hym
  exact reach_prefClosed db.mem _ root hs h (hs.take k) (hs.drop k) (List.take_append_drop k hs).symm
    x hx m hm y hy hym

/-! ### histories over the POOL: trie operations, succeeding and FAILING flushes, fresh re-openings -/

/-- one step of a history on a trie over a `TrieDatabase` (pool + key-value store) -/
inductive DOp where
  | trie (op : SOp)                            -- as in `mixed_run_simulates`; `Commit` writes go to the pool
  | flush (root : Hash) (f : Option Fault)     -- `TrieDatabase.Commit(root)`; `some f`: a batch write fails
  | reopenFresh                                -- `Trie.Commit`, `TrieDatabase.Commit(root)`, a NEW `TrieDatabase`
                                               -- over the same key-value store, `trie.New(root)`

def DOp.key? : DOp → Option (List Nib)
  | .trie op => op.key?
  | _ => none

def DOp.mut? : DOp → Option Op
  | .trie op => op.mut?
  | _ => none

def mutsD (ops : List DOp) : List Op := ops.filterMap DOp.mut?

structure DSt where
  t : Trie
  db : Db

def liftT (db : Db) : Res Trie → Res DSt
  | .ok t => .ok ⟨t, db⟩
  | .missing h => .missing h
  | .panic => .panic
  | .overflow => .overflow

section runsD
variable (small : CNode → Bool) (hashOf : CNode → Hash) (fuel : Nat)

def stepD (st : DSt) : DOp → Res DSt
  | .trie (.put k v) => liftT st.db (st.t.update st.db.node fuel k v)
  | .trie (.del k) => liftT st.db (st.t.remove st.db.node fuel k)
  | .trie (.get k) =>
    match st.t.get st.db.node fuel k with
    | .ok (_, t) => .ok ⟨t, st.db⟩
    | .missing h => .missing h
    | .panic => .panic
    | .overflow => .overflow
  | .trie .commit =>
    match st.t.commit small hashOf with
    | .ok (_, t, ws) => .ok ⟨t, st.db.insertAll ws⟩
    | .missing h => .missing h
    | .panic => .panic
    | .overflow => .overflow
  | .trie .hash =>
    match st.t.hash small hashOf with
    | .ok (_, t) => .ok ⟨t, st.db⟩
    | .missing h => .missing h
    | .panic => .panic
    | .overflow => .overflow
  | .trie .reopen =>
    match st.t.commit small hashOf with
    | .ok (h, t, ws) =>
      match Trie.new hashOf (st.db.insertAll ws).node h with
      | .ok t2 => .ok ⟨{ t2 with cachelimit := t.cachelimit }, st.db.insertAll ws⟩
      | .missing h => .missing h
      | .panic => .panic
      | .overflow => .overflow
    | .missing h => .missing h
    | .panic => .panic
    | .overflow => .overflow
  | .trie (.limit l) => .ok ⟨{ st.t with cachelimit := l }, st.db⟩
  | .flush root f =>
    match st.db.flush {} root f with
    | .ok out => .ok ⟨st.t, out.db⟩
    | .missing h => .missing h
    | .panic => .panic
    | .overflow => .overflow
  | .reopenFresh =>
    match st.t.commit small hashOf with
    | .ok (h, t, ws) =>
      match (st.db.insertAll ws).flush {} h none with
      | .ok out =>
        match Trie.new hashOf out.db.fresh.node h with
        | .ok t2 => .ok ⟨{ t2 with cachelimit := t.cachelimit }, out.db.fresh⟩
        | .missing h => .missing h
        | .panic => .panic
        | .overflow => .overflow
      | .missing h => .missing h
      | .panic => .panic
      | .overflow => .overflow
    | .missing h => .missing h
    | .panic => .panic
    | .overflow => .overflow

def runD : DSt → List DOp → Res DSt
  | st, [] => .ok st
  | st, op :: ops =>
    match stepD small hashOf fuel st op with
    | .ok st' => runD st' ops
    | .missing h => .missing h
    | .panic => .panic
    | .overflow => .overflow

/-- the invariant of a history: pool invariant, content-addressed view, the trie abstracts to `n` -/
structure DInv (st : DSt) (n : Node) : Prop where
  ok : DbOk hashOf st.db
  sound : Sound hashOf st.db.node
  canon : Canon n
  abs : Abs small hashOf st.db.node st.t.root n

/-- the side condition of a failing flush: what had been written is closed under pool children
    (`flush_prefix_downclosed`: true of every prefix of the walk; `[]` when everything fits one batch) -/
def FaultOk (st : DSt) : DOp → Prop
  | .flush _ (some f) => ∀ w, f.wrote? = some w → DownClosed st.db w
  | _ => True

/-- along a history: every failing flush satisfies `FaultOk` in the state it is issued in -/
def FaultsOk : DSt → List DOp → Prop
  | _, [] => True
  | st, op :: ops => FaultOk st op ∧ ∀ st', stepD small hashOf fuel st op = .ok st' → FaultsOk st' ops

def DOp.isFlush : DOp → Bool
  | .flush _ _ => true
  | .reopenFresh => true
  | _ => false

theorem commit_ok_or_overflow (db : Db) (root : Hash) :
    (∃ d, db.commit root = .ok d) ∨ db.commit root = .overflow := by
  unfold Db.commit
  cases reach db.mem (db.mem.length + 1) root with
  | none => exact Or.inr rfl
  | some hs => exact Or.inl ⟨_, rfl⟩

theorem flushWrite_ok_or_overflow (ua : Bool) (db : Db) (root : Hash) (w : Option (List Hash)) :
    (∃ d, db.flushWrite ua root w = .ok d) ∨ db.flushWrite ua root w = .overflow := by
  unfold Db.flushWrite
  cases reach db.mem (db.mem.length + 1) root with
  | none => exact Or.inr rfl
  | some hs => cases w <;> exact Or.inl ⟨_, rfl⟩

/-- `TrieDatabase.Commit` returns (with or without error) or meets the open `overflow` -/
theorem flush_ok_or_overflow (c : FlushCode) (db : Db) (root : Hash) (f : Option Fault) :
    (∃ out, db.flush c root f = .ok out) ∨ db.flush c root f = .overflow := by
  cases f with
  | none =>
    rcases flushWrite_ok_or_overflow c.uncacheAfterWrite db root none with ⟨d, h⟩ | h
    · exact Or.inl ⟨⟨d, false, 0⟩, by simp only [Db.flush, h]⟩
    · exact Or.inr (by simp only [Db.flush, h])
  | some f =>
    cases f with
    | preimage => exact Or.inl ⟨_, rfl⟩
    | node w =>
      rcases flushWrite_ok_or_overflow c.uncacheAfterWrite db root (some w) with ⟨d, h⟩ | h
      · exact Or.inl ⟨⟨d, true, 0⟩, by simp only [Db.flush, h]⟩
      · exact Or.inr (by simp only [Db.flush, h])
    | final w =>
      rcases flushWrite_ok_or_overflow c.uncacheAfterWrite db root (some w) with ⟨d, h⟩ | h
      · exact Or.inl ⟨⟨d, true, 0⟩, by simp only [Db.flush, h]⟩
      · exact Or.inr (by simp only [Db.flush, h])

theorem fresh_inv {db : Db} (hOk : DbOk hashOf db) : DbOk hashOf db.fresh ∧ Sound hashOf db.fresh.node :=
  ⟨⟨fun h m hm => (by cases hm), fun h m hm => (by cases hm), hOk.disk, hOk.dsound⟩,
    fun h c hc => hOk.dsound h c hc⟩

/-- one step of a history over the pool: it is simulated by the content-changing part of the step and
    keeps the invariant; the ONLY other outcome is the open `overflow` of `TrieDatabase.commit`'s
    recursion, at a flush -/
theorem stepD_sim (hH : HashOk hashOf) (hz : ∀ c, hashOf c ≠ zeroHash)
    (hsmall : ∀ m : Node, small (refKids (baseH small hashOf) m) = true → noHashC (refKids (baseH small hashOf) m))
    (L : Nat) (hf : 2 * L + 2 ≤ fuel) (st : DSt) (n : Node) (op : DOp) (hI : DInv small hashOf st n)
    (hk : ∀ k, op.key? = some k → TermKey k ∧ k.length ≤ L) (hw : FaultOk st op) :
    (∃ st' n', stepD small hashOf fuel st op = .ok st' ∧ run n (mutsD [op]) = some n' ∧
      DInv small hashOf st' n') ∨
    (stepD small hashOf fuel st op = .overflow ∧ op.isFlush = true) := by
  obtain ⟨hOk, hS, hC, hA⟩ := hI
  cases op with
  | trie op =>
    left
    cases op with
    | put k v =>
      obtain ⟨hk1, hk2⟩ := hk k rfl
      obtain ⟨t', n', h1, h2, h3, h4⟩ := update_step small hashOf fuel v hA hC hk1 (by omega)
      exact ⟨⟨t', st.db⟩, n', by simp only [stepD, h1, liftT],
        by simp [mutsD, DOp.mut?, SOp.mut?, run, stepOp, h2], hOk, hS, h3, h4⟩
    | del k =>
      obtain ⟨hk1, hk2⟩ := hk k rfl
      obtain ⟨t', n', h1, h2, h3, h4⟩ := remove_step small hashOf fuel hA hC hk1 (by omega)
      exact ⟨⟨t', st.db⟩, n', by simp only [stepD, h1, liftT],
        by simp [mutsD, DOp.mut?, SOp.mut?, run, stepOp, h2], hOk, hS, h3, h4⟩
    | get k =>
      obtain ⟨hk1, hk2⟩ := hk k rfl
      obtain ⟨hP, hN, _⟩ := canon_placed_nes n hC
      rcases commit_reopen_get small hashOf st.db.node st.t n k fuel hA hP hN (by omega) with
        ⟨h1, _⟩ | ⟨t', h1, h2, _⟩
      · exact absurd h1 (get_no_panic n k hC hk1)
      · exact ⟨⟨t', st.db⟩, n, by simp only [stepD, h1], rfl, hOk, hS, hC, h2⟩
    | commit =>
      obtain ⟨t', ws, h1, h2, h3, _, h5, _⟩ := db_commit_keeps_invariant small hashOf hH st.db hOk hS st.t n hA hC
      exact ⟨⟨t', st.db.insertAll ws⟩, n, by simp only [stepD, h1], rfl, h2, h3, hC, h5⟩
    | hash =>
      obtain ⟨t', h1, h2, _⟩ := hash_inv small hashOf hA hC
      exact ⟨⟨t', st.db⟩, n, by simp only [stepD, h1], rfl, hOk, hS, hC, h2⟩
    | reopen =>
      obtain ⟨t', ws, h1, h2, h3, _, _, h6, h7⟩ :=
        db_commit_keeps_invariant small hashOf hH st.db hOk hS st.t n hA hC
      obtain ⟨t2, g1, g2, _⟩ := open_inv small hashOf hH hz hC h6 h7
      exact ⟨⟨{ t2 with cachelimit := t'.cachelimit }, st.db.insertAll ws⟩, n,
        by simp only [stepD, h1, g1], rfl, h2, h3, hC, g2⟩
    | limit l =>
      exact ⟨⟨{ st.t with cachelimit := l }, st.db⟩, n, rfl, rfl, hOk, hS, hC, hA⟩
  | flush root f =>
    cases f with
    | none =>
      rcases commit_ok_or_overflow st.db root with ⟨d, hd⟩ | hd
      · left
        obtain ⟨e1, e2⟩ := db_flush_transparent hashOf st.db d root hOk hS hd
        refine ⟨⟨st.t, d⟩, n, by simp only [stepD, flush_none_of_commit {} hd], rfl, e2, ?_, hC, ?_⟩
        · show Sound hashOf d.node
          rw [e1]; exact hS
        · show Abs small hashOf d.node st.t.root n
          rw [e1]; exact hA
      · right
        exact ⟨by simp only [stepD, Db.flush, flushWrite_none, hd], rfl⟩
    | some f =>
      rcases flush_ok_or_overflow {} st.db root (some f) with ⟨out, hfl⟩ | hfl
      · left
        obtain ⟨_, _, e3, _, e5, e6, _⟩ := failed_flush_keeps_pool small hashOf st.db root f out hfl
        have hok' := failed_flush_keeps_dbok hashOf st.db root f out hfl hOk hS hw
        exact ⟨⟨st.t, out.db⟩, n, by simp only [stepD, hfl], rfl, hok', e6 hS, hC, e5 _ _ hA⟩
      · right; exact ⟨by simp only [stepD, hfl], rfl⟩
  | reopenFresh =>
    obtain ⟨t', ws, h1, h2, h3, _, _, h6, h7⟩ :=
      db_commit_keeps_invariant small hashOf hH st.db hOk hS st.t n hA hC
    rcases commit_ok_or_overflow (st.db.insertAll ws) (refRoot (baseH small hashOf) n) with ⟨d, hd⟩ | hd
    · left
      obtain ⟨t2, g1, g2⟩ := flush_reopen_fresh small hashOf hH hz hsmall (st.db.insertAll ws) d h2 h3 n hC h6 h7 hd
      obtain ⟨_, e2⟩ := db_flush_transparent hashOf (st.db.insertAll ws) d _ h2 h3 hd
      obtain ⟨f1, f2⟩ := fresh_inv hashOf e2
      exact ⟨⟨{ t2 with cachelimit := t'.cachelimit }, d.fresh⟩, n,
        by simp only [stepD, h1, flush_none_of_commit {} hd, g1], rfl, f1, f2, hC, g2⟩
    · right
      exact ⟨by simp only [stepD, h1, Db.flush, flushWrite_none, hd], rfl⟩

end runsD

section historyD
variable (small : CNode → Bool) (hashOf : CNode → Hash) (fuel : Nat)

theorem mutsD_cons (op : DOp) (ops : List DOp) : mutsD (op :: ops) = mutsD [op] ++ mutsD ops := by
  simp only [mutsD, List.filterMap_cons, List.filterMap_nil]
  cases DOp.mut? op <;> simp

/-- **mixed_run_with_faults** (the history theorem over the POOL, failing flushes included): a history of
    updates, deletes, reads, `Trie.Commit`s into the pool, hash calls, cache-limit changes, re-openings by
    root through the same TrieDatabase, `TrieDatabase.Commit`s of ANY root that succeed or FAIL (fault at
    the preimage flush, at an intermediate node flush, at the final write; any children-closed part
    already written) and re-openings through a FRESH TrieDatabase over the key-value store — in any
    order, retries included — never meets a `MissingNodeError` or a panic; when it runs to the end the
    pool invariant holds, the store view is content-addressed and the final partially resolved trie
    abstracts to the resolved trie obtained by running only the updates and deletes.  The only other
    outcome is the open `overflow` of `TrieDatabase.commit`'s recursion at a flush (`stepD_sim`). -/
theorem mixed_run_with_faults (hH : HashOk hashOf) (hz : ∀ c, hashOf c ≠ zeroHash)
    (hsmall : ∀ m : Node, small (refKids (baseH small hashOf) m) = true → noHashC (refKids (baseH small hashOf) m))
    (L : Nat) (hf : 2 * L + 2 ≤ fuel) : ∀ (ops : List DOp) (st : DSt) (n : Node),
    DInv small hashOf st n →
    (∀ op, op ∈ ops → ∀ k, op.key? = some k → TermKey k ∧ k.length ≤ L) →
    FaultsOk small hashOf fuel st ops →
    match runD small hashOf fuel st ops with
    | .ok st' => ∃ n', run n (mutsD ops) = some n' ∧ DInv small hashOf st' n'
    | .overflow => True
    | .missing _ => False
    | .panic => False := by
  intro ops
  induction ops with
  | nil => intro st n hI _ _; exact ⟨n, rfl, hI⟩
  | cons op ops ih =>
    intro st n hI hk hfo
    rcases stepD_sim small hashOf fuel hH hz hsmall L hf st n op hI (hk op List.mem_cons_self) hfo.1 with
      ⟨st1, n1, h1, h2, hI1⟩ | ⟨h1, _⟩
    · have hrec := ih st1 n1 hI1 (fun o ho => hk o (List.mem_cons_of_mem _ ho)) (hfo.2 st1 h1)
      have hrun : runD small hashOf fuel st (op :: ops) = runD small hashOf fuel st1 ops := by
        simp only [runD, h1]
      rw [hrun]
      cases hr : runD small hashOf fuel st1 ops with
      | ok st2 =>
        rw [hr] at hrec
        obtain ⟨n2, g1, g2⟩ := hrec
        refine ⟨n2, ?_, g2⟩
        rw [mutsD_cons, run_append, h2]
        exact g1
      | overflow => trivial
      | missing x => rw [hr] at hrec; exact hrec
      | panic => rw [hr] at hrec; exact hrec
    · have hrun : runD small hashOf fuel st (op :: ops) = .overflow := by simp only [runD, h1]
      rw [hrun]; trivial

theorem dinv_empty (limit : Nat) : DInv small hashOf ⟨{ cachelimit := limit }, {}⟩ .empty :=
  ⟨dbOk_empty hashOf, fun h c hc => (by cases hc), .empty, .empty true⟩

theorem mutsD_keys {ops : List DOp} {L : Nat}
    (hk : ∀ op, op ∈ ops → ∀ k, op.key? = some k → TermKey k ∧ k.length ≤ L) :
    ∀ m, m ∈ mutsD ops → TermKey m.key := by
  intro m hm
  simp only [mutsD, List.mem_filterMap] at hm
  obtain ⟨op, hop, hm⟩ := hm
  cases op with
  | trie o =>
    cases o <;> simp [DOp.mut?, SOp.mut?] at hm
    · subst hm; exact (hk _ hop _ rfl).1
    · subst hm; exact (hk _ hop _ rfl).1
  | flush r f => simp [DOp.mut?] at hm
  | reopenFresh => simp [DOp.mut?] at hm

/-- **faulty_run_reads_last_write**: from the empty trie over an empty TrieDatabase, after any history
    with failing flushes and retries that ran to the end, `TryGet` returns for every key the last value
    written (`none` if never written, deleted or last written empty) — no `MissingNodeError`. -/
theorem faulty_run_reads_last_write (hH : HashOk hashOf) (hz : ∀ c, hashOf c ≠ zeroHash)
    (hsmall : ∀ m : Node, small (refKids (baseH small hashOf) m) = true → noHashC (refKids (baseH small hashOf) m))
    (L : Nat) (hf : 2 * L + 2 ≤ fuel) (ops : List DOp) (limit : Nat)
    (hk : ∀ op, op ∈ ops → ∀ k, op.key? = some k → TermKey k ∧ k.length ≤ L)
    (hfo : FaultsOk small hashOf fuel ⟨{ cachelimit := limit }, {}⟩ ops) (st' : DSt)
    (hrun : runD small hashOf fuel ⟨{ cachelimit := limit }, {}⟩ ops = .ok st')
    (k : List Nib) (hk1 : TermKey k) (hk2 : k.length ≤ L) :
    ∃ t'', st'.t.get st'.db.node fuel k = .ok (spec (fun _ => none) (mutsD ops) k, t'') := by
  have h := mixed_run_with_faults small hashOf fuel hH hz hsmall L hf ops _ .empty
    (dinv_empty small hashOf limit) hk hfo
  rw [hrun] at h
  obtain ⟨n', a2, _, _, a3, a5⟩ := h
  obtain ⟨m, c1, _, c3⟩ := run_spec (mutsD ops) .empty (fun _ => none) .empty
    (fun k _ => by simp [Mpt.get, toRes]) (mutsD_keys hk)
  rw [a2] at c1
  simp only [Option.some.injEq] at c1
  subst c1
  obtain ⟨hP, hN, _⟩ := canon_placed_nes n' a3
  rcases commit_reopen_get small hashOf st'.db.node st'.t n' k fuel a5 hP hN (by omega) with
    ⟨h1, _⟩ | ⟨t'', h1, _⟩
  · exact absurd h1 (get_no_panic n' k a3 hk1)
  · refine ⟨t'', ?_⟩
    rw [h1, c3 k hk1]
    cases spec (fun _ => none) (mutsD ops) k <;> rfl

/-- **no_missing_node_with_faults**: from the empty trie over an empty TrieDatabase no history with
    failing flushes, retries and fresh re-openings ever meets a `MissingNodeError` or a panic. -/
theorem no_missing_node_with_faults (hH : HashOk hashOf) (hz : ∀ c, hashOf c ≠ zeroHash)
    (hsmall : ∀ m : Node, small (refKids (baseH small hashOf) m) = true → noHashC (refKids (baseH small hashOf) m))
    (L : Nat) (hf : 2 * L + 2 ≤ fuel) (ops : List DOp) (limit : Nat)
    (hk : ∀ op, op ∈ ops → ∀ k, op.key? = some k → TermKey k ∧ k.length ≤ L)
    (hfo : FaultsOk small hashOf fuel ⟨{ cachelimit := limit }, {}⟩ ops) :
    (∀ x, runD small hashOf fuel ⟨{ cachelimit := limit }, {}⟩ ops ≠ .missing x) ∧
    runD small hashOf fuel ⟨{ cachelimit := limit }, {}⟩ ops ≠ .panic := by
  have h := mixed_run_with_faults small hashOf fuel hH hz hsmall L hf ops _ .empty
    (dinv_empty small hashOf limit) hk hfo
  constructor
  · intro x e; rw [e] at h; exact h
  · intro e; rw [e] at h; exact h

end historyD

/-! ### non-vacuity: a history with a failing flush, a retry and a fresh re-opening runs to the end -/

/-- a fault that hit before anything reached the key-value store (preimage flush, or one batch) -/
def DOp.singleBatch : DOp → Prop
  | .flush _ (some f) => f.wrote? = none ∨ f.wrote? = some []
  | _ => True

/-- the side condition `FaultsOk` holds unconditionally for histories whose faults hit single-batch
    flushes (nothing written before the fault) -/
theorem faultsOk_single_batch (small : CNode → Bool) (hashOf : CNode → Hash) (fuel : Nat) :
    ∀ (ops : List DOp) (st : DSt), (∀ op, op ∈ ops → op.singleBatch) → FaultsOk small hashOf fuel st ops := by
  intro ops
  induction ops with
  | nil => intro _ _; trivial
  | cons op ops ih =>
    intro st h
    refine ⟨?_, fun st' _ => ih st' (fun o ho => h o (List.mem_cons_of_mem _ ho))⟩
    have h1 := h op List.mem_cons_self
    cases op with
    | trie o => trivial
    | reopenFresh => trivial
    | flush r f =>
      cases f with
      | none => trivial
      | some f =>
        intro w hw
        rcases h1 with h1 | h1
        · rw [h1] at hw; cases hw
        · rw [h1] at hw
          simp only [Option.some.injEq] at hw
          subst hw
          exact downClosed_nil st.db

def demoPrefix : List DOp :=
  [.trie (.put (hexKey [0x12]) [1]), .trie (.put (hexKey [0x34]) [2]), .trie .commit]

/-- the root the demo history flushes: the committed root of the two-key trie -/
def demoRoot : Hash :=
  match runD (fun _ => false) serH 50 ⟨{}, {}⟩ demoPrefix with
  | .ok st =>
    match st.t.hash (fun _ => false) serH with
    | .ok (h, _) => h
    | _ => []
  | _ => []

def demoOps : List DOp :=
  demoPrefix ++ [.flush demoRoot (some (.final [])), .trie (.get (hexKey [0x12])),
    .flush demoRoot (some .preimage), .flush demoRoot none, .reopenFresh, .trie (.get (hexKey [0x34]))]

/-- the demo history (failed final write, failed preimage flush, successful retry, fresh re-opening)
    runs to the end with an empty pool and three nodes on disk -/
example : (match runD (fun _ => false) serH 50 ⟨{}, {}⟩ demoOps with
    | .ok st => (st.db.mem.length, st.db.disk.length)
    | _ => (99, 99)) = (0, 3) := by decide

example : FaultsOk (fun _ => false) serH 50 ⟨{}, {}⟩ demoOps :=
  faultsOk_single_batch _ _ _ _ _ (by
    intro op hop
    simp only [demoOps, demoPrefix, List.cons_append, List.nil_append, List.mem_cons, List.mem_nil_iff, or_false] at hop
    rcases hop with h | h | h | h | h | h | h | h | h <;> subst h <;>
      first | trivial | exact Or.inr rfl | exact Or.inl rfl)

end LemoProofs.C17

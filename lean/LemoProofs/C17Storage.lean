/-
  C17 (part E) — `chain/account.StorageCache` (/repo/chain/account/account.go:36-186), the cache in
  front of the contract-storage / asset / equity `SecureTrie` of an account.

  Model `LemoModel.StorageCache`: `cached` / `dirty` maps, the trie handle, the node pool of the
  cache's `TrieDatabase`, over the partially resolved trie of part C (`LemoModel.MptStore`).
  The iteration order of `for key, value := range cache.dirty` is the explicit parameter `order`.

  Hypotheses (`EnvOk env U`, LemoProofs.StorageCacheLemmas): `HashOk` and `no node hashes to the zero
  hash` as in part C; Keccak256 on storage keys (`env.hk`) collision-free ON THE KEYS IN USE `U` and
  byte valued; stack deep enough; for reads through a FRESH cache additionally `embedded ⇒ no hash
  inside` (proved for the real threshold: `rlp_small_embeds_no_hash`).
  State hypothesis `Ready env disk sc root n`: pool + key-value store are a sound node database
  (`DbOk`, `Sound`: true of the empty database, preserved by `Save`), a loaded trie handle abstracts to
  the canonical resolved trie `n` (`Abs`), an unloaded one has a `root` that opens to `n` (the zero
  hash: the empty trie).  `valOf env n k` = the bytes `TryGet` returns for key `k` on `n`.

  Quantifiers: all cache states of the abstraction, all key sets in `U`, all values (empty, all-zero,
  leading zeros, any length), ALL iteration orders, all finite sequences of SetState/DelState/GetState.
-/
import LemoModel.StorageCache
import LemoProofs.Lemmas.StorageCache
import LemoProofs.C17Store
namespace LemoProofs.C17
open LemoModel LemoModel.Mpt LemoModel.MptStore LemoModel.StorageCache
open LemoProofs.MptLemmas LemoProofs.MptStoreLemmas LemoProofs.MptDbLemmas LemoProofs.StorageCacheLemmas

section storage
variable {env : Env} {U : Key → Prop}

/-! ### `Update`: the content it builds, for any iteration order -/

/-- **update_content**: `Update(root)` with ANY iteration order that visits every dirty key succeeds
    (no `MissingNodeError`, no panic), empties the dirty map, leaves `cached` and the pool alone, and the
    trie afterwards holds, for every key in use, `TrimLeft(value, 0)` of its dirty entry (nothing if that
    is empty: all-zero and empty values DELETE) and the old trie value for every other key.  The
    returned root is the root hash of that content — or the zero hash when the short cut
    `root == Hash{} && len(dirty) == 0` was taken (then nothing changed at all). -/
theorem update_content (hE : EnvOk env U) {disk : Disk} {sc : SC} {root : Hash} {n : Node}
    (hR : Ready env disk sc root n) (hU : ∀ k v, sget sc.dirty k = some v → U k)
    (order : List Key) (hcov : ∀ k v, sget sc.dirty k = some v → k ∈ order) :
    ∃ r sc' n', StorageCache.update env disk sc root order = (sc', .ok r) ∧
      sc'.dirty = [] ∧ sc'.cached = sc.cached ∧ sc'.mem = sc.mem ∧
      Ready env disk sc' r n' ∧
      ((r = zeroHash ∧ root = zeroHash ∧ sc.dirty = [] ∧ sc' = sc ∧ n' = n) ∨
        (r = refRoot (baseH env.small env.hashOf) n' ∧ r ≠ zeroHash ∧ sc'.trie ≠ none)) ∧
      ∀ k, U k → valOf env n' k = (match sget sc.dirty k with
        | some v => trimLeft v
        | none => valOf env n k) := by
  by_cases hs : root = zeroHash ∧ sc.dirty = []
  · refine ⟨zeroHash, sc, n, by simp [StorageCache.update, hs], hs.2, rfl, rfl, ?_, Or.inl ⟨rfl, hs.1, hs.2, rfl, rfl⟩, ?_⟩
    · rw [← hs.1]; exact hR
    · intro k _; simp [hs.2, sget]
  · obtain ⟨t', n', h1, h2, h3, h4, h5⟩ := update_spec hE hR hs hU order
    refine ⟨_, _, n', h1, foldl_sdel_nil order sc.dirty hcov, rfl, rfl,
      ready_of_loaded _ hR.dbok hR.sound h3 rfl h2, Or.inr ⟨rfl, refRoot_ne_zero hE.nz n' h3, by simp⟩, ?_⟩
    intro k hk
    cases hg : sget sc.dirty k with
    | some v =>
      simp only [valOf, h4 k v (hcov k v hg) hg]
      exact getD_getOpt_valRes _
    | none =>
      have := h5 (secKey env k) (secKey_term env k) (by
        intro k2 _ hs2 e
        obtain ⟨v2, hv2⟩ := Option.isSome_iff_exists.mp hs2
        have : k2 = k := secKey_inj hE (hU k2 v2 hv2) hk e
        subst this
        rw [hg] at hv2; cases hv2)
      simp only [valOf, this]

/-- **update_order_independent**: for ANY two iteration orders of the dirty map (each visiting every
    dirty key; repetitions and other keys allowed) `Update(root)` returns the SAME root and leaves caches
    that stand for the SAME content — whatever order the Go runtime picks for `range cache.dirty`. -/
theorem update_order_independent (hE : EnvOk env U) {disk : Disk} {sc : SC} {root : Hash} {n : Node}
    (hR : Ready env disk sc root n) (hU : ∀ k v, sget sc.dirty k = some v → U k)
    (o1 o2 : List Key) (h1 : ∀ k v, sget sc.dirty k = some v → k ∈ o1)
    (h2 : ∀ k v, sget sc.dirty k = some v → k ∈ o2) :
    ∃ r sc1 sc2 n', StorageCache.update env disk sc root o1 = (sc1, .ok r) ∧
      StorageCache.update env disk sc root o2 = (sc2, .ok r) ∧
      Ready env disk sc1 r n' ∧ Ready env disk sc2 r n' ∧
      sc1.dirty = [] ∧ sc2.dirty = [] ∧ sc1.cached = sc2.cached ∧ sc1.mem = sc2.mem := by
  by_cases hs : root = zeroHash ∧ sc.dirty = []
  · refine ⟨zeroHash, sc, sc, n, by simp [StorageCache.update, hs], by simp [StorageCache.update, hs], ?_, ?_,
      hs.2, hs.2, rfl, rfl⟩ <;> (rw [← hs.1]; exact hR)
  · obtain ⟨t1, n1, a1, a2, a3, a4, a5⟩ := update_spec hE hR hs hU o1
    obtain ⟨t2, n2, b1, b2, b3, b4, b5⟩ := update_spec hE hR hs hU o2
    have hn : n1 = n2 := by
      apply canon_ext n1 n2 a3 b3
      intro k' hk'
      by_cases hex : ∃ k v, sget sc.dirty k = some v ∧ secKey env k = k'
      · obtain ⟨k, v, hv, hk⟩ := hex
        subst hk
        rw [a4 k v (h1 k v hv) hv, b4 k v (h2 k v hv) hv]
      · have hno : ∀ (o : List Key) k, k ∈ o → (sget sc.dirty k).isSome → secKey env k ≠ k' := by
          intro o k _ hs2 e
          obtain ⟨v, hv⟩ := Option.isSome_iff_exists.mp hs2
          exact hex ⟨k, v, hv, e⟩
        rw [a5 k' hk' (hno o1), b5 k' hk' (hno o2)]
    subst hn
    exact ⟨_, _, _, n1, a1, b1, ready_of_loaded _ hR.dbok hR.sound a3 rfl a2,
      ready_of_loaded _ hR.dbok hR.sound a3 rfl b2,
      foldl_sdel_nil o1 sc.dirty h1, foldl_sdel_nil o2 sc.dirty h2, rfl, rfl⟩

/-- FULL statement (FALSE of the code, witness `update_empty_content_two_roots`): the root `Update`
    returns is a function of the resulting content alone.  **update_root_binds_content_partial**: for two
    caches — any stores, any histories, any iteration orders — that do not take the zero-root short
    cut, the returned roots are equal IF AND ONLY IF the resulting contents are equal.
    NOTE: `o1 o2` carry NO coverage hypothesis here: for an order that skips dirty keys the "resulting content" is the
    trie after a PARTIAL loop (`applyDirty` skips dirty keys not in the order — a totalisation; Go's `range` visits every
    key), so the statement also quantifies over runs the code never produces. -/
theorem update_root_binds_content_partial (hE : EnvOk env U)
    {disk1 disk2 : Disk} {sc1 sc2 : SC} {root1 root2 : Hash} {n1 n2 : Node}
    (hR1 : Ready env disk1 sc1 root1 n1) (hR2 : Ready env disk2 sc2 root2 n2)
    (hU1 : ∀ k v, sget sc1.dirty k = some v → U k) (hU2 : ∀ k v, sget sc2.dirty k = some v → U k)
    (hs1 : ¬ (root1 = zeroHash ∧ sc1.dirty = [])) (hs2 : ¬ (root2 = zeroHash ∧ sc2.dirty = []))
    (o1 o2 : List Key) :
    ∃ r1 r2 sc1' sc2' m1 m2, StorageCache.update env disk1 sc1 root1 o1 = (sc1', .ok r1) ∧
      StorageCache.update env disk2 sc2 root2 o2 = (sc2', .ok r2) ∧
      Ready env disk1 sc1' r1 m1 ∧ Ready env disk2 sc2' r2 m2 ∧
      (r1 = r2 ↔ ∀ k, TermKey k → Mpt.get m1 k = Mpt.get m2 k) := by
  obtain ⟨t1, m1, a1, a2, a3, _, _⟩ := update_spec hE hR1 hs1 hU1 o1
  obtain ⟨t2, m2, b1, b2, b3, _, _⟩ := update_spec hE hR2 hs2 hU2 o2
  exact ⟨_, _, _, _, m1, m2, a1, b1, ready_of_loaded _ hR1.dbok hR1.sound a3 rfl a2,
    ready_of_loaded _ hR2.dbok hR2.sound b3 rfl b2,
    root_binds_content env.small env.hashOf hE.hash m1 m2 a3 b3⟩

/-- `Update` with nothing dirty, outside the short cut: the loop does nothing, the result is the root
    hash of the content the cache stands for -/
theorem update_clean (hE : EnvOk env U) {disk : Disk} {sc : SC} {root : Hash} {n : Node}
    (hR : Ready env disk sc root n) (hd : sc.dirty = []) (hz : root ≠ zeroHash) (order : List Key) :
    ∃ t', StorageCache.update env disk sc root order =
        ({ sc with trie := some t', dirty := [] }, .ok (refRoot (baseH env.small env.hashOf) n)) ∧
      Abs env.small env.hashOf (sc.store disk) t'.root n := by
  have hU : ∀ k v, sget sc.dirty k = some v → U k := by intro k v h; rw [hd] at h; cases h
  obtain ⟨t', n', h1, h2, h3, _, h5⟩ := update_spec hE hR (fun h => hz h.1) hU order
  have hn : n' = n := by
    apply canon_ext n' n h3 hR.canon
    intro k' hk'
    exact h5 k' hk' (by intro k _ hs; rw [hd] at hs; simp [sget] at hs)
  subst hn
  have hf : order.foldl sdel sc.dirty = [] :=
    foldl_sdel_nil order sc.dirty (by intro k v h; rw [hd] at h; cases h)
  rw [hf] at h1
  exact ⟨t', h1, h2⟩

/-- **update_idempotent**: once `Update` has emptied the dirty map, a further `Update` with the root it
    returned (any iteration order) returns the same root and leaves a cache with the same maps that
    stands for the same content. -/
theorem update_idempotent (hE : EnvOk env U) {disk : Disk} {sc : SC} {root : Hash} {n : Node}
    (hR : Ready env disk sc root n) (hU : ∀ k v, sget sc.dirty k = some v → U k)
    (order : List Key) (hcov : ∀ k v, sget sc.dirty k = some v → k ∈ order) (order' : List Key) :
    ∃ r sc1 sc2 n', StorageCache.update env disk sc root order = (sc1, .ok r) ∧
      StorageCache.update env disk sc1 r order' = (sc2, .ok r) ∧
      Ready env disk sc1 r n' ∧ Ready env disk sc2 r n' ∧
      sc2.dirty = [] ∧ sc2.cached = sc1.cached ∧ sc2.mem = sc1.mem := by
  obtain ⟨r, sc1, n1, a1, a2, _, _, a5, a6, _⟩ := update_content hE hR hU order hcov
  by_cases hz : r = zeroHash
  · refine ⟨r, sc1, sc1, n1, a1, by simp [StorageCache.update, hz, a2], a5, a5, a2, rfl, rfl⟩
  · obtain ⟨t', b1, b2⟩ := update_clean hE a5 a2 hz order'
    rcases a6 with ⟨e, _⟩ | ⟨e, _, _⟩
    · exact absurd e hz
    · refine ⟨r, sc1, { sc1 with trie := some t', dirty := [] }, n1, a1, ?_, a5,
        ready_of_loaded _ a5.dbok a5.sound a5.canon rfl b2, rfl, rfl, rfl⟩
      rw [b1, ← e]

/-! ### `Save` -/

/-- **save_refuses_dirty**: with a pending write `Save` returns `ErrTrieChanged` and touches nothing
    (no hypothesis at all). -/
theorem save_refuses_dirty (env : Env) (disk : Disk) (sc : SC) (root : Hash) (h : sc.dirty ≠ []) :
    save env disk sc root = (disk, sc, .err .trieChanged) := by
  simp [save, h]

/-- **save_checks_root**: `Save(root) = nil` implies that the dirty map is empty and that — unless
    `root` is the zero hash, for which `Save` checks NOTHING (`save_zero_root_unchecked`) — `root` IS the
    root hash of the content the cache stands for, the key-value store afterwards serves that content to
    a FRESH cache opened at `root` (`Ready … SC.new root n`), and the saving cache still stands for it. -/
theorem save_checks_root (hE : EnvOk env U) {disk disk' : Disk} {sc sc' : SC} {root : Hash} {n : Node}
    (hR : Ready env disk sc root n) (h : save env disk sc root = (disk', sc', .ok ())) :
    sc.dirty = [] ∧
    ((root = zeroHash ∧ disk' = disk ∧ sc' = sc) ∨
     (root = refRoot (baseH env.small env.hashOf) n ∧ Ready env disk' SC.new root n ∧
      Ready env disk' sc' root n ∧ sc'.cached = sc.cached ∧ sc'.dirty = [])) := by
  by_cases hd : sc.dirty = []
  · refine ⟨hd, ?_⟩
    by_cases hz : root = zeroHash
    · left
      simp [save, hd, hz] at h
      exact ⟨hz, h.1.symm, h.2.symm⟩
    · right
      obtain ⟨t', ws, c1, c2, c3, c4, c5, c6, c7⟩ := save_spec hE hR hd hz
      rw [c7] at h
      by_cases hr : root = refRoot (baseH env.small env.hashOf) n
      · simp only [hr, ne_eq, not_true_eq_false, if_false] at h
        rcases db_commit_cases (Db.insertAll ⟨sc.mem, disk⟩ ws) (refRoot (baseH env.small env.hashOf) n) with
          ⟨db', hdb⟩ | hov
        · rw [hdb] at h
          simp only [Prod.mk.injEq] at h
          obtain ⟨e1, e2, _⟩ := h
          subst e1; subst e2
          obtain ⟨hOk', _, _⟩ := commit_ok c1 c2 hdb
          have hnode := commit_node hdb
          refine ⟨hr, ?_, ?_, rfl, hd⟩
          · rw [hr]; exact ready_fresh_after_flush hE c1 c2 hR.canon c5 c6 hdb
          · refine ready_of_loaded (t := t') _ hOk' ?_ hR.canon rfl ?_
            · show Sound env.hashOf db'.node
              rw [hnode]; exact c2
            · show Abs env.small env.hashOf db'.node t'.root n
              rw [hnode]; exact c4
        · rw [hov] at h
          simp at h
      · simp only [ne_eq, hr, not_false_eq_true, if_true] at h
        simp at h
  · rw [save_refuses_dirty env disk sc root hd] at h
    simp at h

/-- FULL statement (FALSE of the code, witness `save_zero_root_unchecked`): `Save(root) = nil` implies that
    `root` is the root hash of the cache's content.  **save_checks_root_partial**: it holds for every root
    but the zero hash, for which `Save` returns nil without looking at anything. -/
theorem save_checks_root_partial (hE : EnvOk env U) {disk disk' : Disk} {sc sc' : SC} {root : Hash} {n : Node}
    (hR : Ready env disk sc root n) (hz : root ≠ zeroHash) (h : save env disk sc root = (disk', sc', .ok ())) :
    sc.dirty = [] ∧ root = refRoot (baseH env.small env.hashOf) n ∧ Ready env disk' SC.new root n := by
  obtain ⟨h1, h2⟩ := save_checks_root hE hR h
  rcases h2 with ⟨e, _⟩ | ⟨e, hf, _⟩
  · exact absurd e hz
  · exact ⟨h1, e, hf⟩

/-- **save_refuses_other_root**: a non-zero `root` that is not the root hash of the content is refused
    with `ErrTrieChanged` — but only AFTER `tr.Commit`: the key-value store is untouched, the maps are
    untouched, the cache still stands for the same content (its pool and trie handle moved on). -/
theorem save_refuses_other_root (hE : EnvOk env U) {disk : Disk} {sc : SC} {root : Hash} {n : Node}
    (hR : Ready env disk sc root n) (hd : sc.dirty = []) (hz : root ≠ zeroHash)
    (hr : root ≠ refRoot (baseH env.small env.hashOf) n) :
    ∃ sc', save env disk sc root = (disk, sc', .err .trieChanged) ∧
      sc'.cached = sc.cached ∧ sc'.dirty = [] ∧ ∀ r, Ready env disk sc' r n := by
  obtain ⟨t', ws, c1, c2, c3, c4, _, _, c7⟩ := save_spec hE hR hd hz
  rw [if_pos hr] at c7
  refine ⟨_, c7, rfl, hd, fun r => ?_⟩
  refine ready_of_loaded (t := t') r ?_ ?_ hR.canon rfl ?_
  · show DbOk env.hashOf ⟨(Db.insertAll ⟨sc.mem, disk⟩ ws).mem, disk⟩
    have : (⟨(Db.insertAll ⟨sc.mem, disk⟩ ws).mem, disk⟩ : Db) = Db.insertAll ⟨sc.mem, disk⟩ ws := db_mk_eq c3
    rw [this]; exact c1
  · show Sound env.hashOf (Db.node ⟨(Db.insertAll ⟨sc.mem, disk⟩ ws).mem, disk⟩)
    have : (⟨(Db.insertAll ⟨sc.mem, disk⟩ ws).mem, disk⟩ : Db) = Db.insertAll ⟨sc.mem, disk⟩ ws := db_mk_eq c3
    rw [this]; exact c2
  · show Abs env.small env.hashOf (Db.node ⟨(Db.insertAll ⟨sc.mem, disk⟩ ws).mem, disk⟩) t'.root n
    have : (⟨(Db.insertAll ⟨sc.mem, disk⟩ ws).mem, disk⟩ : Db) = Db.insertAll ⟨sc.mem, disk⟩ ws := db_mk_eq c3
    rw [this]; exact c4

/-- **save_accepts_own_root** (completeness, up to the open termination of `TrieDatabase.commit`): with an
    empty dirty map the root hash of the content is accepted — the only other outcome is the explicit
    `overflow` of the pool walk. -/
theorem save_accepts_own_root (hE : EnvOk env U) {disk : Disk} {sc : SC} {n : Node}
    (hR : Ready env disk sc (refRoot (baseH env.small env.hashOf) n) n) (hd : sc.dirty = []) :
    (∃ disk' sc', save env disk sc (refRoot (baseH env.small env.hashOf) n) = (disk', sc', .ok ())) ∨
    (∃ sc', save env disk sc (refRoot (baseH env.small env.hashOf) n) = (disk, sc', .err .overflow)) := by
  obtain ⟨t', ws, _, _, _, _, _, _, c7⟩ := save_spec hE hR hd (refRoot_ne_zero hE.nz n hR.canon)
  rw [c7]
  simp only [ne_eq, not_true_eq_false, if_false]
  rcases db_commit_cases (Db.insertAll ⟨sc.mem, disk⟩ ws) (refRoot (baseH env.small env.hashOf) n) with
    ⟨db', hdb⟩ | hov
  · rw [hdb]; exact Or.inl ⟨_, _, rfl⟩
  · rw [hov]; exact Or.inr ⟨_, rfl⟩

/-- all outcomes of `Save(root)` with an empty dirty map and a non-zero root, with what the cache and a
    `Reset` cache stand for afterwards -/
theorem save_outcomes (hE : EnvOk env U) {disk : Disk} {sc : SC} {root : Hash} {n : Node}
    (hR : Ready env disk sc root n) (hd : sc.dirty = []) (hz : root ≠ zeroHash) :
    (root ≠ refRoot (baseH env.small env.hashOf) n ∧
      ∃ sc', save env disk sc root = (disk, sc', .err .trieChanged) ∧ sc'.cached = sc.cached ∧ sc'.dirty = [] ∧
        ∀ r, Ready env disk sc' r n) ∨
    (root = refRoot (baseH env.small env.hashOf) n ∧
      ((∃ disk' sc', save env disk sc root = (disk', sc', .ok ()) ∧ sc'.cached = sc.cached ∧ sc'.dirty = [] ∧
          (∀ r, Ready env disk' sc' r n) ∧ Ready env disk' SC.new root n ∧ Ready env disk' (reset sc') root n) ∨
       (∃ sc', save env disk sc root = (disk, sc', .err .overflow) ∧ sc'.cached = sc.cached ∧ sc'.dirty = [] ∧
          ∀ r, Ready env disk sc' r n))) := by
  obtain ⟨t', ws, c1, c2, c3, c4, c5, c6, c7⟩ := save_spec hE hR hd hz
  have hmk : (⟨(Db.insertAll ⟨sc.mem, disk⟩ ws).mem, disk⟩ : Db) = Db.insertAll ⟨sc.mem, disk⟩ ws := db_mk_eq c3
  have hkeep : ∀ r, Ready env disk { sc with trie := some t', mem := (Db.insertAll ⟨sc.mem, disk⟩ ws).mem } r n := by
    intro r
    refine ready_of_loaded (t := t') r ?_ ?_ hR.canon rfl ?_
    · show DbOk env.hashOf ⟨(Db.insertAll ⟨sc.mem, disk⟩ ws).mem, disk⟩
      rw [hmk]; exact c1
    · show Sound env.hashOf (Db.node ⟨(Db.insertAll ⟨sc.mem, disk⟩ ws).mem, disk⟩)
      rw [hmk]; exact c2
    · show Abs env.small env.hashOf (Db.node ⟨(Db.insertAll ⟨sc.mem, disk⟩ ws).mem, disk⟩) t'.root n
      rw [hmk]; exact c4
  by_cases hr : root = refRoot (baseH env.small env.hashOf) n
  · right
    refine ⟨hr, ?_⟩
    have hnr : ¬ root ≠ refRoot (baseH env.small env.hashOf) n := fun h => h hr
    rw [if_neg hnr] at c7
    rcases db_commit_cases (Db.insertAll ⟨sc.mem, disk⟩ ws) (refRoot (baseH env.small env.hashOf) n) with
      ⟨db', hdb⟩ | hov
    · left
      rw [hdb] at c7
      obtain ⟨hOk', _, _⟩ := commit_ok c1 c2 hdb
      have hnode := commit_node hdb
      have hS' : Sound env.hashOf db'.node := by rw [hnode]; exact c2
      refine ⟨db'.disk, _, c7, rfl, hd, fun r => ?_, ?_, ?_⟩
      · refine ready_of_loaded (t := t') r hOk' hS' hR.canon rfl ?_
        show Abs env.small env.hashOf db'.node t'.root n
        rw [hnode]; exact c4
      · rw [hr]; exact ready_fresh_after_flush hE c1 c2 hR.canon c5 c6 hdb
      · rw [hr]
        refine ready_of_stored hE (sc := reset _) hOk' hS' rfl hR.canon ?_ ?_
        · show Stored (baseH env.small env.hashOf) db'.node true n
          rw [hnode]; exact c5
        · show Closed (baseH env.small env.hashOf) db'.node n
          rw [hnode]; exact c6
    · right
      rw [hov] at c7
      exact ⟨_, c7, rfl, hd, hkeep⟩
  · left
    rw [if_pos hr] at c7
    exact ⟨hr, _, c7, rfl, hd, hkeep⟩

/-! ### reads -/

/-- **read_through**: a cache that stands for `n` and has nothing cached for `k` returns the trie's bytes
    for `k` (nil when absent), never an error. -/
theorem read_through (hE : EnvOk env U) {disk : Disk} {sc : SC} {root : Hash} {n : Node}
    (hR : Ready env disk sc root n) {k : Key} (hk : U k) (hc : sget sc.cached k = none) :
    ∃ sc', getState env disk sc root k = (sc', .ok (valOf env n k)) ∧ Ready env disk sc' root n ∧
      sc'.dirty = sc.dirty ∧ sc'.mem = sc.mem ∧
      (∀ k' v, sget sc'.cached k' = some v → sget sc.cached k' = some v ∨ (k' = k ∧ v = valOf env n k ∧ v ≠ [])) ∧
      (∀ k' v, sget sc.cached k' = some v → sget sc'.cached k' = some v) := by
  obtain ⟨t', h1, h2⟩ := getState_trie hE hR hk hc
  by_cases hv : valOf env n k = []
  · rw [if_pos hv] at h1
    exact ⟨_, h1, ready_of_loaded _ hR.dbok hR.sound hR.canon rfl h2, rfl, rfl,
      fun k' v h => Or.inl h, fun k' v h => h⟩
  · rw [if_neg hv] at h1
    refine ⟨_, h1, ready_of_loaded _ hR.dbok hR.sound hR.canon rfl h2, rfl, rfl, ?_, ?_⟩
    · intro k' v h
      simp only [sget_sset] at h
      by_cases e : k' = k
      · simp only [e, if_true, Option.some.injEq] at h
        exact Or.inr ⟨e, h.symm, by rw [← h]; exact hv⟩
      · simp only [e, if_false] at h; exact Or.inl h
    · intro k' v h
      simp only [sget_sset]
      by_cases e : k' = k
      · subst e; rw [hc] at h; cases h
      · simp [e, h]

/-- **update_save_fresh_read**: `Update` (any order), then `Save` of the returned root, then a FRESH
    cache (new `StorageCache`, new `TrieDatabase`) on the new key-value store at that root: for every key
    in use it reads `TrimLeft(value, 0)` of the entry that was dirty — so an all-zero or empty value reads
    as nil, a value with leading zero bytes comes back shorter — and the old trie value of every other
    key.  (`hroot`: the caller holds the root of its own trie: a zero root means an empty trie.) -/
theorem update_save_fresh_read (hE : EnvOk env U) {disk : Disk} {sc : SC} {root : Hash} {n : Node}
    (hR : Ready env disk sc root n) (hroot : root = zeroHash → n = .empty)
    (hU : ∀ k v, sget sc.dirty k = some v → U k)
    (order : List Key) (hcov : ∀ k v, sget sc.dirty k = some v → k ∈ order) :
    ∃ r sc1, StorageCache.update env disk sc root order = (sc1, .ok r) ∧
      ∀ disk' sc2, save env disk sc1 r = (disk', sc2, .ok ()) →
        ∀ k, U k → ∃ sc3, getState env disk' SC.new r k =
          (sc3, .ok (match sget sc.dirty k with
            | some v => trimLeft v
            | none => valOf env n k)) := by
  obtain ⟨r, sc1, n1, a1, a2, _, _, a5, a6, a7⟩ := update_content hE hR hU order hcov
  refine ⟨r, sc1, a1, ?_⟩
  intro disk' sc2 hs k hk
  obtain ⟨_, hcase⟩ := save_checks_root hE a5 hs
  have hfresh : Ready env disk' SC.new r n1 := by
    rcases hcase with ⟨hz, hdisk, _⟩ | ⟨_, hf, _⟩
    · -- the zero root: the short cut was taken, the content is the empty trie
      rcases a6 with ⟨_, hrz, _, _, hn⟩ | ⟨_, hne, _⟩
      · have hn1 : n1 = .empty := by rw [hn]; exact hroot hrz
        rw [hz, hn1, hdisk]
        exact ready_zero (by
          have := a5.dbok
          exact ⟨fun x m hm => (by cases hm), fun x m hm => (by cases hm), this.disk, this.dsound⟩)
          (by intro x c hx; exact a5.dbok.dsound x c hx) rfl
      · exact absurd hz hne
    · exact hf
  obtain ⟨sc3, h3, _⟩ := read_through hE hfresh hk rfl
  exact ⟨sc3, by rw [h3, a7 k hk]⟩

/-! ### the zero root and no-op writes (the fact behind /repo 3a69bc7) -/

/-- **update_zero_root_with_noop_dirty**: on the EMPTY storage (zero root, or a loaded empty trie) a dirty
    map that is not empty but holds only deletions — empty or all-zero values, e.g. the `SetState(key,
    old)` of an undone write — makes `Update` load the trie and return the EMPTY-TRIE root
    `emptyRoot = hashOf .empty` (Go: 0x56e81f17…), which is NOT the zero hash: the content is unchanged,
    the root is not.  (With an empty dirty map the short cut returns the zero hash: `update_content`.) -/
theorem update_zero_root_with_noop_dirty (hE : EnvOk env U) {disk : Disk} {sc : SC}
    (hR : Ready env disk sc zeroHash .empty) (hne : sc.dirty ≠ [])
    (hU : ∀ k v, sget sc.dirty k = some v → U k)
    (hnoop : ∀ k v, sget sc.dirty k = some v → trimLeft v = [])
    (order : List Key) (hcov : ∀ k v, sget sc.dirty k = some v → k ∈ order) :
    ∃ sc', StorageCache.update env disk sc zeroHash order = (sc', .ok (env.hashOf .empty)) ∧
      env.hashOf .empty ≠ zeroHash ∧ sc'.dirty = [] ∧ sc'.cached = sc.cached ∧
      Ready env disk sc' (env.hashOf .empty) .empty := by
  obtain ⟨t', n', h1, h2, h3, h4, h5⟩ := update_spec hE hR (fun h => hne h.2) hU order
  have hn : n' = .empty := by
    apply canon_ext n' .empty h3 .empty
    intro k' hk'
    by_cases hex : ∃ k v, sget sc.dirty k = some v ∧ secKey env k = k'
    · obtain ⟨k, v, hv, hk⟩ := hex
      subst hk
      rw [h4 k v (hcov k v hv) hv, hnoop k v hv]
      simp [valRes, Mpt.get]
    · exact h5 k' hk' (by
        intro k _ hs2 e
        obtain ⟨v, hv⟩ := Option.isSome_iff_exists.mp hs2
        exact hex ⟨k, v, hv, e⟩)
  subst hn
  exact ⟨_, h1, hE.nz _, foldl_sdel_nil order sc.dirty hcov, rfl,
    ready_of_loaded _ hR.dbok hR.sound .empty rfl h2⟩

/-- **revertState_restores**: `SetState(k, v)` followed by `RevertState(k, old)` on a slot that had no
    pending write, with `old` the value the slot showed before (what `GetState` returned: the cached
    bytes, or nil when nothing non-empty was cached), gives back the same `cached` and `dirty` maps —
    in particular nothing stays queued for the trie. -/
theorem revertState_restores (sc : SC) (k : Key) (v old : Bytes) (hd : sget sc.dirty k = none)
    (hc : (sget sc.cached k = some old ∧ old ≠ []) ∨ (sget sc.cached k = none ∧ old = [])) :
    (∀ k', sget (revertState (setState sc k v) k old).cached k' = sget sc.cached k') ∧
    (∀ k', sget (revertState (setState sc k v) k old).dirty k' = sget sc.dirty k') ∧
    (sc.dirty = [] → (revertState (setState sc k v) k old).dirty = []) ∧
    (revertState (setState sc k v) k old).trie = sc.trie ∧
    (revertState (setState sc k v) k old).mem = sc.mem := by
  refine ⟨?_, ?_, ?_, rfl, rfl⟩
  · intro k'
    rcases hc with ⟨h1, h2⟩ | ⟨h1, h2⟩
    · simp only [revertState, setState, if_neg h2, sget_sset]
      by_cases e : k' = k
      · simp [e, h1]
      · simp [e]
    · simp only [revertState, setState, h2, if_true, sget_sdel, sget_sset]
      by_cases e : k' = k
      · simp [e, h1]
      · simp [e]
  · intro k'
    simp only [revertState, setState, sget_sdel, sget_sset]
    by_cases e : k' = k
    · simp [e, hd]
    · simp [e]
  · intro h
    simp [revertState, setState, h, sset, sdel]

/-- the one case `revertState_restores` leaves out: an EMPTY value sitting in `cached` (written by
    `SetState(k, nil)` and flushed by `Update`) is dropped by `RevertState(k, nil)`; the next read goes to
    the trie (which holds nothing for `k` after that `Update`: `update_content`). -/
theorem revertState_drops_empty_cached (sc : SC) (k : Key) (v : Bytes) :
    sget (revertState (setState sc k v) k []).cached k = none := by
  simp [revertState, sget_sdel]

/-- what the undo did BEFORE /repo 3a69bc7 (`SetState(k, old)`): the slot stays dirty -/
theorem undo_by_setState_stays_dirty (sc : SC) (k : Key) (v old : Bytes) :
    sget (setState (setState sc k v) k old).dirty k = some old ∧ (setState (setState sc k v) k old).dirty ≠ [] := by
  constructor
  · simp [setState, sget_sset]
  · simp [setState, sset]

/-! ### reads return the last write -/

/-- the operations between two `Update`s -/
inductive ROp where
  | set (k : Key) (v : Bytes)     -- `SetState`
  | del (k : Key)                 -- `DelState`
  | get (k : Key)                 -- `GetState(root, k)` (loads the trie, fills `cached`)

def rstep (env : Env) (disk : Disk) (root : Hash) (sc : SC) : ROp → SC
  | .set k v => setState sc k v
  | .del k => delState sc k
  | .get k => (getState env disk sc root k).1

def rrun (env : Env) (disk : Disk) (root : Hash) (sc : SC) (ops : List ROp) : SC :=
  ops.foldl (rstep env disk root) sc

/-- the last `SetState` / `DelState` of `k` in a history: `none` = `k` was not written,
    `some none` = the last write is a `DelState`, `some (some v)` = a `SetState` with `v` -/
def lastWrite : List ROp → Key → Option (Option Bytes)
  | [], _ => none
  | op :: ops, k =>
    match lastWrite ops k with
    | some r => some r
    | none =>
      match op with
      | .set k' v => if k' = k then some (some v) else none
      | .del k' => if k' = k then some none else none
      | .get _ => none

/-- what a history of SetState / DelState / GetState does to the two maps at key `k` — over ANY store,
    damaged or not -/
theorem rrun_maps (env : Env) (disk : Disk) (root : Hash) : ∀ (ops : List ROp) (sc : SC) (k : Key),
    (∀ v, lastWrite ops k = some (some v) →
      sget (rrun env disk root sc ops).cached k = some v ∧ sget (rrun env disk root sc ops).dirty k = some v) ∧
    (lastWrite ops k = some none → sget (rrun env disk root sc ops).dirty k = none) ∧
    (lastWrite ops k = none →
      sget (rrun env disk root sc ops).dirty k = sget sc.dirty k ∧
      ∀ v, sget sc.cached k = some v → sget (rrun env disk root sc ops).cached k = some v) := by
  intro ops
  induction ops with
  | nil => intro sc k; simp [lastWrite, rrun]
  | cons op ops ih =>
    intro sc k
    have hrun : rrun env disk root sc (op :: ops) = rrun env disk root (rstep env disk root sc op) ops := rfl
    obtain ⟨i1, i2, i3⟩ := ih (rstep env disk root sc op) k
    rw [hrun]
    cases hl : lastWrite ops k with
    | some r =>
      have e : lastWrite (op :: ops) k = some r := by simp [lastWrite, hl]
      rw [e]
      refine ⟨fun v hv => i1 v (by rw [hl]; exact hv), fun hv => i2 (by rw [hl]; exact hv), fun hv => (by cases hv)⟩
    | none =>
      obtain ⟨j1, j2⟩ := i3 hl
      cases op with
      | set k' v' =>
        by_cases e : k' = k
        · subst e
          have e2 : lastWrite (ROp.set k' v' :: ops) k' = some (some v') := by simp [lastWrite, hl]
          rw [e2]
          refine ⟨fun v hv => ?_, fun hv => (by cases hv), fun hv => (by cases hv)⟩
          have : v' = v := by simpa using hv
          subst this
          exact ⟨j2 v' (by simp [rstep, setState, sget_sset]), by rw [j1]; simp [rstep, setState, sget_sset]⟩
        · have e2 : lastWrite (ROp.set k' v' :: ops) k = none := by simp [lastWrite, hl, e]
          rw [e2]
          have ne : ¬ k = k' := fun h => e h.symm
          refine ⟨fun v hv => (by cases hv), fun hv => (by cases hv), fun _ => ⟨?_, fun v hv => ?_⟩⟩
          · rw [j1]; simp [rstep, setState, sget_sset, ne]
          · exact j2 v (by simp [rstep, setState, sget_sset, ne, hv])
      | del k' =>
        by_cases e : k' = k
        · subst e
          have e2 : lastWrite (ROp.del k' :: ops) k' = some none := by simp [lastWrite, hl]
          rw [e2]
          refine ⟨fun v hv => (by cases hv), fun _ => ?_, fun hv => (by cases hv)⟩
          rw [j1]; simp [rstep, delState, sget_sdel]
        · have e2 : lastWrite (ROp.del k' :: ops) k = none := by simp [lastWrite, hl, e]
          rw [e2]
          have ne : ¬ k = k' := fun h => e h.symm
          refine ⟨fun v hv => (by cases hv), fun hv => (by cases hv), fun _ => ⟨?_, fun v hv => ?_⟩⟩
          · rw [j1]; simp [rstep, delState, sget_sdel, ne]
          · exact j2 v (by simp [rstep, delState, sget_sdel, ne, hv])
      | get k' =>
        have e2 : lastWrite (ROp.get k' :: ops) k = none := by simp [lastWrite, hl]
        rw [e2]
        obtain ⟨g1, _, g3⟩ := getState_maps env disk sc root k'
        refine ⟨fun v hv => (by cases hv), fun hv => (by cases hv), fun _ => ⟨?_, fun v hv => ?_⟩⟩
        · rw [j1]; simp [rstep, g1]
        · exact j2 v (g3 k v hv)

/-- **read_your_writes**: after ANY history of `SetState` / `DelState` / `GetState` (on any store — no
    hypothesis), if the last write of `k` is `SetState(k, v)` then `GetState(·, k)` returns EXACTLY `v`
    — the bytes as written: untrimmed, an all-zero value as zeros, an empty value as empty — for every
    root argument, without touching the trie or the state; and the write is queued (`dirty`). -/
theorem read_your_writes (env : Env) (disk : Disk) (root root' : Hash) (sc : SC) (ops : List ROp)
    (k : Key) (v : Bytes) (h : lastWrite ops k = some (some v)) :
    getState env disk (rrun env disk root sc ops) root' k = (rrun env disk root sc ops, .ok v) ∧
    sget (rrun env disk root sc ops).dirty k = some v := by
  obtain ⟨h1, _, _⟩ := rrun_maps env disk root ops sc k
  obtain ⟨a, b⟩ := h1 v h
  exact ⟨getState_cached env disk _ root' a, b⟩

/-- one step of a read/write history keeps the abstraction (the trie handle may be loaded or resolve
    nodes; the content `n` is the same) and keeps `cached[k]`, if filled from the trie, equal to the
    trie's value -/
theorem rstep_ready (hE : EnvOk env U) {disk : Disk} {sc : SC} {root : Hash} {n : Node}
    (hR : Ready env disk sc root n) (op : ROp) (hop : ∀ k, op = .get k → U k) (k : Key)
    (hJ : ∀ c, sget sc.cached k = some c → c = valOf env n k) (hk : ∀ v, op ≠ .set k v) :
    Ready env disk (rstep env disk root sc op) root n ∧
    ∀ c, sget (rstep env disk root sc op).cached k = some c → c = valOf env n k := by
  cases op with
  | set k' v =>
    refine ⟨⟨hR.dbok, hR.sound, hR.canon, hR.loaded, hR.unloaded⟩, fun c hc => ?_⟩
    have ne : ¬ k = k' := fun e => hk v (by rw [e])
    simp only [rstep, setState, sget_sset, ne, if_false] at hc
    exact hJ c hc
  | del k' =>
    refine ⟨⟨hR.dbok, hR.sound, hR.canon, hR.loaded, hR.unloaded⟩, fun c hc => ?_⟩
    simp only [rstep, delState, sget_sdel] at hc
    by_cases e : k = k'
    · simp [e] at hc
    · simp only [e, if_false] at hc; exact hJ c hc
  | get k' =>
    cases hc' : sget sc.cached k' with
    | some v =>
      have : getState env disk sc root k' = (sc, .ok v) := getState_cached env disk sc root hc'
      simp only [rstep, this]
      exact ⟨hR, hJ⟩
    | none =>
      obtain ⟨sc', h1, h2, _, _, h5, _⟩ := read_through hE hR (hop k' rfl) hc'
      simp only [rstep, h1]
      refine ⟨h2, fun c hc => ?_⟩
      rcases h5 k c hc with h | ⟨e, h, _⟩
      · exact hJ c h
      · rw [e]; exact h

/-- **read_falls_through_to_trie**: after any history of `SetState` / `DelState` / `GetState` on a cache
    that stands for `n`, a key whose last write is a `DelState` — or that was not written and not cached
    — reads the value of the TRIE (`valOf env n k`), never an error.  `DelState` therefore does not delete
    anything from the storage: it forgets the pending write and the committed value is visible again. -/
theorem read_falls_through_to_trie (hE : EnvOk env U) {disk : Disk} {root : Hash} {n : Node} (k : Key) (hk : U k) :
    ∀ (ops : List ROp) (sc : SC), Ready env disk sc root n → (∀ k', ROp.get k' ∈ ops → U k') →
      (lastWrite ops k = some none ∨
        (lastWrite ops k = none ∧ ∀ c, sget sc.cached k = some c → c = valOf env n k)) →
      ∃ sc', getState env disk (rrun env disk root sc ops) root k = (sc', .ok (valOf env n k)) ∧
        Ready env disk sc' root n := by
  have key : ∀ (ops : List ROp) (sc : SC), Ready env disk sc root n → (∀ k', ROp.get k' ∈ ops → U k') →
      (lastWrite ops k = some none ∨
        (lastWrite ops k = none ∧ ∀ c, sget sc.cached k = some c → c = valOf env n k)) →
      Ready env disk (rrun env disk root sc ops) root n ∧
      ∀ c, sget (rrun env disk root sc ops).cached k = some c → c = valOf env n k := by
    intro ops
    induction ops with
    | nil =>
      intro sc hR _ h
      rcases h with h | ⟨_, h⟩
      · simp [lastWrite] at h
      · exact ⟨hR, h⟩
    | cons op ops ih =>
      intro sc hR hU h
      have hrun : rrun env disk root sc (op :: ops) = rrun env disk root (rstep env disk root sc op) ops := rfl
      rw [hrun]
      have hU' : ∀ k', ROp.get k' ∈ ops → U k' := fun k' hm => hU k' (List.mem_cons_of_mem _ hm)
      have hop : ∀ k', op = .get k' → U k' := fun k' e => hU k' (by rw [e]; exact List.mem_cons_self)
      have hRany : Ready env disk (rstep env disk root sc op) root n := by
        cases op with
        | set k' v => exact ⟨hR.dbok, hR.sound, hR.canon, hR.loaded, hR.unloaded⟩
        | del k' => exact ⟨hR.dbok, hR.sound, hR.canon, hR.loaded, hR.unloaded⟩
        | get k' =>
          cases hc' : sget sc.cached k' with
          | some v =>
            have : getState env disk sc root k' = (sc, .ok v) := getState_cached env disk sc root hc'
            simp only [rstep, this]; exact hR
          | none =>
            obtain ⟨sc', h1, h2, _⟩ := read_through hE hR (hop k' rfl) hc'
            simp only [rstep, h1]; exact h2
      cases hl : lastWrite ops k with
      | some r =>
        have e : lastWrite (op :: ops) k = some r := by simp [lastWrite, hl]
        rw [e] at h
        rcases h with h | ⟨h, _⟩
        · exact ih _ hRany hU' (Or.inl (by rw [hl, h]))
        · cases h
      | none =>
        -- the head decides
        cases op with
        | set k' v =>
          by_cases e : k' = k
          · subst e
            have e2 : lastWrite (ROp.set k' v :: ops) k' = some (some v) := by simp [lastWrite, hl]
            rw [e2] at h
            rcases h with h | ⟨h, _⟩ <;> cases h
          · have e2 : lastWrite (ROp.set k' v :: ops) k = none := by simp [lastWrite, hl, e]
            rw [e2] at h
            rcases h with h | ⟨_, hJ⟩
            · cases h
            · obtain ⟨_, g2⟩ := rstep_ready hE hR (.set k' v) hop k hJ (by
                intro v' e3; injection e3 with e4 _; exact e e4)
              exact ih _ hRany hU' (Or.inr ⟨hl, g2⟩)
        | del k' =>
          by_cases e : k' = k
          · subst e
            refine ih _ hRany hU' (Or.inr ⟨hl, fun c hc => ?_⟩)
            simp [rstep, delState, sget_sdel] at hc
          · have e2 : lastWrite (ROp.del k' :: ops) k = none := by simp [lastWrite, hl, e]
            rw [e2] at h
            rcases h with h | ⟨_, hJ⟩
            · cases h
            · obtain ⟨_, g2⟩ := rstep_ready hE hR (.del k') hop k hJ (by intro v' e3; cases e3)
              exact ih _ hRany hU' (Or.inr ⟨hl, g2⟩)
        | get k' =>
          have e2 : lastWrite (ROp.get k' :: ops) k = none := by simp [lastWrite, hl]
          rw [e2] at h
          rcases h with h | ⟨_, hJ⟩
          · cases h
          · obtain ⟨_, g2⟩ := rstep_ready hE hR (.get k') hop k hJ (by intro v' e3; cases e3)
            exact ih _ hRany hU' (Or.inr ⟨hl, g2⟩)
  intro ops sc hR hU h
  obtain ⟨hR', hJ'⟩ := key ops sc hR hU h
  cases hc : sget (rrun env disk root sc ops).cached k with
  | some c =>
    have e := hJ' c hc
    subst e
    exact ⟨_, getState_cached env disk _ root hc, hR'⟩
  | none =>
    obtain ⟨sc', h1, h2, _⟩ := read_through hE hR' hk hc
    exact ⟨sc', h1, h2⟩

/-! ### the owner's discipline (`Account.updateTrie` / `Account.Save`): whole histories -/

/-- a cache together with the root its owner holds for it (`AccountData.StorageRoot`, …) -/
structure Acct where
  sc : SC
  root : Hash

/-- what an `Account` does with one of its four caches -/
inductive AOp where
  | set (k : Key) (v : Bytes)                 -- `SetState`
  | del (k : Key)                             -- `DelState`
  | revert (k : Key) (old : Bytes)            -- `RevertState`
  | get (k : Key)                             -- `GetState(root, k)` with the root it holds
  | finalise (pick : List Key → List Key)     -- `updateTrie`: `root = Update(root)`; `pick` = the order `range` takes
  | save                                      -- `Account.Save`: `Save(root)` unless the root is the zero hash

def outErr {α : Type} : Out α → Option Err
  | .ok _ => none
  | .err e => some e

/-- one step: the new key-value store and account, the error the call returned -/
def astep (env : Env) (w : Disk × Acct) : AOp → (Disk × Acct) × Option Err
  | .set k v => ((w.1, { w.2 with sc := setState w.2.sc k v }), none)
  | .del k => ((w.1, { w.2 with sc := delState w.2.sc k }), none)
  | .revert k old => ((w.1, { w.2 with sc := revertState w.2.sc k old }), none)
  | .get k => ((w.1, { w.2 with sc := (getState env w.1 w.2.sc w.2.root k).1 }),
      outErr (getState env w.1 w.2.sc w.2.root k).2)
  | .finalise pick =>
    match StorageCache.update env w.1 w.2.sc w.2.root (pick (keysOf w.2.sc.dirty)) with
    | (sc', .ok r) => ((w.1, ⟨sc', r⟩), none)
    | (sc', .err e) => ((w.1, ⟨sc', w.2.root⟩), some e)
  | .save =>
    if w.2.root = zeroHash then (w, none)
    else ((( save env w.1 w.2.sc w.2.root).1, ⟨(save env w.1 w.2.sc w.2.root).2.1, w.2.root⟩),
      outErr (save env w.1 w.2.sc w.2.root).2.2)

def arun (env : Env) : Disk × Acct → List AOp → (Disk × Acct) × List Err
  | w, [] => (w, [])
  | w, op :: ops =>
    ((arun env (astep env w op).1 ops).1,
      (match (astep env w op).2 with
        | some e => [e]
        | none => []) ++ (arun env (astep env w op).1 ops).2)

/-- the keys an operation brings in are keys in use; `pick` returns every key it is given -/
def AOk (U : Key → Prop) : AOp → Prop
  | .set k _ => U k
  | .get k => U k
  | .finalise pick => ∀ l x, x ∈ l → x ∈ pick l
  | _ => True

/-- invariant of the discipline: the cache stands for some content `n`, the dirty keys are keys in use,
    and the root held is the root hash of `n` — or the zero hash while `n` is empty -/
def AInv (env : Env) (U : Key → Prop) (w : Disk × Acct) : Prop :=
  ∃ n, Ready env w.1 w.2.sc w.2.root n ∧ (∀ k v, sget w.2.sc.dirty k = some v → U k) ∧
    ((w.2.root = zeroHash ∧ n = .empty) ∨ w.2.root = refRoot (baseH env.small env.hashOf) n)

/-- **acct_step**: under the owner's discipline every operation keeps the invariant, and the only errors
    a call can return are `ErrTrieChanged` from a `Save` with writes still pending and the (open)
    `overflow` of the pool walk — never `ErrTrieFail`, never a `MissingNodeError`, never a panic, and
    `Save` NEVER refuses the root that `Update` returned. -/
theorem acct_step (hE : EnvOk env U) (w : Disk × Acct) (op : AOp) (hI : AInv env U w) (hop : AOk U op) :
    AInv env U (astep env w op).1 ∧
    ((astep env w op).2 = none ∨
      (op = .save ∧ (((astep env w op).2 = some .trieChanged ∧ w.2.sc.dirty ≠ []) ∨
        (astep env w op).2 = some .overflow))) := by
  obtain ⟨n, hR, hU, hroot⟩ := hI
  cases op with
  | set k v =>
    refine ⟨⟨n, ⟨hR.dbok, hR.sound, hR.canon, hR.loaded, hR.unloaded⟩, ?_, hroot⟩, Or.inl rfl⟩
    intro k' v' h
    simp only [astep, setState, sget_sset] at h
    by_cases e : k' = k
    · rw [e]; exact hop
    · simp only [e, if_false] at h; exact hU k' v' h
  | del k =>
    refine ⟨⟨n, ⟨hR.dbok, hR.sound, hR.canon, hR.loaded, hR.unloaded⟩, ?_, hroot⟩, Or.inl rfl⟩
    intro k' v' h
    simp only [astep, delState, sget_sdel] at h
    by_cases e : k' = k
    · simp [e] at h
    · simp only [e, if_false] at h; exact hU k' v' h
  | revert k old =>
    refine ⟨⟨n, ⟨hR.dbok, hR.sound, hR.canon, hR.loaded, hR.unloaded⟩, ?_, hroot⟩, Or.inl rfl⟩
    intro k' v' h
    simp only [astep, revertState, sget_sdel] at h
    by_cases e : k' = k
    · simp [e] at h
    · simp only [e, if_false] at h; exact hU k' v' h
  | get k =>
    cases hc : sget w.2.sc.cached k with
    | some v =>
      have : getState env w.1 w.2.sc w.2.root k = (w.2.sc, .ok v) := getState_cached env w.1 w.2.sc w.2.root hc
      have hst : astep env w (.get k) = ((w.1, { w.2 with sc := w.2.sc }), none) := by
        simp only [astep, this, outErr]
      rw [hst]
      exact ⟨⟨n, hR, hU, hroot⟩, Or.inl rfl⟩
    | none =>
      obtain ⟨sc', h1, h2, h3, _⟩ := read_through hE hR hop hc
      have hst : astep env w (.get k) = ((w.1, { w.2 with sc := sc' }), none) := by
        simp only [astep, h1, outErr]
      rw [hst]
      exact ⟨⟨n, h2, (by show ∀ k v, sget sc'.dirty k = some v → U k; rw [h3]; exact hU), hroot⟩, Or.inl rfl⟩
  | finalise pick =>
    have hcov : ∀ k v, sget w.2.sc.dirty k = some v → k ∈ pick (keysOf w.2.sc.dirty) :=
      fun k v h => hop _ _ (mem_keysOf h)
    obtain ⟨r, sc', n', a1, a2, _, _, a5, a6, _⟩ := update_content hE hR hU _ hcov
    have hst : astep env w (.finalise pick) = ((w.1, ⟨sc', r⟩), none) := by
      simp only [astep, a1]
    rw [hst]
    refine ⟨⟨n', a5, (by show ∀ k v, sget sc'.dirty k = some v → U k; intro k v h; rw [a2] at h; cases h), ?_⟩,
      Or.inl rfl⟩
    show (r = zeroHash ∧ n' = .empty) ∨ r = refRoot (baseH env.small env.hashOf) n'
    rcases a6 with ⟨hr, hrz, _, _, hn⟩ | ⟨hr, _, _⟩
    · left
      refine ⟨hr, ?_⟩
      rw [hn]
      rcases hroot with ⟨_, h⟩ | h
      · exact h
      · exact absurd (h.symm.trans hrz) (refRoot_ne_zero hE.nz n hR.canon)
    · exact Or.inr hr
  | save =>
    by_cases hz : w.2.root = zeroHash
    · have hst : astep env w .save = (w, none) := by simp only [astep, hz, if_true]
      rw [hst]
      exact ⟨⟨n, hR, hU, hroot⟩, Or.inl rfl⟩
    · have hrn : w.2.root = refRoot (baseH env.small env.hashOf) n := by
        rcases hroot with ⟨h, _⟩ | h
        · exact absurd h hz
        · exact h
      by_cases hd : w.2.sc.dirty = []
      · rcases save_outcomes hE hR hd hz with ⟨hne, _⟩ | ⟨_, ⟨disk', sc', h1, _, h3, h4, _, _⟩ | ⟨sc', h1, _, h3, h4⟩⟩
        · exact absurd hrn hne
        · have hst : astep env w .save = ((disk', ⟨sc', w.2.root⟩), none) := by
            simp only [astep, hz, if_false, h1, outErr]
          rw [hst]
          exact ⟨⟨n, h4 _, (by show ∀ k v, sget sc'.dirty k = some v → U k; intro k v h; rw [h3] at h; cases h),
            Or.inr hrn⟩, Or.inl rfl⟩
        · have hst : astep env w .save = ((w.1, ⟨sc', w.2.root⟩), some .overflow) := by
            simp only [astep, hz, if_false, h1, outErr]
          rw [hst]
          exact ⟨⟨n, h4 _, (by show ∀ k v, sget sc'.dirty k = some v → U k; intro k v h; rw [h3] at h; cases h),
            Or.inr hrn⟩, Or.inr ⟨rfl, Or.inr rfl⟩⟩
      · have hst : astep env w .save = ((w.1, ⟨w.2.sc, w.2.root⟩), some .trieChanged) := by
          simp only [astep, hz, if_false, save_refuses_dirty env w.1 w.2.sc w.2.root hd, outErr]
        rw [hst]
        exact ⟨⟨n, hR, hU, hroot⟩, Or.inr ⟨rfl, Or.inl ⟨rfl, hd⟩⟩⟩

/-- **acct_history**: from any account state of the invariant — e.g. a new cache at the zero root over a
    sound store (`acct_new`) — EVERY finite history of SetState / DelState / RevertState / GetState /
    updateTrie (any iteration orders) / Save keeps the invariant: the root the owner holds is always the
    root hash of the content the cache stands for (zero only while it is empty), so a later fresh cache
    at a saved root reads that content (`save_outcomes`, `read_through`); and no call ever fails except a
    `Save` issued while writes are pending (`ErrTrieChanged`) or the open `overflow`.     SCOPE: the world is `Disk × Acct` — ONE cache that owns the key-value store exclusively.  In /repo every
    StorageCache has its own TrieDatabase over ONE shared BeansDB, and the account trie writes there too; that `Ready`
    survives ANOTHER cache's `Save` (the disk grows) is not proved here (no `ready_mono`); it holds for the obvious
    reason (Sound + HashOk: a second write of a hash carries the same blob) and the harness runs several caches over
    one disk. -/
theorem acct_history (hE : EnvOk env U) : ∀ (ops : List AOp) (w : Disk × Acct), AInv env U w →
    (∀ op, op ∈ ops → AOk U op) →
    AInv env U (arun env w ops).1 ∧ ∀ e, e ∈ (arun env w ops).2 → e = .trieChanged ∨ e = .overflow := by
  intro ops
  induction ops with
  | nil => intro w hI _; exact ⟨hI, fun e he => (by cases he)⟩
  | cons op ops ih =>
    intro w hI hok
    obtain ⟨h1, h2⟩ := acct_step hE w op hI (hok op List.mem_cons_self)
    obtain ⟨g1, g2⟩ := ih (astep env w op).1 h1 (fun o ho => hok o (List.mem_cons_of_mem _ ho))
    refine ⟨g1, fun e he => ?_⟩
    simp only [arun, List.mem_append] at he
    rcases he with he | he
    · rcases h2 with h | ⟨_, ⟨h, _⟩ | h⟩
      · rw [h] at he; cases he
      · rw [h] at he; simp at he; exact Or.inl he
      · rw [h] at he; simp at he; exact Or.inr he
    · exact g2 e he

/-- the invariant holds of a NEW cache at the zero root over any sound key-value store -/
theorem acct_new (env : Env) (U : Key → Prop) (disk : Disk) (hdb : DbOk env.hashOf ⟨[], disk⟩)
    (hS : Sound env.hashOf (SC.new.store disk)) : AInv env U (disk, ⟨SC.new, zeroHash⟩) :=
  ⟨.empty, ready_zero hdb hS rfl, fun k v h => (by cases h), Or.inl ⟨rfl, rfl⟩⟩

end storage

/-! ### non-vacuity, and the facts of the code that the full statements would get wrong (witnesses) -/

section witnesses

/-- a concrete instance of the parameters: keys hashed by the identity, nothing embedded, the injective
    serialisation `serH` as node hash -/
def demoEnv : Env := ⟨id, fun _ => false, serH, 200⟩
/-- its keys in use: byte strings of at most 4 bytes -/
def demoU : Key → Prop := fun k => k.length ≤ 4 ∧ ∀ x, x ∈ k → x < 256

/-- the hypotheses on the parameters are satisfiable -/
theorem demoEnv_ok : EnvOk demoEnv demoU where
  hash := serH_hashOk
  nz := by intro c h; cases c <;> simp [demoEnv, serH, zeroHash, List.replicate] at h
  emb := by intro m h; simp [demoEnv] at h
  inj := fun _ _ _ _ h => h
  byte := fun _ ha => ha.2
  fuel := by
    intro a ha
    have : (secKey demoEnv a).length = 2 * a.length + 1 := hexKey_length a
    rw [this]
    have := ha.1
    show _ ≤ 200
    omega

/-- the root of a successful `Update` (`[]` otherwise) -/
def _root_.LemoModel.StorageCache.Out.getD (o : Out Hash) : Hash :=
  match o with
  | .ok h => h
  | .err _ => []

/-- a new cache over an empty key-value store stands for the empty storage at the zero root -/
example : Ready demoEnv [] SC.new zeroHash .empty :=
  ready_zero (dbOk_empty _) (by intro h c hc; simp [SC.store, SC.new, Db.node, lookupH] at hc) rfl

example : demoU [1, 2] := ⟨by decide, by decide⟩

/-- the cache after `SetState(k, v)` on a new cache -/
def wrote (k : Key) (v : Bytes) : SC := setState SC.new k v

/-- run `Update(zero)` then `Save(returned root)` on a cache; the new store, the cache, the root -/
def finalise (sc : SC) (order : List Key) : Disk × SC × Hash :=
  match StorageCache.update demoEnv [] sc zeroHash order with
  | (sc1, .ok r) => ((save demoEnv [] sc1 r).1, (save demoEnv [] sc1 r).2.1, r)
  | (sc1, .err _) => ([], sc1, [])

/-- **two roots for the empty storage** (the root is NOT a function of the content at this level): a new
    cache returns the zero hash; a new cache with one no-op write (`SetState(k, nil)`) returns
    `emptyRoot`.  Both hold nothing.  (General form: `update_zero_root_with_noop_dirty`.) -/
theorem update_empty_content_two_roots :
    (StorageCache.update demoEnv [] SC.new zeroHash []).2 = .ok zeroHash ∧
    (StorageCache.update demoEnv [] (wrote [1] []) zeroHash [[1]]).2 = .ok (serH .empty) ∧
    serH .empty ≠ zeroHash := by decide

/-- **`Save(zero hash)` checks nothing**: a cache whose trie holds `[1] ↦ [7]` accepts `Save(Hash{})`,
    writes nothing to the key-value store, and a fresh cache at the zero root reads nil. -/
theorem save_zero_root_unchecked :
    let sc := (StorageCache.update demoEnv [] (wrote [1] [7]) zeroHash [[1]]).1
    sc.dirty = [] ∧ (getState demoEnv [] { sc with cached := [] } zeroHash [1]).2 = .ok [7] ∧
    (save demoEnv [] sc zeroHash).2.2 = .ok () ∧ (save demoEnv [] sc zeroHash).1 = [] ∧
    (getState demoEnv [] SC.new zeroHash [1]).2 = .ok [] := by decide


/-- **the writing cache and a fresh cache do not read the same bytes**: after `SetState(k, [0,5])`,
    `Update`, `Save` the writer still reads `[0,5]` from `cached`, a fresh cache on the saved root reads
    `[5]`; an all-zero value reads `[0,0,0]` for the writer and nil for a fresh cache, and its root is the
    empty trie's.  Equal after `TrimLeft` (`update_save_fresh_read` / `read_your_writes`); the EVM pads
    both to 32 bytes (`common.BytesToHash`), so contract storage does not see it. -/
theorem writer_reads_untrimmed :
    (getState demoEnv (finalise (wrote [1] [0, 5]) [[1]]).1 (finalise (wrote [1] [0, 5]) [[1]]).2.1
      (finalise (wrote [1] [0, 5]) [[1]]).2.2 [1]).2 = .ok [0, 5] ∧
    (getState demoEnv (finalise (wrote [1] [0, 5]) [[1]]).1 SC.new
      (finalise (wrote [1] [0, 5]) [[1]]).2.2 [1]).2 = .ok [5] ∧
    (getState demoEnv (finalise (wrote [1] [0, 0, 0]) [[1]]).1 (finalise (wrote [1] [0, 0, 0]) [[1]]).2.1
      (finalise (wrote [1] [0, 0, 0]) [[1]]).2.2 [1]).2 = .ok [0, 0, 0] ∧
    (getState demoEnv (finalise (wrote [1] [0, 0, 0]) [[1]]).1 SC.new
      (finalise (wrote [1] [0, 0, 0]) [[1]]).2.2 [1]).2 = .ok [] ∧
    (finalise (wrote [1] [0, 0, 0]) [[1]]).2.2 = serH .empty := by decide

/-- two entries, finalised and saved -/
def saved2 : Disk × SC × Hash := finalise (setState (setState SC.new [0x10] [7]) [0x20] [8]) [[0x10], [0x20]]
/-- the damaged store: every node blob but the root's is gone -/
def wiped : Disk := saved2.1.filter (fun e => decide (e.1 = saved2.2.2))

/-- **`GetState` swallows `MissingNodeError`**: over the damaged store a fresh cache opens the root and
    reads nil for a key the storage holds — no error; without the root node `GetState` fails with
    `ErrTrieFail`. -/
theorem getState_swallows_missing :
    (getState demoEnv saved2.1 SC.new saved2.2.2 [0x10]).2 = .ok [7] ∧
    (getState demoEnv wiped SC.new saved2.2.2 [0x10]).2 = .ok [] ∧
    (getState demoEnv [] SC.new saved2.2.2 [0x10]).2 = .err .trieFail := by decide

/-- **an error in the middle of `Update` leaves a half-emptied dirty map, which half depends on the
    iteration order** (damaged store; on a sound store `update_content` excludes the error): with the
    dirty keys `[0x30]` (a free slot: succeeds) and `[0x10]` (its leaf is missing: fails), the order
    `[0x30], [0x10]` leaves NOTHING dirty — the failing key was deleted from the map before its trie call
    — the order `[0x10], [0x30]` leaves `[0x30]`; both return the `MissingNodeError`. -/
theorem update_fails_half_way :
    (StorageCache.update demoEnv wiped (setState (setState SC.new [0x30] [1]) [0x10] [2]) saved2.2.2
      [[0x30], [0x10]]).2 = .err .missing ∧
    (StorageCache.update demoEnv wiped (setState (setState SC.new [0x30] [1]) [0x10] [2]) saved2.2.2
      [[0x30], [0x10]]).1.dirty = [] ∧
    (StorageCache.update demoEnv wiped (setState (setState SC.new [0x30] [1]) [0x10] [2]) saved2.2.2
      [[0x10], [0x30]]).2 = .err .missing ∧
    keysOf (StorageCache.update demoEnv wiped (setState (setState SC.new [0x30] [1]) [0x10] [2]) saved2.2.2
      [[0x10], [0x30]]).1.dirty = [[0x30]] := by decide

/-- the undo before /repo 3a69bc7 (`SetState(k, old)` with `old` nil on a fresh account) against the
    undo since (`RevertState`): the first turns the zero root into `emptyRoot`, the second leaves it. -/
theorem revert_keeps_zero_root :
    (StorageCache.update demoEnv [] (setState (wrote [1] [7]) [1] []) zeroHash [[1]]).2 = .ok (serH .empty) ∧
    (StorageCache.update demoEnv [] (revertState (wrote [1] [7]) [1] []) zeroHash [[1]]).2 = .ok zeroHash := by
  decide


/-- the invariant of `acct_history` is inhabited, and its run on a concrete history: write, finalise,
    save, no-op write, finalise, save — two roots, no error -/
example : AInv demoEnv demoU ([], ⟨SC.new, zeroHash⟩) :=
  acct_new demoEnv demoU [] (dbOk_empty _) (by intro h c hc; simp [SC.store, SC.new, Db.node, lookupH] at hc)

example : (arun demoEnv ([], ⟨SC.new, zeroHash⟩)
    [.set [1] [0, 7], .get [1], .finalise id, .save, .set [2] [0], .finalise List.reverse, .save, .get [2]]).2 = [] := by
  decide


/-- **`Update` alone persists nothing**: it only hashes; a fresh cache — and the same cache after `Reset`
    — cannot open the returned root until `Save` ran (`ErrTrieFail`); after `Save` both can. -/
theorem update_without_save_not_readable :
    (getState demoEnv [] SC.new (StorageCache.update demoEnv [] (wrote [1] [7]) zeroHash [[1]]).2.getD [1]).2
      = .err .trieFail ∧
    (getState demoEnv [] (reset (StorageCache.update demoEnv [] (wrote [1] [7]) zeroHash [[1]]).1)
      (StorageCache.update demoEnv [] (wrote [1] [7]) zeroHash [[1]]).2.getD [1]).2 = .err .trieFail ∧
    (getState demoEnv (finalise (wrote [1] [7]) [[1]]).1 SC.new (finalise (wrote [1] [7]) [[1]]).2.2 [1]).2 = .ok [7] ∧
    (getState demoEnv (finalise (wrote [1] [7]) [[1]]).1 (reset (finalise (wrote [1] [7]) [[1]]).2.1)
      (finalise (wrote [1] [7]) [[1]]).2.2 [1]).2 = .ok [7] := by decide


/-- the hypotheses of `update_order_independent` are jointly satisfiable: a new cache with a write, a
    deletion and an all-zero value pending, visited in two different orders -/
example : ∃ r sc1 sc2 n', StorageCache.update demoEnv [] (setState (setState (wrote [1] [0, 7]) [2] []) [3] [0, 0])
      zeroHash [[1], [2], [3]] = (sc1, .ok r) ∧
    StorageCache.update demoEnv [] (setState (setState (wrote [1] [0, 7]) [2] []) [3] [0, 0])
      zeroHash [[3], [1], [2], [1]] = (sc2, .ok r) ∧
    Ready demoEnv [] sc1 r n' ∧ Ready demoEnv [] sc2 r n' ∧
    sc1.dirty = [] ∧ sc2.dirty = [] ∧ sc1.cached = sc2.cached ∧ sc1.mem = sc2.mem := by
  have hdirty : ∀ k v, sget (setState (setState (wrote [1] [0, 7]) [2] []) [3] [0, 0]).dirty k = some v →
      k = [1] ∨ k = [2] ∨ k = [3] := by
    intro k v h
    simp only [setState, wrote, SC.new, sget_sset, sget] at h
    by_cases h3 : k = [3]
    · exact Or.inr (Or.inr h3)
    · by_cases h2 : k = [2]
      · exact Or.inr (Or.inl h2)
      · by_cases h1 : k = [1]
        · exact Or.inl h1
        · simp [h1, h2, h3] at h
  refine update_order_independent demoEnv_ok
    (ready_zero (dbOk_empty _) (by intro h c hc; simp [SC.store, setState, wrote, SC.new, Db.node, lookupH] at hc) rfl)
    ?_ _ _ ?_ ?_
  · intro k v h
    rcases hdirty k v h with e | e | e <;> subst e <;> exact ⟨by decide, by decide⟩
  · intro k v h
    rcases hdirty k v h with e | e | e <;> subst e <;> simp
  · intro k v h
    rcases hdirty k v h with e | e | e <;> subst e <;> simp

/-- the same two runs, evaluated: one root, and it is the root of the content `[1] ↦ [7]` alone -/
example :
    (StorageCache.update demoEnv [] (setState (setState (wrote [1] [0, 7]) [2] []) [3] [0, 0]) zeroHash
      [[1], [2], [3]]).2 =
    (StorageCache.update demoEnv [] (setState (setState (wrote [1] [0, 7]) [2] []) [3] [0, 0]) zeroHash
      [[3], [1], [2], [1]]).2 ∧
    (StorageCache.update demoEnv [] (setState (setState (wrote [1] [0, 7]) [2] []) [3] [0, 0]) zeroHash
      [[1], [2], [3]]).2 = (StorageCache.update demoEnv [] (wrote [1] [7]) zeroHash [[1]]).2 := by decide

end witnesses

end LemoProofs.C17

/-
  C17 (part C) — commits, re-opening by root and cache eviction do not change what a trie contains
  or what its root is.

  Model `LemoModel.MptStore`: the partially resolved trie of /repo/store/trie (hash nodes,
  `resolveHash`, `tryGet` / `insert` / `delete` resolving on the way down, node flags
  `hash`/`gen`/`dirty`), the hasher (`hasher.go`: collapse, embedding of `small` nodes, database
  writes, unloading by cache generation), `Trie.Commit`, `Trie.Hash`, `trie.New`.

  Parameters: `hashOf : CNode → Hash` (Keccak ∘ RLP of a collapsed node) and `small : CNode → Bool`
  (`len(rlp) < 32`; the real test is `MptStore.rlpSmall`, built on C14's RLP encoder).
  About `small`: NOTHING is assumed, except in `flush_reopen_fresh` (an embedded reference blob
  contains no hash reference — proved for the real test: `rlp_small_embeds_no_hash`).
  About `hashOf`, the bundle `HashOk hashOf` (LemoProofs.MptStoreLemmas):
    `inj`  collision-free ON NORMAL NODES (`Norm`: what `decodeNode` returns and the hasher emits for
           canonical tries).  NOT on the whole `CNode` algebra: `rlp.Encode` writes a nil child as
           `valueNode(nil)`, so `short K .empty` / `short K (.value [])` share a blob and the unrestricted
           statement is false of the real Keccak∘RLP for encoding reasons.  On `Norm` the item encoding
           is injective (`node_blob_injective`), so `inj` is collision freedom of Keccak alone
           (`keccak_rlp_collision_free`);
    `ne`   no hash is the empty string.
  Where it is used:
    * `commit_reopen_get/insert/delete`, `cache_transparent*`, `hash_is_reference`,
      `proof_verifies_present`: NO hypothesis on `hashOf` (the invariant `Inv` is about what the store
      holds, not about how keys are made);
    * `commit_keeps_invariant`, `expand_collapse`, `db_*`, the history theorems: `HashOk` and a
      content-addressed store `Sound` (keys are `hashOf` of their blob, blobs are normal) — two different
      nodes under one key: `TrieDatabase.insert` keeps the first, the second would be lost
      (`collisionDemo`);
    * re-opening (`reopen_by_root`, the `reopen` step of the history theorems, `flush_reopen_fresh`):
      additionally no node hashes to the zero hash (`trie.New` opens `common.Hash{}` as the EMPTY trie);
    * `root_binds_content`, `proof_binds_value` (uniqueness of the expansion): `HashOk`.

  The simulation relation is `Inv hs s top p n` (`LemoProofs.MptStoreLemmas`): the partially resolved
  trie `p` over the store `s` ABSTRACTS to the resolved trie `n` of `LemoModel.Mpt`: same shape where
  resolved; a hash node / a cached hash is the reference hash of the subtrie it stands for; for hash
  nodes and for clean nodes the store holds the reference blob of the subtrie and of all its hashed
  descendants (closed store).
-/
import LemoModel.Mpt
import LemoModel.MptStore
import LemoProofs.Lemmas.Mpt
import LemoProofs.Lemmas.MptStore
import LemoProofs.Lemmas.MptDb
import LemoProofs.Lemmas.MptCodec
namespace LemoProofs.C17
open LemoModel LemoModel.Mpt LemoModel.MptStore LemoProofs.MptLemmas LemoProofs.MptStoreLemmas
open LemoProofs.MptDbLemmas LemoProofs.MptCodecLemmas

section single
variable (small : CNode → Bool) (hashOf : CNode → Hash)

/-- the abstraction relation, for the root of a trie -/
abbrev Abs (s : Store) (p : PNode) (n : Node) : Prop := Inv (baseH small hashOf) s true p n

/-! ### the simulation, operation by operation (no hypothesis on `hashOf` or `small`)

  Stack depth: `2 * len(key) + 2` frames suffice (`fuel`). -/

/-- **commit_reopen (get)**: `TryGet` on a partially resolved trie (re-opened by root, partly evicted,
    …) returns what `tryGet` returns on the resolved trie — never `MissingNodeError`, never a stack
    overflow, a panic exactly when the resolved model panics — and the trie it leaves behind (nodes
    resolved on the way are kept) still abstracts to the same resolved trie. -/
theorem commit_reopen_get (s : Store) (t : Trie) (n : Node) (key : List Nib) (fuel : Nat)
    (hA : Abs small hashOf s t.root n) (hP : Placed n) (hN : NES n) (hf : 2 * key.length + 2 ≤ fuel) :
    (Mpt.get n key = .panic ∧ t.get s fuel key = .panic) ∨
    (∃ t', t.get s fuel key = .ok (getOpt (Mpt.get n key), t') ∧ Abs small hashOf s t'.root n ∧
      t'.cachegen = t.cachegen ∧ t'.cachelimit = t.cachelimit) := by
  have hf' : needFuel t.root key ≤ fuel := Nat.le_trans (needFuel_le _ _) hf
  rcases tryGet_sim (baseH small hashOf) s t.cachegen fuel t.root n key true hA hP hN hf' with
    ⟨h1, h2⟩ | ⟨_, p', d, h2, h3⟩
  · exact Or.inl ⟨h1, by simp only [Trie.get, h2]⟩
  · cases d with
    | true => exact Or.inr ⟨{ t with root := p' }, by simp only [Trie.get, h2], h3, rfl, rfl⟩
    | false => exact Or.inr ⟨t, by simp only [Trie.get, h2], hA, rfl, rfl⟩

/-- **commit_reopen (insert)**: `insert` commutes with the abstraction -/
theorem commit_reopen_insert (s : Store) (gen : Nat) (p : PNode) (n : Node) (key : List Nib) (v : Val)
    (fuel : Nat) (hA : Abs small hashOf s p n) (hP : Placed n) (hN : NES n)
    (hf : 2 * key.length + 2 ≤ fuel) :
    (Mpt.insert n key v = none ∧ MptStore.insert s gen fuel p key v = .panic) ∨
    (∃ d n' p', Mpt.insert n key v = some (d, n') ∧ MptStore.insert s gen fuel p key v = .ok (d, p') ∧
      Abs small hashOf s p' n') :=
  insert_sim (baseH small hashOf) s gen fuel p n key v true hA hP hN (Nat.le_trans (needFuel_le _ _) hf)

/-- **commit_reopen (delete)**: `delete` commutes with the abstraction -/
theorem commit_reopen_delete (s : Store) (gen : Nat) (p : PNode) (n : Node) (key : List Nib)
    (fuel : Nat) (hA : Abs small hashOf s p n) (hP : Placed n) (hN : NES n)
    (hf : 2 * key.length + 2 ≤ fuel) :
    (Mpt.delete n key = none ∧ MptStore.delete s gen fuel p key = .panic) ∨
    (∃ d n' p', Mpt.delete n key = some (d, n') ∧ MptStore.delete s gen fuel p key = .ok (d, p') ∧
      Abs small hashOf s p' n') := by
  rcases delete_sim (baseH small hashOf) s gen fuel p n key true hA hP hN (Nat.le_trans (needFuel_le _ _) hf) with
    h | ⟨d, n', p', h1, h2, h3, _⟩
  · exact Or.inl h
  · exact Or.inr ⟨d, n', p', h1, h2, h3⟩

/-- **hash_is_reference**: the root hash computed from ANY partially resolved representation of `n`
    (whatever is resolved, cached, dirty; any cache generation / limit; with or without database) is
    the hash the hasher computes on the fully resolved, all-dirty `n`. -/
theorem hash_is_reference (hx : Hasher) (h1 : hx.small = small) (h2 : hx.hashOf = hashOf)
    (s : Store) (p : PNode) (n : Node) (hA : Abs small hashOf s p n) (hP : Placed n) :
    hashed hx p true = refC (baseH small hashOf) n true :=
  hashed_eq_ref (baseH small hashOf) hx h1 h2 hA hP

/-- **cache_transparent** (the hasher's second result, for every cache generation and limit, commit
    or hash-only mode): replacing unloadable nodes by their hash nodes, caching hashes and clearing
    dirty flags does not change the trie the representation abstracts to — over any store that
    contains the hasher's writes.  Hence (`commit_reopen_*`) no later result changes. -/
theorem cache_transparent (hx : Hasher) (h1 : hx.small = small) (h2 : hx.hashOf = hashOf)
    (s s' : Store) (p : PNode) (n : Node) (hA : Abs small hashOf s p n) (hP : Placed n)
    (hnv : ∀ v, n ≠ .value v) (hle : Store.le s s')
    (hw : hx.commit = true → ∀ w, w ∈ writes hx p true → s' w.1 = some w.2) :
    hashBad hx p = false ∧ Abs small hashOf s' (cachedOf hx p true) n :=
  let r := commit_core (baseH small hashOf) hx h1 h2 hA hP hnv s' hle hw
  ⟨r.1, r.2.1⟩

/-- **cache_transparent_no_writes**: on a trie without dirty nodes (just committed) a further `Commit`
    only evicts: it writes nothing that is not there, so the SAME store serves the evicted trie. -/
theorem cache_transparent_same_store (hx : Hasher) (h1 : hx.small = small) (h2 : hx.hashOf = hashOf)
    (s : Store) (p : PNode) (n : Node) (hA : Abs small hashOf s p n) (hP : Placed n)
    (hnv : ∀ v, n ≠ .value v) (hw : ∀ w, w ∈ writes hx p true → s w.1 = some w.2) :
    Abs small hashOf s (cachedOf hx p true) n :=
  (commit_core (baseH small hashOf) hx h1 h2 hA hP hnv s (Store.le_refl s) (fun _ => hw)).2.1

/-! ### `Commit`, re-opening (hypotheses on `hashOf` appear here) -/

/-- **commit_keeps_invariant**: `Trie.Commit` returns the reference root, never panics, only adds to
    the store, keeps it content-addressed, leaves a trie that abstracts to the same `n`, and makes the
    store closed for `n`. -/
theorem commit_keeps_invariant (hH : HashOk hashOf) (s : Store)
    (hS : Sound hashOf s) (t : Trie) (n : Node) (hA : Abs small hashOf s t.root n) (hC : Canon n) :
    ∃ t' ws, t.commit small hashOf = .ok (refRoot (baseH small hashOf) n, t', ws) ∧
      Store.le s (s.putAll ws) ∧ Sound hashOf (s.putAll ws) ∧
      Abs small hashOf (s.putAll ws) t'.root n ∧ t'.cachelimit = t.cachelimit ∧
      Stored (baseH small hashOf) (s.putAll ws) true n ∧ Closed (baseH small hashOf) (s.putAll ws) n :=
  commit_inv small hashOf hH hS hA hC

/-- the fully resolved, all-dirty in-memory form of a resolved trie (what `insert` builds from scratch) -/
def ofNode (gen : Nat) : Node → PNode
  | .empty => .empty
  | .value v => .value v
  | .short K c => .short K (ofNode gen c) (newFlag gen)
  | .full ch => .full (fun i => ofNode gen (ch i)) (newFlag gen)

theorem abs_ofNode (s : Store) (gen : Nat) (n : Node) : ∀ top, Inv (baseH small hashOf) s top (ofNode gen n) n := by
  induction n with
  | empty => intro top; exact .empty top
  | value v => intro top; exact .value top v
  | short K c ih => intro top; exact .short top K _ c _ (ih false) (flagOk_new _ s top gen _)
  | full ch ih => intro top; exact .full top _ ch _ (fun i => ih i false) (flagOk_new _ s top gen _)

/-- **reopen_by_root**: over a store that is closed for `n`, `trie.New(root(n))` succeeds and the
    re-opened trie abstracts to `n`. -/
theorem reopen_by_root (hH : HashOk hashOf) (hz : ∀ c, hashOf c ≠ zeroHash)
    (s : Store) (n : Node) (hC : Canon n)
    (hSt : Stored (baseH small hashOf) s true n) (hCl : Closed (baseH small hashOf) s n) :
    ∃ t', Trie.new hashOf s (refRoot (baseH small hashOf) n) = .ok t' ∧ Abs small hashOf s t'.root n :=
  let ⟨t', h1, h2, _⟩ := open_inv small hashOf hH hz hC hSt hCl
  ⟨t', h1, h2⟩

/-- **expand_collapse**: collapse a resolved canonical trie `n` into any content-addressed store
    (`Commit` of the all-dirty trie: every node whose encoding is not `small` is replaced by its hash
    and written), re-open it by the returned root: the re-opened trie abstracts to `n` — every `Get`
    on it returns what `n` holds (`commit_reopen_get`), every update behaves as on `n`. -/
theorem expand_collapse (hH : HashOk hashOf) (hz : ∀ c, hashOf c ≠ zeroHash)
    (s : Store) (hS : Sound hashOf s) (n : Node) (hC : Canon n) (gen limit : Nat) :
    ∃ root t' ws t'', (Trie.mk (ofNode gen n) gen limit).commit small hashOf = .ok (root, t', ws) ∧
      Trie.new hashOf (s.putAll ws) root = .ok t'' ∧ Abs small hashOf (s.putAll ws) t''.root n := by
  obtain ⟨t', ws, h1, _, _, _, _, h6, h7⟩ := commit_inv small hashOf hH hS
    (t := Trie.mk (ofNode gen n) gen limit) (abs_ofNode small hashOf s gen n true) hC
  obtain ⟨t'', g1, g2, _⟩ := open_inv small hashOf hH hz hC h6 h7
  exact ⟨_, t', ws, t'', h1, g1, g2⟩

end single

/-! ### histories with commits, hash calls, evictions and re-openings interleaved -/

/-- one step of a history on a trie over a node store -/
inductive SOp where
  | put (k : List Nib) (v : Val)     -- `TryUpdate` (empty value = delete)
  | del (k : List Nib)               -- `TryDelete`
  | get (k : List Nib)               -- `TryGet` (keeps what it resolved)
  | commit                           -- `Trie.Commit`: write dirty nodes, evict by cache generation
  | hash                             -- `Trie.Hash`
  | reopen                           -- `Commit`, forget the in-memory trie, `trie.New(root, db)`
  | limit (l : Nat)                  -- `SetCacheLimit`

def SOp.key? : SOp → Option (List Nib)
  | .put k _ => some k
  | .del k => some k
  | .get k => some k
  | _ => none

/-- the content-changing part of a step -/
def SOp.mut? : SOp → Option Op
  | .put k v => some (.put k v)
  | .del k => some (.del k)
  | _ => none

def muts (ops : List SOp) : List Op := ops.filterMap SOp.mut?

structure SSt where
  t : Trie
  s : Store

section runs
variable (small : CNode → Bool) (hashOf : CNode → Hash) (fuel : Nat)

def stepS (st : SSt) : SOp → Res SSt
  | .put k v =>
    match st.t.update st.s fuel k v with
    | .ok t => .ok ⟨t, st.s⟩
    | .missing h => .missing h
    | .panic => .panic
    | .overflow => .overflow
  | .del k =>
    match st.t.remove st.s fuel k with
    | .ok t => .ok ⟨t, st.s⟩
    | .missing h => .missing h
    | .panic => .panic
    | .overflow => .overflow
  | .get k =>
    match st.t.get st.s fuel k with
    | .ok (_, t) => .ok ⟨t, st.s⟩
    | .missing h => .missing h
    | .panic => .panic
    | .overflow => .overflow
  | .commit =>
    match st.t.commit small hashOf with
    | .ok (_, t, ws) => .ok ⟨t, st.s.putAll ws⟩
    | .missing h => .missing h
    | .panic => .panic
    | .overflow => .overflow
  | .hash =>
    match st.t.hash small hashOf with
    | .ok (_, t) => .ok ⟨t, st.s⟩
    | .missing h => .missing h
    | .panic => .panic
    | .overflow => .overflow
  | .reopen =>
    match st.t.commit small hashOf with
    | .ok (h, t, ws) =>
      match Trie.new hashOf (st.s.putAll ws) h with
      | .ok t2 => .ok ⟨{ t2 with cachelimit := t.cachelimit }, st.s.putAll ws⟩
      | .missing h => .missing h
      | .panic => .panic
      | .overflow => .overflow
    | .missing h => .missing h
    | .panic => .panic
    | .overflow => .overflow
  | .limit l => .ok ⟨{ st.t with cachelimit := l }, st.s⟩

def runS : SSt → List SOp → Res SSt
  | st, [] => .ok st
  | st, op :: ops =>
    match stepS small hashOf fuel st op with
    | .ok st' => runS st' ops
    | .missing h => .missing h
    | .panic => .panic
    | .overflow => .overflow

theorem remove_step {s : Store} {t : Trie} {n : Node} {k : List Nib} (hA : Abs small hashOf s t.root n)
    (hC : Canon n) (hk : TermKey k) (hf : 2 * k.length + 2 ≤ fuel) :
    ∃ t' n', t.remove s fuel k = .ok t' ∧ Mpt.remove n k = some n' ∧ Canon n' ∧
      Abs small hashOf s t'.root n' := by
  obtain ⟨hP, hN, _⟩ := canon_placed_nes n hC
  obtain ⟨d, n', hd, hCn, _⟩ := delete_spec n k hC hk
  rcases commit_reopen_delete small hashOf s t.cachegen t.root n k fuel hA hP hN hf with
    ⟨h1, _⟩ | ⟨d2, n2, p', h1, h2, h3⟩
  · rw [hd] at h1; cases h1
  · rw [hd] at h1
    simp only [Option.some.injEq, Prod.mk.injEq] at h1
    obtain ⟨e1, e2⟩ := h1
    subst e1; subst e2
    exact ⟨{ t with root := p' }, n', by simp only [Trie.remove, h2], by simp [Mpt.remove, hd], hCn, h3⟩

theorem update_step {s : Store} {t : Trie} {n : Node} {k : List Nib} (v : Val)
    (hA : Abs small hashOf s t.root n) (hC : Canon n) (hk : TermKey k) (hf : 2 * k.length + 2 ≤ fuel) :
    ∃ t' n', t.update s fuel k v = .ok t' ∧ Mpt.update n k v = some n' ∧ Canon n' ∧
      Abs small hashOf s t'.root n' := by
  cases v with
  | nil =>
    obtain ⟨t', n', h1, h2, h3, h4⟩ := remove_step small hashOf fuel hA hC hk hf
    exact ⟨t', n', by simpa [Trie.update] using h1, by simpa [Mpt.update, Mpt.remove] using h2, h3, h4⟩
  | cons y ys =>
    obtain ⟨hP, hN, _⟩ := canon_placed_nes n hC
    obtain ⟨d, n', hd, hCn, _⟩ := insert_spec n k (y :: ys) hC hk (by simp)
    rcases commit_reopen_insert small hashOf s t.cachegen t.root n k (y :: ys) fuel hA hP hN hf with
      ⟨h1, _⟩ | ⟨d2, n2, p', h1, h2, h3⟩
    · rw [hd] at h1; cases h1
    · rw [hd] at h1
      simp only [Option.some.injEq, Prod.mk.injEq] at h1
      obtain ⟨e1, e2⟩ := h1
      subst e1; subst e2
      exact ⟨{ t with root := p' }, n', by simp only [Trie.update, h2], by simp [Mpt.update, hd], hCn, h3⟩

theorem run_append (n : Node) (a b : List Op) :
    run n (a ++ b) = (run n a).bind (fun t => run t b) := by
  induction a generalizing n with
  | nil => simp [run]
  | cons op a ih =>
    simp only [List.cons_append, run]
    cases stepOp n op with
    | none => simp
    | some t' => exact ih t'

/-- one step of a mixed history is simulated by the content-changing part of the step on the resolved
    trie; it never fails -/
theorem stepS_sim (hH : HashOk hashOf) (hz : ∀ c, hashOf c ≠ zeroHash)
    (L : Nat) (hf : 2 * L + 2 ≤ fuel) (st : SSt) (n : Node) (op : SOp)
    (hS : Sound hashOf st.s) (hC : Canon n) (hA : Abs small hashOf st.s st.t.root n)
    (hk : ∀ k, op.key? = some k → TermKey k ∧ k.length ≤ L) :
    ∃ st' n', stepS small hashOf fuel st op = .ok st' ∧ run n (muts [op]) = some n' ∧ Canon n' ∧
      Sound hashOf st'.s ∧ Abs small hashOf st'.s st'.t.root n' ∧ Store.le st.s st'.s := by
  cases op with
  | put k v =>
    obtain ⟨hk1, hk2⟩ := hk k rfl
    obtain ⟨t', n', h1, h2, h3, h4⟩ := update_step small hashOf fuel v hA hC hk1 (by omega)
    exact ⟨⟨t', st.s⟩, n', by simp only [stepS, h1], by simp [muts, SOp.mut?, run, stepOp, h2], h3, hS, h4,
      Store.le_refl _⟩
  | del k =>
    obtain ⟨hk1, hk2⟩ := hk k rfl
    obtain ⟨t', n', h1, h2, h3, h4⟩ := remove_step small hashOf fuel hA hC hk1 (by omega)
    exact ⟨⟨t', st.s⟩, n', by simp only [stepS, h1], by simp [muts, SOp.mut?, run, stepOp, h2], h3, hS, h4,
      Store.le_refl _⟩
  | get k =>
    obtain ⟨hk1, hk2⟩ := hk k rfl
    obtain ⟨hP, hN, _⟩ := canon_placed_nes n hC
    rcases commit_reopen_get small hashOf st.s st.t n k fuel hA hP hN (by omega) with ⟨h1, _⟩ | ⟨t', h1, h2, _⟩
    · exact absurd h1 (get_no_panic n k hC hk1)
    · exact ⟨⟨t', st.s⟩, n, by simp only [stepS, h1], rfl, hC, hS, h2, Store.le_refl _⟩
  | commit =>
    obtain ⟨t', ws, h1, h2, h3, h4, _⟩ := commit_inv small hashOf hH hS hA hC
    exact ⟨⟨t', st.s.putAll ws⟩, n, by simp only [stepS, h1], rfl, hC, h3, h4, h2⟩
  | hash =>
    obtain ⟨t', h1, h2, _⟩ := hash_inv small hashOf hA hC
    exact ⟨⟨t', st.s⟩, n, by simp only [stepS, h1], rfl, hC, hS, h2, Store.le_refl _⟩
  | reopen =>
    obtain ⟨t', ws, h1, h2, h3, _, _, h6, h7⟩ := commit_inv small hashOf hH hS hA hC
    obtain ⟨t2, g1, g2, _⟩ := open_inv small hashOf hH hz hC h6 h7
    exact ⟨⟨{ t2 with cachelimit := t'.cachelimit }, st.s.putAll ws⟩, n, by simp only [stepS, h1, g1],
      rfl, hC, h3, g2, h2⟩
  | limit l =>
    exact ⟨⟨{ st.t with cachelimit := l }, st.s⟩, n, rfl, rfl, hC, hS, hA,
      Store.le_refl _⟩

/-- **mixed_run_simulates** (the simulation for whole histories): a history of updates, deletes, reads,
    commits, hash calls, cache-limit changes and re-openings by root — in any order — on a trie over a
    content-addressed store runs to the end (no `MissingNodeError`, no panic, no stack overflow), and
    the final partially resolved trie abstracts to the resolved trie obtained by running only the
    updates and deletes. -/
theorem mixed_run_simulates (hH : HashOk hashOf) (hz : ∀ c, hashOf c ≠ zeroHash)
    (L : Nat) (hf : 2 * L + 2 ≤ fuel) : ∀ (ops : List SOp) (st : SSt) (n : Node),
    Sound hashOf st.s → Canon n → Abs small hashOf st.s st.t.root n →
    (∀ op, op ∈ ops → ∀ k, op.key? = some k → TermKey k ∧ k.length ≤ L) →
    ∃ st' n', runS small hashOf fuel st ops = .ok st' ∧ run n (muts ops) = some n' ∧ Canon n' ∧
      Sound hashOf st'.s ∧ Abs small hashOf st'.s st'.t.root n' ∧ Store.le st.s st'.s := by
  intro ops
  induction ops with
  | nil => intro st n hS hC hA _; exact ⟨st, n, rfl, rfl, hC, hS, hA, Store.le_refl _⟩
  | cons op ops ih =>
    intro st n hS hC hA hk
    obtain ⟨st1, n1, h1, h2, h3, h4, h5, h6⟩ :=
      stepS_sim small hashOf fuel hH hz L hf st n op hS hC hA (hk op List.mem_cons_self)
    obtain ⟨st2, n2, g1, g2, g3, g4, g5, g6⟩ :=
      ih st1 n1 h4 h3 h5 (fun o ho => hk o (List.mem_cons_of_mem _ ho))
    refine ⟨st2, n2, by simp only [runS, h1, g1], ?_, g3, g4, g5, Store.le_trans h6 g6⟩
    have : muts (op :: ops) = muts [op] ++ muts ops := by
      simp only [muts, List.filterMap_cons, List.filterMap_nil]
      cases SOp.mut? op <;> simp
    rw [this, run_append, h2]
    exact g2

end runs

/-! ### the root is independent of commits, evictions and re-openings; it binds the content -/

section roots
variable (small : CNode → Bool) (hashOf : CNode → Hash) (fuel : Nat)

theorem muts_keys {ops : List SOp} {L : Nat}
    (hk : ∀ op, op ∈ ops → ∀ k, op.key? = some k → TermKey k ∧ k.length ≤ L) :
    ∀ m, m ∈ muts ops → TermKey m.key := by
  intro m hm
  simp only [muts, List.mem_filterMap] at hm
  obtain ⟨op, hop, hm⟩ := hm
  cases op <;> simp [SOp.mut?] at hm
  · subst hm; exact (hk _ hop _ rfl).1
  · subst hm; exact (hk _ hop _ rfl).1

/-- **no_missing_node**: from the empty trie over any content-addressed store, no history of updates,
    deletes, reads, commits, hash calls, evictions and re-openings ever meets a `MissingNodeError`
    (the store stays closed for the trie), a panic, or a stack deeper than `2·len(key)+2` frames. -/
theorem no_missing_node (hH : HashOk hashOf) (hz : ∀ c, hashOf c ≠ zeroHash)
    (L : Nat) (hf : 2 * L + 2 ≤ fuel) (ops : List SOp) (s : Store) (limit : Nat) (hS : Sound hashOf s)
    (hk : ∀ op, op ∈ ops → ∀ k, op.key? = some k → TermKey k ∧ k.length ≤ L) :
    ∃ st', runS small hashOf fuel ⟨{ cachelimit := limit }, s⟩ ops = .ok st' := by
  obtain ⟨st', _, h, _⟩ := mixed_run_simulates small hashOf fuel hH hz L hf ops
    ⟨{ cachelimit := limit }, s⟩ .empty hS .empty (.empty true) hk
  exact ⟨st', h⟩


/-- **mixed_run_reads_last_write**: after any history of updates, deletes, reads, commits, hash calls,
    evictions and re-openings, `TryGet` on the (partially resolved) trie returns, for every key, the
    last value written (`none` if never written, deleted or last written empty). -/
theorem mixed_run_reads_last_write (hH : HashOk hashOf) (hz : ∀ c, hashOf c ≠ zeroHash)
    (L : Nat) (hf : 2 * L + 2 ≤ fuel) (ops : List SOp) (s : Store) (limit : Nat) (hS : Sound hashOf s)
    (hk : ∀ op, op ∈ ops → ∀ k, op.key? = some k → TermKey k ∧ k.length ≤ L)
    (k : List Nib) (hk1 : TermKey k) (hk2 : k.length ≤ L) :
    ∃ st' t'', runS small hashOf fuel ⟨{ cachelimit := limit }, s⟩ ops = .ok st' ∧
      st'.t.get st'.s fuel k = .ok (spec (fun _ => none) (muts ops) k, t'') := by
  obtain ⟨st', n', a1, a2, a3, _, a5, _⟩ := mixed_run_simulates small hashOf fuel hH hz L hf ops
    ⟨{ cachelimit := limit }, s⟩ .empty hS .empty (.empty true) hk
  obtain ⟨m, c1, _, c3⟩ := run_spec (muts ops) .empty (fun _ => none) .empty
    (fun k _ => by simp [Mpt.get, toRes]) (muts_keys hk)
  rw [a2] at c1
  simp only [Option.some.injEq] at c1
  subst c1
  obtain ⟨hP, hN, _⟩ := canon_placed_nes n' a3
  rcases commit_reopen_get small hashOf st'.s st'.t n' k fuel a5 hP hN (by omega) with ⟨h1, _⟩ | ⟨t'', h1, _⟩
  · exact absurd h1 (get_no_panic n' k a3 hk1)
  · refine ⟨st', t'', a1, ?_⟩
    rw [h1, c3 k hk1]
    cases spec (fun _ => none) (muts ops) k <;> rfl

/-- **root_independent_of_commits**: two histories with the same final content — whatever the order of
    the updates, the overwritten and deleted keys, the cache limits, and wherever `Commit`, `Hash`,
    reads (which resolve nodes) and re-openings by root are interleaved, over whatever
    content-addressed stores — end with tries whose `Commit` returns the SAME root. -/
theorem root_independent_of_commits (hH : HashOk hashOf)
    (hz : ∀ c, hashOf c ≠ zeroHash) (L : Nat) (hf : 2 * L + 2 ≤ fuel)
    (ops1 ops2 : List SOp) (s1 s2 : Store) (l1 l2 : Nat) (hS1 : Sound hashOf s1) (hS2 : Sound hashOf s2)
    (hk1 : ∀ op, op ∈ ops1 → ∀ k, op.key? = some k → TermKey k ∧ k.length ≤ L)
    (hk2 : ∀ op, op ∈ ops2 → ∀ k, op.key? = some k → TermKey k ∧ k.length ≤ L)
    (hsame : ∀ k, TermKey k → spec (fun _ => none) (muts ops1) k = spec (fun _ => none) (muts ops2) k) :
    ∃ st1 st2 root t1 ws1 t2 ws2,
      runS small hashOf fuel ⟨{ cachelimit := l1 }, s1⟩ ops1 = .ok st1 ∧
      runS small hashOf fuel ⟨{ cachelimit := l2 }, s2⟩ ops2 = .ok st2 ∧
      st1.t.commit small hashOf = .ok (root, t1, ws1) ∧ st2.t.commit small hashOf = .ok (root, t2, ws2) := by
  obtain ⟨st1, n1, a1, a2, a3, a4, a5, _⟩ := mixed_run_simulates small hashOf fuel hH hz L hf ops1
    ⟨{ cachelimit := l1 }, s1⟩ .empty hS1 .empty (.empty true) hk1
  obtain ⟨st2, n2, b1, b2, b3, b4, b5, _⟩ := mixed_run_simulates small hashOf fuel hH hz L hf ops2
    ⟨{ cachelimit := l2 }, s2⟩ .empty hS2 .empty (.empty true) hk2
  obtain ⟨m1, c1, _, c3⟩ := run_spec (muts ops1) .empty (fun _ => none) .empty
    (fun k _ => by simp [Mpt.get, toRes]) (muts_keys hk1)
  obtain ⟨m2, d1, _, d3⟩ := run_spec (muts ops2) .empty (fun _ => none) .empty
    (fun k _ => by simp [Mpt.get, toRes]) (muts_keys hk2)
  rw [a2] at c1; rw [b2] at d1
  simp only [Option.some.injEq] at c1 d1
  subst c1; subst d1
  have hn : n1 = n2 := canon_ext n1 n2 a3 b3 (fun k hk => by rw [c3 k hk, d3 k hk, hsame k hk])
  subst hn
  obtain ⟨t1, ws1, e1, _⟩ := commit_inv small hashOf hH a4 a5 a3
  obtain ⟨t2, ws2, e2, _⟩ := commit_inv small hashOf hH b4 b5 b3
  exact ⟨st1, st2, _, t1, ws1, t2, ws2, a1, b1, e1, e2⟩

/-- **root_binds_content** (uniqueness of the expansion; needs `hashOf` injective): two canonical tries
    have the same root hash IF AND ONLY IF they hold the same key/value content. -/
theorem root_binds_content (hH : HashOk hashOf) (n1 n2 : Node)
    (h1 : Canon n1) (h2 : Canon n2) :
    refRoot (baseH small hashOf) n1 = refRoot (baseH small hashOf) n2 ↔
      ∀ k, TermKey k → Mpt.get n1 k = Mpt.get n2 k := by
  constructor
  · intro h k _
    suffices n1 = n2 by rw [this]
    rcases canon_branch_or_empty h1 with e1 | b1 <;> rcases canon_branch_or_empty h2 with e2 | b2
    · rw [e1, e2]
    · exfalso
      subst e1
      obtain ⟨x, hx⟩ := refC_force_hash (baseH small hashOf) n2 b2
      have hk := (refC_hash_inv (hs := baseH small hashOf) b2 hx).2
      have : refRoot (baseH small hashOf) n2 = x := by simp [refRoot, hx]
      rw [this, hk] at h
      have e : refRoot (baseH small hashOf) .empty = hashOf .empty := rfl
      rw [e] at h
      have := hH.inj _ _ (Or.inl rfl) (Or.inr ((canon_norm (baseH small hashOf) hH.ne h2).2 b2)) h
      have hb := refKids_isBranch (baseH small hashOf) n2 b2
      rw [← this] at hb; simp [CNode.isBranch] at hb
    · exfalso
      subst e2
      obtain ⟨x, hx⟩ := refC_force_hash (baseH small hashOf) n1 b1
      have hk := (refC_hash_inv (hs := baseH small hashOf) b1 hx).2
      have : refRoot (baseH small hashOf) n1 = x := by simp [refRoot, hx]
      rw [this, hk] at h
      have e : refRoot (baseH small hashOf) .empty = hashOf .empty := rfl
      rw [e] at h
      have := hH.inj _ _ (Or.inr ((canon_norm (baseH small hashOf) hH.ne h1).2 b1)) (Or.inl rfl) h
      have hb := refKids_isBranch (baseH small hashOf) n1 b1
      rw [this] at hb; simp [CNode.isBranch] at hb
    · obtain ⟨x1, hx1⟩ := refC_force_hash (baseH small hashOf) n1 b1
      obtain ⟨x2, hx2⟩ := refC_force_hash (baseH small hashOf) n2 b2
      have r1 : refRoot (baseH small hashOf) n1 = x1 := by simp [refRoot, hx1]
      have r2 : refRoot (baseH small hashOf) n2 = x2 := by simp [refRoot, hx2]
      rw [r1, r2] at h
      subst h
      exact refC_inj (baseH small hashOf) hH h1 n2 h2 true (by rw [hx1, hx2])
  · intro h
    rw [canon_ext n1 n2 h1 h2 h]

end roots

/-! ### the node pool of `store/trie_database.go`: `Trie.Commit` into the pool, `TrieDatabase.Commit`
    to disk, re-opening through a FRESH `TrieDatabase` over the same disk

  `DbOk` (LemoProofs.MptDbLemmas): every hash child of a pool blob is a recorded reference or already
  on disk; recorded children are in the pool or on disk; the disk is closed under hash children and
  content-addressed.  Extra hypothesis for the fresh re-open, on `small` (the only one): a node that is
  embedded contains no hash reference (`hasher.store` records references to DIRECT hash children
  only; true of the real threshold: an encoding shorter than 32 bytes cannot contain a 33-byte hash
  reference). -/

section db
variable (small : CNode → Bool) (hashOf : CNode → Hash)

/-- **db_commit_keeps_invariant**: `Trie.Commit` with its `db.Insert` / `db.Reference` calls applied to
    the pool: what `TrieDatabase.Node` returns only grows, stays content-addressed, is closed for the
    committed trie, and the pool invariant `DbOk` is kept (children are written before parents). -/
theorem db_commit_keeps_invariant (hH : HashOk hashOf) (db : Db)
    (hOk : DbOk hashOf db) (hS : Sound hashOf db.node) (t : Trie) (n : Node)
    (hA : Abs small hashOf db.node t.root n) (hC : Canon n) :
    ∃ t' ws, t.commit small hashOf = .ok (refRoot (baseH small hashOf) n, t', ws) ∧
      DbOk hashOf (db.insertAll ws) ∧ Sound hashOf (db.insertAll ws).node ∧
      Store.le db.node (db.insertAll ws).node ∧ Abs small hashOf (db.insertAll ws).node t'.root n ∧
      Stored (baseH small hashOf) (db.insertAll ws).node true n ∧
      Closed (baseH small hashOf) (db.insertAll ws).node n := by
  obtain ⟨hP, _, hnv⟩ := canon_placed_nes n hC
  have heq := trie_commit_eq small hashOf hA hC
  have hw : ∀ w, w ∈ writes (t.hasher small hashOf true) t.root true → w.1 = hashOf w.2 ∧ NormM false w.2 :=
    fun w hw => ⟨writes_sound (baseH small hashOf) (t.hasher small hashOf true) rfl rfl hA hP hnv w hw,
      writes_norm (baseH small hashOf) (t.hasher small hashOf true) rfl rfl hH.ne hA hC w hw⟩
  obtain ⟨g1, g2, g3, _⟩ := insertAll_spec hH (writes (t.hasher small hashOf true) t.root true) db hS hw
  obtain ⟨_, c2, c3⟩ := commit_core (baseH small hashOf) (t.hasher small hashOf true) rfl rfl hA hP hnv
    (db.insertAll (writes (t.hasher small hashOf true) t.root true)).node g1 (fun _ => g3)
  have hpr := (writes_present (baseH small hashOf) (t.hasher small hashOf true) hA hP hnv
    (fun x => db.node x ≠ none) (fun x hx => hx)).1
  exact ⟨_, _, heq, insertAll_ok hH _ db hOk hS hw hpr, g2, g1, c2, (c3 rfl).1, (c3 rfl).2⟩

/-- **db_flush_transparent**: `TrieDatabase.Commit(root)` (write the nodes reachable through the recorded
    references to disk, uncache them) changes nothing `Node` returns and keeps the pool invariant. -/
theorem db_flush_transparent (db db' : Db) (root : Hash) (hOk : DbOk hashOf db) (hS : Sound hashOf db.node)
    (h : db.commit root = .ok db') : db'.node = db.node ∧ DbOk hashOf db' :=
  ⟨commit_node h, (commit_ok hOk hS h).1⟩

/-- **flush_reopen_fresh**: after `TrieDatabase.Commit(root(n))`, a NEW `TrieDatabase` over the same
    key-value store (empty pool) serves the whole trie: `trie.New(root(n), freshDb)` succeeds and the
    re-opened trie abstracts to `n` — so (`commit_reopen_*`, `no_missing_node`) every later operation
    behaves as on `n`. -/
theorem flush_reopen_fresh (hH : HashOk hashOf) (hz : ∀ c, hashOf c ≠ zeroHash)
    (hsmall : ∀ m : Node, small (refKids (baseH small hashOf) m) = true → noHashC (refKids (baseH small hashOf) m)) (db db' : Db) (hOk : DbOk hashOf db)
    (hS : Sound hashOf db.node) (n : Node) (hC : Canon n)
    (hSt : Stored (baseH small hashOf) db.node true n) (hCl : Closed (baseH small hashOf) db.node n)
    (h : db.commit (refRoot (baseH small hashOf) n) = .ok db') :
    ∃ t', Trie.new hashOf db'.fresh.node (refRoot (baseH small hashOf) n) = .ok t' ∧
      Abs small hashOf db'.fresh.node t'.root n := by
  obtain ⟨hP, _, _⟩ := canon_placed_nes n hC
  obtain ⟨hOk', hroot, hmono⟩ := commit_ok hOk hS h
  have hnode := commit_node h
  have hd : ∀ x, db'.fresh.node x = lookupH db'.disk x := fun x => rfl
  have hle : Store.le db'.fresh.node db.node := by
    intro x c hx
    rw [hd] at hx
    rw [← hnode]
    simp only [Db.node]
    cases hm : lookupH db'.mem x with
    | none => exact hx
    | some m =>
      have h1 : db'.node x = some m.blob := by simp [Db.node, hm]
      rw [hnode] at h1
      have e1 := hS _ _ h1
      have e2 := hOk'.dsound x c hx
      have e3 : hashOf m.blob = hashOf c := by rw [← e1.1, ← e2.1]
      simp only [Option.some.injEq]
      exact hH.inj _ _ (Or.inr e1.2) (Or.inr e2.2) e3
  have hg : ∀ h c, db'.fresh.node h = some c → ∀ x, x ∈ directRefs c → db'.fresh.node x ≠ none := by
    intro h0 c hc x hx
    rw [hd] at hc ⊢
    exact hOk'.disk h0 c hc x hx
  have hboth : Stored (baseH small hashOf) db'.fresh.node true n ∧ Closed (baseH small hashOf) db'.fresh.node n := by
    rcases canon_branch_or_empty hC with hn | hb
    · subst hn
      exact ⟨fun h0 hh => by simp [refC] at hh, trivial⟩
    · obtain ⟨h0, hh⟩ := refC_force_hash (baseH small hashOf) n hb
      have hr0 : refRoot (baseH small hashOf) n = h0 := by simp [refRoot, hh]
      have hpres : db'.fresh.node h0 ≠ none := by
        rw [hd]
        have hn0 : db.node h0 ≠ none := by rw [hSt h0 hh]; simp
        rcases (node_ne_none db h0).mp hn0 with g | g
        · have := hroot (by rw [hr0]; exact g)
          rw [hr0] at this; exact this
        · exact hmono h0 g
      obtain ⟨g1, g2⟩ := closed_of_graph (baseH small hashOf) hsmall db'.fresh.node db.node hle hg n true h0 hb hP hh
        hpres hSt hCl
      refine ⟨fun h1 hh1 => ?_, g2⟩
      rw [hh] at hh1
      simp only [CNode.hash.injEq] at hh1
      rw [← hh1]; exact g1
  obtain ⟨t', a1, a2, _⟩ := open_inv small hashOf hH hz hC hboth.1 hboth.2
  exact ⟨t', a1, a2⟩

/-- **commit_flush_reopen_fresh** (the chain): `Trie.Commit`, `TrieDatabase.Commit(root)`, then a fresh
    `TrieDatabase` over the same disk and `trie.New(root)`: the re-opened trie abstracts to the same
    resolved trie as the trie that was committed. -/
theorem commit_flush_reopen_fresh (hH : HashOk hashOf) (hz : ∀ c, hashOf c ≠ zeroHash)
    (hsmall : ∀ m : Node, small (refKids (baseH small hashOf) m) = true → noHashC (refKids (baseH small hashOf) m)) (db : Db) (hOk : DbOk hashOf db)
    (hS : Sound hashOf db.node) (t : Trie) (n : Node) (hA : Abs small hashOf db.node t.root n) (hC : Canon n) :
    ∃ root t' ws, t.commit small hashOf = .ok (root, t', ws) ∧
      ∀ db2, (db.insertAll ws).commit root = .ok db2 →
        ∃ t2, Trie.new hashOf db2.fresh.node root = .ok t2 ∧ Abs small hashOf db2.fresh.node t2.root n := by
  obtain ⟨t', ws, h1, h2, h3, _, _, h6, h7⟩ := db_commit_keeps_invariant small hashOf hH db hOk hS t n hA hC
  exact ⟨_, t', ws, h1, fun db2 hdb =>
    flush_reopen_fresh small hashOf hH hz hsmall (db.insertAll ws) db2 h2 h3 n hC h6 h7 hdb⟩

/-- the hypothesis on `small` is satisfiable by a non-trivial predicate: "a leaf with a short value" -/
def leafSmall : CNode → Bool
  | .short _ (.value v) => decide (v.length < 3)
  | _ => false

theorem leafSmall_noHash : ∀ c, leafSmall c = true → noHashC c := by
  intro c h
  cases c with
  | short K c' => cases c' <;> simp [leafSmall] at h <;> trivial
  | empty => simp [leafSmall] at h
  | value v => simp [leafSmall] at h
  | hash x => simp [leafSmall] at h
  | full ch => simp [leafSmall] at h

/-- the pool invariant and content-addressing hold for the empty database -/
example : DbOk hashOf {} ∧ Sound hashOf ({} : Db).node :=
  ⟨dbOk_empty hashOf, fun h c hc => by cases hc⟩

end db

/-! ### Merkle proofs of the trie (`proof.go`)

  `Trie.Prove` is commented out in /repo, so there is no producer; a proof is any reader holding the
  blobs on the path (the node database itself is one).  `VerifyProof` is modelled by
  `MptStore.verifyProof check …`: `check = true` is the code since /repo commit 18a0e58 (every blob read
  must hash to the hash its parent / the root names), `check = false` the code before it. -/

section proofs
variable (small : CNode → Bool) (hashOf : CNode → Hash)

/-- **proof_verifies_present**: over any store that is closed for the canonical trie `n` (its database
    after `Commit`; no hypothesis on `hashOf`), `VerifyProof(root(n), key)` returns the value `n` holds
    for a present key and "no value, no error" for an absent one, within `len(key)+1` rounds. -/
theorem proof_verifies_present (check : Bool) (s : Store) (n : Node) (hC : Canon n)
    (hb : MptStoreLemmas.Node.isBranch n = true)
    (hSt : Stored (baseH small hashOf) s true n) (hCl : Closed (baseH small hashOf) s n)
    (key : List Nib) (fuel : Nat) (hf : key.length < fuel) :
    (∀ v, Mpt.get n key = .found v →
      ∃ k, verifyProof check hashOf s fuel (refRoot (baseH small hashOf) n) key 0 = .value v k) ∧
    (Mpt.get n key = .absent →
      ∃ k, verifyProof check hashOf s fuel (refRoot (baseH small hashOf) n) key 0 = .absent k) := by
  obtain ⟨h, hh⟩ := refC_force_hash (baseH small hashOf) n hb
  have hroot : refRoot (baseH small hashOf) n = h := by simp [refRoot, hh]
  rw [hroot]
  exact verify_complete (baseH small hashOf) check s fuel n true h key 0 hC hb hh hSt hCl hf

/-- a reader blob that decodes to a node is a normal node (what `decodeNode` returns) -/
def NormReader (r : Store) : Prop := ∀ h c, r h = some c → c.isBranch = true → NormM false c

/-- core of the two soundness theorems -/
theorem proof_sound_core (hH : HashOk hashOf) (check : Bool) (r : Store)
    (hr : check = true ∨ ∀ h c, r h = some c → h = hashOf c) (hN : NormReader r)
    (n : Node) (hC : Canon n) (key : List Nib) (fuel : Nat) :
    (∀ v k, verifyProof check hashOf r fuel (refRoot (baseH small hashOf) n) key 0 = .value v k →
      Mpt.get n key = .found v) ∧
    (∀ k, verifyProof check hashOf r fuel (refRoot (baseH small hashOf) n) key 0 = .absent k →
      Mpt.get n key = .absent) := by
  rcases canon_branch_or_empty hC with e | hb
  · -- the empty trie: no blob hashes to `emptyRoot`, nothing is ever returned
    subst e
    refine ⟨fun v k h => ?_, fun k _ => by simp [Mpt.get]⟩
    exfalso
    have hroot : refRoot (baseH small hashOf) .empty = hashOf .empty := rfl
    rw [hroot] at h
    cases fuel with
    | zero => cases h
    | succ fuel =>
      rw [verifyProof_succ] at h
      cases hrw : r (hashOf .empty) with
      | none => rw [hrw] at h; cases h
      | some c =>
        rw [hrw] at h
        simp only at h
        by_cases hbr : c.isBranch = true
        · have hne : hashOf c ≠ hashOf .empty := by
            intro e
            have := hH.inj _ _ (Or.inr (hN _ c hrw hbr)) (Or.inl rfl) e
            rw [this] at hbr; simp [CNode.isBranch] at hbr
          rcases hr with hchk | hsound
          · subst hchk
            rw [if_pos (by simp [hne])] at h; cases h
          · exact hne (hsound _ c hrw).symm
        · by_cases hc : (check && decide (hashOf c ≠ hashOf .empty)) = true
          · rw [if_pos hc] at h; cases h
          · rw [if_neg hc, if_pos (by simpa using hbr)] at h; cases h
  · obtain ⟨h, hh⟩ := refC_force_hash (baseH small hashOf) n hb
    have hroot : refRoot (baseH small hashOf) n = h := by simp [refRoot, hh]
    rw [hroot]
    exact verify_sound (baseH small hashOf) hH check r hr hN fuel n true h key 0 hC hb hh

/-- **proof_binds_value** (the code since 18a0e58): against the root of the canonical trie `n`, for
    ANY reader — adversarial, not content-addressed — whatever `VerifyProof` returns is what `n` holds:
    a value only for a present key and only that key's value; "absent" only for an absent key.  A proof
    for another value cannot be produced.  Hypotheses: `hashOf` collision-free on normal nodes; reader
    blobs are what `decodeNode` returns. -/
theorem proof_binds_value (hH : HashOk hashOf) (r : Store) (hN : NormReader r) (n : Node) (hC : Canon n)
    (key : List Nib) (fuel : Nat) :
    (∀ v k, verifyProof true hashOf r fuel (refRoot (baseH small hashOf) n) key 0 = .value v k →
      Mpt.get n key = .found v) ∧
    (∀ k, verifyProof true hashOf r fuel (refRoot (baseH small hashOf) n) key 0 = .absent k →
      Mpt.get n key = .absent) :=
  proof_sound_core small hashOf hH true r (Or.inl rfl) hN n hC key fuel

/-- **proof_binds_value_legacy_partial** (the code before 18a0e58, no hash check): the same conclusion
    only under the guard that the READER is content-addressed.  Full statement (any reader): refuted
    by `proof_forged_legacy` below. -/
theorem proof_binds_value_legacy_partial (hH : HashOk hashOf) (r : Store)
    (hr : ∀ h c, r h = some c → h = hashOf c) (hN : NormReader r) (n : Node) (hC : Canon n)
    (key : List Nib) (fuel : Nat) :
    (∀ v k, verifyProof false hashOf r fuel (refRoot (baseH small hashOf) n) key 0 = .value v k →
      Mpt.get n key = .found v) ∧
    (∀ k, verifyProof false hashOf r fuel (refRoot (baseH small hashOf) n) key 0 = .absent k →
      Mpt.get n key = .absent) :=
  proof_sound_core small hashOf hH false r (Or.inr hr) hN n hC key fuel

end proofs

/-! ### the node codec: what the hypotheses `HashOk` and `small ⇒ no hash inside` stand for -/

section codec

/-- **compact_key_roundtrip**: `compactToHex(hexToCompact(K)) = K` for every hex key (nibbles, optional
    terminator) — the key of a short node survives the database -/
theorem compact_key_roundtrip (K : List Nib) (hK : KeyOk K) : compactToHex (hexToCompact K) = some K :=
  compact_roundtrip K hK

/-- **node_blob_injective**: the RLP bytes `hasher.store` writes determine the collapsed node, on normal
    nodes (`Norm`: what `decodeNode` returns / the hasher emits for canonical tries) whose bytes are
    bytes and keys hex keys (sizes < 2^64 as in C14's `decode_encode`).  On the WHOLE `CNode` algebra
    this is false (nil child = `valueNode(nil)`), which is why `HashOk` is stated on `Norm`. -/
theorem node_blob_injective (a b : CNode) (na : Norm a) (nb : Norm b) (ba : BytesOk a) (bb : BytesOk b)
    (la : (nodeRlp a).length < 2 ^ 64) (lb : (nodeRlp b).length < 2 ^ 64)
    (h : nodeRlp a = nodeRlp b) : a = b := nodeRlp_inj a b na nb ba bb la lb h

/-- **keccak_rlp_collision_free**: for `hashOf = K ∘ rlp` the collision freedom assumed in `HashOk` is
    collision freedom of `K` (Keccak256) alone -/
theorem keccak_rlp_collision_free (K : List UInt8 → Hash) (hK : ∀ x y, K x = K y → x = y)
    (a b : CNode) (na : Norm a) (nb : Norm b) (ba : BytesOk a) (bb : BytesOk b)
    (la : (nodeRlp a).length < 2 ^ 64) (lb : (nodeRlp b).length < 2 ^ 64)
    (h : K (nodeRlp a) = K (nodeRlp b)) : a = b :=
  nodeRlp_inj a b na nb ba bb la lb (hK _ _ h)

theorem hash32_rawN (n : Node) : Hash32 (rawN n) := by
  induction n with
  | empty => trivial
  | value v => trivial
  | short K c ih => exact ih
  | full ch ih => exact fun i => ih i

theorem hash32_ref (hs : Hasher) (hlen : ∀ c, (hs.hashOf c).length = 32) (n : Node) :
    (∀ force, Hash32 (refC hs n force)) ∧ Hash32 (refKids hs n) := by
  have sr : ∀ c force, Hash32 c → Hash32 (storeRef hs c none force) := by
    intro c force hc
    cases c with
    | empty => exact hc
    | hash h => exact hc
    | value v => simp only [storeRef]; split <;> first | exact hc | exact hlen _
    | short K c => simp only [storeRef]; split <;> first | exact hc | exact hlen _
    | full ch => simp only [storeRef]; split <;> first | exact hc | exact hlen _
  induction n with
  | empty => exact ⟨fun _ => trivial, trivial⟩
  | value v => exact ⟨fun f => sr _ f trivial, trivial⟩
  | short K c ih =>
    have hk : Hash32 (refKids hs (.short K c)) := by
      rw [refKids_short]
      show Hash32 (childRef hs c)
      cases c with
      | value v => trivial
      | empty => exact ih.1 false
      | short K' c' => exact ih.1 false
      | full ch' => exact ih.1 false
    exact ⟨fun f => by rw [refC_short]; exact sr _ f hk, hk⟩
  | full ch ih =>
    have hk : Hash32 (refKids hs (.full ch)) := by
      rw [refKids_full]
      intro i
      by_cases hi : i = 16
      · simp only [hi, if_true]; exact hash32_rawN _
      · simp only [hi, if_false]; exact (ih i).1 false
    exact ⟨fun f => by rw [refC_full]; exact sr _ f hk, hk⟩

/-- **rlp_small_embeds_no_hash**: the REAL embedding test `len(rlp) < 32` satisfies the hypothesis of
    `flush_reopen_fresh` as soon as hashes are 32 bytes long: a node that is embedded contains no hash
    reference (a reference alone takes 33 bytes). -/
theorem rlp_small_embeds_no_hash (hashOf : CNode → Hash) (hlen : ∀ c, (hashOf c).length = 32) (m : Node) :
    rlpSmall (refKids (baseH rlpSmall hashOf) m) = true → noHashC (refKids (baseH rlpSmall hashOf) m) := by
  intro h
  apply small_noHash _ (hash32_ref (baseH rlpSmall hashOf) hlen m).2
  have : (nodeRlp (refKids (baseH rlpSmall hashOf) m)).length < 32 := by simpa [rlpSmall] using h
  omega

end codec

/-! ### non-vacuity and witnesses -/

section witnesses

/-- an injective `hashOf` exists: the serialisation of the collapsed node (the one the driver uses) -/
def serH : CNode → Hash
  | .empty => [0]
  | .value v => 1 :: v.length :: v
  | .hash h => 2 :: h.length :: h
  | .short k c => 3 :: k.length :: (k.map (·.val)) ++ serH c
  | .full ch => 4 :: (List.finRange 17).flatMap (fun i => serH (ch i))


theorem map_val_inj : ∀ (k k2 : List Nib), k.map (·.val) = k2.map (·.val) → k = k2 := by
  intro k
  induction k with
  | nil => intro k2 h; cases k2 <;> simp at h; rfl
  | cons x k ih =>
    intro k2 h
    cases k2 with
    | nil => simp at h
    | cons y k2 =>
      simp only [List.map_cons, List.cons.injEq] at h
      rw [Fin.ext h.1, ih k2 h.2]

/-- `serH` is a prefix-free code -/
theorem serH_prefix (a : CNode) : ∀ (b : CNode) (r1 r2 : List Nat), serH a ++ r1 = serH b ++ r2 →
    a = b ∧ r1 = r2 := by
  induction a with
  | empty =>
    intro b r1 r2 h
    cases b <;> simp [serH] at h
    exact ⟨rfl, h⟩
  | value v =>
    intro b r1 r2 h
    cases b <;> simp [serH] at h
    obtain ⟨h1, h2⟩ := h
    obtain ⟨e1, e2⟩ := List.append_inj h2 h1
    exact ⟨by rw [e1], e2⟩
  | hash x =>
    intro b r1 r2 h
    cases b <;> simp [serH] at h
    obtain ⟨h1, h2⟩ := h
    obtain ⟨e1, e2⟩ := List.append_inj h2 h1
    exact ⟨by rw [e1], e2⟩
  | short k c ih =>
    intro b r1 r2 h
    cases b <;> simp [serH] at h
    obtain ⟨h1, h2⟩ := h
    rename_i k2 c2
    have hl : (k.map (·.val)).length = (k2.map (·.val)).length := by simp [h1]
    have h2' : k.map (·.val) ++ (serH c ++ r1) = k2.map (·.val) ++ (serH c2 ++ r2) := by
      simpa [List.append_assoc] using h2
    obtain ⟨e1, e2⟩ := List.append_inj h2' hl
    obtain ⟨e3, e4⟩ := ih c2 r1 r2 e2
    have : k = k2 := map_val_inj k k2 e1
    exact ⟨by rw [this, e3], e4⟩
  | full ch ih =>
    intro b r1 r2 h
    cases b <;> simp [serH] at h
    rename_i ch2
    have key : ∀ (l : List Nib), l.flatMap (fun i => serH (ch i)) ++ r1 = l.flatMap (fun i => serH (ch2 i)) ++ r2 →
        (∀ i, i ∈ l → ch i = ch2 i) ∧ r1 = r2 := by
      intro l
      induction l with
      | nil => intro h; exact ⟨fun i hi => (by cases hi), by simpa using h⟩
      | cons x l ihl =>
        intro h
        simp only [List.flatMap_cons, List.append_assoc] at h
        obtain ⟨e1, e2⟩ := ih x (ch2 x) _ _ h
        obtain ⟨g1, g2⟩ := ihl e2
        refine ⟨fun i hi => ?_, g2⟩
        rcases List.mem_cons.mp hi with hi | hi
        · rw [hi]; exact e1
        · exact g1 i hi
    obtain ⟨g1, g2⟩ := key (List.finRange 17) h
    refine ⟨?_, g2⟩
    congr 1
    funext i
    exact g1 i (List.mem_finRange i)

/-- the hypotheses of the commit / re-opening theorems are satisfiable: `serH` is injective -/
theorem serH_injective : ∀ a b, serH a = serH b → a = b := by
  intro a b h
  exact (serH_prefix a b [] [] (by simpa using h)).1

/-- `serH` satisfies everything assumed of the hash function -/
theorem serH_hashOk : HashOk serH :=
  ⟨fun a b _ _ h => serH_injective a b h, fun c => by cases c <;> simp [serH]⟩

/-! #### `VerifyProof` before the fix 18a0e58 accepts a forged value from a reader that is not
    content-addressed (refutation of the unguarded `proof_binds_value` for `check = false`) -/

def forgedTrie : Node := .short (hexKey [0x12]) (.value [1])
def forgedRoot : Hash := refRoot (baseH (fun _ => false) serH) forgedTrie
/-- the reader answers the root hash with a node that holds ANOTHER value -/
def forgedReader : Store := fun h => if h = forgedRoot then some (.short (hexKey [0x12]) (.value [2])) else none

/-- code before the fix: value `[2]` "proved" for a key that holds `[1]` -/
theorem proof_forged_legacy :
    verifyProof false serH forgedReader 5 forgedRoot (hexKey [0x12]) 0 = .value [2] 1 ∧
    Mpt.get forgedTrie (hexKey [0x12]) = .found [1] := by decide

/-- code since the fix: the same reader is rejected at node 0 -/
example : verifyProof true serH forgedReader 5 forgedRoot (hexKey [0x12]) 0 = .mismatch 0 := by decide

example : Canon forgedTrie := .leaf _ _ (hexKey_term _) (by simp)

/-- the hypotheses of the re-opening theorems are satisfiable: no serialisation is the zero hash -/
example : ∀ c, serH c ≠ zeroHash := by
  intro c h
  cases c <;> simp [serH, zeroHash, List.replicate] at h

/-- the empty store is content-addressed -/
example (hashOf : CNode → Hash) : Sound hashOf (fun _ => none) := by
  intro h c hc; cases hc

/-- WITNESS that injectivity is needed: with a `hashOf` that sends every non-empty node to the same
    hash, `TrieDatabase.insert` keeps the first blob; after a second commit the re-opened trie is the
    FIRST one. -/
def constH : CNode → Hash
  | .empty => [0]
  | _ => [7]

def collisionDemo : Option Val × Option Val :=
  let k1 := hexKey [0x12]
  let k2 := hexKey [0x34]
  let s0 : Store := fun _ => none
  match ({} : Trie).update s0 50 k1 [1] with
  | .ok t1 =>
    match t1.commit (fun _ => false) constH with
    | .ok (_, t2, ws) =>
      let s1 := s0.putAll ws
      match t2.update s1 50 k2 [2] with
      | .ok t3 =>
        match t3.commit (fun _ => false) constH with
        | .ok (r2, _, ws2) =>
          let s2 := s1.putAll ws2
          match Trie.new constH s2 r2 with
          | .ok t5 =>
            match t5.get s2 50 k1, t5.get s2 50 k2 with
            | .ok (a, _), .ok (b, _) => (a, b)
            | _, _ => (none, none)
          | _ => (none, none)
        | _ => (none, none)
      | _ => (none, none)
    | _ => (none, none)
  | _ => (none, none)

/-- the second key, written before the second commit, is gone after re-opening by the returned root -/
example : collisionDemo = (some [1], none) := by decide

end witnesses

end LemoProofs.C17

/-
  C18 — the transaction pool behaves like a set of pending transactions under any interleaving.

  Model: `LemoModel.Pool` = /repo/chain/txpool/tx_pool.go exactly as coded, tied to the real code by
  `hx c18` (whole internal state compared after every call).
    * `fixed = true`  = the code as it is now, i.e. with `delTx` as repaired by /repo commit 85d2f65
                        ("fix: delTx of a box must clear the slots of its pooled sub-txs"); this is the
                        model the driver runs.
    * `fixed = false` = the code BEFORE commit 85d2f65.

  All theorems quantify over ALL sequences of calls `ops : List Op` (AddTx / AddTxs / GetTxs / DelTxs /
  IsEmpty with arbitrary arguments: nil txs, duplicates, boxes overlapping with standalone txs and with
  each other, any expiry, any size) starting from `NewTxPool()`.  They are proved through an invariant
  (`PoolLemmas.Inv`) preserved by every call.

    * current code (`fixed = true`), full: `no_panic`, `never_expired`, `box_exclusive`,
      `no_duplicates_handed_out`, `never_deleted`, `none_lost`, `fork_switch_content`,
      `linearizable`, `concurrent_selection`.
    * code before 85d2f65 (`fixed = false`): `no_panic` and `never_expired` hold in full too; the four set
      clauses are REFUTED (`*_refuted`, concrete call sequences, all caused by one defect: `delTx(box)`
      for a box that is not pooled deleted the index entries of its pooled sub-txs but left their slots)
      and hold `_partial`ly for every call sequence satisfying `Guarded` (no `DelTxs` of a box one of
      whose sub-tx hashes is indexed at a live slot other than the box's own).

  Concurrency: see `linearizable` at the end — the reduction of concurrent histories to the sequential
  ones above under the checked lock-discipline fact.
-/
import LemoModel.Pool
import LemoProofs.Lemmas.Pool
namespace LemoProofs.C18
open LemoModel.Pool LemoProofs.PoolLemmas

/-- what `GetTxs(time, size)` returns after the calls `ops` on a fresh pool -/
def handedOut (fixed : Bool) (ops : List Op) (time : Nat) (size : Int) : Out :=
  (step fixed (runState fixed newPool ops) (.get time size)).2

theorem inv_run (ops : List Op) : Inv (runState true newPool ops) := runState_fixed_inv inv_new ops
theorem winv_run (fixed : Bool) (ops : List Op) : WInv (runState fixed newPool ops) := runState_winv fixed winv_new ops

/-- under the guard the code before commit 85d2f65 and the repaired (current) code are indistinguishable -/
theorem guarded_eq {ops : List Op} (g : Guarded newPool ops) (time : Nat) (size : Int) :
    handedOut false ops time size = handedOut true ops time size := by
  unfold handedOut
  rw [(run_eq_of_guarded inv_new g).1]
  rw [step_eq_of_guard (inv_run ops) (op := .get time size) trivial]

/-! ### what holds for all call sequences both before and after the repair (`fixed` arbitrary) -/

/-- **no_panic** (current code and the code before 85d2f65): the only call that can panic is `GetTxs` with a negative `size`
    (`make([]*Transaction, 0, size)` precedes the `size <= 0` test); in particular `pool.txs[index] = nil`
    never indexes out of range. -/
theorem no_panic (fixed : Bool) (ops : List Op) (op : Op) :
    (step fixed (runState fixed newPool ops) op).2 = .panic ↔ ∃ time size, op = .get time size ∧ size < 0 := by
  have w := winv_run fixed ops
  generalize runState fixed newPool ops = p at w
  cases op with
  | add t =>
    simp only [step]
    constructor
    · intro h; split at h <;> cases h
    · rintro ⟨_, _, h, _⟩; cases h
  | adds ts =>
    simp only [step]
    constructor
    · intro h; split at h <;> cases h
    · rintro ⟨_, _, h, _⟩; cases h
  | isEmpty =>
    simp only [step]
    constructor
    · intro h; cases h
    · rintro ⟨_, _, h, _⟩; cases h
  | del ds =>
    rw [step_del]
    constructor
    · intro h
      cases he : ds.isEmpty with
      | true => rw [delTxs_empty fixed p he] at h; cases h
      | false => obtain ⟨p', _, e, _⟩ := delTxs_spec fixed w he; rw [e] at h; cases h
    · rintro ⟨_, _, h, _⟩; cases h
  | get time size =>
    rw [step_get]
    constructor
    · intro h
      by_cases hs : 0 < size
      · obtain ⟨p', l, e, _⟩ := getTxs_spec fixed w time hs; rw [e] at h; cases h
      · by_cases h0 : size < 0
        · exact ⟨time, size, rfl, h0⟩
        · have : size = 0 := by omega
          unfold getTxs at h; simp [this] at h
    · rintro ⟨t', s', h, hneg⟩
      cases h
      unfold getTxs; simp [hneg]

/-- **never_expired** (current code and the code before 85d2f65, full): no selection contains a transaction that is expired at the
    selection's time (own expiration or, for a box, any sub-tx's). -/
theorem never_expired (fixed : Bool) (ops : List Op) (time : Nat) (size : Int) (l : List Tx)
    (h : handedOut fixed ops time size = .txs l) : ∀ t ∈ l, isTxTimeOut t time = false :=
  (get_sub_live fixed (winv_run fixed ops) h).2

/-! ### the current code (`delTx` repaired by commit 85d2f65): the set behaviour, for all call sequences -/

/-- **box_exclusive**: any two transactions of one selection have disjoint hash sets (own hash + sub-tx
    hashes): never a box together with one of its sub-txs, never two boxes sharing a sub-tx. -/
theorem box_exclusive (ops : List Op) (time : Nat) (size : Int) (l : List Tx)
    (h : handedOut true ops time size = .txs l) : l.Pairwise KeysDisjoint :=
  get_pairwise (inv_run ops) h

/-- **no_duplicates_handed_out**: a selection contains each transaction hash at most once. -/
theorem no_duplicates_handed_out (ops : List Op) (time : Nat) (size : Int) (l : List Tx)
    (h : handedOut true ops time size = .txs l) : (l.map Tx.hash).Nodup := by
  have := box_exclusive ops time size l h
  rw [List.Nodup, List.pairwise_map]
  exact this.imp (fun {a b} hab e => hab a.hash (by simp [Tx.keys]) (by rw [e]; simp [Tx.keys]))

/-- **never_deleted**: after `DelTxs(ds)`, a hash `k` of any listed transaction (its own hash or a sub-tx
    hash) is not handed out again — neither as a transaction of its own nor inside a box — until a call
    adds a transaction owning `k` again. -/
theorem never_deleted (pre mid : List Op) (ds : List (Option Tx)) (d : Tx) (k : Hash)
    (time : Nat) (size : Int) (l : List Tx)
    (hd : some d ∈ ds) (hk : k ∈ d.keys) (hmid : ∀ op ∈ mid, ¬ addsKey k op)
    (h : handedOut true (pre ++ [.del ds] ++ mid) time size = .txs l) : ∀ t ∈ l, k ∉ t.keys := by
  unfold handedOut at h
  have v := inv_run (pre ++ [.del ds] ++ mid)
  have habs : lookup (runState true newPool (pre ++ [.del ds] ++ mid)).idx k = none := by
    rw [runState_append, runState_append]
    apply runState_absent true _ _ hmid
    · exact runState_winv true (winv_run true pre) _
    · show lookup (runState true (runState true newPool pre) [.del ds]).idx k = none
      exact del_absent (winv_run true pre) hd hk
  intro t ht
  exact live_absent v habs t ((get_sub_live true v.toWInv h).1.subset ht)

/-- **none_lost**: a transaction that `AddTx` accepted is handed out by every later selection that is not
    cut short by `size` and at whose time it is not expired, provided that in between no `DelTxs` named a
    transaction sharing a hash with it and no scanning `GetTxs` saw it expired.
    "Large enough": `size ≥` the number of slots (≥ the number of pending transactions). -/
theorem none_lost (pre mid : List Op) (t : Tx) (time : Nat) (size : Int) (l : List Tx)
    (hacc : (step true (runState true newPool pre) (.add (some t))).2 = .ok)
    (hmid : ∀ op ∈ mid, ¬ touches t op ∧ ¬ expires t op)
    (hto : isTxTimeOut t time = false)
    (hsz : ((runState true newPool (pre ++ [.add (some t)] ++ mid)).txs.length : Int) ≤ size)
    (h : handedOut true (pre ++ [.add (some t)] ++ mid) time size = .txs l) : t ∈ l := by
  unfold handedOut at h
  have v := inv_run (pre ++ [.add (some t)] ++ mid)
  have hok : (addTx (runState true newPool pre) (some t)).2 = .ok := by
    simp only [step] at hacc
    split at hacc
    · rename_i he; rw [he]
    · cases hacc
  have hl := addTx_ok_live hok
  rw [← step_add_fst true] at hl
  have hlive := runState_fixed_keeps (step_fixed_inv (inv_run pre) (.add (some t))) hl hmid
  have e : runState true newPool (pre ++ [.add (some t)] ++ mid)
      = runState true (step true (runState true newPool pre) (.add (some t))).1 mid := by
    rw [runState_append, runState_append]; rfl
  rw [e] at h hsz v
  exact get_complete v hlive hto hsz h

/-- **fork_switch_content** (`onCurrentChanged` on a fork switch = `AddTxs(oldForkTxs); DelTxs(newForkTxs)`):
    afterwards (a) no pending transaction shares a hash with a transaction of the new fork; (b) every
    transaction that was pending before, or became pending by the `AddTxs`, and shares no hash with the new
    fork is still pending; (c) an old-fork transaction does become pending by the `AddTxs` if none of its
    hashes was indexed and no other old-fork transaction shares a hash with it. -/
theorem fork_switch_content (ops : List Op) (old new : List (Option Tx)) :
    let p := runState true newPool ops
    let p1 := (step true p (.adds old)).1
    let q := (step true p1 (.del new)).1
    (∀ n, some n ∈ new → ∀ k ∈ n.keys, ∀ t ∈ live q, k ∉ t.keys) ∧
    (∀ t, (t ∈ live p ∨ t ∈ live p1) → (∀ n, some n ∈ new → KeysDisjoint n t) → t ∈ live q) ∧
    (∀ t, some t ∈ old → (∀ k ∈ t.keys, lookup p.idx k = none) →
        (∀ t', some t' ∈ old → t' ≠ t → KeysDisjoint t t') → t ∈ live p1) := by
  intro p p1 q
  have vp : Inv p := inv_run ops
  have vp1 : Inv p1 := step_fixed_inv vp _
  have vq : Inv q := step_fixed_inv vp1 _
  refine ⟨fun n hn k hk => live_absent vq (del_absent vp1.toWInv hn hk), fun t ht hdis => ?_, fun t ht hfree hd => ?_⟩
  · have h1 : t ∈ live p1 := by
      rcases ht with h | h
      · obtain ⟨i, hi⟩ := mem_live.mp h
        exact mem_live.mpr ⟨i, step_fixed_keeps vp hi (fun x => x) (fun x => x)⟩
      · exact h
    obtain ⟨i, hi⟩ := mem_live.mp h1
    refine mem_live.mpr ⟨i, step_fixed_keeps vp1 hi ?_ (fun x => x)⟩
    rintro ⟨d, hd, k, hkd, hkt⟩
    exact hdis d hd k hkd hkt
  · show t ∈ live (step true p (.adds old)).1
    rw [step_adds_fst]
    have hne : old.isEmpty = false := by cases old with | nil => simp at ht | cons _ _ => rfl
    simp only [hne, Bool.false_eq_true, if_false]
    exact addLoop_accepts 0 old ht hfree hd

/-! ### the code BEFORE /repo commit 85d2f65 (`fixed = false`): refutations (one defect, four symptoms)

  These four theorems are about the model of `delTx` as it was before the fix; they document why the fix
  was needed and are the witnesses the harness replays (episodes `witness`, `witness-lost`). -/

section witnesses
/-- a plain tx, another plain tx, a box over `a` (never pooled in W1–W3), a short-lived box over `a` -/
def a : Tx := ⟨1, 1000, []⟩
def c : Tx := ⟨2, 1000, []⟩
def boxA : Tx := ⟨3, 1000, [⟨1, 1000⟩]⟩
def boxA' : Tx := ⟨4, 5, [⟨1, 1000⟩]⟩

/-- (code before 85d2f65) `DelTxs([boxA])` while `a` is pooled standalone and `boxA` is not pooled: index
    entry of `a` removed, slot kept; `a` is accepted a second time and handed out twice. -/
def W1 : List Op := [.add (some a), .add (some c), .del [some boxA], .add (some a)]

/-- REFUTED for the code before /repo commit 85d2f65 (`fixed = false`): `W1` then `GetTxs(0,10)` = [a, c, a]. -/
theorem no_duplicates_handed_out_refuted :
    ¬ ∀ (ops : List Op) (time : Nat) (size : Int) (l : List Tx),
        handedOut false ops time size = .txs l → (l.map Tx.hash).Nodup := by
  intro h
  have := h W1 0 10 [a, c, a] (by decide)
  revert this; decide

/-- REFUTED for the code before /repo commit 85d2f65 (`fixed = false`): after `W1` and `DelTxs([a])` the first copy is still handed out although `a` itself was deleted and not
    added again. -/
theorem never_deleted_refuted :
    ¬ ∀ (pre mid : List Op) (ds : List (Option Tx)) (d : Tx) (time : Nat) (size : Int) (l : List Tx),
        some d ∈ ds → (∀ op ∈ mid, ¬ addsKey d.hash op) →
        handedOut false (pre ++ [.del ds] ++ mid) time size = .txs l → ∀ t ∈ l, t.hash ≠ d.hash := by
  intro h
  have := h W1 [] [some a] a 0 10 [a, c] (by simp) (by simp) (by decide) a (by simp)
  exact this rfl

/-- REFUTED for the code before /repo commit 85d2f65 (`fixed = false`): the orphaned slot of `a` does not stop the box over `a` from being accepted: both are handed out -/
theorem box_exclusive_refuted :
    ¬ ∀ (ops : List Op) (time : Nat) (size : Int) (l : List Tx),
        handedOut false ops time size = .txs l → l.Pairwise KeysDisjoint := by
  intro h
  have := h [.add (some a), .add (some c), .del [some boxA], .add (some boxA)] 0 10 [a, c, boxA] (by decide)
  simp only [List.pairwise_cons] at this
  exact this.1 boxA (by simp) 1 (by simp [a, Tx.keys]) (by simp [boxA, Tx.keys])

/-- REFUTED for the code before /repo commit 85d2f65 (`fixed = false`): an accepted, never deleted, never
    expired `a` disappears: the short-lived pooled box `boxA'` loses its
    index entry for `a` by `DelTxs([boxA])`, `a` is accepted standalone, the expiry of `boxA'` then removes
    `a`'s index entry, and the next `DelTxs` that empties the index makes `gc` drop `a`'s slot. -/
theorem none_lost_refuted :
    ¬ ∀ (pre mid : List Op) (t : Tx) (time : Nat) (size : Int) (l : List Tx),
        (step false (runState false newPool pre) (.add (some t))).2 = .ok →
        (∀ op ∈ mid, ¬ touches t op ∧ ¬ expires t op) → isTxTimeOut t time = false →
        ((runState false newPool (pre ++ [.add (some t)] ++ mid)).txs.length : Int) ≤ size →
        handedOut false (pre ++ [.add (some t)] ++ mid) time size = .txs l → t ∈ l := by
  intro h
  have := h [.add (some boxA'), .del [some boxA]] [.get 10 100, .add (some c), .del [some c]] a 0 100 []
    (by decide)
    (by
      intro op hop
      simp only [List.mem_cons, List.not_mem_nil, or_false] at hop
      rcases hop with rfl | rfl | rfl
      · exact ⟨fun x => x, by simp [expires]; decide⟩
      · exact ⟨fun x => x, fun x => x⟩
      · refine ⟨?_, fun x => x⟩
        rintro ⟨d, hd, k, hkd, hkt⟩
        simp only [List.mem_cons, List.not_mem_nil, or_false, Option.some.injEq] at hd
        subst hd
        simp only [a, c, Tx.keys, List.map_nil, List.mem_singleton] at hkd hkt
        exact absurd (hkd.symm.trans hkt) (by decide))
    (by decide) (by decide) (by decide)
  simp at this
end witnesses

/-! ### the code before commit 85d2f65 (`fixed = false`), under the guard -/

theorem box_exclusive_partial (ops : List Op) (g : Guarded newPool ops) (time : Nat) (size : Int) (l : List Tx)
    (h : handedOut false ops time size = .txs l) : l.Pairwise KeysDisjoint := by
  rw [guarded_eq g] at h; exact box_exclusive ops time size l h

theorem no_duplicates_handed_out_partial (ops : List Op) (g : Guarded newPool ops) (time : Nat) (size : Int)
    (l : List Tx) (h : handedOut false ops time size = .txs l) : (l.map Tx.hash).Nodup := by
  rw [guarded_eq g] at h; exact no_duplicates_handed_out ops time size l h

theorem never_deleted_partial (pre mid : List Op) (ds : List (Option Tx)) (d : Tx) (k : Hash)
    (time : Nat) (size : Int) (l : List Tx) (g : Guarded newPool (pre ++ [.del ds] ++ mid))
    (hd : some d ∈ ds) (hk : k ∈ d.keys) (hmid : ∀ op ∈ mid, ¬ addsKey k op)
    (h : handedOut false (pre ++ [.del ds] ++ mid) time size = .txs l) : ∀ t ∈ l, k ∉ t.keys := by
  rw [guarded_eq g] at h; exact never_deleted pre mid ds d k time size l hd hk hmid h

theorem guarded_prefix {p : Pool} {a b : List Op} (g : Guarded p (a ++ b)) : Guarded p a := by
  induction a generalizing p with
  | nil => trivial
  | cons op r ih => exact ⟨g.1, ih g.2⟩

theorem none_lost_partial (pre mid : List Op) (t : Tx) (time : Nat) (size : Int) (l : List Tx)
    (g : Guarded newPool (pre ++ [.add (some t)] ++ mid))
    (hacc : (step false (runState false newPool pre) (.add (some t))).2 = .ok)
    (hmid : ∀ op ∈ mid, ¬ touches t op ∧ ¬ expires t op)
    (hto : isTxTimeOut t time = false)
    (hsz : ((runState false newPool (pre ++ [.add (some t)] ++ mid)).txs.length : Int) ≤ size)
    (h : handedOut false (pre ++ [.add (some t)] ++ mid) time size = .txs l) : t ∈ l := by
  rw [guarded_eq g] at h
  rw [(run_eq_of_guarded inv_new g).1] at hsz
  have gpre : Guarded newPool pre := by
    rw [List.append_assoc] at g; exact guarded_prefix g
  rw [(run_eq_of_guarded inv_new gpre).1] at hacc
  exact none_lost pre mid t time size l hacc hmid hto hsz h

/-- the guard is implied by a condition on the index alone: whenever `DelTxs` reaches a transaction `d`,
    each of its sub-tx hashes is either not indexed or indexed at the same slot as `d` itself. -/
theorem guard_of_own_slot {p : Pool} {d : Tx}
    (h : ∀ s ∈ d.subs, lookup p.idx s.hash = none ∨ lookup p.idx s.hash = lookup p.idx d.hash) : TxGuard p d :=
  txGuard_of_own_slot h

/-! ### non-vacuity -/

example : Guarded newPool [.add (some boxA), .add (some c), .del [some boxA, some c], .get 0 5] :=
  ⟨trivial, trivial, ⟨txGuard_of_own_slot (by decide), fun _ _ => ⟨fun _ _ => trivial, fun _ _ => trivial⟩⟩,
    trivial, trivial⟩
example : ¬ Guarded newPool W1 := by
  intro g
  have h := g.2.2.1.1 _ rfl
  have := h.1 0 (by decide)
  revert this; decide
example : handedOut false [.add (some a), .add (some c), .del [some c]] 0 10 = .txs [a] := by decide
example : handedOut true W1 0 10 = .txs [c, a] := by decide
example : (step true (runState true newPool []) (.add (some a))).2 = .ok := by decide

/-! ### interleavings

  FACT (checked on every run by `hx c18`, op lines `lock <Method> true` / `escape <Method> false`, a
  go/ast scan of tx_pool.go): every exported method of `*TxPool` executes `pool.RW.Lock()` immediately
  followed by `defer pool.RW.Unlock()` before its first access of the pool, contains no other lock
  call, no `go` statement and no closure, and returns no field of the pool (`GetTxs` returns a fresh
  slice of immutable `*Transaction`s).  What precedes the lock touches only arguments and locals.

  ASSUMPTION (Go's `sync.RWMutex` gives mutual exclusion and happens-before between an `Unlock` and the
  next `Lock`; not modelled): consequently a method body is one atomic transition of the pool, and a
  concurrent execution of any number of goroutines is described by the list of calls in the order in
  which they acquired the lock.  `Exec` below is exactly this atomic-method semantics: threads with
  programs, at each step some thread whose program is not finished runs its next call to completion.

  THEOREM `linearizable`: the final state and every call's result in any such execution are those of
  the SEQUENTIAL run of the lock-order call list; since every theorem above is quantified over all
  call lists, it holds for every interleaving (`concurrent_*` below instantiate this).
-/

/-- atomic-method executions of `progs` (one program per thread) from state `p`: the trace lists
    `(thread, call, result)` in lock-acquisition order. Executions may stop anywhere (prefixes). -/
inductive Exec (fixed : Bool) : Pool → List (List Op) → List (Nat × Op × Out) → Pool → Prop where
  | stop (p : Pool) (progs : List (List Op)) : Exec fixed p progs [] p
  | call (p p' : Pool) (progs : List (List Op)) (i : Nat) (op : Op) (rest : List Op)
      (tr : List (Nat × Op × Out)) :
      progs[i]? = some (op :: rest) →
      Exec fixed (step fixed p op).1 (progs.set i rest) tr p' →
      Exec fixed p progs ((i, op, (step fixed p op).2) :: tr) p'

theorem linearizable (fixed : Bool) {p p' : Pool} {progs : List (List Op)} {tr : List (Nat × Op × Out)}
    (e : Exec fixed p progs tr p') :
    p' = runState fixed p (tr.map (·.2.1)) ∧ tr.map (·.2.2) = runOut fixed p (tr.map (·.2.1)) := by
  induction e with
  | stop p progs => exact ⟨rfl, rfl⟩
  | call p p' progs i op rest tr _ _ ih =>
    obtain ⟨h1, h2⟩ := ih
    exact ⟨by rw [h1]; rfl, by simp only [List.map_cons, runOut, h2]⟩

/-- every selection made at any point of any concurrent execution (current code) is duplicate-free,
    box/sub-tx exclusive and free of expired transactions -/
theorem concurrent_selection {p p' : Pool} (v : Inv p) {progs : List (List Op)} {tr : List (Nat × Op × Out)}
    (e : Exec true p progs tr p') :
    ∀ x ∈ tr, ∀ time size l, x.2.1 = .get time size → x.2.2 = .txs l →
      l.Pairwise KeysDisjoint ∧ (l.map Tx.hash).Nodup ∧ ∀ t ∈ l, isTxTimeOut t time = false := by
  induction e with
  | stop p progs => intro x hx; simp at hx
  | call p p' progs i op rest tr _ _ ih =>
    intro x hx time size l h1 h2
    simp only [List.mem_cons] at hx
    rcases hx with rfl | hx
    · simp only at h1 h2
      subst h1
      have hp := get_pairwise v h2
      refine ⟨hp, ?_, (get_sub_live true v.toWInv h2).2⟩
      rw [List.Nodup, List.pairwise_map]
      exact hp.imp (fun {a b} hab e => hab a.hash (by simp [Tx.keys]) (by rw [e]; simp [Tx.keys]))
    · exact ih (step_fixed_inv v op) x hx time size l h1 h2

end LemoProofs.C18

/-
  C18 — the transaction pool behaves like a set of pending transactions under any interleaving.

  Model: `LemoModel.Pool` = /repo/chain/txpool/tx_pool.go exactly as coded, tied to the real code by
  `hx c18` (whole internal state compared after every call).
    * `fixed = true`  = the code as it is now, i.e. after /repo commits 85d2f65 ("fix: delTx of a box must
                        clear the slots of its pooled sub-txs") and 6d2038c ("fix: GetTxs checks size
                        before allocating the result"); this is the model the driver runs.
    * `fixed = false` = the code BEFORE both commits (legacy; only for the `legacy` section below).

  All theorems quantify over ALL sequences of calls `ops : List Op` (AddTx / AddTxs / GetTxs / DelTxs /
  IsEmpty with arbitrary arguments: nil txs, duplicates, boxes overlapping with standalone txs and with
  each other, any expiry, any size) starting from `NewTxPool()`.  They are proved through an invariant
  (`PoolLemmas.Inv`) preserved by every call.

  CURRENT CODE
    * full: `no_panic`, `never_expired`, `box_exclusive`, `no_duplicates_handed_out`, `never_deleted`,
      `none_lost_pending` (+ `none_lost` for AddTx, `adds_pending` for AddTxs),
      `fork_switch_content` (a), (b), `concurrent_selection`.
    * OPEN DEFECT (stale index entries: deleting a sub-tx of a pooled box, or a box sharing a sub-tx with a
      different pooled box, clears the box's slot but leaves its other index entries; acknowledged in the
      code comment of `delTx`, pinned by tx_pool_test.go).  REFUTED on the current code:
      `isEmpty_iff_nothing_pending_refuted`, `add_accepted_iff_no_conflict_refuted`,
      `slots_reclaimed_refuted`; they hold `_partial`ly for every call sequence satisfying `CleanRun`
      (every `DelTxs` removes whole transactions only), and so does clause (c) of the fork switch
      (`fork_switch_adds_partial`).
  LEGACY (code before 85d2f65/6d2038c): four refutations + the `_partial` theorems under `Guarded`.

  Concurrency: `Exec`/`linearizable` at the end only DEFINE the atomic-method semantics; that real
  goroutines obey it rests on the lock scan of `hx c18` plus the `sync.RWMutex` assumption (see there).
-/
import LemoModel.Pool
import LemoProofs.Lemmas.Pool
namespace LemoProofs.C18
open LemoModel.Pool LemoProofs.PoolLemmas

/-- what `GetTxs(time, size)` returns after the calls `ops` on a fresh pool -/
def handedOut (fixed : Bool) (ops : List Op) (time : Nat) (size : Int) : Out :=
  (step fixed (runState fixed newPool ops) (.get time size)).2

theorem inv_run (ops : List Op) : Inv (runState true newPool ops) := runState_fixed_inv inv_new ops
theorem winv_run (fixed : Bool) (ops : List Op) : WInv (runState fixed newPool ops) := runState_winv fixed winv_new ops

/-- under the guard the legacy code and the current code are indistinguishable (for `size ≥ 0`: before
    commit 6d2038c a negative size panicked) -/
theorem guarded_eq {ops : List Op} (g : Guarded newPool ops) (time : Nat) {size : Int} (hs : 0 ≤ size) :
    handedOut false ops time size = handedOut true ops time size := by
  unfold handedOut
  rw [(run_eq_of_guarded inv_new g).1]
  rw [step_eq_of_guard (inv_run ops) (op := .get time size) (show OpGuard _ (.get time size) from hs)]

/-! ### no panic; never an expired transaction -/

/-- **no_panic** (current code): no call of any call sequence panics — `pool.txs[index] = nil` never
    indexes out of range, and since commit 6d2038c `GetTxs` validates `size` before allocating (negative
    → empty list; capacity bounded by the slot count, so a huge `size` reserves nothing). -/
theorem no_panic (ops : List Op) (op : Op) : (step true (runState true newPool ops) op).2 ≠ .panic := by
  have w := winv_run true ops
  generalize runState true newPool ops = p at w
  intro h
  cases op with
  | add t => simp only [step] at h; split at h <;> cases h
  | adds ts => simp only [step] at h; split at h <;> cases h
  | isEmpty => simp only [step] at h; cases h
  | del ds =>
    rw [step_del] at h
    cases he : ds.isEmpty with
    | true => rw [delTxs_empty true p he] at h; cases h
    | false => obtain ⟨p', _, e, _⟩ := delTxs_spec true w he; rw [e] at h; cases h
  | get time size =>
    rw [step_get] at h
    by_cases hs : 0 < size
    · obtain ⟨p', l, e, _⟩ := getTxs_spec true w time hs; rw [e] at h; cases h
    · unfold getTxs at h
      by_cases h0 : size < 0
      · simp [h0] at h
      · have : size = 0 := by omega
        simp [this] at h

/-- legacy code: the only panic is `GetTxs` with a negative `size` (`make([]*Transaction, 0, size)` ran
    first). Sizes above ~2^45 also panic in Go and are outside the legacy model. -/
theorem no_panic_legacy (ops : List Op) (op : Op) :
    (step false (runState false newPool ops) op).2 = .panic ↔ ∃ time size, op = .get time size ∧ size < 0 := by
  have w := winv_run false ops
  generalize runState false newPool ops = p at w
  cases op with
  | add t =>
    simp only [step]
    constructor
    · intro h; split at h <;> cases h
    · rintro ⟨_, _, h, _⟩; cases h
  | adds ts =>
    simp only [step]
    constructor
    · intro h; split at h <;> cases h
    · rintro ⟨_, _, h, _⟩; cases h
  | isEmpty =>
    simp only [step]
    constructor
    · intro h; cases h
    · rintro ⟨_, _, h, _⟩; cases h
  | del ds =>
    rw [step_del]
    constructor
    · intro h
      cases he : ds.isEmpty with
      | true => rw [delTxs_empty false p he] at h; cases h
      | false => obtain ⟨p', _, e, _⟩ := delTxs_spec false w he; rw [e] at h; cases h
    · rintro ⟨_, _, h, _⟩; cases h
  | get time size =>
    rw [step_get]
    constructor
    · intro h
      by_cases hs : 0 < size
      · obtain ⟨p', l, e, _⟩ := getTxs_spec false w time hs; rw [e] at h; cases h
      · by_cases h0 : size < 0
        · exact ⟨time, size, rfl, h0⟩
        · have : size = 0 := by omega
          unfold getTxs at h; simp [this] at h
    · rintro ⟨t', s', h, hneg⟩
      cases h
      unfold getTxs; simp [hneg]

/-- **never_expired** (current code and the code before 85d2f65, full): no selection contains a transaction that is expired at the
    selection's time (own expiration or, for a box, any sub-tx's). -/
theorem never_expired (fixed : Bool) (ops : List Op) (time : Nat) (size : Int) (l : List Tx)
    (h : handedOut fixed ops time size = .txs l) : ∀ t ∈ l, isTxTimeOut t time = false :=
  (get_sub_live fixed (winv_run fixed ops) h).2

/-! ### the current code (`delTx` repaired by commit 85d2f65): the set behaviour, for all call sequences -/

/-- **box_exclusive**: any two transactions of one selection have disjoint hash sets (own hash + sub-tx
    hashes): never a box together with one of its sub-txs, never two boxes sharing a sub-tx. -/
theorem box_exclusive (ops : List Op) (time : Nat) (size : Int) (l : List Tx)
    (h : handedOut true ops time size = .txs l) : l.Pairwise KeysDisjoint :=
  get_pairwise (inv_run ops) h

/-- **no_duplicates_handed_out**: a selection contains each transaction hash at most once. -/
theorem no_duplicates_handed_out (ops : List Op) (time : Nat) (size : Int) (l : List Tx)
    (h : handedOut true ops time size = .txs l) : (l.map Tx.hash).Nodup := by
  have := box_exclusive ops time size l h
  rw [List.Nodup, List.pairwise_map]
  exact this.imp (fun {a b} hab e => hab a.hash (by simp [Tx.keys]) (by rw [e]; simp [Tx.keys]))

/-- **never_deleted**: after `DelTxs(ds)`, a hash `k` of any listed transaction (its own hash or a sub-tx
    hash) is not handed out again — neither as a transaction of its own nor inside a box — until a call
    adds a transaction owning `k` again. -/
theorem never_deleted (pre mid : List Op) (ds : List (Option Tx)) (d : Tx) (k : Hash)
    (time : Nat) (size : Int) (l : List Tx)
    (hd : some d ∈ ds) (hk : k ∈ d.keys) (hmid : ∀ op ∈ mid, ¬ addsKey k op)
    (h : handedOut true (pre ++ [.del ds] ++ mid) time size = .txs l) : ∀ t ∈ l, k ∉ t.keys := by
  unfold handedOut at h
  have v := inv_run (pre ++ [.del ds] ++ mid)
  have habs : lookup (runState true newPool (pre ++ [.del ds] ++ mid)).idx k = none := by
    rw [runState_append, runState_append]
    apply runState_absent true _ _ hmid
    · exact runState_winv true (winv_run true pre) _
    · show lookup (runState true (runState true newPool pre) [.del ds]).idx k = none
      exact del_absent (winv_run true pre) hd hk
  intro t ht
  exact live_absent v habs t ((get_sub_live true v.toWInv h).1.subset ht)

/-- **none_lost_pending** (the general form): a transaction that is pending after the calls `pre` — however
    it got there: `AddTx`, `AddTxs`, a fork switch — is handed out by every later selection whose `size` is
    at least the number of PENDING transactions at that moment and at whose time it is not expired, provided
    that in between no `DelTxs` named a transaction sharing a hash with it (`touches`: the tx itself, a box
    containing it, or — for a box — one of its sub-txs: a box one of whose sub-txs was mined elsewhere cannot
    be mined any more and is dropped as a whole; its other sub-txs were never pending on their own) and no
    scanning `GetTxs` saw it expired. -/
theorem none_lost_pending (pre mid : List Op) (t : Tx) (time : Nat) (size : Int) (l : List Tx)
    (hpend : t ∈ live (runState true newPool pre))
    (hmid : ∀ op ∈ mid, ¬ touches t op ∧ ¬ expires t op)
    (hto : isTxTimeOut t time = false)
    (hsz : ((live (runState true newPool (pre ++ mid))).length : Int) ≤ size)
    (h : handedOut true (pre ++ mid) time size = .txs l) : t ∈ l := by
  unfold handedOut at h
  obtain ⟨i, hi⟩ := mem_live.mp hpend
  have hlive := runState_fixed_keeps (inv_run pre) hi hmid
  rw [runState_append] at h hsz
  have v : Inv (runState true (runState true newPool pre) mid) := runState_fixed_inv (inv_run pre) mid
  exact get_complete v hlive hto hsz h

/-- a transaction accepted by `AddTx` is pending -/
theorem add_ok_pending (pre : List Op) (t : Tx)
    (hacc : (step true (runState true newPool pre) (.add (some t))).2 = .ok) :
    t ∈ live (runState true newPool (pre ++ [.add (some t)])) := by
  have hok : (addTx (runState true newPool pre) (some t)).2 = .ok := by
    simp only [step] at hacc
    split at hacc
    · rename_i he; rw [he]
    · cases hacc
  have hl := addTx_ok_live hok
  rw [← step_add_fst true] at hl
  rw [runState_append]
  exact mem_live.mpr ⟨_, hl⟩

/-- **adds_pending**: `AddTxs(ts)` makes a listed transaction pending if no index entry exists for any of its
    hashes and no other listed transaction shares a hash with it (with `CleanRun`, "no index entry" is "no
    pending transaction shares a hash": `fork_switch_adds_partial`). -/
theorem adds_pending (pre : List Op) (ts : List (Option Tx)) (t : Tx) (ht : some t ∈ ts)
    (hfree : ∀ k ∈ t.keys, lookup (runState true newPool pre).idx k = none)
    (hdis : ∀ t', some t' ∈ ts → t' ≠ t → KeysDisjoint t t') :
    t ∈ live (runState true newPool (pre ++ [.adds ts])) := by
  rw [runState_append]
  show t ∈ live (step true (runState true newPool pre) (.adds ts)).1
  rw [step_adds_fst]
  have hne : ts.isEmpty = false := by cases ts with | nil => simp at ht | cons _ _ => rfl
  simp only [hne, Bool.false_eq_true, if_false]
  exact addLoop_accepts 0 ts ht hfree hdis

/-- **none_lost** (AddTx form): an accepted transaction is handed out by every later large-enough selection
    unless it was deleted or seen expired in between. -/
theorem none_lost (pre mid : List Op) (t : Tx) (time : Nat) (size : Int) (l : List Tx)
    (hacc : (step true (runState true newPool pre) (.add (some t))).2 = .ok)
    (hmid : ∀ op ∈ mid, ¬ touches t op ∧ ¬ expires t op)
    (hto : isTxTimeOut t time = false)
    (hsz : ((live (runState true newPool (pre ++ [.add (some t)] ++ mid))).length : Int) ≤ size)
    (h : handedOut true (pre ++ [.add (some t)] ++ mid) time size = .txs l) : t ∈ l := by
  have hp := add_ok_pending pre t hacc
  have := none_lost_pending (pre ++ [.add (some t)]) mid t time size l hp hmid hto
  exact this hsz h

/-- **fork_switch_content** (`onCurrentChanged` on a fork switch = `AddTxs(oldForkTxs); DelTxs(newForkTxs)`):
    (a) after the `DelTxs` no pending transaction shares a hash with a transaction of the new fork — this
    holds for the state after ANY `DelTxs(new)`, whatever other calls were interleaved before it;
    (b) every transaction that was pending before, or became pending by the `AddTxs`, and shares no hash with
    the new fork is still pending (no other call between the two).
    Which old-fork transactions the `AddTxs` makes pending: `adds_pending`, `fork_switch_adds_partial`. -/
theorem fork_switch_content (ops : List Op) (old new : List (Option Tx)) :
    let p := runState true newPool ops
    let p1 := (step true p (.adds old)).1
    let q := (step true p1 (.del new)).1
    (∀ n, some n ∈ new → ∀ k ∈ n.keys, ∀ t ∈ live q, k ∉ t.keys) ∧
    (∀ t, (t ∈ live p ∨ t ∈ live p1) → (∀ n, some n ∈ new → KeysDisjoint n t) → t ∈ live q) := by
  intro p p1 q
  have vp : Inv p := inv_run ops
  have vp1 : Inv p1 := step_fixed_inv vp _
  have vq : Inv q := step_fixed_inv vp1 _
  refine ⟨fun n hn k hk => live_absent vq (del_absent vp1.toWInv hn hk), fun t ht hdis => ?_⟩
  have h1 : t ∈ live p1 := by
    rcases ht with h | h
    · obtain ⟨i, hi⟩ := mem_live.mp h
      exact mem_live.mpr ⟨i, step_fixed_keeps vp hi (fun x => x) (fun x => x)⟩
    · exact h
  obtain ⟨i, hi⟩ := mem_live.mp h1
  refine mem_live.mpr ⟨i, step_fixed_keeps vp1 hi ?_ (fun x => x)⟩
  rintro ⟨d, hd, k, hkd, hkt⟩
  exact hdis d hd k hkd hkt

/-! ### current code: the open defect (stale index entries) — refutations and the guarded theorems -/

section stale
def s1 : Tx := ⟨1, 1000, []⟩
def s2 : Tx := ⟨2, 1000, []⟩
def boxS : Tx := ⟨3, 1000, [⟨1, 1000⟩, ⟨2, 1000⟩]⟩
/-- `AddTxs([box(s1,s2)]); DelTxs([s2])`: the box's slot is cleared, the entries of the box hash and of `s1`
    stay behind (review H1/H2; also reached by `DelTxs` of another box containing `s2`). -/
def WS : List Op := [.adds [some boxS], .del [some s2]]

/-- REFUTED on the current code: nothing is pending but `IsEmpty()` is false (the miner's
    `waitCanPackageTx` stops waiting; `gc` never fires). -/
theorem isEmpty_iff_nothing_pending_refuted :
    ¬ ∀ ops : List Op, isEmpty (runState true newPool ops) = true ↔ live (runState true newPool ops) = [] := by
  intro h
  have := (h WS).mpr (by decide)
  revert this; decide

/-- REFUTED on the current code: `AddTx(s1)` is refused although no pending transaction shares a hash with it. -/
theorem add_accepted_iff_no_conflict_refuted :
    ¬ ∀ (ops : List Op) (t : Tx), (step true (runState true newPool ops) (.add (some t))).2 = .ok ↔
        ∀ x ∈ live (runState true newPool ops), KeysDisjoint t x := by
  intro h
  have hnil : live (runState true newPool WS) = [] := by decide
  have := (h WS s1).mpr (by intro x hx; rw [hnil] at hx; cases hx)
  revert this; decide

/-- REFUTED on the current code: after a `DelTxs` that leaves nothing pending the slots are not reclaimed
    (so with a stale entry around, every add/delete pair grows `pool.txs` by one, without bound). -/
theorem slots_reclaimed_refuted :
    ¬ ∀ (ops : List Op) (ds : List (Option Tx)), ds ≠ [] →
        live (runState true newPool (ops ++ [.del ds])) = [] → (runState true newPool (ops ++ [.del ds])).txs = [] := by
  intro h
  have := h (WS ++ [.add (some s2)]) [some s2] (by simp) (by decide)
  revert this; decide
end stale

theorem noStale_run {ops : List Op} (c : CleanRun newPool ops) : NoStale (runState true newPool ops) :=
  runState_fixed_noStale inv_new noStale_new c

/-- **isEmpty_iff_nothing_pending_partial**: if every `DelTxs` removed whole transactions only, `IsEmpty()`
    says exactly whether something is pending. -/
theorem isEmpty_iff_nothing_pending_partial (ops : List Op) (c : CleanRun newPool ops) :
    isEmpty (runState true newPool ops) = true ↔ live (runState true newPool ops) = [] :=
  isEmpty_iff_live_nil (inv_run ops) (noStale_run c)

/-- **add_accepted_iff_no_conflict_partial**: … `AddTx` then accepts a transaction iff no pending transaction
    shares a hash with it (the set specification's acceptance rule). -/
theorem add_accepted_iff_no_conflict_partial (ops : List Op) (c : CleanRun newPool ops) (t : Tx) :
    (step true (runState true newPool ops) (.add (some t))).2 = .ok ↔
      ∀ x ∈ live (runState true newPool ops), KeysDisjoint t x := by
  have v := inv_run ops
  have hn := noStale_run c
  generalize runState true newPool ops = p at v hn
  have hiff : (step true p (.add (some t))).2 = .ok ↔ ∀ k ∈ t.keys, lookup p.idx k = none := by
    constructor
    · intro hacc
      have hok : (addTx p (some t)).2 = .ok := by
        simp only [step] at hacc
        split at hacc
        · rename_i he; rw [he]
        · cases hacc
      rcases addTx_cases p (some t) with ⟨_, e⟩ | ⟨tx, ht, hfree, _, _, _⟩
      · exact absurd hok e
      · cases ht; exact hfree
    · intro hfree
      have he : isTxExist p t = false := by
        unfold isTxExist
        rw [List.any_eq_false]
        intro k hk; simp [hfree k hk]
      simp [step, addTx, he]
  rw [hiff]
  constructor
  · intro hfree x hx k hk
    exact (indexed_iff_pending v hn k).mp (hfree k hk) x hx
  · intro hd k hk
    exact (indexed_iff_pending v hn k).mpr (fun x hx => hd x hx k hk)

/-- **slots_reclaimed_partial**: … a `DelTxs` that leaves nothing pending resets the slots (`gc`). -/
theorem slots_reclaimed_partial (ops : List Op) (ds : List (Option Tx)) (hne : ds ≠ [])
    (c : CleanRun newPool (ops ++ [.del ds]))
    (hl : live (runState true newPool (ops ++ [.del ds])) = []) :
    (runState true newPool (ops ++ [.del ds])).txs = [] := by
  have he := (isEmpty_iff_nothing_pending_partial _ c).mpr hl
  have hlk : ∀ k, lookup (runState true newPool (ops ++ [.del ds])).idx k = none := fun k => lookup_of_isEmpty he k
  rw [runState_append] at hlk ⊢
  show (step true (runState true newPool ops) (.del ds)).1.txs = []
  have hlk' : ∀ k, lookup (step true (runState true newPool ops) (.del ds)).1.idx k = none := hlk
  rw [step_del] at hlk' ⊢
  have hds : ds.isEmpty = false := by cases ds with | nil => exact absurd rfl hne | cons _ _ => rfl
  obtain ⟨p', e1, e, _⟩ := delTxs_spec true (winv_run true ops) hds
  rw [e] at hlk' ⊢
  simp only at hlk' ⊢
  unfold gc at hlk' ⊢
  split
  · rfl
  · rename_i hidx
    simp only [hidx, Bool.false_eq_true, if_false] at hlk'
    exfalso
    cases hi : p'.idx with
    | nil => simp [hi] at hidx
    | cons kv r =>
      obtain ⟨k, i⟩ := kv
      have := hlk' k
      rw [hi] at this; simp [lookup] at this

/-- **fork_switch_adds_partial** (clause (c) of the fork switch, under the guard): if every earlier `DelTxs`
    removed whole transactions only, an old-fork transaction becomes pending by `AddTxs(old)` whenever no
    pending transaction and no other old-fork transaction shares a hash with it. -/
theorem fork_switch_adds_partial (ops : List Op) (c : CleanRun newPool ops) (old : List (Option Tx)) (t : Tx)
    (ht : some t ∈ old) (hfree : ∀ x ∈ live (runState true newPool ops), KeysDisjoint t x)
    (hdis : ∀ t', some t' ∈ old → t' ≠ t → KeysDisjoint t t') :
    t ∈ live (runState true newPool (ops ++ [.adds old])) :=
  adds_pending ops old t ht
    (fun k hk => (indexed_iff_pending (inv_run ops) (noStale_run c) k).mpr (fun x hx => hfree x hx k hk)) hdis

/-! ### LEGACY — the code BEFORE /repo commits 85d2f65 and 6d2038c (`fixed = false`): refutations (one defect, four symptoms)

  These four theorems are about the model of `delTx` as it was before the fix; they document why the fix
  was needed and are the witnesses the harness replays (episodes `witness`, `witness-lost`). -/

section witnesses
/-- a plain tx, another plain tx, a box over `a` (never pooled in W1–W3), a short-lived box over `a` -/
def a : Tx := ⟨1, 1000, []⟩
def c : Tx := ⟨2, 1000, []⟩
def boxA : Tx := ⟨3, 1000, [⟨1, 1000⟩]⟩
def boxA' : Tx := ⟨4, 5, [⟨1, 1000⟩]⟩

/-- (code before 85d2f65) `DelTxs([boxA])` while `a` is pooled standalone and `boxA` is not pooled: index
    entry of `a` removed, slot kept; `a` is accepted a second time and handed out twice. -/
def W1 : List Op := [.add (some a), .add (some c), .del [some boxA], .add (some a)]

/-- REFUTED for the code before /repo commit 85d2f65 (`fixed = false`): `W1` then `GetTxs(0,10)` = [a, c, a]. -/
theorem no_duplicates_handed_out_refuted :
    ¬ ∀ (ops : List Op) (time : Nat) (size : Int) (l : List Tx),
        handedOut false ops time size = .txs l → (l.map Tx.hash).Nodup := by
  intro h
  have := h W1 0 10 [a, c, a] (by decide)
  revert this; decide

/-- REFUTED for the code before /repo commit 85d2f65 (`fixed = false`): after `W1` and `DelTxs([a])` the first copy is still handed out although `a` itself was deleted and not
    added again. -/
theorem never_deleted_refuted :
    ¬ ∀ (pre mid : List Op) (ds : List (Option Tx)) (d : Tx) (time : Nat) (size : Int) (l : List Tx),
        some d ∈ ds → (∀ op ∈ mid, ¬ addsKey d.hash op) →
        handedOut false (pre ++ [.del ds] ++ mid) time size = .txs l → ∀ t ∈ l, t.hash ≠ d.hash := by
  intro h
  have := h W1 [] [some a] a 0 10 [a, c] (by simp) (by simp) (by decide) a (by simp)
  exact this rfl

/-- REFUTED for the code before /repo commit 85d2f65 (`fixed = false`): the orphaned slot of `a` does not stop the box over `a` from being accepted: both are handed out -/
theorem box_exclusive_refuted :
    ¬ ∀ (ops : List Op) (time : Nat) (size : Int) (l : List Tx),
        handedOut false ops time size = .txs l → l.Pairwise KeysDisjoint := by
  intro h
  have := h [.add (some a), .add (some c), .del [some boxA], .add (some boxA)] 0 10 [a, c, boxA] (by decide)
  simp only [List.pairwise_cons] at this
  exact this.1 boxA (by simp) 1 (by simp [a, Tx.keys]) (by simp [boxA, Tx.keys])

/-- REFUTED for the code before /repo commit 85d2f65 (`fixed = false`): an accepted, never deleted, never
    expired `a` disappears: the short-lived pooled box `boxA'` loses its
    index entry for `a` by `DelTxs([boxA])`, `a` is accepted standalone, the expiry of `boxA'` then removes
    `a`'s index entry, and the next `DelTxs` that empties the index makes `gc` drop `a`'s slot. -/
theorem none_lost_refuted :
    ¬ ∀ (pre mid : List Op) (t : Tx) (time : Nat) (size : Int) (l : List Tx),
        (step false (runState false newPool pre) (.add (some t))).2 = .ok →
        (∀ op ∈ mid, ¬ touches t op ∧ ¬ expires t op) → isTxTimeOut t time = false →
        ((live (runState false newPool (pre ++ [.add (some t)] ++ mid))).length : Int) ≤ size →
        handedOut false (pre ++ [.add (some t)] ++ mid) time size = .txs l → t ∈ l := by
  intro h
  have := h [.add (some boxA'), .del [some boxA]] [.get 10 100, .add (some c), .del [some c]] a 0 100 []
    (by decide)
    (by
      intro op hop
      simp only [List.mem_cons, List.not_mem_nil, or_false] at hop
      rcases hop with rfl | rfl | rfl
      · exact ⟨fun x => x, by simp [expires]; decide⟩
      · exact ⟨fun x => x, fun x => x⟩
      · refine ⟨?_, fun x => x⟩
        rintro ⟨d, hd, k, hkd, hkt⟩
        simp only [List.mem_cons, List.not_mem_nil, or_false, Option.some.injEq] at hd
        subst hd
        simp only [a, c, Tx.keys, List.map_nil, List.mem_singleton] at hkd hkt
        exact absurd (hkd.symm.trans hkt) (by decide))
    (by decide) (by decide) (by decide)
  simp at this
end witnesses

/-! ### LEGACY — the code before commits 85d2f65/6d2038c (`fixed = false`), under the guard -/

theorem box_exclusive_partial (ops : List Op) (g : Guarded newPool ops) (time : Nat) (size : Int) (hs : 0 ≤ size)
    (l : List Tx) (h : handedOut false ops time size = .txs l) : l.Pairwise KeysDisjoint := by
  rw [guarded_eq g time hs] at h; exact box_exclusive ops time size l h

theorem no_duplicates_handed_out_partial (ops : List Op) (g : Guarded newPool ops) (time : Nat) (size : Int)
    (hs : 0 ≤ size) (l : List Tx) (h : handedOut false ops time size = .txs l) : (l.map Tx.hash).Nodup := by
  rw [guarded_eq g time hs] at h; exact no_duplicates_handed_out ops time size l h

theorem never_deleted_partial (pre mid : List Op) (ds : List (Option Tx)) (d : Tx) (k : Hash)
    (time : Nat) (size : Int) (hs : 0 ≤ size) (l : List Tx) (g : Guarded newPool (pre ++ [.del ds] ++ mid))
    (hd : some d ∈ ds) (hk : k ∈ d.keys) (hmid : ∀ op ∈ mid, ¬ addsKey k op)
    (h : handedOut false (pre ++ [.del ds] ++ mid) time size = .txs l) : ∀ t ∈ l, k ∉ t.keys := by
  rw [guarded_eq g time hs] at h; exact never_deleted pre mid ds d k time size l hd hk hmid h

theorem guarded_prefix {p : Pool} {a b : List Op} (g : Guarded p (a ++ b)) : Guarded p a := by
  induction a generalizing p with
  | nil => trivial
  | cons op r ih => exact ⟨g.1, ih g.2⟩

theorem none_lost_partial (pre mid : List Op) (t : Tx) (time : Nat) (size : Int) (l : List Tx)
    (g : Guarded newPool (pre ++ [.add (some t)] ++ mid))
    (hacc : (step false (runState false newPool pre) (.add (some t))).2 = .ok)
    (hmid : ∀ op ∈ mid, ¬ touches t op ∧ ¬ expires t op)
    (hto : isTxTimeOut t time = false)
    (hsz : ((live (runState false newPool (pre ++ [.add (some t)] ++ mid))).length : Int) ≤ size)
    (h : handedOut false (pre ++ [.add (some t)] ++ mid) time size = .txs l) : t ∈ l := by
  have hs : 0 ≤ size := by omega
  rw [guarded_eq g time hs] at h
  rw [(run_eq_of_guarded inv_new g).1] at hsz
  have gpre : Guarded newPool pre := by
    rw [List.append_assoc] at g; exact guarded_prefix g
  rw [(run_eq_of_guarded inv_new gpre).1] at hacc
  exact none_lost pre mid t time size l hacc hmid hto hsz h

/-- the guard is implied by a condition on the index alone: whenever `DelTxs` reaches a transaction `d`,
    each of its sub-tx hashes is either not indexed or indexed at the same slot as `d` itself. -/
theorem guard_of_own_slot {p : Pool} {d : Tx}
    (h : ∀ s ∈ d.subs, lookup p.idx s.hash = none ∨ lookup p.idx s.hash = lookup p.idx d.hash) : TxGuard p d :=
  txGuard_of_own_slot h

/-! ### non-vacuity -/

example : Guarded newPool [.add (some boxA), .add (some c), .del [some boxA, some c], .get 0 5] :=
  ⟨trivial, trivial, ⟨txGuard_of_own_slot (by decide), fun _ _ => ⟨fun _ _ => trivial, fun _ _ => trivial⟩⟩,
    (by decide : (0 : Int) ≤ 5), trivial⟩
example : ¬ Guarded newPool W1 := by
  intro g
  have h := g.2.2.1.1 _ rfl
  have := h.1 0 (by decide)
  revert this; decide
example : handedOut false [.add (some a), .add (some c), .del [some c]] 0 10 = .txs [a] := by decide
example : handedOut true W1 0 10 = .txs [c, a] := by decide
example : (step true (runState true newPool []) (.add (some a))).2 = .ok := by decide

/-- `none_lost` with a non-empty `mid` (an add, a scanning GetTxs, a delete of another tx): all hypotheses
    hold and the conclusion is the expected selection -/
example :
    (step true (runState true newPool []) (.add (some a))).2 = .ok ∧
    (∀ op ∈ ([.add (some c), .get 7 1, .del [some c]] : List Op), ¬ touches a op ∧ ¬ expires a op) ∧
    isTxTimeOut a 0 = false ∧
    ((live (runState true newPool ([] ++ [.add (some a)] ++ [.add (some c), .get 7 1, .del [some c]]))).length : Int) ≤ 1 ∧
    handedOut true ([] ++ [.add (some a)] ++ [.add (some c), .get 7 1, .del [some c]]) 0 1 = .txs [a] := by
  refine ⟨by decide, ?_, by decide, by decide, by decide⟩
  intro op hop
  simp only [List.mem_cons, List.not_mem_nil, or_false] at hop
  rcases hop with rfl | rfl | rfl
  · exact ⟨fun x => x, fun x => x⟩
  · refine ⟨fun x => x, ?_⟩
    rintro ⟨_, h⟩; revert h; decide
  · refine ⟨?_, fun x => x⟩
    rintro ⟨d, hd, k, hkd, hkt⟩
    simp only [List.mem_cons, List.not_mem_nil, or_false, Option.some.injEq] at hd
    subst hd
    simp only [a, c, Tx.keys, List.map_nil, List.mem_singleton] at hkd hkt
    exact absurd (hkd.symm.trans hkt) (by decide)

/-- `CleanRun` is satisfiable with deletions (a pooled box deleted as a whole), and `WS` violates it -/
example : CleanRun newPool [.add (some boxS), .del [some boxS], .isEmpty] :=
  ⟨trivial, ⟨cleanDel_of_live (step_fixed_inv inv_new _) (j := 0) (by decide), fun _ _ => trivial⟩, trivial, trivial⟩
example : ¬ CleanRun newPool WS := by
  intro h
  have := h.2.1.1 2 (by decide) 0 boxS (by decide) (by decide) 3 (by decide)
  revert this; decide

/-- `fork_switch_adds_partial` on a NON-empty pool: `c` is pending, the old fork carries `a` and `c` -/
example : a ∈ live (runState true newPool ([.add (some c)] ++ [.adds [some a, some c]])) :=
  fork_switch_adds_partial [.add (some c)] ⟨trivial, trivial⟩ [some a, some c] a (by simp)
    (by decide : ∀ x ∈ live (runState true newPool [.add (some c)]), ∀ k ∈ a.keys, k ∉ x.keys)
    (by
      intro t' ht' hne
      simp only [List.mem_cons, List.not_mem_nil, or_false, Option.some.injEq] at ht'
      rcases ht' with rfl | rfl
      · exact absurd rfl hne
      · exact (by decide : ∀ k ∈ a.keys, k ∉ c.keys))

/-! ### interleavings

  What is PROVED here is little: `Exec` DEFINES a semantics in which every call is one atomic transition
  (threads with programs; at each step some thread runs its next call to completion), and `linearizable`
  merely unfolds that definition: the state and results of such an execution are those of the sequential
  run of the calls in execution order.  It is kept as the bridge lemma, not as evidence.  The step from real
  goroutines to `Exec` is NOT a theorem; it rests on:

  FACT (checked on every run by `hx c18`, op lines `lock <Method> true` / `escape <Method> false` /
  `helpers true` / `foreignlock false`, a go/ast scan of package chain/txpool and of the users of `TxPool.RW`):
  every exported method of `*TxPool` takes the EXCLUSIVE lock (`pool.RW.Lock()`, an `RLock` is rejected
  because `GetTxs` writes) immediately followed by `defer pool.RW.Unlock()` before its first access of the
  pool, contains no other lock call, no `go` statement and no closure; the unexported helpers
  (`addTx`, `delTx`, `isTxExist`, `gc`) contain no lock call, `go` statement or closure; no method returns
  or aliases a field of the pool (static scan + dynamic check: the harness overwrites the slice returned by
  `GetTxs` and the pool state is unchanged); no file outside the package touches `TxPool.RW`.

  ASSUMPTION (not modelled): Go's `sync.RWMutex` gives mutual exclusion and happens-before between an
  `Unlock` and the next `Lock`.  Supporting evidence only: the goroutine stress of `hx c18` (per-goroutine
  sequential views + serialised rounds compared with the model line by line) and, in the thorough tier, the
  same stress built with `-race`.

  NOT covered by `Exec`-level atomicity (each is several separately locked calls; other goroutines — network
  `AddTx`, RPC `GetTxs`, which do not take the engine's `chainLock` — may run in between):
    * `onCurrentChanged` = `AddTxs(old)` then `DelTxs(new)`: clause (a) of `fork_switch_content` survives
      any interleaving (it is a statement about the state after the `DelTxs`), clause (b) assumes no call in
      between that deletes or expires the tx;
    * `TxGuard.ExistTx` then `TxPool.AddTx` (api.go, protocol_manager.go) is not atomic against a block's
      `DelTxs`: a tx mined in between is accepted again after its deletion (`never_deleted` excludes this by
      its hypothesis "no call re-adds the hash").  The POOL does not notice: the tx stays pending although it is on the
      node's own branch (`LemoProofs.C04Pool.pool_clean_refuted`).  `GetTxs` never asks the guard; before /repo fix
      609d2a8 neither did `MineBlock`, which then packed the tx a second time (block rejected by every other node:
      `C04Pool.miner_includes_guarded_tx_before_609d2a8`); since that fix `MineBlock` puts every candidate to
      `TxGuard.ExistTx(parent, tx)` and deletes the replayed ones (`C04Pool.mined_block_passes_verify`).
-/

/-- atomic-method executions of `progs` (one program per thread) from state `p`: the trace lists
    `(thread, call, result)` in lock-acquisition order. Executions may stop anywhere (prefixes). -/
inductive Exec (fixed : Bool) : Pool → List (List Op) → List (Nat × Op × Out) → Pool → Prop where
  | stop (p : Pool) (progs : List (List Op)) : Exec fixed p progs [] p
  | call (p p' : Pool) (progs : List (List Op)) (i : Nat) (op : Op) (rest : List Op)
      (tr : List (Nat × Op × Out)) :
      progs[i]? = some (op :: rest) →
      Exec fixed (step fixed p op).1 (progs.set i rest) tr p' →
      Exec fixed p progs ((i, op, (step fixed p op).2) :: tr) p'

/-- bridge lemma (definitional, see the section comment): an atomic-method execution IS the sequential run of
    its calls in execution order -/
theorem linearizable (fixed : Bool) {p p' : Pool} {progs : List (List Op)} {tr : List (Nat × Op × Out)}
    (e : Exec fixed p progs tr p') :
    p' = runState fixed p (tr.map (·.2.1)) ∧ tr.map (·.2.2) = runOut fixed p (tr.map (·.2.1)) := by
  induction e with
  | stop p progs => exact ⟨rfl, rfl⟩
  | call p p' progs i op rest tr _ _ ih =>
    obtain ⟨h1, h2⟩ := ih
    exact ⟨by rw [h1]; rfl, by simp only [List.map_cons, runOut, h2]⟩

/-- every selection made at any point of any concurrent execution (current code) is duplicate-free,
    box/sub-tx exclusive and free of expired transactions -/
theorem concurrent_selection {p p' : Pool} (v : Inv p) {progs : List (List Op)} {tr : List (Nat × Op × Out)}
    (e : Exec true p progs tr p') :
    ∀ x ∈ tr, ∀ time size l, x.2.1 = .get time size → x.2.2 = .txs l →
      l.Pairwise KeysDisjoint ∧ (l.map Tx.hash).Nodup ∧ ∀ t ∈ l, isTxTimeOut t time = false := by
  induction e with
  | stop p progs => intro x hx; simp at hx
  | call p p' progs i op rest tr _ _ ih =>
    intro x hx time size l h1 h2
    simp only [List.mem_cons] at hx
    rcases hx with rfl | hx
    · simp only at h1 h2
      subst h1
      have hp := get_pairwise v h2
      refine ⟨hp, ?_, (get_sub_live true v.toWInv h2).2⟩
      rw [List.Nodup, List.pairwise_map]
      exact hp.imp (fun {a b} hab e => hab a.hash (by simp [Tx.keys]) (by rw [e]; simp [Tx.keys]))
    · exact ih (step_fixed_inv v op) x hx time size l h1 h2

end LemoProofs.C18
